from . import COMMON_TB, NOTE

PROP = {
    "level": "exploration",   # no Lean proof modules yet: the render model is connected by the main contributor
    "modules": [],
    "streams": [{"name": "robust"}],
    "rule": "robust: (1) exhaustive boundary matrix: every filter registered in filters/*.go (read from the source at run "
            "time) x receiver in U x argument tuples in U^arity plus one over-arity call, every comparison/boolean "
            "operator x U x U, 31 access/loop/tag forms x U (x U), U = 19 (quick) / 54 (thorough) boundary values; a "
            "family of pure templates over ranges with extreme endpoints and lengths around the array-conversion bound; "
            "(2) every sequence of <= 3 (thorough: 4) tokens of the expression lexer in 6 expression contexts; "
            "(3) grammar-generated templates x generated environments (all tags, filters, operators; measured "
            "parse/render success rates in input_distribution gen:*); (4) random bytes / UTF-8 / delimiter-dense sources; "
            "(5) the repository's own test templates and 4 (thorough: 40) mutants of each; (0) corpus/robust/*.case (the "
            "inputs of every defect known so far) first. Every case runs in a killable worker process under recover, "
            "GOMEMLIMIT and a heap watchdog; the time clause compares the CPU time of the case with 50x a budget "
            "proportional to source size and spelled-out loop/range sizes, measured 3 times and scaled by a calibration "
            "render timed alongside (so machine load does not raise alarms); a worker that dies is restarted and the "
            "case retried (3 deaths = process-death). A case is non-trivial when it renders non-empty output; distinct "
            "by case line.",
    "trusted_base": COMMON_TB,
    "assumptions": ["oracle only (no model yet): the Lean driver answers `unmodelled` for `robust` lines",
                    "the time clause is checked as a 50-fold overshoot of a generous budget in each of three measurements, relative to a calibration render"],
}

TEXT = {
    "text": "Exploration of the real code: every case's result must be output or a usable non-nil SourceError; a panic, a "
            "process death, a repeated deadline miss or a malformed error is reported with the input. Exhaustive over the "
            "boundary matrix (registered filters x boundary receivers x boundary arguments; operators; access and loop "
            "forms) and over short token sequences of the expression language; generated/mutated/random templates beyond.",
    "design_ref": "DESIGN.md 6 C01",
    "note": NOTE + "No theorem is claimed for C01 yet (level exploration); the no-panic theorems follow the render model.",
    "technique": "exhaustive boundary-matrix enumeration + grammar-directed generation + mutation, oracle on the implementation",
}
