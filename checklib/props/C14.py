from . import COMMON_TB, NOTE

PROP = {
    "modules": [],
    "streams": [{"name": "incl"}],
    "rule": "incl: (a) generated acyclic include graphs of depth <= 4 (1..5 files in nested directories, each independently on disk / registered "
            "through ParseTemplateAndCache only / both with different content / missing, some deliberately failing at parse or "
            "render time), file contents from the template generator (half of them from a filter-free generator that the model "
            "covers completely), a main template at various paths (root, sub-directories, ../ references, a directory that does "
            "not exist) parsed with ParseTemplateLocation or ParseTemplateAndCache, include arguments as literals, environment "
            "variables, variables assigned earlier, filtered expressions (`base | append: \".html\"`), ./ prefixes, missing names "
            "and non-strings (number, nil, array, bool), includes at top level, inside for / if / capture and after assigns. "
            "Every case is materialised in a scratch directory under the run's work directory and removed afterwards. Oracles on "
            "the real engine: (1) the same source with the include tag replaced (RegisterTag) by a reference implementation over "
            "the layout table gives the same output / both fail; (2) for top-level includes whose earlier variables are known by "
            "construction, the template with each include replaced by `{{ __inc_k }}` bound to the output of rendering the file's "
            "content directly with those variables gives the same output; (3) a missing file, a non-string argument or an error "
            "inside the included template fails the render with a usable SourceError (kind and line checked for the first two, "
            "and only when the failing include is the first top-level include of the main template). Disk-before-cache is not "
            "an oracle of its own: it is built into the layout lookup that (1) and (2) use. A case whose layout has a cache-only "
            "file is emitted as an `incl` line, every other case as a `render` line (FS = the disk files); both are answered by "
            "the model. (b) a fixed family of 53 deep and cyclic layouts (stream_incl_depth.go, case lines `incld <want> <render|incl line>`, "
            "answered by the model like the others): a file that includes itself (after text, as its first node, with hyphens, in a "
            "sub-directory, through ../, by a variable, by a filtered expression, twice, inside for and capture, at start line 0), 2-cycles and "
            "3-cycles, a cycle behind a chain, cycles entered only on one branch of if / unless / case (taken: error; not taken: the output), "
            "cycles whose files write text, assign and capture, a self-include that a counter ends after 1, 5, 99, 100 levels (renders) and "
            "after 101, 102, 1000 (error), cycles through the template cache (cache-only file, disk + cache, a disk file that breaks the cached "
            "cycle, a main template cached under its own name), and chains of 1, 2, 50, 99, 100 distinct nested files (render) and 101, 102, 150 "
            "(error): on the real code a chain of N files below the template renders iff N <= 100, the include tag of the 100th nested file is the "
            "first to be refused; at the limit a missing file reports the depth error (the test precedes the read), a non-string or failing "
            "argument its own error (the argument is evaluated first). Oracle of (b): no panic, the render returns within 5 s, want=deep: "
            "a usable SourceError whose message contains `include nesting too deep`, want=ok: exactly the expected output, want=err:kind: "
            "that kind and not the depth error; the reference include (bounded by the same documented limit of 100) agrees on "
            "success/failure and output. The first case of (b) is first run in a killable worker process: if that process dies (the "
            "unrepaired code) the clause include-cycle-process-death is reported and (b) is skipped. (c) implementation only, no case "
            "line and no model answer (shard 0): ONE engine renders in sequence, in three orders, main templates parsed with paths in "
            "different directories that include the same shared file, whose own relative include resolves against the directory of the "
            "main template's path, on disk and through ParseTemplateAndCache; every render must equal the render on a fresh engine and "
            "the expected result (reported under include-vs-reference).",
    "trusted_base": COMMON_TB + ["POSIX path/filepath (Clean/Join/Dir) and the operating system's file lookup",
                                 "the reference include uses the engine's own expression evaluation and ctx.Bindings()"],
    "assumptions": ["relative names resolve against the directory of the path the MAIN template was parsed with, also inside "
                    "included files (RenderFile compiles an included file with the include tag's location)",
                    "includes nest at most 100 deep (maxIncludeDepth of render/context.go): an include tag in a render that is already "
                    "nested in 100 include tags fails with an error, so cyclic include graphs end in an error "
                    "(run_terminates_all_layouts of Proofs.C01Depth, audited under C01: every layout ends in output, an error or an "
                    "explicit unmodelled marker, never a panic; include_cycle_fails of Proofs.C14Depth: a file that includes itself "
                    "unconditionally is an error at every fuel); the equality with a direct render of the file's content is "
                    "stated below the limit, through the fuel: including at fuel n+1 is rendering the file at fuel n"],
}

TEXT = {
    "text": ("Theorems: the file name is the string value of the argument joined to the directory of the including template's "
              "path, and the handler receives the includer's current variables (include_resolves); a non-string argument makes "
              'the include node fail with an error located at the tag (include_nonstring_err); the handler renderFileWith fails '
              'with the plain error notExist when the file is neither on disk nor cached (include_missing_err) and with the '
              'located compile error when the source on disk does not compile (include_inner_compile_err). Errors through include: a handler '
              'failure that is not a parser.Error becomes an error located at the include tag of the INCLUDING template (tag line, template '
              'path) with the handler\'s error as cause, for every handler (include_plain_err_located) - a file neither on disk nor cached '
              '(include_missing_located) and a read error (include_read_err_located), at every fuel n+1, i.e. at every include depth '
              'below the limit (at fuel 0 the depth error comes first, include_depth_error below); a located error of the handler '
              'leaves the include node as WrapError(e, tag), which is e itself whenever e has a line or a path '
              '(include_located_err_passes: e.line != 0, or e carries the path flag and the template has a path); a file that is found '
              '(disk, else cache) and does not compile fails the render with WrapError(e, tag) of its compile error e - e itself under '
              'the same condition -, lines counted from the tag\'s line (include_compile_err_located, fuel n+1); a render-time error inside the file (Proofs.C14Errors, '
              'include_render_err_located): the file is found and compiles at the tag\'s line to root, rendering root with the includer\'s '
              'variables (at fuel n; the include node at fuel n+1) fails with e - then e is a located error, located at firstFailure of root (C07: the first failing construct OF THE '
              'FILE), and the include node fails with WrapError(e, tag) = e when e has a line or a path: the error is not re-located at the '
              'include tag; from the bytes of a file without include tags (include_render_err_at_file_token): e points at a tag or object '
              'token of the file, e.line = tag line + newlines of the file before that token, and e names the path of the INCLUDING '
              'template, not the file\'s name (RenderFile compiles with the tag\'s SourceLoc); a break/continue that no loop of the file '
              'consumed (the render of the file ends with a sentinel status st) is handed to the including template as st re-wrapped at '
              'the include tag (Status.wrap = WrapError(., tag), which keeps the location the sentinel carries when it has a line or a '
              'path; that location is the end site of the file\'s render trace, traceRoot(...).fin = st.site - in the evaluated example '
              'the break tag of the file), the writer state is untouched and nothing is inserted '
              '(include_sentinel_passes); for a file that is read, the cache is irrelevant, and '
              'a cached source of a file that does not exist acts as that file\'s content (disk_over_cache, cache_fallback); for a '
              "file on disk that compiles and renders normally the handler returns exactly the render of the file's content with the "
              'current variables (include_equiv); fuel n+1 runs the handler with the fuel-n handler inside (incFuel_succ, the '
              'defining equation; the fuel is the number of include levels left, maxIncludeDepth - depth of the Go code, 100 for the template '
              'itself: runStd). At the limit (Proofs.C14Depth): with no level left every include tag whose argument evaluates to a string '
              'fails with the depth error located at that tag, whatever the file system holds - the file is not looked at, the '
              'argument is evaluated first (include_depth_error); a file that includes itself unconditionally (its source compiles '
              'to literal text, possibly none, followed by an include tag with the same literal name; anything after it) makes the '
              'one-tag template {% include "a" %} (either quote, a name without that quote byte, good delimiters, the tag Clean for them) '
              'an ERROR at every fuel, start line and environment, for every value and output layer - never output, never `unmodelled`, '
              'never a panic - with no '
              'acyclicity hypothesis (include_cycle_fails; the error itself is not named by this theorem); for the file T{% include "a" %} '
              '(T and the tag Clean) in closed form: at fuel n the render is the depth '
              'error at line (tag line + n x newlines of T), i.e. raised by the n-th nested copy of the file (self_include_depth_error; '
              'its instance n = 100 for the standard engine runStd is self_include_fails_at_100 of Proofs.C01Depth, audited under C01, not '
              'under C14). Cycles through several files and cycles entered on a branch are covered by the incl stream (family b) and by '
              'run_terminates_all_layouts (C01), not by a C14 theorem that names the error. Closed form (include_denotation, include_denotation_run, include_denotation_mk): when the argument '
              'evaluates to a string, the joined path has a source on disk or (only if no such file exists) in the cache, the '
              'source compiles and renders normally with a copy of the current variables to out, the include node is exactly '
              'one VERBATIM write of out to the includer\'s writer (TagNode.render hands every tag verbatimWriter{w} since the repair '
              'fixes/verbatim-output-not-trimmed.patch, /repo 4126d59) and leaves the variables as they were: on a writer that does not fail the text pending '
              'before the tag and then the bytes of out go out unchanged whatever trim flag a preceding hyphen left, and nothing of out stays '
              'pending for a following left hyphen (include_denotation_run) - "inserts exactly the output that rendering that file\'s content '
              'directly would give" also next to a neighbour\'s hyphen, where the unrepaired code stripped white space at the edge of the '
              'included output (`{{ x -}}{% include "f" %}`; found when the repair of object nodes made the incl stream\'s inlining oracle, '
              'which prints the file\'s output through an object, exact). From source bytes (Proofs.C14Source): the source '
              '{% include "name" %} (a string literal in either quote whose name does not contain that quote byte, any good '
              'delimiters, the items Clean for them), on a file system where dir(path)/name holds a source that run as a '
              'template of its own (includer\'s variables, the tag\'s line, fuel one less) returns out, makes run return exactly out '
              '(include_source); between two texts (Clean as well) the output stands in place, T1 out T2 (include_between_texts_source). Tie: the `incl` stream answers every case (layouts with a cache-only file as `incl` lines, '
              'all others as `render` lines) by the model and the real engine, plus three model-independent oracles: reference '
              'include, inlined output, error table (disk-before-cache is built into the layout lookup the first two use).'),
    "design_ref": 'DESIGN.md 6 C14',
    "note": NOTE + ('The equalities between an include and a direct render of the file (include_equiv, include_denotation*, include_source) are stated '
              'one fuel level apart (including at fuel n+1 = rendering the file at fuel n): at the nesting limit of 100 the two differ, which '
              'is what the code does (a chain of 101 nested files fails although its first file renders on its own). The driver runs every '
              'case with fuel 100 (runStd), so deep and cyclic layouts are answered by the model, not `unmodelled`. The error theorems are about the model\'s handler; on the real code the location of include errors is compared by the '
              'incl and errloc streams (render lines) and checked by the incl error table. The model\'s read error other than not-exist '
              '(include_read_err_located) is not produced by any stream: a name that resolves to a directory is judged by the both-fail '
              'agreement with the reference include only. The path an error from an included file names is the including template\'s - '
              'this is what the code does, and it is recorded as an interpretation, not flagged.'),
    "technique": ('Lean 4 proof (unfolding of the include handler of the render model; induction on the include fuel for the depth '
              'theorems; the source-to-tree helper lemma run_spell of Proofs/SrcItems.lean, over the end-to-end front end of C19, for the '
              'source-level ones) + model/implementation correspondence + '
              'differential oracle against a reference include'),
}
