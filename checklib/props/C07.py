from . import COMMON_TB, NOTE

PROP = {
    "modules": [],
    "streams": [{"name": "errloc"}],
    "rule": "errloc: a placement generator puts exactly one failing construct of one of 32 kinds (syntax error in an object, in the tags "
            "assign, cycle, if, unless, case, for, tablerow and in an elsif / when clause - capture checks no syntax, the argument of include is parsed at render time and not placed; unknown tag; "
            "unknown filter; a filter's own error (divided_by, url_decode); conversion errors in a filter and in a range; a render-time "
            "error in an elsif / when expression; unbalanced blocks (missing end, stray end / else / when / elsif, unterminated "
            "comment / raw); strict-mode undefined variable; break/continue/cycle "
            "outside a loop; non-integer loop modifiers; include of a missing file / non-string / file with an error inside) at every piece "
            "boundary (every line) of generated error-free templates nested 0..6 deep (if/elsif/else, unless, case/when, for, for-else, tablerow, "
            "capture; multi-line tags and objects), every kind that is applicable there (render-time kinds only at executed positions); "
            "each placement takes ONE spelling of the kind, drawn at random, and ONE of the six combinations (with / without a path) x "
            "(start line 0, 1, 7), cycling through them (thorough: all six for about one placement in eight); each placement is a `render` case compared with "
            "the model, and the real result is checked against the placement: error and no output (Render and RenderString), LineNumber, Path, "
            "kind of Cause, message; "
            "non-trivial = distinct (kind, depth, line, path/start) with an error result",
    "trusted_base": COMMON_TB + ["the placement generator's own bookkeeping of where it put the construct (offset -> line)"],
    "assumptions": ["for an error inside an included file the property does not fix the line; only Path and the error are checked there",
                    "that the reported line is the line of the INNERMOST failing tag or object is proved only node by node "
                    "(obj_error_located, wrap_keeps_located); for whole templates it rests on the errloc placements"],
}

TEXT = {
    "text": ('Theorems: an error that already carries a line (or a path) is returned unchanged by every enclosing node '
              '(wrap_keeps_located, wrapAt_keeps), an unlocated error is located at the first node that wraps it and kept as the '
              'cause (wrap_locates, cause_preserved_by_wrap), every failure leaving the wrapping combinators of a node is a located error '
              '(wrapFailAt_located, wrapAt_located), a failing object is reported at its own line with the evaluation error as '
              "cause (obj_error_located, strict_undefined), a syntax error in an object is reported at the object token's line "
              'which by C05 scan_line_at is start line + preceding newlines (parse_obj_error_line). That a run is output or an '
              'error, never both, holds in the model by construction - `run` returns a sum type, and run_output_xor_error is only '
              'the case split over its constructors; on the real code it is the errloc oracle that checks it. Whole-template form (render_error_line_in_tree, by induction over the render '
              'tree, for every writer behaviour): every failure of rendering an include-free node tree, and every break/continue that '
              'reaches the top, is a located error whose line is 0 or the line of one of the tree\'s tags, objects or texts. '
              'From source bytes (run_error_at_tag_or_object, for every source text, '
              'delimiter set, value layer, file system and environment, fault-free writer): whenever run returns an error for a source without an include tag, '
              'compile-time or render-time, SOME token t of scan that is a TAG or an OBJECT has e.line = t.line = start line + number of '
              'newline bytes of the source before t, the token sources partition the source, and the error names the configured path; '
              'for a template spelled from a Clean item list under GoodDelims (C19) without an include tag the error points at some item '
              'that is a tag or object (run_spell_error_at_item); with an include tag the line can be one of the included file instead '
              '(include_error_line). Tie: the `errloc` stream places each of its 32 kinds of failing construct at every '
              'nesting depth 0..6, one (path, start line) combination per placement, compares model and real engine (kind, line, path, cause) and '
              'checks the line against the known position.'),
    "design_ref": 'DESIGN.md 6 C07',
    "note": NOTE + ('The whole-template and source-level theorems are existential: the error line is the line of SOME node of the tree '
              '(whole-template form: tags, objects, texts, or 0) resp. of SOME tag or object token of the source (source-level form: '
              'never a text-only line, never an invented line); that it is the innermost offending construct is proved '
              'only locally (obj_error_located, wrap_keeps_located) and otherwise checked by the errloc placements. They are about '
              'include-free templates (an error inside an included file carries that file\'s line: include_error_line). In '
              'render_error_line_in_tree line 0 is allowed without condition; that it only arises for a writer failure at a node '
              'without location (raw, trim marker, final flush) at top level is explained in a comment of Proofs/C07Lines.lean, not '
              'proved (for the fault-free writer run_error_at_tag_or_object always finds a tag or object token). The predicates AllFail / Post hold trivially '
              'of a run that ends in the model outcomes panic or unmodelled, so "every failure" means every `fail` outcome. errloc does '
              'not place a syntax error in the argument of an include tag (found at render time), nor a for block with two else clauses.'),
    "technique": ('Lean 4 proof (wrapError case analysis; AllFail predicate on interaction trees) + model/implementation '
              'correspondence + placement oracle on the implementation'),
}
