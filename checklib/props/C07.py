from . import COMMON_TB, NOTE

PROP = {
    "modules": [],
    "streams": [{"name": "errloc"}],
    "rule": "errloc: a placement generator puts exactly one failing construct (syntax error in an object and in each kind of tag, unknown tag, "
            "unknown filter, a filter's own error, conversion errors, unbalanced blocks, strict-mode undefined variable, break/continue/cycle "
            "outside a loop, non-integer loop modifiers, include of a missing file / non-string / file with an error inside) at every piece "
            "boundary (every line) of generated error-free templates nested 0..6 deep (if/elsif/else, unless, case/when, for, for-else, tablerow, "
            "capture; multi-line tags and objects), with and without a path, start line 0, 1, 7; each placement is a `render` case compared with "
            "the model, and the real result is checked against the placement: error and no output, LineNumber, Path, kind of Cause, message; "
            "non-trivial = distinct (kind, depth, line, path/start) with an error result",
    "trusted_base": COMMON_TB + ["the placement generator's own bookkeeping of where it put the construct (offset -> line)"],
    "assumptions": ["for an error inside an included file the property does not fix the line; only Path and the error are checked there"],
}

TEXT = {
    "text": "Error construction and wrapping (Errorf/WrapError, the location each node wraps with) are part of the render model; every "
            "placement of a failing construct is compared with the real engine on every run and checked against the known position of the "
            "construct. The Lean theorems (err_line, wrap_keeps_located) are added by the main line.",
    "design_ref": "DESIGN.md 6 C07",
    "note": NOTE,
    "technique": "Lean 4 proof + model/implementation correspondence + placement oracle on the implementation",
}
