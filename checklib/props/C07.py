from . import COMMON_TB, NOTE

PROP = {
    "modules": [],
    "streams": [{"name": "errloc"}],
    "rule": "errloc: a placement generator puts exactly one failing construct of one of 33 kinds (syntax error in an object, in the tags "
            "assign, cycle, if, unless, case, for, tablerow and in an elsif / when clause - capture checks no syntax, the argument of include is parsed at render time and not placed; unknown tag; "
            "unknown filter; a filter's own error (divided_by, url_decode); conversion errors in a filter and in a range; a render-time "
            "error in an elsif / when expression; unbalanced blocks (missing end, stray end / else / when / elsif, unterminated "
            "comment / raw); strict-mode undefined variable; break/continue/cycle "
            "outside a loop; non-integer loop modifiers; include of a missing file / non-string / file with an error inside / file that includes itself, directly or through a second file: the nesting-limit error of RenderFile, rendered only after the same input has returned in a killable process) at every piece "
            "boundary (every line) of generated error-free templates nested 0..6 deep (if/elsif/else, unless, case/when, for, for-else, tablerow, "
            "capture; multi-line tags and objects), every kind that is applicable there (render-time kinds only at executed positions); "
            "each placement takes ONE spelling of the kind, drawn at random, and ONE of the six combinations (with / without a path) x "
            "(start line 0, 1, 7), cycling through them (thorough: all six for about one placement in eight); each placement is a `render` case compared with "
            "the model, and the real result is checked against the placement: error and no output (Render and RenderString), LineNumber, Path, "
            "kind of Cause, message - for the two kinds that fail INSIDE an included file (file with an error inside, nesting limit) "
            "the template always has a path; for a file with an error inside the oracle checks LineNumber = the include tag's line + the newlines of the FILE before its failing tag or object "
            "(run_error_located_at_token; the four failing files of the layout, whose positions are known), at the nesting limit it does not check LineNumber (a line 100 levels in; it is compared with the model only); "
            "non-trivial = distinct (kind, depth, line, path/start) with an error result",
    "trusted_base": COMMON_TB + ["the placement generator's own bookkeeping of where it put the construct (offset -> line)"],
    "assumptions": ["an error inside an included file carries the line of the failing construct counted from the include tag's line and the "
                    "path of the INCLUDING template (RenderFile compiles the file with the tag's SourceLoc): include_render_err_located, "
                    "include_render_err_at_file_token (Proofs.C14Errors, audited under C14, not under this property)",
                    "line numbers start at the start line the template was parsed with: Engine.ParseTemplate / ParseString / ParseAndRender "
                    "start at line 0 without a path, so an error on the first line of such a template has LineNumber 0"],
}

TEXT = {
    "text": ('Theorems: an error that already carries a line (or a path) is returned unchanged by every enclosing node '
              '(wrap_keeps_located, wrapAt_keeps), an unlocated error is located at the first node that wraps it and kept as the '
              'cause (wrap_locates, cause_preserved_by_wrap), every failure leaving the wrapping combinators of a node is a located error '
              '(wrapFailAt_located, wrapAt_located), a failing object is reported at its own line with the evaluation error as '
              "cause (obj_error_located, strict_undefined), a syntax error in an object is reported at the object token's line "
              'which by C05 scan_line_at is start line + preceding newlines (parse_obj_error_line). That a run is output or an '
              'error, never both, holds in the model by construction - `run` (Render / RenderString: the entry points that RETURN a value) returns a sum type, run_output_xor_error is only '
              'the case split over its constructors and run_error_no_output / runStd_error_no_output its reading "an error excludes output"; on the real code it is the errloc oracle that checks it. '
              'What the type does not say is said about FRender, the entry point that writes to the caller\'s writer (frender, a program over Write calls): when FRender into a buffer ends with the error e after the '
              'buffer has received `written` - any bytes; in the evaluated example `a\\n` has gone out when the object at line 3 fails - run returns e and nothing of `written` (run_error_discards_written), and run returns '
              'output out exactly when FRender wrote out and ended without an error (run_ok_iff_frender_ok); that the bytes a FAILING writer accepted stay written is C20, not this property. Whole-template form (render_error_line_in_tree, by induction over the render '
              'tree, for every writer behaviour): every failure of rendering an include-free node tree, and every break/continue that '
              'reaches the top, is a located error whose line is 0 or the line of one of the tree\'s tags, objects or texts. '
              'From source bytes (run_error_at_tag_or_object, for every source text, '
              'delimiter set, value layer, file system and environment, fault-free writer): whenever run returns an error for a source without an include tag, '
              'compile-time or render-time, SOME token t of scan that is a TAG or an OBJECT has e.line = t.line = start line + number of '
              'newline bytes of the source before t, the token sources partition the source, and the error names the configured path; '
              'for a template spelled from a Clean item list under GoodDelims (C19) without an include tag the error points at some item '
              'that is a tag or object (run_spell_error_at_item); with an include tag the line can be one of the included file instead '
              '(include_error_line). Sources WITH include tags (Proofs.C07Located, no hypothesis on the source, the start line or the include depth): whenever run returns an error e, '
              'e names the path and some TAG or OBJECT token t of the source, t.line = start line + newlines of the source before t, has e.line = t.line - a construct of the template itself, '
              'successful includes elsewhere do not shift lines (evaluated: `a\\n{% include "f" %}\\n{{ y }}` with f = two lines of text fails at line 3) - or the error is that of an included file: '
              't is a tag NAMED include, its argument text parses to an expression that evaluates, with the variables env\' the render has there, to a string rel, the file system holds (disk, else cache) a source src\' for dir(path)/rel, '
              'and run with one include level less on src\' PARSED AT START LINE t.line with env\' returns an error e\' with the line and path flag of e (run_error_located_at_token; the theorem applies to that run again; '
              'evaluated on include_error_line, where no token of the source stands at the error\'s line, so the second alternative is the one that holds); on a file system whose files have no include tag, e.line = t.line + '
              'newlines of the FILE before a tag or object token t\' of the file (run_error_located_in_file_token); for every nesting depth the line is reached along a chain of included files, each parsed at the line of the '
              'include tag of the one before (run_error_chain, the inductive predicate ErrAt of Proofs.C07LocatedLemmas, by induction over the include levels), hence e.line >= start line for EVERY source '
              '(run_error_line_ge_start_incl) and every error of run names the path (run_error_pathSet). Behind it: the end of the trace of a tree with include nodes is a tag or object of the tree or a site the include handler reports for an include node of the tree '
'(fin_traceNode ... render_error_eline_or_handler, Proofs.TraceFin), the handler\'s located error or sentinel is the error of run on the file (handlerEnds_incFuel), the compile post-condition without the '
              'no-include hypothesis (epostI_compileNode ..., Proofs.SrcCompileLinesInc), and that the include nodes of a compiled tree stand at the lines of the tag tokens named include and carry their argument text (ipost_compileNode ..., Derives.itokLines, Proofs.IncLines). Determinate form (Proofs.C07First): firstFailure walks the compiled tree in render order with the renderer\'s '
              'state - a node of a sequence is reached only when the one before it returned done; an object, assign or cycle that fails, '
              'a break/continue, the if/elsif/when clause whose test fails, the case tag whose subject fails, the loop tag whose collection '
              'or modifier fails, the include tag whose argument fails or is no string, whose file cannot be read or that stands at the nesting limit of 100 (the handler\'s error has no location there) is the site; otherwise the walk goes into '
              'the branch taken, the iterations (each in the state the previous one left), the capture body, the included file (the handler\'s '
              'error) - and every enclosing block passes the site through relocate = WrapError on locations, which keeps a site that has a '
              'line or a path (wrap_fin_keeps) and puts a not yet located error at the wrapping tag (wrap_fin_plain); '
              'render_fails_at_firstFailure (every context whose include handler renders to its own buffer, every tree, every environment, '
              'fault-free writer, includes allowed): an error of Render - a failure, or a break/continue that reaches the top - is a located '
              'error whose line and path flag are those of firstFailure; run_fails_at_firstFailure: the same for run on every source that '
              'compiles. firstFailure is COMPLETE: it is none exactly when the render has no error (firstFailure_none_iff_no_error, same hypotheses), i.e. exactly when the render succeeds provided it does not end in the '
              'model outcomes panic / unmodelled (firstFailure_none_iff_ok); for run on a source that compiles, firstFailure is the location of the error when run returns an error and none in every other case '
              '(run_firstFailure_complete), and run returns output iff firstFailure is none for a run that is defined (run_ok_iff_firstFailure_none). A break/continue that reaches the top is an error of the real '
              'engine as well (`{% break %}` alone: "break outside a loop" at the line of the tag, no output; a break on the first line of an included file: the same at the include tag\'s line - run on the real code), so firstFailure does not have to tell it from success. '
              'The walk is proved against the interaction tree in both directions: Proofs/RenderTrace.lean (sp_renderNode ... sp_frenderOf: an error of the run stands at the end of the trace) and '
              'Proofs/TraceExact.lean (fx_renderNode ... fx_frenderOf, traceRoot_fin_none_iff: the trace ends with a site only when the run ends with an error or a sentinel). Line 0: '
              'render_error_line_nonzero (include-free tree, no tag or object at line 0, fault-free writer: the error line is not 0 and the '
              'error names the path) and run_error_line_ge_start (source without include tag: the error line is at least the start line); with '
              'a failing writer (single-fault runs of a template that has a path or has no node at line 0) the error is located at a line of the tree with the path, or at the '
              'invalid location - line 0, no path -, and the latter only for a write issued by a top-level raw block, a top-level left trim marker or the final flush '
              '(fault_site_in_tree, located_node_fault_sites in Proofs.C20Located: audited under C20, not under this property). '
              'Tie: the `errloc` stream places each of its 33 kinds of failing construct at every '
              'nesting depth 0..6, one (path, start line) combination per placement, compares model and real engine (kind, line, path, cause) and '
              'checks the line against the known position - for an error inside an included file: the include tag\'s line plus the newlines of the file before the failing construct, as run_error_located_at_token says; not at the nesting limit: there the oracle checks error, path, kind, cause and message, and the line only through the model).'),
    "design_ref": 'DESIGN.md 6 C07',
    "note": NOTE + ('render_error_line_in_tree and run_error_at_tag_or_object are existential (the line of SOME node resp. SOME tag or object token); '
              'the determinate statement is run_fails_at_firstFailure. firstFailure reads the DECISIONS of the walk (which branch is taken, '
              'which items are visited, the state after a node) off the fault-free run of the sub-programs, and the LOCATIONS off the tree; '
              'for an include node the site is the location of the handler\'s error (what that is, is stated under C14, not here: include_render_err_located in Proofs.C14Errors, '
              'include_missing_located in Proofs.C14, include_depth_error in Proofs.C14Depth). firstFailure says nothing about a render that ends in the model outcomes panic or unmodelled (it is none there). run_error_located_at_token relates the error e of the template and the error e\' of the run on the included file by line and path flag only, not by cause (they are the same error whenever e\' has a line or a path: include_located_err_passes, Proofs.C14, audited under C14), and the variables env\' the file is rendered with are existential (they are those of the render at the tag: IncSite in Proofs.TraceFin says `some state`); ErrAt keeps the tokens and the file names, not the environments. On line 0 of a template parsed '
              'without a path a located error carries no information and is re-located by the enclosing block (WrapError): there the site is '
              'the enclosing block\'s tag, which is what relocate computes and what the real code does (errloc places at start line 0 too). '
              'Line 0 itself is reachable on a fault-free writer: Engine.ParseTemplate, ParseString and ParseAndRender compile at start line 0 '
              'without a path, so `{{ 1 | nofilter }}` through ParseAndRender reports LineNumber 0 (run on the real code); the never-0 theorems '
              'therefore assume a start line of at least 1 resp. no tag or object at line 0. The predicates AllFail / Post hold trivially '
              'of a run that ends in the model outcomes panic or unmodelled, so "every failure" means every `fail` outcome. errloc does '
              'not place a syntax error in the argument of an include tag (found at render time), nor a for block with two else clauses.'),
    "technique": ('Lean 4 proof (wrapError case analysis; AllFail predicate on interaction trees; location trace of the node tree by induction over the render tree) + model/implementation '
              'correspondence + placement oracle on the implementation'),
}
