from . import COMMON_TB, NOTE

PROP = {
    "modules": [],
    "streams": [{"name": "errloc"}],
    "rule": "errloc: a placement generator puts exactly one failing construct (syntax error in an object and in each kind of tag, unknown tag, "
            "unknown filter, a filter's own error, conversion errors, unbalanced blocks, strict-mode undefined variable, break/continue/cycle "
            "outside a loop, non-integer loop modifiers, include of a missing file / non-string / file with an error inside) at every piece "
            "boundary (every line) of generated error-free templates nested 0..6 deep (if/elsif/else, unless, case/when, for, for-else, tablerow, "
            "capture; multi-line tags and objects), with and without a path, start line 0, 1, 7; each placement is a `render` case compared with "
            "the model, and the real result is checked against the placement: error and no output, LineNumber, Path, kind of Cause, message; "
            "non-trivial = distinct (kind, depth, line, path/start) with an error result",
    "trusted_base": COMMON_TB + ["the placement generator's own bookkeeping of where it put the construct (offset -> line)"],
    "assumptions": ["for an error inside an included file the property does not fix the line; only Path and the error are checked there"],
}

TEXT = {
    "text": ('Theorems: an error that already carries a line (or a path) is returned unchanged by every enclosing node '
              '(wrap_keeps_located, wrapAt_keeps), an unlocated error is located at the first node that wraps it and kept as the '
              'cause (wrap_locates, cause_preserved_by_wrap), every failure leaving a node is a located error '
              '(wrapFailAt_located, wrapAt_located), a failing object is reported at its own line with the evaluation error as '
              "cause (obj_error_located, strict_undefined), a syntax error in an object is reported at the object token's line "
              'which by C05 scan_line_at is start line + preceding newlines (parse_obj_error_line), and a run is output or an '
              'error, never both (run_output_xor_error). Whole-template form (render_error_line_in_tree, by induction over the render '
              'tree, for every writer behaviour): every failure of rendering an include-free node tree, and every break/continue that '
              'reaches the top, is a located error whose line is the line of one of the tree\'s tags, objects or texts (or 0 for a '
              'writer failure at a node without location at top level). From source bytes (run_error_at_tag_or_object, for every source text, '
              'delimiter set, value layer, file system and environment): whenever run returns an error for a source without an include tag, '
              'compile-time or render-time, some token t of scan that is a TAG or an OBJECT has e.line = t.line = start line + number of '
              'newline bytes of the source before t, the token sources partition the source, and the error names the configured path; '
              'for spelled templates the error points at an item that is a tag or object (run_spell_error_at_item); with an include tag the line can be one of the included file instead (include_error_line). Tie: the `errloc` stream places every kind of failing construct at every '
              'nesting depth, with/without path and start line, compares model and real engine (kind, line, path, cause) and '
              'checks the line against the known position.'),
    "design_ref": 'DESIGN.md 6 C07',
    "note": NOTE + (""),
    "technique": ('Lean 4 proof (wrapError case analysis; AllFail predicate on interaction trees) + model/implementation '
              'correspondence + placement oracle on the implementation'),
}
