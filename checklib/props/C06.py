from . import COMMON_TB, NOTE

PROP = {
    "modules": ["Proofs.C06", "Proofs.C06E2E"],
    "streams": [{"name": "parse"}],
    "rule": "parse: every sequence of <=4 (quick) / <=5 (thorough) tokens over the 22-symbol alphabet {8 block opens, "
            "their 8 end tags, else, elsif, when, assign, an object, text}, then every sequence of exactly 5 (quick) / 6 (thorough) tokens over "
            "the reduced 12-symbol alphabet {if endif for endfor comment endcomment raw endraw else elsif when text}, all "
            "compared with the model; thorough additionally runs length 7 over the 12 symbols against the oracle only "
            "(length 6 over the 22 symbols, 22^6 sequences, oracle only, runs only when VERIF_C06_FULL is set in the "
            "environment: not part of ./check); random well-nested templates of depth <=40 (hyphens, newlines inside tags, "
            "junk inside comment/raw, alternative delimiters) with their one-edit neighbours (delete / duplicate / swap a "
            "tag); the repository's test templates and mutants. Oracle on the real code: accepted iff the recogniser says well "
            "nested and expressions.Parse accepts every visible object (every case); a rejected template renders nothing "
            "(enumerated and unedited random templates, every 8th by hash of the source); rendered output = reference "
            "expansion (accepted enumerated and unedited random templates under the default delimiters; not for one-edit "
            "neighbours, alternative delimiters, harvested templates and mutants). A case is non-trivial when it contains a tag with block "
            "syntax; distinct by case line",
    "trusted_base": COMMON_TB + [
        "the recogniser of the nesting grammar and the reference expansion in harness/stream_parse.go (oracle) are "
        "hand-written from the documentation, independent of the implementation's grammar table",
        "translator T1 (translate/grammar, go/ast) reads tags/standard_tags.go; grammar_is_standard re-checks its output",
    ],
    "assumptions": [
        "parseTokens/stdGrammar describe parser/parser.go + render/blocks.go + tags/standard_tags.go: checked by the "
        "parse stream on every run (tree shape, error kind and line) and by T1 (the table)",
        "the expression checker chk is a parameter of every theorem; the model driver instantiates it with objChk, the "
        "model of expressions.Parse on an object's arguments (ExprParse.lean, itself tied by the eparse stream of C08); "
        "an object whose literal is outside the lexer model makes the case unmodelled (counted), never accepted",
        "the tokenizer model (scan) is tied separately by the scan stream (C05)",
    ],
}

TEXT = {
    "text": "Theorems for every grammar table satisfying the AddBlock/Clause builder's side conditions and every expression "
            "checker, instantiated to the table extracted from tags/standard_tags.go: the parser accepts a token list with a "
            "tree exactly when the declarative nesting grammar derives that tree (parse_ok_iff_derives), hence accepts iff "
            "well nested and all visible objects parse (parse_ok_iff); printing a well-formed tree and parsing it returns the "
            "tree (parse_unparse); printing the accepted tree gives back the tokens up to what the tree does not keep "
            "(unparse_parse); the accepted tree is well formed (parse_wf); the block-stack pop never panics "
            "(parseTokens_no_panic); the only errors are objSyntax / notInside / unterminated, located at the first offending "
            "token resp. the innermost open tag (parse_result_cases; error_at_first_bad_token, first_error_obj, first_error_notInside; "
            "unterminated_comment / _raw / _block, unterminated_decompose, unterminated_iff). End to end, on source bytes and "
            "about the whole pipeline `run` (Proofs.C06E2E, for every value layer, file system, fuel and environment; toks = the "
            "token list of the source): the token list is not derivable in the nesting grammar exactly when parsing returns an "
            "error, which is notInside / unterminated / an object's syntax error, is the result of `run` (so nothing is rendered) "
            "and is located at a tag or object token whose line is the start line plus the newlines of the source text before it "
            "(run_rejects_iff_not_derivable, run_parse_error); a derivable source runs as the compilation and rendering of the "
            "derived tree (run_of_derives); a compile error notInside/unterminated implies that the tokens are not well nested, "
            "since the compile phase never produces these messages (nesting_error_implies_not_well_nested); and for sources all "
            "of whose objects hold expressions, not well nested <=> compilation (hence run) fails with notInside or unterminated "
            "(not_well_nested_iff_nesting_error). run_parse_error, run_of_derives and run_rejects_iff_not_derivable assume that no object "
            "token has arguments outside the expression-lexer model (negative-zero literal), where the model answers `unmodelled` "
            "before parsing; nesting_error_implies_not_well_nested has no side condition, and in not_well_nested_iff_nesting_error "
            "the condition follows from the hypothesis on the objects. The model is compared with "
            "cfg.Parse on exhaustive token sequences and random nested templates each run; an independent recogniser is "
            "evaluated on the real parser in every case, a reference expansion on the real renderer for the accepted enumerated "
            "and unedited random templates, and 'rejected renders nothing' on a sample (every 8th) of the rejected ones.",
    "design_ref": "DESIGN.md 6 C06",
    "note": NOTE + "The round trip is stated modulo canon (comment blocks dropped; raw interiors as text tokens of equal source; "
            "end tags and trim markers without line/args/source), which is exactly the information the Go AST does not keep.",
    "technique": "Lean 4 proof (derivation-following for soundness, zipper invariant for completeness) + model/implementation "
                 "correspondence + independent oracle + the grammar table re-extracted from tags/standard_tags.go by translator T1 "
                 "on every run and checked by `decide` (grammar_is_standard, part of the Lean build)",
}
