from . import COMMON_TB, NOTE

PROP = {
    "modules": ["Proofs.C13"],
    "streams": [{"name": "tw"}],
    "rule": "tw: every operation list of length<=4 (quick) / 5 (thorough) over {TrimLeft, TrimRight, Flush, Write of "
            "'', ' ', 'x', ' x', 'x ', '\\n '} and random lists of up to 12 operations whose writes mix ASCII/Unicode "
            "whitespace, text and invalid UTF-8; driven against the real trimWriter through the verif hook",
    "trusted_base": COMMON_TB + ["unicode.IsSpace / utf8.DecodeRune / DecodeLastRune are modelled (Liquid/Utf8.lean) and compared on every tw case"],
    "assumptions": ["TW.step describes render/trimwriter.go: checked by the tw stream on every run"],
}

TEXT = {
    "text": "Theorems over ALL operation lists of the trim-writer state machine (whitespace erasure law; marker-free "
            "lists lose nothing); the machine is compared call-by-call with the real trimWriter on exhaustive small "
            "and random operation lists each run, and the whitespace-deletion oracle is evaluated on the real output.",
    "design_ref": "DESIGN.md 6 C13",
    "note": NOTE + "Template-level lifting (hyphen_erasure over rendered templates) is added with the render model.",
    "technique": "Lean 4 proof (simulation invariant over operation lists) + model/implementation correspondence",
}
