from . import COMMON_TB, NOTE

PROP = {
    "modules": ["Proofs.C13"],
    "streams": [{"name": "tw"}, {"name": "hyphens"}],
    "rule": "tw: (1) every operation list of length<=5 (quick) / 6 (thorough) over {TrimLeft, TrimRight, Flush, Write of "
            "'', ' ', 'x', ' x', 'x ', '\\n '}; (2) every operation list of length<=3 (quick) / 4 (thorough) over "
            "TrimLeft, TrimRight, Flush and Write of every string of at most two units over {space, newline, NBSP, 'x', "
            "byte 0xC2, byte 0xA0} (43 writes; the two lone bytes can be joined into NBSP by trimming); (3) the shapes "
            "w1 R w2 L x / w1 R L w2 L / w1 R F w2 L / w1 L R w2 x L for every pair of those writes; (4) random lists "
            "of up to 12 operations whose writes mix every class of unicode.IsSpace, near misses (U+200B, U+180E, "
            "U+FEFF), text and invalid UTF-8 (lone lead/continuation bytes, overlong, surrogate). All driven against "
            "the real trimWriter through the verif hook and compared call by call with TW.step; distinct by case line. "
            "hyphens: generated templates (tags, objects, raw/comment/capture blocks, loops; literal text padded with "
            "several kinds of whitespace, adjacent text items merged into one literal text) with every subset (<=6 "
            "hyphen positions) or 48 random subsets of the hyphens present, each rendered by the real engine and by the model",
    "trusted_base": COMMON_TB + ["unicode.IsSpace / utf8.DecodeRune / DecodeLastRune are modelled (Liquid/Utf8.lean) and compared on every tw case"],
    "assumptions": ["TW.step describes render/trimwriter.go: checked by the tw stream on every run",
                    "the erasure and adjacency laws are stated for writes that are valid UTF-8 (ValidOps); on invalid "
                    "bytes the erasure law is false (theorem tw_erasure_fails_on_invalid_utf8) and only "
                    "tw_no_trim_identity / tw_trimLeft_sees_last_write_only(_flag) / tw_buffer_is_last_write / "
                    "tw_trimRight_empty_write / tw_trimRight_persists apply"],
}

TEXT = {
    "text": "Level: operation lists of the trim writer (a template with hyphens issues the operation list of the "
            "hyphen-free template plus TrimLeft/TrimRight). Part A, generic alphabet with a whitespace predicate, for "
            "EVERY operation list: the output with trims is a whitespace-deletion of the output without them "
            "(trim_subseq, trim_sublist), both agree after deleting all whitespace (trim_only_ws), a list without trims "
            "outputs the concatenation of its writes (no_trim_identity, erased_output_is_concat); a TrimLeft directly "
            "after / TrimRight directly before the write of a text acts as the write of the right-/left-stripped text "
            "for EVERY text at EVERY position, blank or empty text and a pending flag included "
            "(trimLeft_adjacent_all, trimRight_adjacent_all, trim_both_adjacent; special cases trimLeft_adjacent, "
            "trimRight_adjacent, trimLeft_adjacent_noflag, trimRight_adjacent_flag; blank text next to a hyphen is "
            "deleted and nothing else is: trimLeft_adjacent_ws, trimRight_adjacent_ws; an empty write flushes and "
            "clears the flag: empty_write_is_flush, trimRight_empty_write; a TrimRight persists across TrimLeft/Flush: "
            "trimRight_persists_*). The repaired Write (2593661: always flush first) is expressed by "
            "trimLeft_sees_last_write_only(_flag), trimLeft_keeps_earlier_write, write_commits_previous and "
            "buffer_is_last_write: a TrimLeft never touches an earlier write, also when blank text stands between "
            "two hyphens. "
            "Part B, bridge to the byte-level model TW.step for valid UTF-8: decode/encode round trip, "
            "bytes.TrimLeftFunc/TrimRightFunc(unicode.IsSpace) on encoded runes (tw_trimLeftSpace_encode, "
            "tw_trimRightSpace_encode, through utf8.DecodeLastRune), step-by-step simulation (tw_step_encode, "
            "tw_runOps_encode), hence all laws on bytes (tw_trim_only_ws, tw_trim_subseq, tw_trim_valid_sublist, "
            "tw_trimLeft_adjacent*, tw_trimRight_adjacent*); tw_no_trim_identity, tw_trimLeft_sees_last_write_only(_flag), "
            "tw_buffer_is_last_write, tw_trimRight_empty_write and tw_trimRight_persists hold for all bytes; "
            "tw_erasure_fails_on_invalid_utf8 shows the UTF-8 hypothesis is necessary. Part C: the output is the "
            "concatenation of the underlying write calls, one call at most per operation, only TrimLeft can issue an "
            "empty call. Each run compares TW.step with the real trimWriter call by call and evaluates on the real "
            "output: identity without trims (all bytes), whitespace-erasure and whitespace-deletion (valid UTF-8), and "
            "every adjacency theorem as a metamorphic relation between two runs of the real trimWriter (faces-text laws for "
            "every text, blank included; trimLeft-sees-last-write-only on all byte strings: output = output up to the "
            "earlier write + the stripped adjacent text + output of the rest). Template level (hyphens stream): erasure, "
            "and, when every hyphen faces literal text, equality with the hyphen-free template whose adjacent text is stripped.",
    "design_ref": "DESIGN.md 6 C13",
    "note": NOTE + "Template-level lifting (hyphen_ops, hyphen_erasure, hyphen_faces_text over rendered templates) is added with the render model.",
    "technique": "Lean 4 proof (simulation invariant and commit lemma over operation lists, generic alphabet; UTF-8 codec "
                 "bridge to the byte model) + model/implementation correspondence + metamorphic oracle",
}
