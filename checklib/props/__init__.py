"""Per-property configuration: one module Cxx.py per claimed property, each defining
PROP (modules, streams, rule, trusted_base, assumptions) and TEXT (MANIFEST level texts)."""
import importlib, pkgutil

COMMON_TB = [
    "Go regexp: leftmost-first backtracking semantics assumed by the model's matcher; exercised by every scan case",
    "Go harness, Python orchestrator and Lean driver I/O loop are ordinary unverified programs",
]
NOTE = ("Trusted: Lean 4.33.0 kernel (axioms propext, Classical.choice, Quot.sound only; no sorry/native_decide); the model is "
        "hand-written and tied to /repo by differential correspondence (Go harness vs compiled Lean driver) on every run; "
        "Go's regexp/fmt/strconv/reflect/encoding-json behaviour is modelled, not verified; the case mapping of package unicode "
        "is tabulated from the toolchain on every run (translator T6), not checked against the Unicode standard. ")

PROPS, LEVEL_TEXT = {}, {}
for _m in pkgutil.iter_modules(__path__):
    if _m.name.startswith("C"):
        mod = importlib.import_module(__name__ + "." + _m.name)
        PROPS[_m.name] = mod.PROP
        LEVEL_TEXT[_m.name] = mod.TEXT

# checks that exist but are not claimed yet (reason shown in MANIFEST not_applicable)
PENDING = {}
for _pid in PENDING:
    PROPS.pop(_pid, None)
    LEVEL_TEXT.pop(_pid, None)

# Lean theorem modules added by the main model on top of what each Cxx.py declares. A helper module is listed for a
# property when the property's claim text NAMES a theorem that is defined there (run_eq_runTokens, scan_spell,
# scan_line_at, fits_break, lineRel_renderNode, parse_rangeArgs, incQuiet_mkCtx, trimComm_of_valid, objRe_m, tagRe_m,
# lazyUnits, scanLoop_spell, parseTokens_unsrc, compileList_unsrc, faulty_spec ...): every theorem a claim quotes is
# then audited with `#print axioms` under its own name, not only through the theorems that use it.
EXTRA_MODULES = {
    "C05": ["Proofs.C05Render", "Proofs.E2ERun", "Proofs.C19E2E"],
    "C07": ["Proofs.C07", "Proofs.C07Lines", "Proofs.C07Source", "Proofs.C05", "Proofs.C07First", "Proofs.RenderTrace", "Proofs.TraceLemmas",
            "Proofs.TraceExact", "Proofs.C07Located", "Proofs.C07LocatedLemmas", "Proofs.TraceFin", "Proofs.SrcCompileLinesInc", "Proofs.IncLines"],
    "C08": ["Proofs.C08", "Proofs.C08Source", "Proofs.ExprLexemes", "Proofs.ExprShowParse", "Proofs.ExprRoundTrip"],
    "C10": ["Proofs.C10", "Proofs.C10Source", "Proofs.SrcRelRender", "Proofs.SrcRelInclude", "Proofs.SrcShiftSource", "Proofs.C19E2E"],
    "C11": ["Proofs.C11", "Proofs.C11Source", "Proofs.SrcLoop", "Proofs.Budget"],
    "C13": ["Proofs.RunLemmas", "Proofs.HyphenFace", "Proofs.C13Source", "Proofs.HyphenSource", "Proofs.HyphenSourceCompile", "Proofs.C19E2E"],
    "C12": ["Proofs.C12", "Proofs.C12Source"],
    "C14": ["Proofs.C14", "Proofs.C14Source", "Proofs.C14Errors", "Proofs.C14Depth"],
    "C18": ["Proofs.C18"],
    "C19": ["Proofs.C19", "Proofs.E2ESpell", "Proofs.E2ELex", "Proofs.E2EToken", "Proofs.E2EUnits", "Proofs.E2EScan", "Proofs.E2ECompile",
            "Proofs.E2EEquiv"],
    "C01": ["Proofs.C01", "Proofs.C01Depth", "Proofs.NoPanic", "Proofs.StdNoPanic", "Proofs.ArrNoPanic", "Proofs.JsonFilter", "Proofs.DateFilter"],
    "C17": ["Proofs.DateFilter"],
    "C02": ["Proofs.C02", "Proofs.JsonFilter", "Proofs.MapOrder"],
    "C03": ["Proofs.C03"],
    "C20": ["Proofs.C20", "Proofs.C20Source", "Proofs.ProgLemmas", "Proofs.RenderStops", "Proofs.C20Located", "Proofs.RenderTrace", "Proofs.TraceLemmas",
            "Proofs.TraceSites"],
}
for _pid, _mods in EXTRA_MODULES.items():
    if _pid in PROPS:
        PROPS[_pid]["modules"] = list(dict.fromkeys(PROPS[_pid]["modules"] + _mods))

# Obligations over tables regenerated on every run (translators T2, T3, T4, T5 from the Go source of /repo, T6 from the
# toolchain's unicode package; T1's grammar_is_standard is a theorem of Proofs.C06 itself; DESIGN 3.3, 5.4): the Lean
# module that states the obligation is added to the property's audited modules, the obligation name to
# PROP["obligations"] (a translator line `OBLIGATION <name> BROKEN <fact>` then counts for the property), and the
# translator to its trusted base.
TRANSLATOR_TIES = {
    "filter_sigs_are_standard": {
        "props": ["C01", "C15", "C16", "C17"],
        "module": "Proofs.FilterSigs",
        "claim": "Source tie of the filter signatures (translator T2, re-run on every check): the name, parameter types, "
                 "default-function parameters and error result of every AddFilter call of filters.AddStandardFilters are "
                 "extracted with go/types and the obligation filter_sigs_are_standard re-checks that they form the registry "
                 "lookupSig/applyFilter are defined on (lookupSig_is_source: for every name the model's lookup is the lookup in "
                 "the extracted table); a changed signature, a new or a removed filter breaks the check.",
        "trusted": "translator T2 (translate/filters, go/packages + go/types of golang.org/x/tools v0.29.0, nothing executed) reads "
                   "the AddFilter calls reachable from filters.AddStandardFilters; filter_sigs_are_standard re-checks its output "
                   "against the model's table stdFilters on every run (names, parameter types, default-function parameters, "
                   "error result); the filter BODIES are tied by the correspondence streams, not by T2",
    },
    "case_tables_wellformed": {
        "props": ["C16"],
        "module": "Proofs.CaseTables",
        "claim": "Tie of the case mapping (translator T6, re-run on every check): unicode.ToUpper and unicode.ToLower of the Go "
                 "toolchain the engine is built with - the standard library, not a file of the repository - are called on every "
                 "rune U+0000..U+10FFFF and written as range tables (Liquid/Generated/CaseTables.lean, with unicode.Version); the "
                 "obligations case_tables_wellformed (ranges non-empty, ascending, disjoint, inside the code space, every image "
                 "interval made of scalar values), case_tables_idempotent (no image of a range is hit by a range again) and "
                 "case_tables_round_trip (the exception list of upper_lower_upper_except is exact) are checkers over the ranges, "
                 "proved sound for every table and evaluated on the regenerated ones by the kernel; another toolchain's tables "
                 "either pass them again or break the check.",
        "trusted": "translator T6 (translate/casetables, executes unicode.ToUpper / unicode.ToLower of the toolchain on every rune; reads "
                   "nothing of the repository) writes the simple case mapping as range tables and re-decodes them against the two "
                   "functions before writing; that strings.ToUpper / strings.ToLower apply these rune maps as the model says (ASCII "
                   "byte loop on all-ASCII strings, strings.Map otherwise, an invalid byte written as U+FFFD) is a reading of "
                   "strings/strings.go of go1.23, tied by the strf stream (every rune in the thorough tier), not by T6",
    },
    "token_re_is_source": {
        "props": ["C05", "C19"],
        "module": "Proofs.TokenRe",
        "claim": "Source tie of the token pattern (translator T4, re-run on every check): the format string, the Sprintf "
                 "arguments and the exclusion loop of parser.formTokenMatcher are extracted with go/ast; evaluated in Lean they "
                 "build, for the default delimiters (token_re_is_source, by evaluation) and for every delimiter quadruple with "
                 "an ASCII tag-right delimiter (token_re_is_source_all, by proof), exactly the text Re.toGoSyntax prints for the "
                 "model's tokenRe, up to the one documented spelling (?s:.+?) = (?s:.)+?; the groups are numbered as Scan "
                 "indexes them (tokenRe_groupOrder). The `rex` stream compiles printed expressions with Go's regexp and compares "
                 "match and submatch indices with the model's matcher, for random expressions and for the real token matcher "
                 "under random delimiters.",
        "trusted": "translator T4 (translate/tokenre, go/ast, nothing executed) reads the string-building expressions of "
                   "parser.formTokenMatcher; token_re_is_source re-checks on every run that the text they build is the model's "
                   "tokenRe printed in Go syntax. Trusted there: the Lean reading of fmt.Sprintf (%s, %v, %%), regexp.QuoteMeta, "
                   "strings.Join and of the range loop over an ASCII string (TokenReSrc.pattern), the printer Re.toGoSyntax "
                   "(that its text denotes the expression), and the one normalisation (?s:.+?) = (?s:.)+?; that Go's regexp "
                   "reads the text as the model's matcher reads the expression is tied by the `rex` stream (and through parser.Scan by "
                   "`scan` under C05 - default delimiters only - and by `delims` under C19), not by T4",
    },
    "map_iterations_audited": {
        "props": ["C02"],
        "module": "Proofs.MapIter",
        "claim": "Source tie of the map iterations (translator T5, re-run on every check): every place where the library "
                 "iterates a Go map - a range over a map value, (reflect.Value).MapKeys, (reflect.Value).MapRange - is listed "
                 "with go/ssa, and the obligation map_iterations_audited re-checks that each is one of the ten audited sites "
                 "of Liquid/MapIterFacts.lean (keys sorted before use: SortedMapKeys, ParentTags, makeIterationKeyedMap; every "
                 "entry copied into a fresh map: Clone, newNodeContext, RenderFile, Convert, resolveDrops; a conjunction over all entries: "
                 "equalMaps, eqItems); a new map iteration in the source, or an audited sorter whose function no longer calls into package sort (that is all that is "
                 "checked of 'sorted before use'), breaks the check.",
        "trusted": "translator T5 (translate/mapiter.go, go/ssa, nothing executed) lists ssa.Range instructions over map types and "
                   "static calls of reflect.Value.MapKeys / MapRange in the library packages; the justification of each audited site "
                   "(Liquid/MapIterFacts.lean) is a reading of the source, not a proof; iteration reached through other APIs "
                   "(e.g. fmt printing a map, which sorts keys itself; encoding/json) is not listed",
    },
    "global_calls_audited": {
        "props": ["C02", "C03", "C04"],
        "module": "Proofs.GlobalCalls",
        "claim": "Source tie against package-level caches (translator T3, call facts, re-run on every check): every call outside "
                 "init that hands a package-level variable of the library - its address, or the pointer, map, slice or interface "
                 "it holds - to a callee is listed with go/ssa, unless the callee belongs to a standard-library package trusted by "
                 "path as read-only (regexp, reflect, fmt, strings, strconv, unicode, errors, math, time, html, net/url; not sort, "
                 "not bytes; strings.Builder methods and reflect.Value.Set* are listed); the obligation global_calls_audited "
                 "re-checks that only the five audited read-only variables occur (two reflect.Type values, invalidLoc, the two "
                 "loop sentinels). A sync.Map, a sync.Pool, a package-level slice sorted in place or a table behind a package-level "
                 "mutex breaks the check; a package-level map or variable written directly (m[k] = v) is a store, not a call: "
                 "that breaks no_shared_writes.",
        "trusted": "translator T3 call facts (translate/writes.go globalCalls, go/ssa, nothing executed): receivers and arguments "
                   "whose address roots in a package-level variable of the library; callees in the standard-library packages trusted by path (a list "
                   "of packages, not of functions: regexp, reflect, fmt, strings, strconv, unicode, unicode/utf8, errors, math, time, "
                   "html, net/url, minus strings.Builder methods and reflect.Value.Set*/Grow/Clear) are trusted not to write through "
                   "their arguments; the five audited variables (Liquid/ConcFacts.lean) are justified by "
                   "reading the callee; state kept in struct fields of the engine or of a template is not covered by this rule",
    },
    # C04 declares this obligation itself (C04.py); C02 and C03 get it here: a memo table kept in a plain package-level map
    # is a STORE fact (class global), not a call fact, so global_calls_audited alone would not see it.
    "no_shared_writes": {
        "props": ["C02", "C03"],
        "module": "Proofs.C04",
        "claim": "Source tie against package-level state written directly (translator T3, store facts, re-run on every check): the "
                 "obligation no_shared_writes (Proofs/C04.lean, `decide` over every store rooted in a captured or package-level "
                 "variable, listed with go/ssa) re-checks that no package-level variable is stored to outside init and no closure "
                 "that outlives its creator stores to a captured variable; a memo table or counter in a package-level variable "
                 "written during a render breaks it. Stores through pointer parameters or receivers are not followed.",
        "trusted": "translator T3 store facts (translate/writes.go, go/ssa, nothing executed): stores rooted in captured or "
                   "package-level variables of the library packages; the escape rule over-approximates closures that outlive their "
                   "creator; writes through pointer parameters and receivers are not followed",
    },
}
for _name, _t in TRANSLATOR_TIES.items():
    for _pid in _t["props"]:
        if _pid in PROPS:
            _P = PROPS[_pid]
            _P["modules"] = list(dict.fromkeys(_P["modules"] + [_t["module"]]))
            _P["obligations"] = list(dict.fromkeys(_P.get("obligations", []) + [_name]))
            _P["trusted_base"] = list(dict.fromkeys(_P.get("trusted_base", []) + [_t["trusted"]]))
            if _t["claim"] not in LEVEL_TEXT[_pid]["text"]:
                LEVEL_TEXT[_pid]["text"] = LEVEL_TEXT[_pid]["text"].rstrip() + " " + _t["claim"]
            if "source facts re-extracted" not in LEVEL_TEXT[_pid]["technique"]:
                LEVEL_TEXT[_pid]["technique"] += " + source facts re-extracted by a translator on every run and checked by `decide`"

# correspondence streams added on top of what each Cxx.py declares
EXTRA_STREAMS = {
    # the model's regular expressions (printer + matcher) against regexp.Compile / FindStringSubmatchIndex, and the real
    # token matcher (verif hook VerifTokenMatcher) against tokenRe, text and indices (harness/stream_rex.go)
    "C05": [{"name": "rex", "shards": 4}],
    "C19": [{"name": "rex", "shards": 4}],
}
for _pid, _ss in EXTRA_STREAMS.items():
    if _pid in PROPS:
        _have = {s["name"] for s in PROPS[_pid]["streams"]}
        PROPS[_pid]["streams"] = PROPS[_pid]["streams"] + [s for s in _ss if s["name"] not in _have]

# hook commits in /repo (build tag `verif`)
HOOK_COMMITS = ["635e10c", "a4edf37"]
# properties that are not claimed, with the reason
NOT_APPLICABLE = dict(PENDING)
