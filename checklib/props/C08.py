from . import COMMON_TB, NOTE

PROP = {
    "modules": ["Proofs.C08", "Proofs.C08Source"],
    "streams": [{"name": "eparse"}, {"name": "eshow"}, {"name": "render"}, {"name": "exprs"}],
    "rule": "eparse: exhaustive token soups of length<=3/4 over 23 lexemes (as expressions), grammar-generated expressions and "
            "assign/for/cycle/when statements with random spacing, mutants and random soups; compared with the model: accept / reject "
            "of an expression, and for an accepted statement the assigned variable, the cycle group and values, the loop variable "
            "and which modifiers are present, the number of when values - not the expression tree; render: harvested test templates, 299 whole templates about times ({{ t }}, t | date: f, date on date "
            "strings, times inside containers), "
            "every sequence of <=3 (quick) / 4 (thorough) pieces of a 31-piece alphabet (bare, inside a loop, inside an if) and "
            "grammar-generated templates "
            "with generated environments, through ParseTemplateLocation+Render; exprs (every case a render line; oracles on the real "
            "results): array length 0..5 x index -7..7 and non-integer indices as literal and variable, first/last/size, map "
            "property vs index, size fallback and shadowing, missing keys, nil / scalar receivers, literal spellings, strict "
            "variables on the final value only, unknown filter / too many arguments, nested pipelines and generated pipelines "
            "against their assign decomposition at the last pipe, and respaced variants (space, tab, LF, CRLF runs) of objects and "
            "assign tags; non-trivial = accepted / non-empty output",
    "trusted_base": COMMON_TB + ["the ragel/goyacc generated tables are not translated: the recursive-descent model is compared with them on every run"],
    "assumptions": [],
}

TEXT = {
    "text": ('Theorems over all values and environments (Proofs.C08): literals denote themselves, a name its binding (nil when undefined), '
              'a[i] / a[-k] / out-of-range for a Go int index, a string / bool / nil index is nil, first/last/size of arrays, '
              'm.k = m["k"] on a string-keyed map, missing key nil, size '
              'fallback and shadowing, properties of nil and scalars are nil, drops are looked through, one pipeline step '
              'with a registered filter evaluates receiver then arguments left to right, an unknown filter is an error before anything '
              'is evaluated, and a pipeline all of whose filters are registered is the left fold of '
              'its steps (pipeline_fold). Theorems about the SOURCE TEXT and the render level (Proofs.C08Source), for all byte strings: '
              '(literals) a digit string with optional - denotes its decimal value as a Go int, leading zeros allowed, a syntax error '
              'outside int64 (int_literal_denotes, int_literal_round_trip with strconv.Itoa); a quoted string without that quote '
              'denotes its bytes, no escapes (string_literal_denotes); d+.d+ denotes the exact decimal rounded to float64, -0.0 being '
              'outside the model (float_literal_denotes); true/false/nil; literal_round_trip over the printer showLit. '
              '(whitespace) over the grammar Lexeme of the scanner\'s lexemes and the merge conditions fits (when two lexemes may '
              'touch; fits_exact: the scanner cuts the lexeme off if and only if fits holds; fits_break), the scanner returns the tokens of the lexemes whatever whitespace (space, tab, LF, '
              'VT, FF, CR) separates them (well_spaced_tokens), so two well-spaced texts of the same lexemes have the same parse as '
              'expression and as assign/for/cycle/when statement (same_lexemes_same_parse, whitespace_between_lexemes) and the same '
              'compiled object/assign node (whitespace_compile), and a one-object template {{ ... }} written with any such whitespace, '
              'newlines included, is tokenised, compiled and rendered (run) to the same result - for GoodDelims, the same trim '
              'hyphens in both spellings and Clean arguments: non-empty, no closing delimiter inside, not ending in `-` '
              '(object_whitespace_end_to_end); recorded counterexamples where a space does matter: inside a lexeme '
              '(-1 / - 1, == / = =) and the two scanner rules that glue parts together - `f : a` (a syntax error, `f: a` is not) and '
              '`a. b` (a syntax error, `a.b` and `a .b` are not). (pipeline through assign) {% assign t = E %}{{ t | g: b ... }} makes '
              'the same writer calls, fails alike and ends in the same state up to t as {{ E | g: b ... }} for fresh t whenever E '
              'evaluates (pipeline_split_assign), by induction the fully stepwise form when the WHOLE pipeline evaluates without error '
              '(pipeline_stepwise: a failing later step is not covered - it fails at the line of its assign, not of the object); when E fails both fail at '
              'their own line, the single object with the outermost unknown filter\'s error if there is one '
              '(pipeline_split_assign_fails). (arity) more arguments than parameters is the parity FilterError before any conversion '
              '(too_many_arguments_err, filter_too_many_arguments, registered_filter_sig), missing arguments are zero values / '
              'identity default functions (missing_arguments_default). (strict variables) only a nil FINAL value is the '
              'undefined-variable error, a nil inside a pipeline is not (strict_only_final_value, strict_final_nil_fails, '
              'obj_nil_prints_nothing). Ties: `eparse` compares the accept/reject verdict of the expression lexer/parser model with the '
              'generated ragel/yacc front end (for assign/for/cycle/when statements also the variable, group, flags and counts); the '
              'parse TREE (precedence, which arguments belong to which filter) is tied only through evaluation: whole expressions in '
              'templates with the real evaluator (`render`, `exprs` with lookup oracles on the real results).'),
    "design_ref": 'DESIGN.md 6 C08',
    "note": NOTE + ('Number literals outside the lexer model (the negative zero -0.0) are answered `unmodelled`. The whitespace theorems are about the parser model, which `eparse` ties to the real front end in its accept/reject verdict only (the trees through evaluation by `render`/`exprs`, whose respaced variants are compared on the real engine); Expr has no printer, so they are stated over lexeme lists, not over a round trip parse(show e) = e. The spellings `f : a` and `a. b` are syntax errors in the real code as in the model (scanner rules identifier\':\' and \'.\'identifier); the index theorems are for Go int indices (other integer widths and floats: DESIGN 7.2, no theorem), pipeline_stepwise and pipeline_fold for pipelines that succeed resp. whose filters all exist; whether the property\'s last sentence covers them is an interpretation (DESIGN 7.2).'),
    "technique": ('Lean 4 proof (case analysis of lookup on the value type; induction over pipelines; longest-match analysis of the scanner rule by rule; induction over lexeme lists) + model/implementation '
              'correspondence'),
}
