from . import COMMON_TB, NOTE

PROP = {
    "modules": ["Proofs.C08"],
    "streams": [{"name": "eparse"}, {"name": "render"}, {"name": "exprs"}],
    "rule": "eparse: exhaustive token soups of length<=3/4 over 23 lexemes, grammar-generated expressions and statements "
            "with random spacing, mutants and random soups; render: harvested test templates and grammar-generated templates "
            "with generated environments, through ParseTemplateLocation+Render; non-trivial = accepted / non-empty output",
    "trusted_base": COMMON_TB + ["the ragel/goyacc generated tables are not translated: the recursive-descent model is compared with them on every run"],
    "assumptions": [],
}

TEXT = {
    "text": ('Theorems over all values and environments: literals denote themselves, a name its binding (nil when undefined), '
              'a[i] / a[-k] / out-of-range / non-integer index, first/last/size of arrays, m.k = m["k"], missing key nil, size '
              'fallback and shadowing, properties of nil and scalars are nil, drops are looked through, one pipeline step '
              'evaluates receiver then arguments left to right, an unknown filter is an error, and a pipeline is the left fold of '
              'its steps (pipeline_fold). Ties: the expression lexer/parser model is compared with the generated ragel/yacc front '
              'end (`eparse`), whole expressions in templates with the real evaluator (`render`, `exprs` with lookup oracles on '
              'the real results).'),
    "design_ref": 'DESIGN.md 6 C08',
    "note": NOTE + ('Number literals outside the lexer model (e.g. exponent forms) are answered `unmodelled`.'),
    "technique": ('Lean 4 proof (case analysis of lookup on the value type; induction over pipelines) + model/implementation '
              'correspondence'),
}
