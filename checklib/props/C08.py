from . import COMMON_TB, NOTE

PROP = {
    "modules": ["Proofs.C08"],
    "streams": [{"name": "eparse"}, {"name": "render"}, {"name": "exprs"}],
    "rule": "eparse: exhaustive token soups of length<=3/4 over 23 lexemes, grammar-generated expressions and statements "
            "with random spacing, mutants and random soups; render: harvested test templates and grammar-generated templates "
            "with generated environments, through ParseTemplateLocation+Render; non-trivial = accepted / non-empty output",
    "trusted_base": COMMON_TB + ["the ragel/goyacc generated tables are not translated: the recursive-descent model is compared with them on every run"],
    "assumptions": [],
}

TEXT = {
    "text": "Expression language model (lexer, parser, evaluator, lookup) compared with the generated ragel/yacc front end and the "
            "evaluator on every run; lookup and pipeline laws proved over all values.",
    "design_ref": "DESIGN.md 6 C08",
    "note": NOTE,
    "technique": "Lean 4 proof + model/implementation correspondence",
}
