from . import COMMON_TB, NOTE

PROP = {
    "modules": [],
    "level": "proof",
    "streams": [{"name": "loops"}],
    "rule": "loops: (1) exhaustive grid: array length 0..5 (quick) / 0..7 (thorough) x offset in {absent, -1..8} x limit in "
            "{absent, -1..8} x reversed x {for with else, tablerow without cols, tablerow cols 0..4} x {no break, break at j, "
            "continue at j, break below if+case at j for every j <= length, break/continue on forloop.first, continue on "
            "forloop.last}; the body prints item|index|index0|rindex|rindex0|length|first|last; and the loop variable and forloop "
            "are printed after the loop; (1b) offset and limit at the integer boundary (2^63-1, 2^63-2, 2^62, 2^31, with absent, 0, 1, 2; alone and together, as literals and as variables) x length 0, 1, 3, 5 x reversed x {for, tablerow cols 2}; (2) offset and limit given as variables: length 0..4 x offset x limit x reversed x {for with else, tablerow cols 2}, no break/continue; (3) ranges (a..b) "
            "for all endpoint pairs in -3..6, literal and variable endpoints, x 5 modifier sets x {for, tablerow cols 2}; "
            "(4) 24 collection kinds ([]any, []int, [3]string, []string, empty, range, descending range, string-keyed maps, "
            "int-keyed map, MapSlice, IterationKeyedMap, nil, int, string, bool, float, drop of array, drop of nil, nil pointer, "
            "nested arrays) x 8 modifier sets x {for with/without else, tablerow with/without cols}; (4b) offset/limit/cols given as int (claimed), int64, float (2.0 and 1.5), string, nil, bool, uint8 (no claim, model comparison only); "
            "(5) 20000 / 200000 random nestings to depth 3 of for/tablerow over arrays, typed slices, ranges with variable endpoints, maps, MapSlice and "
            "keyed maps, with modifiers given as literals or variables in random textual order, conditionals, case, cycles "
            "(ungrouped and grouped, several tags per group), assigns, break/continue (plain, below unless+case, inside capture), "
            "inner loops shadowing the outer loop variable. Distinct non-trivial = distinct specs with non-empty output. (6) a fixed family of 300 renders on the real engine only (no model line): a loop over a map whose body also applies a REGISTERED append filter to the loop variable (into a variable nobody reads) must render what the body without it renders (5 maps x 5 loop heads x 3 bodies x 4 appends)",
    "trusted_base": COMMON_TB + ["the reference loop of harness/ref_prog.go (items, reverse, skip, take, forloop field formulas, "
                                 "break/continue, cycle counters, tablerow decoration) is the oracle; it does not use the Lean "
                                 "model or the library"],
    "assumptions": ["tablerow closes the cell of an iteration ended by break or continue and closes the row only at a row end or "
                    "the last selected item (so a break in mid-row leaves <tr> open): the reference follows the implementation here, "
                    "the property statement does not speak about break inside tablerow",
                    "offset, limit and cols must be Go ints (other kinds are a render error); negative offset/limit and cols <= 0 "
                    "mean absent"],
}

TEXT = {
    "text": ('Theorems: the items of a range (rangeItems: none when b < a, else a..b in order; a loop visits exactly them, in order, whatever their number: range_loop_any_size - the Go code iterates a range lazily without limit, and the only bound of the model, Cfg.budget (the largest b - a whose items the EXECUTABLE model materialises; default 100000, used by the driver; no counterpart in the code), is a parameter over which every theorem is universally quantified: for every range there is a budget, under every budget >= b - a the loop visits rangeItems a b (loopItems_range), and raising the budget never changes an answer that was given - for the items (budget_monotone_loopItems), for a loop node (budget_monotone_loop_node) and for a whole render through all nodes, captures and included files, together with the budget of the array conversion of a range (budget_monotone, budget_monotone_std, budget_monotone_runStd; Proofs.Budget: run_le)), the item lists of the other collections under every budget: arrays, typed slices and fixed arrays element by element in order (loopItems_slice, loopItems_array); a map as one [key, value] pair per entry in the order of values.SortedMapKeys, whatever order the map value holds its entries in (loopItems_map, loopItems_map_length; stated for a map with at most one key that is neither a boolean, a number nor a string, MapOrder.manyClass4 = false - the model answers `unmodelled` for the others, which the code orders by fmt.Sprint and then by their Go syntax; that the sorted order does not depend on the order of the entry list is proved in Proofs.MapOrder, audited under C02); nil nothing (loopItems_nil); selection = reverse, then skip '
              'offset, then take limit (select_spec), else clause exactly when nothing is selected, '
              'forloop.index/index0/rindex/rindex0/length/first/last by formula for every iteration, break/continue consumed by '
              'the innermost loop (iterate_consumes for for and tablerow; iterate_break, iterate_next for `for`), cycle counters per loop execution and group '
              '(cycleGet_set_same, cycleGet_fresh), tablerow row/cell decoration (tablerow_before/after). Whole-construct '
              'denotation (loop_denotation, for_denotation, tablerow_denotation; for a loop with at most one else clause): once the collection and the modifiers '
              'evaluate, the bytes written on a fault-free writer and the final state of a for/tablerow node equal the left fold '
              '(List.foldl of iterStep, a definition of Proofs/LoopLemmas.lean) over the selected items of the body run with the loop variable and forloop bound by the '
              'formulas (tablerow: between its cell decorations), cut at the first break, going on after continue, failures '
              'located at the loop tag, with forloop and the loop variable restored at the end; nothing selected and an else '
              'clause: that clause. From source bytes (Proofs.C11Source; clean item lists, any good delimiters, every value layer, any output layer that prints an int as its decimal text - the standard one does), for int64 a, b, every configuration whose budget is at least b - a (cfg.budget is arbitrary) and an identifier i other than forloop: for a <= b the source {% for i in (a..b) %}{{ i }}{% endfor %}, a and b in decimal, makes run return exactly the decimal numerals of a, a+1, ..., b concatenated (for_range_numerals_source; the arguments are parsed by the scanner and grammar model, parse_rangeArgs); for any a, b, with reversed and int64 literal offset:/limit: arguments (each optional), the numerals of selectItems reversed off lim [a..b] (for_range_mods_source, parse_rangeArgs_mods; for_range_source for any argument text that parses so); a loop variable named forloop is shadowed by the forloop record (for_var_named_forloop). Tie: the `loops` stream '
              '(exhaustive offset/limit/reversed/cols/break grid plus random nestings) answers every case (the fixed family with a registered append filter excepted: real engine only) by the model and the '
              'real engine, and the real output is compared byte for byte with an independent reference loop '
              '(harness/ref_prog.go).'),
    "design_ref": 'DESIGN.md 6 C11',
    "note": NOTE + ("No theorem carries a bound on the size of a range: the number 100000 is the default of Cfg.budget, which only the driver (the model binary the streams run against) uses - there a loop over a longer range is answered `unmodelled` (the loops stream generates no such range); the theorems are stated for every budget, and by budget_monotone a result obtained under one budget is the result under every larger one. The same holds for the second model-only number, the 10^6 of the array conversion of a range (C15; the value layer of a render is the parameter P, the standard one stdPrimsB n for every n). The order in which a map is visited is stated for maps with at most one key that is neither a boolean, a number nor a string (loopItems_map); a loop over a map with several such keys is answered `unmodelled`. The denotation theorems are stated for a loop with at most one else clause (the compiler accepts more, the model treats that case separately), after the collection and the modifiers have evaluated, on a writer that does not fail; iterate_break / iterate_next are stated for `for`, a break or continue inside tablerow is covered by loop_denotation / tablerow_denotation. The source-level theorems are about one shape, {% for i in (a..b) mods %}{{ i }}{% endfor %} with int64 literals, a clean item list (Clean, decidable, Proofs/E2ESpell.lean; the shapes outside it are listed under C19) and a loop variable other than forloop (needed: for_var_named_forloop). select_spec and tablerow_before/after restate the definitions of the model in readable form; that the model describes tags/iteration_tags.go is what the loops stream checks."),
    "technique": ('Lean 4 proof (list lemmas for selection; induction over the iteration of the render model; loop = left fold) + model/implementation '
              'correspondence + independent reference oracle'),
}
