from . import COMMON_TB, NOTE

PROP = {
    "modules": ["Proofs.C16"],
    "streams": [{"name": "strf"}],
    "rule": "strf: every string of length<=3 (quick) / 4 (thorough) over {a B space newline e-acute emoji < & \" % + ,} x every string "
            "filter x integers -3..12 x every string argument of length<=2 over the same alphabet (replace / replace_first: the "
            "replacement is one of '', e-acute, 'a&' or the pattern itself, and for receivers of four characters the pattern has "
            "length<=1; truncate / truncatewords: the default ellipsis and four given ones); every rune of the modelled case "
            "table; non-string receivers; random strings up to 200 bytes (raw bytes, all-plane UTF-8, entity/tag/escape-dense) with "
            "boundary integers up to MaxInt64/MinInt64; a case is non-trivial when the filter changes its receiver; distinct by case line",
    "trusted_base": COMMON_TB + [
        "Go's unicode case tables and html entity table are modelled only on the tables of Liquid/Unicode.lean and "
        "StrF.entityLookup; outside them the model answers unmodelled (counted) and only the oracle checks the real code",
    ],
    "assumptions": [
        "the models of Liquid/Filters/Str.lean describe filters/standard_filters.go after the fix patches D2, D3, D16 and "
        "float-receiver-text (cfb5cad): checked by the strf stream on every run",
        "float receivers of string filters are outside the model of the strf ops (StrF.recvToString answers none: unmodelled); "
        "only the receiver-to-text oracle of the strf stream checks them on the real code",
        "the generic argument conversion of values.Call (receiver to text, defaults) is modelled by StrF.recvToString and the "
        "wrappers' documented argument shapes; its full model belongs to the call glue",
    ],
}

TEXT = {
    "text": "Theorems for every byte string (no length bound): append/prepend are concatenation and remove is replace with the "
            "empty string by definition of the model (append_spec, prepend_spec, remove_spec: rfl); upcase/downcase are idempotent and "
            "keep the character count, and capitalize upper-cases the first character only, whenever the model answers (every rune "
            "concerned in the modelled case table: the _partial theorems, hypothesis `= some t`); "
            "strip/lstrip/rstrip remove exactly a prefix/suffix of white-space characters and leave none; replace(s,p,p)=s, "
            "remove never grows; split inverts join on a non-empty list of non-empty pieces that share no byte with a non-empty "
            "separator other than ' ' (for ' ': pieces free of ASCII white space), and join inverts split when the separator is not ' ' "
            "and is empty or not a suffix of the text (split drops trailing empty pieces); "
            "size/slice/truncate count characters, slice and truncate never lengthen a string that fits, truncatewords leaves a text "
            "of at most n words unchanged; escape leaves no raw < > ' \" and every & starts an entity, unescape inverts escape, "
            "escape_once is idempotent whenever it is modelled (escape_once_idem_partial: no named entity outside amp lt gt quot apos); "
            "url_decode inverts url_encode; valid UTF-8 receiver and arguments give valid UTF-8 for every filter but url_decode "
            "(url_decode_not_preserving); nil, boolean, integer and string receivers convert to the text they print as "
            "(recv_to_string: rfl on StrF.recvToString; floats are outside the model). The models are compared with the "
            "real filters (run through the expression evaluator) on exhaustive small strings and random inputs each run, and an "
            "independent oracle checks every clause on the real results.",
    "design_ref": "DESIGN.md 6 C16",
    "note": NOTE + "Case mapping outside ASCII/Latin-1/punctuation/emoji and named HTML entities other than amp lt gt quot apos are "
            "outside the model (unmodelled, counted), and so are float receivers of string filters (StrF.recvToString answers none); there the "
            "oracle alone checks the real code (for float receivers: the receiver-to-text oracle).",
    "technique": "Lean 4 proof (induction over byte strings / runes) + model/implementation correspondence + implementation-side oracle",
}
