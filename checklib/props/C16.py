from . import COMMON_TB, NOTE

PROP = {
    "modules": ["Proofs.C16", "Proofs.CaseLemmas"],
    "streams": [{"name": "strf"}],
    "rule": "strf: every string of length<=3 (quick) / 4 (thorough) over {a B space newline e-acute emoji < & \" % + ,} x every string "
            "filter x integers -3..12 x every string argument of length<=2 over the same alphabet (replace / replace_first: the "
            "replacement is one of '', e-acute, 'a&' or the pattern itself, and for receivers of four characters the pattern has "
            "length<=1; truncate / truncatewords: the default ellipsis and four given ones); upcase, downcase and capitalize on "
            "single runes, alone and inside a string next to ASCII letters and invalid bytes: every rune U+0000..U+10FFFF (surrogates left out) and every block "
            "of 256 consecutive runes as one string (thorough), or (quick) a stratified sample computed from unicode.ToUpper/ToLower/ToTitle "
            "themselves - every rune one of them moves and its images, two runes either side of every point where the distance to the "
            "image changes, the ends of the planes and of the surrogate gap, the awkward runes (U+00B5 U+00DF U+00FF U+0130 U+0131 "
            "U+01C4..U+01CC U+023A U+023E U+1E9E U+2126 U+212A U+212B ...) and 2000 random others; non-string receivers; random strings up to 200 bytes (raw bytes, all-plane UTF-8, entity/tag/escape-dense) with "
            "boundary integers up to MaxInt64/MinInt64; a case is non-trivial when the filter changes its receiver; distinct by case line",
    "trusted_base": COMMON_TB + [
        "Go's html entity table is modelled only on StrF.entityLookup (amp lt gt quot apos and numeric references); outside it the "
        "model answers unmodelled (counted) and only the oracle checks the real code",
        "the case mapping is the simple mapping of the Go standard library of the toolchain in use (Unicode 15.0.0 with go1.23): it is "
        "not part of the repository under verification; a build with another toolchain has the tables of that toolchain, and the "
        "theorems are about whatever tables translator T6 regenerated on the run",
    ],
    "assumptions": [
        "the models of Liquid/Filters/Str.lean describe filters/standard_filters.go after the fix patches D2, D3, D16 and "
        "float-receiver-text (cfb5cad): checked by the strf stream on every run",
        "float receivers of string filters - and every receiver that is not nil, a boolean, an integer or a string (arrays, maps, drops, "
        "times ...) - are outside the model of the strf ops (StrF.recvToString answers none: unmodelled); "
        "only the receiver-to-text oracle of the strf stream checks float receivers on the real code, for the others (the arrays of the "
        "stream's universe) it checks only that the real code does not panic, and size of an array",
        "the generic argument conversion of values.Call (receiver to text, defaults) is modelled by StrF.recvToString and the "
        "wrappers' documented argument shapes; its full model belongs to the call glue",
    ],
}

TEXT = {
    "text": "Theorems for every byte string (no length bound): append/prepend are concatenation and remove is replace with the "
            "empty string by definition of the model (append_spec, prepend_spec, remove_spec: rfl); upcase, downcase and capitalize answer "
            "on every byte string - every rune U+0000..U+10FFFF is looked up in the range tables of unicode.ToUpper / unicode.ToLower "
            "that translator T6 regenerates from the toolchain, invalid bytes become U+FFFD (upcase_total, downcase_total; "
            "capitalize_total for a non-empty string, whose first character alone is decoded, capitalize_nil for the empty one); upcase and downcase are idempotent on every string (upcase_idem, downcase_idem: Greek, Cyrillic, "
            "Latin Extended, Armenian, Georgian, Cherokee, Deseret, fullwidth forms, U+00B5 -> U+039C, U+00FF -> U+0178, dotted and "
            "dotless i, the digraphs U+01C4..U+01CC, U+1E9E, Ohm, Kelvin and Angstrom signs included), keep the number of characters "
            "(case_len) but not the number of bytes (case_changes_byte_length: U+023A, two bytes, lower-cases to U+2C65, three bytes), "
            "map rune by rune (upcase_runes) to scalar values only (case_images_scalar); capitalize upper-cases - upper case, not title "
            "case - the first character only (capitalize_spec, for a non-empty string); upcase after downcase after upcase is upcase rune-wise except on six "
            "upper-case runes whose lower-case partner has another upper-case form, U+0130 U+03F4 U+1E9E U+2126 U+212A U+212B "
            "(upper_lower_upper_except, and upper_lower_upper_fails: on each of the six the law does fail; the list is regenerated "
            "and checked to be exact); "
            "strip/lstrip/rstrip remove exactly a prefix/suffix of white-space characters and leave none; replace(s,p,p)=s, "
            "remove never grows; split inverts join on a non-empty list of non-empty pieces that share no byte with a non-empty "
            "separator other than ' ' (for ' ': pieces free of ASCII white space), and join inverts split when the separator is not ' ' "
            "and is empty or not a suffix of the text (split drops trailing empty pieces); "
            "size/slice/truncate count characters, slice and truncate never lengthen a string that fits, truncatewords leaves a text "
            "of at most n words unchanged; escape leaves no raw < > ' \" and every & starts an entity, unescape inverts escape, "
            "escape_once is idempotent whenever it is modelled (escape_once_idem_partial: no named entity outside amp lt gt quot apos; there is no unconditional version), and unconditionally "
            "leaves the output of escape unchanged (escape_once_escape); "
            "url_decode inverts url_encode; valid UTF-8 receiver and arguments give valid UTF-8 for every filter but url_decode "
            "(url_decode_not_preserving); nil, boolean, integer and string receivers convert to the text they print as "
            "(recv_to_string: rfl on StrF.recvToString; floats are outside the model). The models are compared with the "
            "real filters (run through the expression evaluator) on exhaustive small strings and random inputs each run, and an "
            "independent oracle checks every clause on the real results.",
    "design_ref": "DESIGN.md 6 C16",
    "note": NOTE + "Named HTML entities other than amp lt gt quot apos are "
            "outside the model (unmodelled, counted), and so are float receivers of string filters (StrF.recvToString answers none); there the "
            "oracle alone checks the real code (for float receivers: the receiver-to-text oracle). The case mapping is Go's SIMPLE mapping, "
            "rune to rune, as the code uses it: no special casing (upcase of U+00DF stays U+00DF, not SS), no locale (Turkish i), "
            "no title case in capitalize; the theorems say what the filters do with it, not that it is the case mapping a reader expects.",
    "technique": "Lean 4 proof (induction over byte strings / runes; for the case mapping interval checkers over the range tables, proved "
                 "sound for every table and evaluated by the kernel on the tables translator T6 regenerates from the toolchain on every run) "
                 "+ model/implementation correspondence + implementation-side oracle",
}
