from . import COMMON_TB, NOTE

PROP = {
    "modules": ["Proofs.C16"],
    "streams": [{"name": "strf"}],
    "rule": "strf: every string of length<=3 (quick) / 4 (thorough) over {a B space newline e-acute emoji < & \" % + ,} x every string "
            "filter x integers -3..12 x every string argument of length<=2 over the same alphabet; every rune of the modelled case "
            "table; non-string receivers; random strings up to 200 bytes (raw bytes, all-plane UTF-8, entity/tag/escape-dense) with "
            "boundary integers up to MaxInt64/MinInt64; a case is non-trivial when the filter changes its receiver; distinct by case line",
    "trusted_base": COMMON_TB + [
        "Go's unicode case tables and html entity table are modelled only on the tables of Liquid/Unicode.lean and "
        "StrF.entityLookup; outside them the model answers unmodelled (counted) and only the oracle checks the real code",
    ],
    "assumptions": [
        "the models of Liquid/Filters/Str.lean describe filters/standard_filters.go after the fix patches D2, D3, D16: "
        "checked by the strf stream on every run",
        "the generic argument conversion of values.Call (receiver to text, defaults) is modelled by StrF.recvToString and the "
        "wrappers' documented argument shapes; its full model belongs to the call glue",
    ],
}

TEXT = {
    "text": "Theorems for every byte string (no length bound): append/prepend are concatenation; upcase/downcase are idempotent and "
            "keep the character count on the modelled case table; capitalize upper-cases the first character only; "
            "strip/lstrip/rstrip remove exactly a prefix/suffix of white-space characters and leave none; replace(s,p,p)=s, "
            "remove=replace with the empty string and never grows; split and join are mutually inverse on separator-free pieces; "
            "size/slice/truncate count characters, slice and truncate never lengthen a string that fits, truncatewords leaves a text "
            "of at most n words unchanged; escape leaves no raw < > ' \" and every & starts an entity, unescape inverts escape, "
            "escape_once is idempotent; url_decode inverts url_encode; valid UTF-8 is preserved. The models are compared with the "
            "real filters (run through the expression evaluator) on exhaustive small strings and random inputs each run, and an "
            "independent oracle checks every clause on the real results.",
    "design_ref": "DESIGN.md 6 C16",
    "note": NOTE + "Case mapping outside ASCII/Latin-1/punctuation/emoji and named HTML entities other than amp lt gt quot apos are "
            "outside the model (unmodelled, counted); there the oracle alone checks the real code.",
    "technique": "Lean 4 proof (induction over byte strings / runes) + model/implementation correspondence + implementation-side oracle",
}
