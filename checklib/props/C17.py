from . import COMMON_TB, NOTE

PROP = {
    "modules": ["Proofs.C17"],
    "streams": [{"name": "numf"}, {"name": "filter"}, {"name": "conv", "shards": 8}],
    # the json/inspect/type and date cases of the filter stream report a panic as C01 and a dependence on map insertion order as C02
    "also": ["C01", "C02"],
    "rule": "numf: every pair from {-12..12, +-2^53, +-(2^53-1), 10^15, k/4 (k=-12..12), \"3\", \"2.5\", \"-1\", \" 1\", \"x\", \"\", nil, true} "
            "x every numeric filter (exhaustive), every integer kind of divisor/zero, whole results around fmt's exponent "
            "thresholds, random pipelines of 1..6 numeric filters; filter: every value of the boundary universe as receiver x "
            "11 filters x 19 arguments, arity and unknown-filter cases, random calls; json / inspect / type on every value of the "
            "universe, on a fixed family of encoding/json edge cases (strings with < > & quotes backslashes control characters "
            "U+2028/9 and every kind of invalid UTF-8; floats around the 1e-6 / 1e21 format switches in both widths; integers at "
            "the width boundaries; []byte of every length mod 3; nested and empty containers; maps with integer keys, keys that "
            "need escaping, typed values; map types json.Marshal rejects; ordered maps, keyed maps, structs, ranges, drops, "
            "pointers, times around the year 0 / 9999 limits) and on random value trees with random strings and floats, each with an oracle on the real result "
            "(the text parses back with encoding/json to the logical value of the receiver; identical for 4 insertion orders of "
            "every map); date / time printing / ParseDate: every conversion character (a-z A-Z + %) on a universe of 243 instants (epoch, "
            "negative instants, leap days, century and 400-year rules, year boundaries, 1999-12-31 23:59:59, 2038, the years -1 / 0 / 1 / "
            "9999 / 10000, midnight and noon, every weekday and month, ISO-week corner years, the 12-hour clock, |u| up to 2^62 + 1), conversion x flag "
            "(none - _ 0 ^ # : :: :::) x width (none 1 3 6 12) x modifier (none E) on five instants, a fixed family of 232 format "
            "strings (regexp corner cases, widths around the model bound 1024 and fmt's NOVERB bound) and of receivers (nil, 91 strings: "
            "the five all-digit layouts with fields in and out of range, near misses, the other layouts; 1014 strings on how a value can "
            "begin: weekday and month names in any case, two-digit day, four-digit year, and their near misses; every value of the universe), "
            "random formats x random instants, random all-digit strings, {{ t }} / fmt.Sprint / Convert to string of times alone and "
            "inside containers, Convert of strings to time, each with an oracle on the real result (%Y-%m-%d %H:%M:%S, {{ t }} and "
            "fmt.Sprint parse back with time.Parse to the instant; %s is the unix time; %j %m %d %H %M %S %u %w %V %U %W %I in range; the "
            "default format equals time.Format; an all-digit string denotes the instant time.Date computes or is a TypeError); "
            "conv: values.Convert to the 7 parameter "
            "types, fmt.Sprint and {{ x }} on the universe, random value trees and random float64/float32 bit patterns; a case "
            "is non-trivial when the real code returns a value (not a TypeError); distinct by case line",
    "trusted_base": COMMON_TB + [
        "IEEE-754: Go's float64 + - * / return the exact result rounded to nearest-even (roundF64), math.Floor/Ceil/Abs/Mod are "
        "exact, math.Pow10 multiplies/divides correctly rounded table constants, strconv.ParseFloat and the shortest %v formatting "
        "are correctly rounded -- modelled on exact rationals and sampled by the numf/filter/conv streams on every run",
    ],
    "assumptions": [
        "Liquid/Filters/Num.lean, Liquid/Call.lean, Liquid/Convert.lean, Liquid/Sprint.lean describe filters/standard_filters.go, expressions/filters.go, "
        "values/call.go, values/convert.go, fmt.Sprint and render.writeObject: checked by the numf, filter and conv streams on every run",
        "Liquid/Filters/Json.lean describes the filters json, inspect, type, i.e. encoding/json's Marshal (Go 1.23, escapeHTML on) and fmt's %T on "
        "the value universe, including the Go types the harness builds for structs (reflect.StructOf, fields F0, F1, ... without json tags) "
        "and drops (a struct with one unexported field): checked by the filter stream on every run (and by robust, render, determ on whole templates)",
        "json / inspect outside the model (counted as unmodelled): an empty []any at the top level (a nil slice prints null, an empty one [], and "
        "compact, map, uniq return nil slices; the value universe does not distinguish them), inspect of a value json.Marshal rejects (%#v); "
        "type of structs, drops and nil pointers (Go type names that are not part of the value); the complete list is the `unmodelled` answers of "
        "Liquid/Filters/Json.lean (also: a map key that is neither a string nor an integer, a float that is not a value of its format, a time "
        "outside the range of the calendar computation)",
        "outside the model (counted as unmodelled, not compared): results Go signs as -0, overflow to +-Inf, NaN (round with |places| > 308), "
        "float->int conversions outside int64, ParseFloat's inf/nan/hex/underscore spellings, pointers in fmt",
        "Liquid/Time.lean, Liquid/Filters/Date.lean and the time cases of Sprint.lean / Convert.lean describe time.Time values in UTC with "
        "whole seconds (the harness realises a time binding as time.Unix(u, 0).UTC()): the proleptic Gregorian calendar of package time "
        "(Go 1.23), time.Format for the layouts of writeObject and String(), tuesday.Strftime v1.0.3 (regexp, conversions, flags, widths, "
        "fmt's %d padding) and values.ParseDate on the five all-digit layouts, with time.Local = UTC: the harness sets time.Local = time.UTC "
        "at start-up and check runs it under TZ=UTC; checked by the filter stream on every run (and by robust, render, determ on whole templates)",
        "date / times outside the model (counted as unmodelled): a string receiver that is neither one of the five all-digit layouts nor "
        "rejected by every layout at its first field (the other 20 layouts of ParseDate, and `now`, which reads the clock), instants beyond "
        "+-2^62 seconds (Go's int64/uint64 arithmetic wraps near the ends of the range), strftime widths above 1024 (from 10 000 010 on fmt "
        "prints %!(NOVERB)), fmt.Sprint of a time below an unexported struct field (a drop inside a container: printed as the struct {wall ext loc})",
    ],
}

TEXT = {
    "text": "Theorems about the filter bodies on float64 arguments holding arbitrary rationals a, b (no bounds): plus/minus are the "
            "exact sum/difference whenever that is a float64 (plus_spec, minus_spec) and otherwise its IEEE rounding, whenever roundF64 "
            "gives one, i.e. short of overflow (plus_rounds, minus_rounds); times is the exact product whenever that is a float64 and not Go's -0 (times_spec; no rounding theorem "
            "for times); divided_by with a non-zero integer divisor of any integer kind is the truncated quotient of the truncated "
            "receiver when that truncation fits int64 (divided_by_int, with the wrap of MinInt64 / -1; divided_by_int_exact), with "
            "a non-zero float divisor the exact quotient when that is a float64 and not -0 (divided_by_flt) or its non-zero IEEE "
            "rounding (divided_by_flt_rounds); a zero divisor makes the body of divided_by (integer zero of any kind, or float zero) "
            "and of modulo (float zero) return 'division by zero' for every receiver (divided_by_zero_err, modulo_zero_err), and "
            "end to end through applyFilter an integer or float zero does so for a float receiver of either width "
            "(divided_by_zero_filter, modulo_zero_filter; a numeric string receiver through numeric_string_recv; integer receivers "
            "by the numf/filter streams only); modulo is a - b*trunc(a/b) "
            "when that is a float64 and not -0 (modulo_spec), and that remainder has the sign of the dividend and |r| < |b| "
            "(modulo_sign); abs (abs_spec); floor/ceil return Go ints n with n <= x < n+1 / n-1 < x <= n when n fits int64 "
            "(floor_spec, ceil_spec); round: p for 0 <= p <= 22 (and without argument) returns floor(x*10^p + 1/2)/10^p whenever "
            "x*10^p, x*10^p + 1/2 and that value are all exactly float64 (round_spec, round_default), and this ideal value is within "
            "half a unit of the p-th place of x (round_err, about the ideal value, not about the filter) - for other p and inexact "
            "intermediates only the step-wise rounded model is compared with the code; plus b then minus b, and times b then "
            "divided_by float b (b != 0), give a back whenever a and the intermediate a+b / a*b are float64 (and not -0) (plus_minus, "
            "times_div: each a pair of single-filter equations); for all nine filters a string receiver that spells a decimal number "
            "behaves as the float64 nearest to it (numeric_string_recv, not for a spelling of -0) and a string receiver that does "
            "not is a TypeError or, with too many arguments, the arity FilterError (non_numeric_err); a non-numeric string operand "
            "of plus/minus/times/modulo with a float receiver is a TypeError (non_numeric_operand_err), while ANY non-number divisor "
            "of divided_by - also the string \"3\" - makes the body return the error 'invalid divisor' (divided_by_non_number, about the body; "
            "ApplyFilter wraps a body's error into a FilterError); a whole float "
            "below 10^21, whenever {{ x }} prints it, is printed as plain digits (whole_prints_int, whole_prints_no_point). Times "
            "(Proofs.DateFilter; a time binding is time.Unix(u, 0).UTC(), the statements are about that model): day number -> civil date "
            "-> day number is the identity on all integers and civil date -> day number -> civil date on every valid proleptic Gregorian "
            "date (cal_days_civil_days, cal_civil_days_civil); month, day, hour, minute, second, weekday, day of the year and ISO week "
            "of every instant are in range and date and clock determine the instant (cal_civil_ranges, cal_instant_fields, "
            "cal_yearday_isoweek_range); x | date never panics for any receiver and arguments, nor do {{ t }}, fmt.Sprint(t) and the "
            "conversions between times and strings (date_filter_noPanic, time_values_noPanic), and the model of Strftime returns a text "
            "or the unmodelled marker, never an error (strftime_ok_or_unmodelled); for an instant within +-2^62 s and a string format, "
            "t | date: f is Strftime(f, t) (date_filter_eq) and t | date is t | date: '%a, %b %d, %y' (date_default_format); for an "
            "instant in the years 0..9999 '%Y-%m-%d' prints dddd-dd-dd whose digits spell year, month and day and which ParseDate reads as "
            "the midnight of that day (strftime_ymd_shape), '%Y-%m-%d %H:%M:%S' prints 19 bytes that ParseDate reads back as the instant "
            "(strftime_dateTime_parse) and that {{ t }} prints before ' +0000' (writeObject_time_eq_strftime, years 0..9999 only: on negative "
            "years time.Format and fmt differ); a ten-byte string that "
            "ParseDate accepts is printed back unchanged by '%Y-%m-%d' (parse_then_strftime_ymd); '%j' is the day of the year, 1..366 "
            "(strftime_yday); '%s' is fmt's %02d of the unix time, equal to its decimal text outside 0..9 and, for an instant inside int64, read back by ParseInt "
            "(strftime_unix); '%%' is '%' (strftime_percent). An "
            "independent big.Rat oracle checks exactness, required errors and plain printing on the real code for all universe pairs "
            "and random pipelines wherever operands, intermediates and result are exactly float64 (round: 0 <= p <= 22 only; no "
            "expectation otherwise); the model is compared with the real code on every case.",
    "design_ref": "DESIGN.md 6 C17",
    "note": NOTE + "Every exactness theorem carries a Representable hypothesis (the exact result is a float64), the integer results an "
            "int64-range hypothesis, and results Go signs -0 are excluded; round is characterised only for 0 <= p <= 22 with exact "
            "intermediates; times has no general rounding theorem; the end-to-end zero-divisor theorems fix a float receiver. "
            "The date theorems are about the model's calendar: UTC, whole seconds, instants within +-2^62 s; ParseDate is modelled on five of "
            "its 25 layouts (a string that may start another layout, and `now`, are unmodelled), strftime widths above 1024 are unmodelled, "
            "and the shape / round-trip theorems for %Y-%m-%d and %Y-%m-%d %H:%M:%S hold for the years 0..9999 only. "
            "Defects found and repaired: modulo by zero printed NaN (D17), divided_by rejected uint/uint64 divisors (D14), whole "
            "results from 10^6 on were printed in exponent form such as 1.234567e+06 (D23, fmt %v switches at exponent 6, not 21).",
    "technique": "Lean 4 proof (exact rational arithmetic with an explicit float64 rounding function) + model/implementation "
                 "correspondence + independent exact-arithmetic oracle on the implementation",
}
