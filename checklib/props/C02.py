from . import COMMON_TB, NOTE

PROP = {
    "level": "exploration",
    "modules": [],
    "streams": [{"name": "determ"}],
    "rule": "determ: generated (template, logical environment) pairs, 65 % of them map-heavy (string-keyed maps of 2..12 "
            "entries consumed by for, tablerow, first, last, join, map, sort, size, {{ m }}, concat, uniq, json ...); for "
            "each pair the Go maps (bindings map included) are built in 4 insertion orders; rendered 5x on one parsed "
            "template with one environment object, with the 3 other constructions, on 2 fresh parses, on 2 fresh "
            "engines, and through Render, RenderString, FRender, ParseAndRender, ParseAndRenderString, ParseAndFRender; "
            "environment-free templates are also run through cmd/liquid built from the working tree. All results "
            "(bytes, or error kind/line/path/cause and text) must be identical. Non-trivial = renders non-empty output.",
    "trusted_base": COMMON_TB,
    "assumptions": ["oracle only (no model yet): the Lean driver answers `unmodelled` for `determ` lines",
                    "fresh processes are covered through the cmd/liquid runs only; the clock (date 'now') is never generated"],
}

TEXT = {
    "text": "Exploration of the real code: every variant of rendering one (source, bindings value, configuration) - repeated "
            "renders, rebuilt maps, fresh parses, fresh engines, the six entry points, the command-line tool - must give the "
            "same bytes or the same error; any two differing results are reported with the input.",
    "design_ref": "DESIGN.md 6 C02",
    "note": NOTE + "No theorem is claimed for C02 yet (level exploration).",
    "technique": "metamorphic testing of the implementation over generated templates and permuted map constructions",
}
