from . import COMMON_TB, NOTE

PROP = {
    "level": "proof",
    "modules": [],
    "streams": [{"name": "determ"}],
    "rule": "determ: generated (template, logical environment) pairs, 65 % of them map-heavy (string-keyed maps of 2..12 "
            "entries consumed by for, tablerow, first, last, join, map, sort, size, {{ m }}, concat, uniq, json ...; a fixed family of "
            "maps with closely spaced integer keys, shared-prefix string keys and three levels of nested maps under every iterating "
            "construct and under json / inspect); for "
            "each pair the Go maps (bindings map included) are built in 4 insertion orders; rendered 5x on one parsed "
            "template with one environment object, with the 3 other constructions, on 2 fresh parses, on 2 fresh "
            "engines, and through Render, RenderString, FRender, ParseAndRender, ParseAndRenderString, ParseAndFRender; "
            "environment-free templates are also run through cmd/liquid built from the working tree. All results "
            "(bytes, or error kind/line/path/cause and text) must be identical. Non-trivial = renders non-empty output.",
    "trusted_base": COMMON_TB,
    "assumptions": ["fresh processes are covered through the cmd/liquid runs only; the clock (date 'now') is never generated"],
}

TEXT = {
    "text": ('In the model a render is a function of (configuration, source, start line, bindings value, file layout): repeated '
              'renders, fresh parses and fresh engines are the same application (reparse_same), and the six API entry points '
              'reduce to it (entrypoints_agree). The one source of nondeterminism in the real code, Go map iteration order, is '
              'removed by sorting: sort_perm_invariant / map_order_independent prove that sorting any two permutations of the '
              'same distinct-key entries gives the same list, for every list; the JSON printers (json, inspect) sort the resolved '
              'key texts themselves: jsonObject_perm / json_map_order_independent / json_keyedMap_order_independent prove that '
              'json.Marshal of a map gives the same text for every permutation of its entries. Tie: every `determ` case line is answered by the '
              'model and compared with the real engine; on the real code each case is rendered 5x on one template, with maps '
              'rebuilt in 4 insertion orders, on fresh parses and engines, through all six entry points and through cmd/liquid, '
              'and all results must be identical.'),
    "design_ref": 'DESIGN.md 6 C02',
    "note": NOTE + ("What the model cannot exhibit is Go's randomised map iteration itself: that every place where the code iterates a "
              'map sorts first is established by the metamorphic runs (including the int-key and float-key families), not by a '
              "theorem. The clock (date: 'now') is outside the property and never generated."),
    "technique": ('Lean 4 proof (functional determinism of the model; permutation-invariance of the sorted map order) + '
              'model/implementation correspondence + metamorphic runs of the implementation over permuted map constructions and '
              'entry points'),
}
