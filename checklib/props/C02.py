from . import COMMON_TB, NOTE

PROP = {
    "level": "proof",
    "modules": [],
    "streams": [{"name": "determ"}],
    "rule": "determ: generated (template, logical environment) pairs, 65 % of them map-heavy (string-keyed maps of 2..12 "
            "entries consumed by for, tablerow, first, last, join, map, sort, size, {{ m }}, concat, uniq, json ...; a fixed family of "
            "maps with closely spaced integer keys, shared-prefix string keys and three levels of nested maps under every iterating "
            "construct and under json / inspect); for "
            "each pair the Go maps (bindings map included) are built in 4 insertion orders; rendered 5x on one parsed "
            "template with one environment object, with the 3 other constructions, on 2 fresh parses, on 2 fresh "
            "engines, and through Render, RenderString, FRender, ParseAndRender, ParseAndRenderString, ParseAndFRender "
            "(the three ParseAnd* calls cannot name a source path and are left out for the about 10 % of the cases that carry an "
            "include layout); "
            "environment-free templates are also run through cmd/liquid built from the working tree. All results "
            "(bytes, or error kind/line/path/cause and text) must be identical. Non-trivial = renders non-empty output.",
    "trusted_base": COMMON_TB,
    "assumptions": ["fresh processes are covered through the cmd/liquid runs only; the clock (date 'now') is never generated"],
}

TEXT = {
    "text": ('In the model a render is a pure function `run` of (configuration, source, start line, bindings value, file layout): '
              'it re-parses the source on every call and has no engine, template or process state, so "repeated renders, fresh '
              'parses and fresh engines agree" holds by construction and is not evidence about the code (reparse_same is x = x, '
              'by rfl); entrypoints_agree (also by rfl) says that a model of ParseAndRender - compile, then Render of the tree - '
              'unfolds to `run`; the other entry points have no model of their own, their agreement is checked by `determ` only. '
              'Theorems with content: sort_perm_invariant / map_order_independent - sorting any two permutations of the '
              'same distinct-key entries gives the same list, for every list of string-keyed entries (the order '
              'values.SortedMapKeys uses); they are about the function sortedEntries, which `run` does not call: the model receives '
              'maps already in key order (the codec keeps them so) and iterates them as given, so no theorem says that `run` is '
              'invariant under a permutation of a map\'s entries. The JSON printers (json, inspect) do sort inside the model: '
              'jsonObject_perm / json_map_order_independent / json_keyedMap_order_independent prove that '
              'whenever json.Marshal of a map succeeds and the key texts are distinct, every permutation of its entries marshals to '
              'the same text (nothing is stated for a marshal that fails or is unmodelled). Tie: every `determ` case line is answered by the '
              'model and compared with the real engine; on the real code each case is rendered 5x on one template, with maps '
              'rebuilt in 4 insertion orders, on fresh parses and engines, through the six entry points (the three ParseAnd* ones '
              'only for cases without includes) and through cmd/liquid, '
              'and all results must be identical.'),
    "design_ref": 'DESIGN.md 6 C02',
    "note": NOTE + ("What the model cannot exhibit is Go's randomised map iteration itself: that every place where the code iterates a "
              'map sorts first is established by the metamorphic runs (string-keyed maps and the int-key families; the only '
              'float-keyed map generated has one entry), not by a '
              'theorem; nor is there a theorem about parsed templates, engines or entry points as objects with state - the '
              "metamorphic runs carry that. The clock (date: 'now') is outside the property and never generated."),
    "technique": ('Lean 4 proof (permutation-invariance of the sorted map order and of the JSON object text; determinism across '
              'renders, parses and engines is the purity of the model, true by construction) + '
              'model/implementation correspondence + metamorphic runs of the implementation over permuted map constructions and '
              'entry points'),
}
