from . import COMMON_TB, NOTE

PROP = {
    "level": "proof",
    "modules": [],
    "streams": [{"name": "determ"}],
    "rule": "determ: generated (template, logical environment) pairs, 65 % of them map-heavy (string-keyed maps of 2..12 "
            "entries consumed by for, tablerow, first, last, join, map, sort, size, {{ m }}, concat, uniq, json ...; a fixed family of "
            "maps with closely spaced integer keys, shared-prefix string keys and three levels of nested maps under every iterating "
            "construct and under json / inspect, and two map[any]any with keys equal by value and different in type); half of the "
            "generated environments and every fixed-family map again are sent with the entries of every map in a pseudo-random order "
            "(the model sorts where the code sorts); for "
            "each pair the Go maps (bindings map included) are built in 4 insertion orders; rendered 5x on one parsed "
            "template with one environment object, with the 3 other constructions, twice more after the same parsed template was "
            "rendered with other bindings, on 2 fresh parses, on 2 fresh "
            "engines, and through Render, RenderString, FRender, ParseAndRender, ParseAndRenderString, ParseAndFRender "
            "(the three ParseAnd* calls cannot name a source path and are left out for the about 10 % of the cases that carry an "
            "include layout); "
            "environment-free templates are also run through cmd/liquid built from the working tree. All results "
            "(bytes, or error kind/line/path/cause and text) must be identical. Two implementation-only families without case lines "
            "(shard 0): struct types that share a name, rendered in sequence in one process, against twins of a unique name; four maps "
            "keyed by arrays or structs with different keys that print alike x 6 templates x 60 renders on fresh engines. "
            "Non-trivial = renders non-empty output.",
    "trusted_base": COMMON_TB,
    "assumptions": ["fresh processes are covered through the cmd/liquid runs only; the clock (date 'now') is never generated"],
}

TEXT = {
    "text": ('In the model a render is a pure function `run` of (configuration, source, start line, bindings value, file layout): '
              'it re-parses the source on every call and has no engine, template or process state, so "repeated renders, fresh '
              'parses and fresh engines agree" holds by construction and is not evidence about the code (reparse_same is x = x, '
              'by rfl); entrypoints_agree (also by rfl) says that a model of ParseAndRender - compile, then Render of the tree - '
              'unfolds to `run`; the other entry points have no model of their own, their agreement is checked by `determ` only. '
              'Theorems with content, about Go\'s random map iteration order. The model holds a map as a LIST of entries in the order '
              'of the case line (no order is assumed) and every place of the model whose result could depend on the order in which the entries are visited sorts first, '
              'as the two such places of the code - makeIterator of for / tablerow and Convert of a map to []any - call values.SortedMapKeys '
              '(an IterationKeyedMap is iterated through its keys after sort.Strings - sortedFields in the model - and ParentTags sorts the names it collects for an error message; '
              'fmt.Sprint and json.Marshal sort the keys themselves; equalMaps / eqItems are conjunctions over all entries; the other audited sites copy every entry into a fresh map: T5 below): '
              'Liquid/MapOrder.lean transcribes keyClass / valueLess / numberLess / keyTypeName / keyLess of '
              'values/sort.go clause by clause, except the last clause of valueLess (keys of class 4, not evaluated); sortedEntries is the stable (insertion) sort by keyLess on the key, and loopItems '
              '(for / tablerow over a map) and Convert of a map to []any (the receiver of every array filter) call it; a map with two '
              'or more keys that are neither booleans, numbers nor strings (class 4; ordered in Go by fmt.Sprint and, since 08ac245 + 7d98ddf, when they print alike by keySyntax) is `unmodelled`. '
              'Proofs/MapOrder.lean, for keys that are booleans, numbers (integers inside the range of their Go type) or strings and '
              'pairwise distinct as Go map keys - different dynamic type or different value, as two keys of one Go map always are '
              '(KeysOK): keyLess_irrefl, keyLess_trans, keyLess_total - keyLess is a strict total order (keyLess_total is the statement '
              'that was false before the repair 6d9b1b2: 1, 1.0 and int64(1) were incomparable); sortedEntries_perm - every '
              'permutation of the entries sorts to the same list; the sites: loopItems_map_perm (the items a for / tablerow loop '
              'visits), convert_map_perm (the array an array filter receives), applyFilter_map_perm and first_map_perm / '
              'last_map_perm / join_map_perm / size_map_perm. sort_perm_invariant / map_order_independent are the earlier statement '
              'for string keys and mergeSort. Whole render (Proofs/C02.lean over Proofs/MapPerm*.lean): MP a b - b is a with the entry '
              'lists of maps permuted at any depth (inductive on GoVal; maps with KeysOK keys of the map\'s key type, KeysTyped; ordered maps (yaml.MapSlice), '
              'keyed maps and structs keep the order of their entries and have related values; the renderer\'s own forloop record is '
              'related to itself only); run_map_order_independent - for every comparison / filter layer and output layer that respect '
              'MP, every template, configuration, file system and include depth, environments whose bindings are MP-related render to '
              'the same result (lock-step induction over the compiled tree: lookups find the same entry because keys are distinct, '
              'loops visit the sorted entries); run_std_map_order_independent - for the standard engine (stdPrims, stdOut: all 48 '
              'filters, every comparison), with no hypothesis left but the relation of the environments, the two results AGREE '
              '(equal, or one of the two runs is `unmodelled`): the standard output layer (fmt.Sprint sorts map keys: sprint_mp, '
              'stdOut_respectsM), the standard comparisons (== / case-when: equal_mp - equalMaps is a conjunction over all entries; '
              '<: opLt_prep_mp, exact; contains: opContains_prep_mp) and every filter (filterRespectsM_all; json / inspect: '
              'marshal_jrel - the two values marshal to the same text or neither marshals; type: typeName_mp; sort / sort_natural: '
              'insertionSortM_mp, mergeSort_mp - both runs make the same comparisons with the same answers; uniq: canonOrder_mp) '
              'respect MP up to `unmodelled` (the lemmas named in this sentence from sprint_mp on are helper lemmas of modules that are not audited under their own names - '
              'Proofs/MapPermStd.lean: sprint_mp, stdOut_respectsM; MapPermEqual: equal_mp, opContains_prep_mp; MapPermCmp: opLt_prep_mp; MapPermSort: '
              'filterRespectsM_all, insertionSortM_mp, mergeSort_mp; MapPermJson: marshal_jrel, typeName_mp; MapPermUniq: canonOrder_mp - checked by the build, '
              'and reached by `#print axioms` only through run_std_map_order_independent, which uses them) - entries are printed and compared in list order, so which part of a value leaves the '
              'model first, and with an early exit whether it is reached at all, depends on that order. '
              'The JSON printers (json, inspect) do sort inside the model: '
              'jsonObject_perm / json_map_order_independent / json_keyedMap_order_independent prove that '
              'whenever json.Marshal of a map succeeds and the key texts are distinct, every permutation of its entries marshals to '
              'the same text (nothing is stated for a marshal that fails or is unmodelled). Tie: every `determ` case line is answered by the '
              'model and compared with the real engine; on the real code each case is rendered 5x on one template, with maps '
              'rebuilt in 4 insertion orders, on fresh parses and engines, through the six entry points (the three ParseAnd* ones '
              'only for cases without includes) and through cmd/liquid, '
              'and all results must be identical. Half of the generated environments, and every map of the fixed family a second '
              'time (the two mixed-key maps - 1, 1.0, int64(1), uint8(1), float32(1), "1", true; neighbours of 2^53 of four types - '
              'three more times), are sent with the entries of every map in a pseudo-random order (VMapOrdered / Shuffled in '
              'harness/codec.go; drawn from an RNG of the case, so a case replays): the Go maps are the same, the model has to sort to '
              'agree. The streams loops (C11) and arrf (C15) do the same for half of their cases that hold a map.'),
    "design_ref": 'DESIGN.md 6 C02',
    "note": NOTE + ("That every place where the CODE iterates a map sorts first, copies every entry into a fresh map or is a conjunction over all entries "
              'is the reading recorded by the source tie T5 (ten audited sites; the obligation re-checks the list of sites, not the justifications), supported by the '
              'metamorphic runs and by the correspondence on shuffled entry lists (the model sorts at exactly the two places where the code calls SortedMapKeys); the '
              'whole-render theorem for the standard engine (run_std_map_order_independent) is an '
              'agreement up to `unmodelled`, not an equality. Keys that are neither booleans, numbers nor strings are ordered by '
              'fmt.Sprint in Go and, when two different such keys print alike, by keySyntax (repaired by 08ac245 + 7d98ddf, 7.1; pointer keys print as addresses): '
              'outside every theorem and, for a map with two or more of them, outside the model - covered by the implementation-only family of `determ` alone. There is no theorem about '
              'parsed templates, engines or entry points as objects with state - the '
              "metamorphic runs carry that. The clock (date: 'now') is outside the property and never generated."),
    "technique": ('Lean 4 proof (the comparator of values.SortedMapKeys is a strict total order on the keys of one map, so the sorted '
              'entry list and with it the whole render of the model are invariant under permutations of map entries; '
              'permutation-invariance of the JSON object text; determinism across '
              'renders, parses and engines is the purity of the model, true by construction) + '
              'model/implementation correspondence + metamorphic runs of the implementation over permuted map constructions and '
              'entry points'),
}
