from . import COMMON_TB, NOTE

PROP = {
    "modules": [],
    "streams": [{"name": "faults"}],
    "rule": "faults: a fixed family of templates covering each tag and each trim-marker position (tablerow with cols, nested loops with "
            "break/continue, raw with trim markers, capture, include, cycle, engine-registered custom tags and blocks) plus generated and "
            "woven templates with generated environments; for each template without the harness's custom tags (the model has none: those "
            "are run through the oracle only) the underlying Write calls of a fault-free FRender are compared call by "
            "call with the model's interaction tree (op `writes`), and for every call index k (for a run of more than 1200 calls: "
            "the first and the last 600 indices) four faulty writers ({fail once, fail from k on} x "
            "{accept nothing, accept a strict prefix}; thorough adds short writes without error) are run on the real code through FRender and "
            "ParseAndFRender: flagged are a panic, a nil error, a non-SourceError, a Cause() that is not the writer's error, any Write call after "
            "the failing one, accepted bytes that are not a prefix of the fault-free output; for every explored call index the LOCATION of the "
            "returned error (LineNumber, and whether Path is empty) of the run that fails once accepting nothing is part of the result line "
            "(field flocs) and compared with the error the model's interaction tree ends with when that call fails (driver Prog.faultErrs); "
            "the other three plans must report the same location (counted as fault-loc-differs-between-plans otherwise); "
            "non-trivial = at least one write call",
    "trusted_base": COMMON_TB + ["the fault-injecting writer and the recording writer of the harness"],
    "assumptions": ["the writer returns 0 <= n <= len(p); a writer that reports n > len(p) is outside the property"],
}

TEXT = {
    "text": ("Rendering is an interaction tree over the caller's writer. Theorem frender_stops: for every compiled template, environment, "
              'configuration, file system and include depth, at each Write on the success path a failed write ends the render at once with an error '
              "whose cause is the writer's failure (predicate Stops; its leaves may still be a panic or an unmodelled result of the "
              'fault-free path); frender_faulty: for every k below the number of Write calls of the fault-free render, a writer '
              'failing at its k-th call (accepting any part) makes FRender return an error whose cause is that failure - not '
              'success, not a panic - after exactly k+1 calls; frender_faulty_prefix: the bytes accepted are a prefix of the '
              "fault-free output; capture bodies and included files never reach the caller's writer (capture_infallible, "
              "renderFileWith_noCalls). The error VALUE (Proofs.C20Located): frender_faulty_located - for every compiled template, environment, "
              "configuration, file system, include depth, every k below the number of Write calls of the fault-free render and every accepted "
              "length, FRender on the writer failing at call k returns exactly the located error (line l.line, path flag l.pathSet, cause = the "
              "writer's error, message = the cause's text) where l = faultSites[k], and faultSites has one entry per call (faultSites_length); "
              "faultSites is computed from the compiled tree by walking it in render order with the renderer's state (traceRoot, "
              "Proofs/RenderTrace.lean, proved against the interaction tree by induction over the node tree: sp_renderNode, sp_frender): a "
              "write issued while a text, object, cycle or include node runs is located at that node (faultSite_text, faultSite_obj; an object, a raw block and what a tag writes (cycle, include) go through trimWriter.WriteVerbatim since the repair fixes/verbatim-output-not-trimmed.patch (/repo 4126d59) - the flush of the text pending before them and the flush of each chunk of the value or slice of the body are issued while THAT node runs, so a failure to write a value is reported at the object that printed it and not at whatever wrote next), the "
              "cell tags of a tablerow at the tablerow tag, a raw block, a left trim marker and the flush of a block body or of the whole "
              "render at the invalid location (line 0, no path: faultSite_raw, faultSite_trim), and every enclosing block passes the site "
              "through relocate = parser.WrapError on locations (faultSite_if): a site with a line or a path is kept (relocate_located), the "
              "invalid location is replaced by the block tag's (relocate_invalid). Hence, in a template that has a path or no node at line 0, "
              "every site is the line of a node of the tree with the template's path, or the invalid location (fault_site_in_tree); below a "
              "node that has a location every site is a line of that node (located_node_fault_sites), and the sites of the render are those "
              "of its top-level nodes in order, then the final flush (fault_sites_of_sequence, fault_sites_of_root): under that hypothesis line 0 without a path "
              "arises only for a write issued by a top-level raw block, a top-level trim marker or the final flush (a consequence of these theorems, not a theorem of its own). The list the "
              "stream compares with the real code is this list (faultErrs_are_faultSites). A panic that does not come "
              "from the writer's failure is C01's business, not proved here. From source bytes "
              '(Proofs.C20Source): for every source that compiles the same three facts hold of FRender on the compiled template '
              '(source_faulty_prefix), and whenever run returns the output out, what a writer failing at any call k below the number of fault-free calls accepted is a prefix of '
              'out (run_faulty_prefix; run_spell_faulty_prefix: the prefix statement alone, for the spelling of an item list). Tie: the '
              '`faults` stream compares the sequence of underlying Write calls with the real FRender (templates without custom '
              'tags) and executes every single-fault plan (every call index, capped to the first and last 600 for runs of more '
              'than 1200 calls; none/half acceptance; fail-once/fail-forever) on the real code through FRender and ParseAndFRender.'),
    "design_ref": 'DESIGN.md 6 C20',
    "note": NOTE + ('A writer that reports a short write without an error is outside the property and the model. '
              '"Never a panic" is proved as: an error for every k below the number of fault-free calls (frender_faulty); other '
              "panics are C01's. The located-error theorems are about the model; that the real FRender reports the same line and path flag is "
              'the comparison of the flocs field on every case, not a theorem about the Go code. In a template WITHOUT a path a node at line 0 '
              '(start line 0) carries no more information than the invalid location and is re-located by the enclosing block like it: '
              'fault_site_in_tree and located_node_fault_sites assume a path or no node at line 0, frender_faulty_located does not. Trial of the tie (run once, when the flocs field was added; not repeated by the check): with '
              'TextNode.render changed to wrap the writer\'s error at invalidLoc instead of at the node (every clause of the oracle still held) '
              '110 of the then 650 quick cases disagreed with the model in the flocs field. The stream explores at most 1200 call indices per run (first and '
              'last 600) and runs templates with the engine-registered custom tags through the oracle only.'),
    "technique": ('Lean 4 proof (inductive Stops predicate on interaction trees and a location trace of the node tree, both by induction over the render tree) + '
              'model/implementation correspondence of Write-call sequences and of the location of every single-fault error + fault injection at every call index (first and last 600 beyond 1200 calls) on the implementation'),
}
