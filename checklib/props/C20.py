from . import COMMON_TB, NOTE

PROP = {
    "modules": [],
    "streams": [{"name": "faults"}],
    "rule": "faults: a fixed family of templates covering each tag and each trim-marker position (tablerow with cols, nested loops with "
            "break/continue, raw with trim markers, capture, include, cycle, engine-registered custom tags and blocks) plus generated and "
            "woven templates with generated environments; for each template without the harness's custom tags (the model has none: those "
            "are run through the oracle only) the underlying Write calls of a fault-free FRender are compared call by "
            "call with the model's interaction tree (op `writes`), and for every call index k (for a run of more than 1200 calls: "
            "the first and the last 600 indices) four faulty writers ({fail once, fail from k on} x "
            "{accept nothing, accept a strict prefix}; thorough adds short writes without error) are run on the real code through FRender and "
            "ParseAndFRender: flagged are a panic, a nil error, a non-SourceError, a Cause() that is not the writer's error, any Write call after "
            "the failing one, accepted bytes that are not a prefix of the fault-free output; non-trivial = at least one write call",
    "trusted_base": COMMON_TB + ["the fault-injecting writer and the recording writer of the harness"],
    "assumptions": ["the writer returns 0 <= n <= len(p); a writer that reports n > len(p) is outside the property"],
}

TEXT = {
    "text": ("Rendering is an interaction tree over the caller's writer. Theorem frender_stops: for every compiled template, environment, "
              'configuration, file system and include depth, at each Write on the success path a failed write ends the render at once with an error '
              "whose cause is the writer's failure (predicate Stops; its leaves may still be a panic or an unmodelled result of the "
              'fault-free path); frender_faulty: for every k below the number of Write calls of the fault-free render, a writer '
              'failing at its k-th call (accepting any part) makes FRender return an error whose cause is that failure - not '
              'success, not a panic - after exactly k+1 calls; frender_faulty_prefix: the bytes accepted are a prefix of the '
              "fault-free output; capture bodies and included files never reach the caller's writer (capture_infallible, "
              'renderFileWith_noCalls). The theorems say the cause is the writer\'s failure (IsIo, which also admits an unlocated '
              'error): that the error is a located SourceError is checked by the faults stream only. A panic that does not come '
              "from the writer's failure is C01's business, not proved here. From source bytes "
              '(Proofs.C20Source): for every source that compiles the same three facts hold of FRender on the compiled template '
              '(source_faulty_prefix), and whenever run returns the output out, what a writer failing at any call k accepted is a prefix of '
              'out (run_faulty_prefix, run_spell_faulty_prefix). Tie: the '
              '`faults` stream compares the sequence of underlying Write calls with the real FRender (templates without custom '
              'tags) and executes every single-fault plan (every call index, capped to the first and last 600 for runs of more '
              'than 1200 calls; none/half acceptance; fail-once/fail-forever) on the real code through FRender and ParseAndFRender.'),
    "design_ref": 'DESIGN.md 6 C20',
    "note": NOTE + ('A writer that reports a short write without an error is outside the property and the model. '
              '"Never a panic" is proved as: an error for every k below the number of fault-free calls (frender_faulty); other '
              "panics are C01's. That the returned error is a located SourceError rests on the faults stream "
              '(clause not-a-source-error), not on a theorem. The stream explores at most 1200 call indices per run (first and '
              'last 600) and runs templates with the engine-registered custom tags through the oracle only.'),
    "technique": ('Lean 4 proof (inductive Stops predicate on interaction trees, by induction over the render tree) + '
              'model/implementation correspondence of Write-call sequences + fault injection at every call index (first and last 600 beyond 1200 calls) on the implementation'),
}
