from . import COMMON_TB, NOTE

PROP = {
    "modules": [],
    "streams": [{"name": "faults"}],
    "rule": "faults: a fixed family of templates covering each tag and each trim-marker position (tablerow with cols, nested loops with "
            "break/continue, raw with trim markers, capture, include, cycle, engine-registered custom tags and blocks) plus generated and "
            "woven templates with generated environments; for each, the underlying Write calls of a fault-free FRender are compared call by "
            "call with the model's interaction tree (op `writes`), and for EVERY call index k four faulty writers ({fail once, fail from k on} x "
            "{accept nothing, accept a strict prefix}; thorough adds short writes without error) are run on the real code through FRender and "
            "ParseAndFRender: flagged are a panic, a nil error, a non-SourceError, a Cause() that is not the writer's error, any Write call after "
            "the failing one, accepted bytes that are not a prefix of the fault-free output; non-trivial = at least one write call",
    "trusted_base": COMMON_TB + ["the fault-injecting writer and the recording writer of the harness"],
    "assumptions": ["the writer returns 0 <= n <= len(p); a writer that reports n > len(p) is outside the property"],
}

TEXT = {
    "text": "Rendering is modelled as an interaction tree over the caller's writer; the sequence of underlying Write calls of every generated "
            "template is compared with the real FRender on every run, and every single-fault plan (exhaustive over the call index) is executed "
            "on the real code with a model-independent oracle. The Lean theorems about the tree (StopsOnFailure) are added by the main line.",
    "design_ref": "DESIGN.md 6 C20",
    "note": NOTE,
    "technique": "Lean 4 proof + model/implementation correspondence + exhaustive fault injection on the implementation",
}
