from . import COMMON_TB, NOTE

PROP = {
    "modules": [],
    "streams": [{"name": "faults"}],
    "rule": "faults: a fixed family of templates covering each tag and each trim-marker position (tablerow with cols, nested loops with "
            "break/continue, raw with trim markers, capture, include, cycle, engine-registered custom tags and blocks) plus generated and "
            "woven templates with generated environments; for each, the underlying Write calls of a fault-free FRender are compared call by "
            "call with the model's interaction tree (op `writes`), and for EVERY call index k four faulty writers ({fail once, fail from k on} x "
            "{accept nothing, accept a strict prefix}; thorough adds short writes without error) are run on the real code through FRender and "
            "ParseAndFRender: flagged are a panic, a nil error, a non-SourceError, a Cause() that is not the writer's error, any Write call after "
            "the failing one, accepted bytes that are not a prefix of the fault-free output; non-trivial = at least one write call",
    "trusted_base": COMMON_TB + ["the fault-injecting writer and the recording writer of the harness"],
    "assumptions": ["the writer returns 0 <= n <= len(p); a writer that reports n > len(p) is outside the property"],
}

TEXT = {
    "text": ("Rendering is an interaction tree over the caller's writer. Theorem frender_stops: for every template, environment, "
              'configuration and layout, at each Write on the success path a failed write ends the render at once with an error '
              "whose cause is the writer's failure; frender_faulty: a writer failing at its k-th call (accepting any part) makes "
              'FRender return that error after exactly k+1 calls; frender_faulty_prefix: the bytes accepted are a prefix of the '
              "fault-free output; capture bodies never reach the caller's writer (capture_infallible); no panic by C01. From source bytes "
              '(Proofs.C20Source): for every source that compiles the same three facts hold of FRender on the compiled template '
              '(source_faulty_prefix), and whenever run returns the output out, what a writer failing at any call k accepted is a prefix of '
              'out (run_faulty_prefix, run_spell_faulty_prefix). Tie: the '
              '`faults` stream compares the sequence of underlying Write calls with the real FRender and executes every '
              'single-fault plan (exhaustive over the call index, none/partial acceptance, fail-once/fail-forever) on the real '
              'code.'),
    "design_ref": 'DESIGN.md 6 C20',
    "note": NOTE + ('A writer that reports a short write without an error is outside the property and the model.'),
    "technique": ('Lean 4 proof (inductive Stops predicate on interaction trees, by induction over the render tree) + '
              'model/implementation correspondence of Write-call sequences + exhaustive fault injection on the implementation'),
}
