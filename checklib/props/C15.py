from . import COMMON_TB, NOTE

PROP = {
    "modules": ["Proofs.C15", "Proofs.C15Heap", "Proofs.Budget"],
    "streams": [{"name": "arrf"}, {"name": "alias"}],
    "rule": "arrf: every array of length 0..4 over {0, 1, 2, -1, 1.5, \"a\", \"b\", \"B\", nil} (7 381 arrays; quick gives the 6 561 "
            "arrays of length 4 in the []any representation only) x 20 filter calls (compact reverse first last uniq size, concat with "
            "five arguments, join with three separators, map: k/size, sort, sort: k, sort_natural, sort_natural: k) x up to seven Go "
            "representations ([]any, typed slice, typed and untyped fixed array, range for a run of ints, yaml.MapSlice, "
            "map[string]any in key order); every array of length 0..3 over twelve map/non-map elements with present, absent and nil "
            "keys x 27 calls (sort / sort_natural / map with present, absent, non-string and array keys; uniq compact reverse first "
            "last join size); 54 boundary receivers (nil, "
            "strings, numbers, structs, empty, reversed and over-long ranges, nested arrays, drops and drops of drops inside arrays, "
            "typed containers with nil, maps with nil values, []byte, every integer width, integers beyond 2^53 next to floats, "
            "non-ASCII strings) x 32 calls including arity errors; arrays of 13..3000 elements; random arrays to length 8 x random "
            "calls and random chains of 2..4 filters; mixed-kind arrays of length 0..13 (700 quick / 12 000 thorough: integers of several "
            "widths, floats, strings, nil, booleans, maps, arrays, ranges, integers beyond 2^53 next to the floats they round to, "
            "maps whose key k holds any of these, few-valued arrays full of ties, repeated elements) x sort, sort: k, sort_natural, "
            "sort_natural: k, every fifth in all representations; a sample of cases again as whole templates through the engine and "
            "the model's renderer. A case is non-trivial when the real code returns a value; distinct by case line. "
            "alias: `x | f1: a0 | f2: a1 ...` with x a real []any (or typed slice) realised as backing[off:off+len] of a backing array "
            "of off+len+spare elements whose other elements hold a sentinel (6 layouts: full capacity, 1/2/7 spare, offset 1 and 2), "
            "every other slice with 2 spare elements: every array of length 0..2 (thorough: 0..3) over the nine-element universe x 6 "
            "layouts x 23 calls (the array filters, size, and default, which returns its input uncopied) and its other Go "
            "representations (typed slice, fixed array, range, MapSlice, map) x 23 calls; 23 fixed receivers (nested arrays, arrays of "
            "maps, drops, typed slices, nil, ranges, non-arrays) x 4 layouts x (23 calls + 70 two-step pipelines whose first step hands "
            "an element or its own input on: first/last/default/compact/concat/map then sort/reverse/compact/uniq/concat/...); random "
            "receivers to length 8 x random chains of 1..4 filters (quick 6 000, thorough 150 000). Result line: the value, whether it "
            "lies in the receiver's backing array (pointer range), and the indices of the caller's arrays (up to cap) whose deep snapshot "
            "changed; non-trivial = the real code returns a value",
    "trusted_base": COMMON_TB + [
        "Go's sort.Sort (go1.23 sort/zsortinterface.go): up to 12 elements it is insertionSort, transcribed loop by loop in "
        "Liquid/InsertionSort.lean and compared element by element on every such case; beyond 12 elements it is taken to return a "
        "permutation that is sorted for its Less when Less is a strict weak order, with ties in unspecified order; fmt.Sprint and "
        "reflect.DeepEqual are used by the oracle's reference implementations as given",
    ],
    "assumptions": [
        "Liquid/Filters/Arr.lean, Convert.lean (receiver conversion), Compare.lean (Less), Lookup.lean (property lookup), Sprint.lean "
        "describe filters/standard_filters.go, filters/sort_filters.go, values/sort.go, values/convert.go, values/compare.go after the "
        "fix patches D4-uniq-nil, uniq-uncomparable-values, D4-sort-natural, sort-key-defined-string-type, array-nil-element, "
        "drops-in-arrays, size-of-range: checked by the arrf stream on every run",
        "sort results of at most 12 elements are compared exactly, element by element, on every array -- mixed kinds included (numbers "
        "next to strings or nil, integers beyond 2^53 next to floats): there sort.Sort is an insertion sort, whose result is "
        "determined for every comparator, and the model runs the same loops over the same comparators; on such arrays 'ascending' "
        "is not defined (Less is not a strict weak order) and the theorems claim permutation, stability and the exact list only",
        "only beyond 12 elements: sort results are compared in canonical form (sequence of sort keys + multiset of elements), since the "
        "order of elements that Less does not separate is unspecified in Go (pdqsort is unstable) and is not compared; on arrays of "
        "more than 12 elements where Less is not a strict weak order the model answers unmodelled and only the permutation clause "
        "is checked, by the oracle",
        "outside the model (counted as unmodelled): pointer identity in uniq, fmt of pointers, "
        "the array of a range of more than a million items IN THE MODEL BINARY ONLY: the number is the default of the `budget` argument of `convert`, a parameter of the executable model without a counterpart in the code (whose own limit, maxRangeArrayLen = 10^7 items, is modelled as the TypeError it is); the theorems hold for every budget: a range within the code's limit converts to its integers under every budget >= b - a (as_array, range_to_array_any_size), and raising the budget never changes a conversion or a filter application that gave an answer (budget_monotone_convert, budget_monotone_filter; for a whole render budget_monotone_std of Proofs.C11). The Go-heap model of Liquid/Heap.lean calls `convert` with the default budget (the case folding of sort_natural is total: every rune is looked up in the tables of "
        "unicode.ToUpper / unicode.ToLower regenerated from the toolchain, Liquid/Generated/CaseTables.lean)",
        "Liquid/Heap.lean describes Go's slice operations (index, element assignment, reslice, make, append with its in-place case, "
        "copy) and, line by line, values.Convert(v, []any) as convertCallArguments uses it and the bodies of compact concat join map "
        "reverse sort sort_natural first last uniq size default (filters/standard_filters.go, filters/sort_filters.go): checked by the "
        "alias stream on every run (result, alias flag, changed locations). In that model the ELEMENTS of an array are immutable "
        "values: a nested slice or map inside an element is a value (no array filter writes through an element; the deep snapshots of "
        "the alias, arrf and immut oracles cover nested memory on the real code); the capacity Go gives an array that append "
        "allocates (size classes) is not modelled and no statement depends on it; sort.Sort / values.Sort are taken to touch the "
        "slice they are given only through Len/Less/Swap(i, j) with i, j < Len (modelled as a write of every index of that slice)",
    ],
}

TEXT = {
    "text": "Theorems for every list (no bound): Go's insertion sort (all of sort.Sort up to 12 elements, modelled loop by loop) "
            "returns a permutation and is stable for EVERY comparator, sorts whenever the comparator is a strict weak order on the "
            "elements, and then equals List.mergeSort; over a comparator that may panic or be outside the model the sort, whenever "
            "it answers, answers a permutation, and is the insertion sort when the comparator answers on all pairs of elements "
            "(insertionSort_partial; that an unanswered comparison is harmless when it is not made is shown by examples only). "
            "sort (sortF: the insertion sort up to 12 elements, beyond that List.mergeSort as a stand-in for Go's pdqsort, see the "
            "trusted base) returns a permutation of its input (any array, any length) that is ascending for "
            "values.Less on every homogeneous array (all integers, all numbers with integers inside 2^53, all strings, all "
            "booleans) -- totality and transitivity of the order are proved per kind; up to 12 elements the model answers every "
            "array, mixed kinds included, with exactly Go's list (sort_model), and the sort is stable; sort: key is a permutation, "
            "exact and stable up to 12 elements on every array, and -- when the non-nil keys are homogeneous (homogBy) -- "
            "ascending in the key with entries lacking the key (or holding nil) first; "
            "sort_natural is a permutation ascending in its case-folded text, stable up to 12 elements; reverse reverses; uniq is a sublist with pairwise different elements (scalars by Go equality: 1 and 1.0 "
            "differ; arrays and maps by what they hold whatever the Go type that holds it, nested drops resolved: []int{1}, []any{1} and []any{Drop(1)} are one element, fixes/nested-drops-resolved), represents every input element, and keeps an appended element exactly when nothing equal precedes it; compact "
            "removes exactly the nils; concat is ++ by definition (concat_spec, rfl); first/last agree with a[0]/a[-1] and a.first/a.last (nil when empty); size "
            "is the element count (of a range a..b when a <= b and b - a < MaxInt64); join is the separator-intercalated fmt.Sprint (after values.ResolveDrops: a drop nested in an element prints as its value) of "
            "the non-nil elements when fmt.Sprint of each is modelled; map is the per-element property lookup when every lookup "
            "returns a value; typed slices, fixed arrays, ranges, ordered maps and maps convert to the same "
            "[]any as a generic slice with the same contents (drops inside resolved, nil kept); compact/reverse/first/last/uniq "
            "are proved through ApplyFilter/Call with the standard filter table for a non-nil receiver that converts to an array; "
            "a nil receiver is the empty array for compact, reverse, first and uniq (nil_receiver); the conversion of a string, "
            "number or boolean receiver to []any is a TypeError (non_array_receiver, a statement about convert); sort through "
            "ApplyFilter/Call is sortF on every receiver of up to 12 elements. The model "
            "is compared with the real code on every case (sort results element by element up to 12 elements); an independent oracle "
            "(reference implementations over value trees) checks permutation, order, nil-keys-first, every other filter's exact "
            "result, agreement of all representations, and that neither the Go value passed in nor a second rendering of it changes. "
            "NO WRITES INTO THE INPUT (Proofs/C15Heap.lean, on the slice-memory model Liquid/Heap.lean: a store of backing arrays, slice "
            "headers arr/off/len/cap, Go's index / element assignment / reslice / make / append (which writes IN PLACE into spare "
            "capacity) / copy, every run with the log of the locations written; heap_log_complete: a location not in the log holds "
            "what it held): array_filters_do_not_write_inputs -- for each of compact concat join map reverse sort sort_natural first "
            "last uniq size default, every receiver, arguments and store, `x | f: args` (values.Convert, which passes a []any without "
            "drops through UNCOPIED, then the body) writes only into arrays the call allocated, so every backing array that existed "
            "before, spare capacity included, is unchanged (the initial store is a prefix of the final one); "
            "filter_bodies_do_not_write_inputs (each body on any slices), convert_does_not_write_inputs; pipeline_no_write (induction "
            "over any chain of these filters, where a later filter may receive the caller's own slice from an earlier one). "
            "heap_refines_pure / heap_pipeline_refines_pure: on well-formed slices the memory-level run answers exactly as the pure "
            "model's evalFilter on the values the slices hold (same error / unmodelled), and its result reads, in the final store, as "
            "the pure result -- all twelve filters, so the theorems above transfer; heap_bodies_refine_pure per body; "
            "heap_sort_permutation. Aliasing facts of the code: convert_passes_generic_slice_through (a []any without drops reaches "
            "the body as the caller's own slice: same array, offset, length, capacity), convert_allocates_otherwise (typed slices, "
            "[]any holding a drop, arrays, ranges, MapSlice, maps); array_results_never_alias (the result of compact concat map reverse "
            "sort sort_natural uniq is nil or lies in an array allocated by the call -- also concat with an empty argument, compact "
            "without nils: none returns its input); default_returns_its_input_uncopied (the one standard filter that hands an array on: "
            "the next filter of a pipeline then works on the caller's array); scalar_results_are_values (first/last return the element, "
            "results are shallow). Tie: the `alias` stream runs the real filters on []any values with spare capacity holding a sentinel "
            "and compares result, alias flag and the set of changed locations with the model.",
    "design_ref": "DESIGN.md 6 C15",
    "note": NOTE + "Defects found and repaired (fixes/*.patch): uniq panicked on nil elements and on arrays/structs holding slices; "
            "sort_natural panicked on nil, mixed, keyless elements and non-string keys and left non-string arrays unsorted; sort: key "
            "panicked on map[K]any with a defined string type K; fixed arrays, typed containers and maps holding nil were rejected "
            "with a TypeError; drops inside []any / MapSlice reached join, uniq, compact and sort_natural unresolved ({x} {y}); "
            "size of a range was 0. The no-write clause is a theorem about the slice-memory model (elements are values there: writes "
            "through nested slices/maps are outside it and carried by the deep-snapshot oracles).",
    "technique": "Lean 4 proof (Go's insertionSort transcribed and proved a stable permutation for every comparator, equal to "
                 "List.mergeSort on strict weak orders; order properties proved per kind; induction over lists) + model/implementation "
                 "correspondence, exact up to 12 elements and with a canonical form for the unstable sort beyond + independent "
                 "reference-implementation oracle and deep-copy mutation check on the implementation + Lean 4 proof on a slice-memory "
                 "model (write log; induction over loops and pipelines; refinement to the pure model) tied by a stream that observes "
                 "aliasing and changed locations",
}
