from . import COMMON_TB, NOTE

PROP = {
    "modules": ["Proofs.C15"],
    "streams": [{"name": "arrf"}, {"name": "alias"}],
    "rule": "arrf: every array of length 0..4 over {0, 1, 2, -1, 1.5, \"a\", \"b\", \"B\", nil} (7 381 arrays; quick gives the 6 561 "
            "arrays of length 4 in the []any representation only) x 20 filter calls (compact reverse first last uniq size, concat with "
            "five arguments, join with three separators, map: k/size, sort, sort: k, sort_natural, sort_natural: k) x up to seven Go "
            "representations ([]any, typed slice, typed and untyped fixed array, range for a run of ints, yaml.MapSlice, "
            "map[string]any in key order); every array of length 0..3 over nine map/non-map elements with present, absent and nil "
            "keys x 25 calls (sort / sort_natural / map with present, absent, non-string and array keys); 60 boundary receivers (nil, "
            "strings, numbers, structs, empty, reversed and over-long ranges, nested arrays, drops and drops of drops inside arrays, "
            "typed containers with nil, maps with nil values, []byte, every integer width, integers beyond 2^53 next to floats, "
            "non-ASCII strings) x 32 calls including arity errors; arrays of 13..3000 elements; random arrays to length 8 x random "
            "calls and random chains of 2..4 filters; a sample of cases again as whole templates through the engine and the model's "
            "renderer. A case is non-trivial when the real code returns a value; distinct by case line",
    "trusted_base": COMMON_TB + [
        "Go's sort.Sort is taken to return a permutation that is sorted for its Less when Less is a strict weak order, with ties in "
        "unspecified order (insertion sort, hence stable, up to 12 elements); fmt.Sprint and reflect.DeepEqual are used by the "
        "oracle's reference implementations as given",
    ],
    "assumptions": [
        "Liquid/Filters/Arr.lean, Convert.lean (receiver conversion), Compare.lean (Less), Lookup.lean (property lookup), Sprint.lean "
        "describe filters/standard_filters.go, filters/sort_filters.go, values/sort.go, values/convert.go, values/compare.go after the "
        "fix patches D4-uniq-nil, uniq-uncomparable-values, D4-sort-natural, sort-key-defined-string-type, array-nil-element, "
        "drops-in-arrays, size-of-range: checked by the arrf stream on every run",
        "sort results are compared in canonical form (sequence of sort keys + multiset of elements): the order of elements that "
        "Less does not separate is unspecified in Go (unstable sort) and is not compared; on arrays where Less is not a strict weak "
        "order (numbers mixed with strings or nil, integers beyond 2^53 mixed with floats) the model answers unmodelled and only "
        "the permutation clause is checked, by the oracle",
        "outside the model (counted as unmodelled): pointer identity in uniq, fmt of pointers and time.Time, case mapping outside "
        "the table of Liquid/Unicode.lean in sort_natural, ranges of more than a million items",
        "that a filter does not write to the caller's array cannot be expressed in a pure model (filters_pure_partial): it is "
        "checked on the real code by comparing the caller's Go value with an untouched copy after every case and by rendering the "
        "input again after the filter",
    ],
}

TEXT = {
    "text": "Theorems for every list (no bound): sort returns a permutation of its input (any array) that is ascending for "
            "values.Less on every homogeneous array (all integers, all numbers with integers inside 2^53, all strings, all "
            "booleans) -- totality and transitivity of the order are proved per kind; sort: key is a permutation, ascending in the "
            "key, with entries lacking the key (or holding nil) first; sort_natural is a permutation ascending in its "
            "case-folded text; reverse reverses; uniq is a sublist with pairwise different elements (Go equality: 1 and 1.0 "
            "differ), represents every input element, and keeps an appended element exactly when nothing equal precedes it; compact "
            "removes exactly the nils; concat appends; first/last agree with a[0]/a[-1] and a.first/a.last (nil when empty); size "
            "is the element count (also of a range); join is the separator-intercalated fmt.Sprint of the non-nil elements; map is "
            "the per-element property lookup; typed slices, fixed arrays, ranges, ordered maps and maps convert to the same "
            "[]any as a generic slice with the same contents (drops inside resolved, nil kept); compact/reverse/first/last/uniq "
            "are proved through ApplyFilter/Call with the standard filter table, a nil receiver is the empty array and a "
            "non-array receiver a TypeError. The model is compared with the real code on every case; an independent oracle "
            "(reference implementations over value trees) checks permutation, order, nil-keys-first, every other filter's exact "
            "result, agreement of all representations, and that neither the Go value passed in nor a second rendering of it changes.",
    "design_ref": "DESIGN.md 6 C15",
    "note": NOTE + "Defects found and repaired (fixes/*.patch): uniq panicked on nil elements and on arrays/structs holding slices; "
            "sort_natural panicked on nil, mixed, keyless elements and non-string keys and left non-string arrays unsorted; sort: key "
            "panicked on map[K]any with a defined string type K; fixed arrays, typed containers and maps holding nil were rejected "
            "with a TypeError; drops inside []any / MapSlice reached join, uniq, compact and sort_natural unresolved ({x} {y}); "
            "size of a range was 0. Not a theorem: absence of writes to the caller's array (pure model) -- checked dynamically.",
    "technique": "Lean 4 proof (List.mergeSort with order properties proved per kind; induction over lists) + model/implementation "
                 "correspondence with a canonical form for unstable sorts + independent reference-implementation oracle and "
                 "deep-copy mutation check on the implementation",
}
