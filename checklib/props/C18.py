from . import COMMON_TB, NOTE

PROP = {
    "modules": ["Proofs.RepEq", "Proofs.RepEqOps", "Proofs.RepEqProg", "Proofs.RepEqEval", "Proofs.RepEqRender",
                "Proofs.RepEqStd", "Proofs.RepEqCmp", "Proofs.RepEqFilters", "Proofs.RepEqSort"],
    "streams": [{"name": "reps"}],
    "rule": "reps: a logical environment (nil, bool, Go int, float64, string, []any, map[string]any; numbers at the boundaries of "
            "every integer width) and a template of independent statements from a restricted grammar whose uses of every variable "
            "are known (print, string filters as receiver and argument, == != < > <= >=, contains, case/when, conditions, "
            "arithmetic filters as receiver and argument, loops with modifiers, tablerow, array filters join/first/last/reverse/"
            "sort/sort_natural/uniq/compact/concat/map/size, index and property lookup, map lookup/size/iteration; since fixes/nested-drops-resolved.patch "
            "also every place that prints a container in Go syntax: {{ m }} of a map, an array or map converted to a string parameter, "
            "join and sort_natural of nested arrays, an array or map as the needle of a string `contains`, uniq and == on nested arrays). "
            "Five further environments "
            "are derived with a representation chosen independently at every node and only where C18 names it: a drop at any "
            "depth, now and then a drop that yields a drop (that yields a drop), inside printed containers and under uniq too; a pointer at a variable and at the values of a lookup-only map; typed slices, fixed arrays and string-keyed "
            "typed maps when the elements fit; yaml.MapSlice for a lookup/size-only map; every signed and unsigned width that "
            "holds an integer and float32 for exactly representable floats in print/compare/arithmetic positions; []byte for a "
            "string that is only printed or passed to a string filter. All six are rendered on the real engine (and by the "
            "model); a difference is isolated to one statement and minimised to the variable and representation feature. "
            "Fixed family (shard 0, real engine only; repsNestedDropFamily): 1094 rows (name, template, variant bindings) under fixed case "
            "names `reps-nested <name>`, the generic twin made from the variant by stripping the drop wrappers and the container types "
            "at every depth; ORACLE: the variant renders exactly what its twin renders. 36 explicit rows (the four former deviations "
            "drop-in-printed-map, drop-in-array-to-string, drop-of-drop-in-array-equal, uniq-typed-nested-slice, which now must agree; "
            "controls; lookups through up to five drops in a row; the rows of sort by a key; 17 rows sort-natural-* with drops of strings, drops of drops and drops that yield nil among the elements of sort_natural, under the key of its map elements and in its key argument, mixed with plain strings and nil, 3 to 20 elements), 19 array shapes x 38 paths and 12 map shapes x 28 paths (drops at "
            "depth 1-3 and at every depth, drop of drop of drop, maps in arrays and arrays in maps, drops as map values, typed slices "
            "and maps nested in arrays; print, join, conversion to a string, first/last, for/tablerow, == != <, contains as element and "
            "as needle, case/when, sort, sort_natural, sort by key, uniq, compact, concat, reverse, map, size, index/property lookup, "
            "default, string filters). json, inspect and type are left out: they print the Go representation by design "
            "({{ m | json }} with m = {\"a\": Drop(1)} is {\"a\":{}}).",
    "trusted_base": COMMON_TB + ["the generator's use analysis decides where a representation may stand"],
    "assumptions": ["integers of every width are compared with integers, floats of either width with floats: an int is not replaced by a float",
                    "`size` takes any value (array length / rune count / 0) and is not a string filter: []byte is not used there",
                    "uniq distinguishes SCALARS by Go interface equality (1, 1.0 and int8(1) are three elements), so the scalar elements of an array under uniq get one numeric width; nested containers and drops vary freely",
                    "json, inspect and type print the Go representation (their purpose) and are not generated",
                    "[]uint8 is []byte in Go and is not used as a typed integer slice"],
}

TEXT = {
    "text": ('Whole-template congruence over the Go-representation value type. RepEq d a b = equality of the normal forms '
              'GoVal.norm d (typed slices and fixed arrays are generic slices, typed maps generic maps with the same key type, at '
              'every depth; with d = true a drop inside a container is the value it yields); bindings and expression results are '
              'compared through unwrap (at the top of the value only: drops of every depth resolved, a pointer followed unless it '
              'points to a struct, range or time, nil pointer = nil; a pointer INSIDE a container is kept by norm and is not its '
              'pointee; a binding of the shape of the renderer\'s own forloop record - which no caller can build - is related to itself only: ERel). '
              'run_rep_independent: for EVERY comparison/filter layer and output layer that respect the equivalence '
              '(PrimsRespect, OutRespect), every configuration, file system, include depth and template source, rendering against '
              'two environments with pointwise equivalent bindings gives the same RunResult (mutual induction over the compiled '
              'tree on the two runs in lock step: rel_renderNode; eval_rel for expressions; assign/capture/loop/forloop/cycle/'
              'include state threading); run_rep_independent_upto_unmodelled is the same up to the boundary of the model. '
              'Standard configuration: stdOut_respects (printing), opEq/opLt/opContains_prep_vrel and '
              'equal_prep_repEq (comparisons), filterRespects_std (exactly: every filter name except sort, sort_natural and those that '
              'observe the Go representation - the value/debugging filters json, inspect, type) - these three for EVERY d, i.e. also for the relation '
              'with drops nested in containers - / filterRespects_std_upto (d = false, up to '
              'unmodelled results: every name except json, inspect, type; uniq respects the equivalence since '
              'fixes/nested-drops-resolved.patch: uniq_respects, answering unmodelled on both sides when an element '
              'holds a pointer; its element key and loop uniqKey_repEq, uniqOn_rel; '
              'filterRespects_of_scalar: any filter whose parameters are all bool/int/float64/string/time, whatever its body; sort '
              'and sort_natural exactly on at most 12 elements (congruence of the insertion-sort model insertionSortM: '
              'sortWith_rel_short, sortNaturalWith_rel_short) and through mergeSort_rel (Proofs.RepEqSort; by the Lean core lemma '
              'List.map_mergeSort) up to their unmodelled tie order beyond: sortWith_rel, sortNaturalWith_rel) give '
              'run_std_rep_independent_partial / run_std_rep_independent_without_repr_filters: on the standard engine with any set of '
              'registered filters that excludes json, inspect and type every template renders to agreeing results (equal, or one run is outside the '
              'model) for environments that differ in typed vs generic slices, fixed arrays, typed maps at any depth and in '
              'drops/pointers around a binding. Drops nested in containers (d = true): run_std_rep_independent_nested_drops - on the standard engine '
              'without json, inspect, type - the engine of run_std_rep_independent_without_repr_filters, the same and only exclusion (stdPrimsOnly withoutNestedOpen, withoutNestedOpen = withoutRepr: '
              'run_std_rep_independent_nested_drops_without_repr_filters states it with that name; sort and sort_natural ARE on it) - every template renders to agreeing results (equal, or one run '
              'is outside the model) for environments whose bindings have the same Liquid values in any Go representation, drops (and drops that yield drops) at ANY '
              'depth of arrays and maps included (ERel true; run_std_rep_independent_nested_drops_vrel states the hypothesis as VRel true on bindings none of which is '
              'the forloop record; run_std_rep_independent_nested_drops_partial for any set of registered filters that excludes those three; '
              'stdPrims_respect_nested_drops: PrimsRespect true true of that layer; filterRespects_std_nested: FilterRespects true true for every name but those three; sort_natural_respects_nested_drops: FilterRespects true true of sort_natural; '
              'std_filter_respects_nested_drops: FilterRespects false true, exactly, for every name but sort, sort_natural and those three). '
              'Operation by operation: values.Equal applies ToLiquid, which follows a chain of drops, to both operands at every depth (Cmp.equalAux_pn_left/right, '
              'opEq_prep_vrel, equal_prep_repEq for every d), Less orders scalars only (opLt_prep_vrel), an array contains by Equal and a map by its keys '
              '(opContains_prep_vrel); and/or/truth tests, index and property lookup, first/last/size, loop items, ranges and loop modifiers take the result of a lookup '
              '- which may BE a drop - through unwrap (test_rel, indexValue_rel, propertyValue_rel, loopItems_unw_rel, intOf_rel: every d); Convert to []any '
              'passes every element through ToLiquid (convElems_noDrops, toLiquid_repEq), so first, last, reverse, compact, concat, uniq, join, map see no drop at the top of an '
              'element (a drop that yields nil IS nil for compact and join) and respect drops below it (first_respects ... map_respects, size/default/dividedBy_respects for every d); '
              'Convert to string prints fmt.Sprint(values.ResolveDrops(.)) (convert_scalar_rel, sprintR_repEq), so every filter with scalar parameters does. '
              'sort and sort: key respect nested drops since fixes/sort-key-drops.patch (sort_respects for every d, up to the unmodelled tie order beyond 12 elements; '
              'keyIndex_repEq, keyIndex_isNil, lessByKeyM_repEq, sortM_rel, sortByM_rel, sortWith_rel for every d): Less compares through ToLiquid, sortableByProperty.Less passes the '
              'entry under the key through ToLiquid BEFORE its nil test, and sort and sort_natural name the key by fmt.Sprint(values.ResolveDrops(key)). Before that repair '
              'sort: key and sort_natural: key did NOT respect them (found while proving this layer): {{ a | sort: "k" | map: "n" | join }} with a = [{"k": 1, "n": "x"}, {"k": Drop(nil), "n": "y"}] '
              'rendered "x y" and with {"k": nil} "y x"; {{ a | sort: k | map: "n" | join }} and {{ a | sort_natural: k | map: "n" | join }} over entries keyed "[1]" rendered "x y" for '
              'k = [Drop(1)] and "y x" for k = [1]; the three former counterexamples of Proofs/C18.lean are theorems of the opposite statement, evaluated on the same templates and bindings '
              '(sort_key_drop_nil_repaired, sort_key_name_drops_repaired, sort_natural_key_name_drops_repaired). sort_natural, sort_natural: key respect nested drops as well '
              '(sortNatural_respects_gen for every d, up to the unmodelled tie order beyond 12 elements; exactly on at most 12 elements: sortNaturalWith_relD_short): sortNaturalFilter looks at '
              'its elements as they are (v == nil, reflect.ValueOf(m)) and relies on Convert to []any having passed them through ToLiquid, so the proof carries "no element is a drop at the top" '
              '(NLD) through the insertion sort and the decoration (insertionSortM_relD, decorate_relD, sortNatM_relD); the sort text of an element is strings.ToUpper(fmt.Sprint(values.ResolveDrops(v))), '
              '"" for nil (natKey_repEq_noDrop), with a key it is the entry under the key passed through ToLiquid before the string test (natKeyBy_repEq_noDrop). No deviation of the code was found there: '
              'the real engine renders drops of strings, drops of drops, drops that yield nil, maps whose entry under the key is a drop or Drop(nil), mixed with plain strings and nil, as their generic twins '
              '(17 rows sort-natural-* of the fixed family; sort_natural_elements_drops_evaluated, sort_natural_key_entries_drops_evaluated are two of them evaluated on the model). '
              'run_stdOut_rep_independent_nested_drops: for every comparison/filter layer that respects the equivalence with nested drops, the STANDARD output layer '
              '(stdOut_respects t true: writeObject writes arrays element by element and maps through fmt.Sprint(values.ResolveDrops(.)); sprintR_norm, writeChunksL_norm '
              'for every d) and every template render two such environments to the same result. The four former deviations are theorems of the opposite statement, '
              'evaluated on the same templates and bindings (uniq_typed_nested_slice_repaired, drop_in_printed_map_repaired, '
              'drop_in_array_to_string_repaired, drop_of_drop_in_array_equal_repaired). Forced restrictions are recorded as evaluated counterexamples in '
              'Proofs/C18.lean (type prints the Go type; json/inspect marshal the Go value: '
              '[]uint8 as base64, map[any]any rejected; only Go int indexes, bounds a range and sets '
              'limit/offset/cols; a fixed-array needle against a fixed-array MapSlice key; a pointer nested in a container prints '
              'as an address). The per-construct theorems remain, each about one operation of the model: drop_* (unwrap, property and index lookup, use as index, truth test, integer '
              'use, printing, also as an array element), ptr_unwrap_* / ptr_propertyValue_slice / ptr_indexValue_map (a pointer to '
              'an int, string, slice or map, and lookup through a pointer to the container itself), '
              'typed_*/array_* (index, property, loop, printing), mapslice_lookup_found/skip for string keys and mapslice_size '
              '(under the hypothesis that looking up the key "size" in the ordered map yields nil: no such key, or one whose value is nil), bytes_print (printing by {{ x }} only), '
              'int_width_prints and int_width_truthy (printing and truthiness only; comparison across widths is '
              'equal_num/less_num of Proofs.C09, audited under C09 and not here; no theorem on arithmetic by width nor on float32). Tie: the `reps` stream '
              'renders every generated template with the generic and five derived Go representations of one logical environment '
              'on the model and on the real engine and requires all of them to render identically on the real engine; in addition '
              'a fixed family of 1094 (variant, generic twin) rows with drops and typed containers nested at depth 1-3 under every printing, '
              'comparison and array-filter path is run on the real engine only and every row must agree (the four former deviations among them).'),
    "design_ref": 'DESIGN.md 6 C18',
    "note": NOTE + ('The property as stated was FALSE on the real engine in four recorded places (a drop inside a map that is printed '
              'whole, a drop inside an array converted to a string parameter, a drop that yields a drop inside an array under '
              'case/when, uniq on nested typed slices); they are repaired by fixes/nested-drops-resolved.patch (known_findings.json K-C18-*, '
              'status fixed; DESIGN 7.1b), the former counterexamples of Proofs/C18.lean are theorems of the opposite statement, and the '
              'fixed family of the reps stream requires all of them (and 1090 further rows) to agree; no pair is whitelisted any more. '
              'values.ToLiquid stops after 64 drops in a row and values.ResolveDrops after 64 levels of containers (guards against a drop that '
              'yields itself); the model follows every chain to its end and the driver answers `unmodelled` for a value that holds a drop '
              'and is nested more than 64 deep (GoVal.withinDropDepth). json, inspect and type still print the Go representation of a nested '
              'drop ({} for the struct), by design. A string `contains` whose needle is an array or a map (fmt.Sprint of the needle) is outside the '
              'model (Cmp.sprintNeedle answers unmodelled): the statements of the reps stream that do it are checked by the oracle on the real engine '
              'only, and a generated case that holds one is skipped by the model comparison as a whole (about 12% of the quick tier). '
              'The whole-template theorem is parametric in the value layer; for the standard layer it is proved for the '
              'relation without drops nested in containers (d = false), up to unmodelled results (agreement is vacuous when either '
              'run is outside the model), and without the filters json, '
              'inspect, type (which observe the Go representation and do not respect the equivalence: counterexamples in Proofs/C18.lean); '
              'for the relation WITH drops nested in containers (d = true) it is proved likewise, up to unmodelled results, for the same engine - the standard engine without json, inspect, type and nothing else '
              '(run_std_rep_independent_nested_drops; sort and sort_natural are on it, up to their unmodelled tie order beyond 12 elements). Two further deviations were found while proving the nested-drops layer and are repaired by fixes/sort-key-drops.patch '
              '(known_findings.json F-C18-sort-key-drops, status fixed): sort by a key did not sort an entry that is a drop yielding nil first, and sort / sort_natural named their key by '
              'fmt.Sprint without resolving the drops a container key holds; five rows of the fixed family (sort-key-*, sort-natural-key-name-holds-drop) fail on the unrepaired tree and must agree now. '
              'Pointers are followed at the top of a binding or expression result only: pointers stored inside maps or arrays '
              '(reached by lookup) and pointers to a struct, range or time are outside the equivalence and covered by the reps '
              'stream only. Numeric width: theorems for printing and truthiness of integers only; comparison by C09 (not audited '
              'here); arithmetic by width and float32 by the reps stream only. []byte: theorem for printing only, under string '
              'filters by the reps stream only. MapSlice-as-map: lookup of string keys and size (when the lookup of "size" yields nil) by theorem, the '
              'rest by the reps stream.'),
    "technique": ('Lean 4 proof (normal form of representations, two-run logical relation over the interaction trees, mutual '
              'induction over the compiled template; case analysis on the value representation) + model/implementation correspondence + metamorphic '
              'oracle over Go representations'),
}
