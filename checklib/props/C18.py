from . import COMMON_TB, NOTE

PROP = {
    "modules": [],
    "streams": [{"name": "reps"}],
    "rule": "reps: a logical environment (nil, bool, Go int, float64, string, []any, map[string]any; numbers at the boundaries of "
            "every integer width) and a template of independent statements from a restricted grammar whose uses of every variable "
            "are known (print, string filters as receiver and argument, == != < > <= >=, contains, case/when, conditions, "
            "arithmetic filters as receiver and argument, loops with modifiers, tablerow, array filters join/first/last/reverse/"
            "sort/uniq/compact/concat/map/size, index and property lookup, map lookup/size/iteration). Five further environments "
            "are derived with a representation chosen independently at every node and only where C18 names it: a drop at any "
            "depth; a pointer at a variable and at the values of a lookup-only map; typed slices, fixed arrays and string-keyed "
            "typed maps when the elements fit; yaml.MapSlice for a lookup/size-only map; every signed and unsigned width that "
            "holds an integer and float32 for exactly representable floats in print/compare/arithmetic positions; []byte for a "
            "string that is only printed or passed to a string filter. All six are rendered on the real engine (and by the "
            "model); a difference is isolated to one statement and minimised to the variable and representation feature.",
    "trusted_base": COMMON_TB + ["the generator's use analysis decides where a representation may stand"],
    "assumptions": ["integers of every width are compared with integers, floats of either width with floats: an int is not replaced by a float",
                    "`size` takes any value (array length / rune count / 0) and is not a string filter: []byte is not used there",
                    "uniq distinguishes by Go interface equality, so arrays under uniq get one representation for all elements",
                    "arrays nested in arrays are not printed in Go syntax (join of nested arrays) with drops inside",
                    "[]uint8 is []byte in Go and is not used as a typed integer slice"],
}

TEXT = {
    "text": ('Theorems over the Go-representation value type: a drop behaves as the value it yields for lookup, truth, index, '
              'printing and iteration (drop_*), a pointer as its pointee (ptr_unwrap_*, nilptr_unwrap), typed slices and fixed '
              'arrays as generic slices for index, properties, loops and printing, typed string-keyed maps as generic maps, '
              'MapSlice lookup and size as a map, []byte prints as its text, integers of every width print and test alike (with '
              'C09 equal_num / less_num for comparison). Tie: the `reps` stream renders every template with every Go '
              'representation of one logical environment on the model and on the real engine and requires all representations to '
              'render identically on the real engine.'),
    "design_ref": 'DESIGN.md 6 C18',
    "note": NOTE + ('Stated per construct rather than as one whole-template theorem (`run` respects representation equivalence): '
              'partial in that sense.'),
    "technique": ('Lean 4 proof (case analysis on the value representation) + model/implementation correspondence + metamorphic '
              'oracle over Go representations'),
}
