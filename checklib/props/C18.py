from . import COMMON_TB, NOTE

PROP = {
    "modules": ["Proofs.RepEq", "Proofs.RepEqOps", "Proofs.RepEqProg", "Proofs.RepEqEval", "Proofs.RepEqRender",
                "Proofs.RepEqStd", "Proofs.RepEqCmp", "Proofs.RepEqFilters", "Proofs.RepEqSort"],
    "streams": [{"name": "reps"}],
    "rule": "reps: a logical environment (nil, bool, Go int, float64, string, []any, map[string]any; numbers at the boundaries of "
            "every integer width) and a template of independent statements from a restricted grammar whose uses of every variable "
            "are known (print, string filters as receiver and argument, == != < > <= >=, contains, case/when, conditions, "
            "arithmetic filters as receiver and argument, loops with modifiers, tablerow, array filters join/first/last/reverse/"
            "sort/sort_natural/uniq/compact/concat/map/size, index and property lookup, map lookup/size/iteration; since fixes/nested-drops-resolved.patch "
            "also every place that prints a container in Go syntax: {{ m }} of a map, an array or map converted to a string parameter, "
            "join and sort_natural of nested arrays, an array or map as the needle of a string `contains`, uniq and == on nested arrays). "
            "Five further environments "
            "are derived with a representation chosen independently at every node and only where C18 names it: a drop at any "
            "depth, now and then a drop that yields a drop (that yields a drop), inside printed containers and under uniq too; a pointer at a variable and at the values of a lookup-only map; typed slices, fixed arrays and string-keyed "
            "typed maps when the elements fit; yaml.MapSlice for a lookup/size-only map; every signed and unsigned width that "
            "holds an integer and float32 for exactly representable floats in print/compare/arithmetic positions; []byte for a "
            "string that is only printed or passed to a string filter. All six are rendered on the real engine (and by the "
            "model); a difference is isolated to one statement and minimised to the variable and representation feature. "
            "Fixed family (shard 0, real engine only; repsNestedDropFamily): 1070 rows (name, template, variant bindings) under fixed case "
            "names `reps-nested <name>`, the generic twin made from the variant by stripping the drop wrappers and the container types "
            "at every depth; ORACLE: the variant renders exactly what its twin renders. 12 explicit rows (the four former deviations "
            "drop-in-printed-map, drop-in-array-to-string, drop-of-drop-in-array-equal, uniq-typed-nested-slice, which now must agree; "
            "controls; lookups through up to five drops in a row), 19 array shapes x 38 paths and 12 map shapes x 28 paths (drops at "
            "depth 1-3 and at every depth, drop of drop of drop, maps in arrays and arrays in maps, drops as map values, typed slices "
            "and maps nested in arrays; print, join, conversion to a string, first/last, for/tablerow, == != <, contains as element and "
            "as needle, case/when, sort, sort_natural, sort by key, uniq, compact, concat, reverse, map, size, index/property lookup, "
            "default, string filters). json, inspect and type are left out: they print the Go representation by design "
            "({{ m | json }} with m = {\"a\": Drop(1)} is {\"a\":{}}).",
    "trusted_base": COMMON_TB + ["the generator's use analysis decides where a representation may stand"],
    "assumptions": ["integers of every width are compared with integers, floats of either width with floats: an int is not replaced by a float",
                    "`size` takes any value (array length / rune count / 0) and is not a string filter: []byte is not used there",
                    "uniq distinguishes SCALARS by Go interface equality (1, 1.0 and int8(1) are three elements), so the scalar elements of an array under uniq get one numeric width; nested containers and drops vary freely",
                    "json, inspect and type print the Go representation (their purpose) and are not generated",
                    "[]uint8 is []byte in Go and is not used as a typed integer slice"],
}

TEXT = {
    "text": ('Whole-template congruence over the Go-representation value type. RepEq d a b = equality of the normal forms '
              'GoVal.norm d (typed slices and fixed arrays are generic slices, typed maps generic maps with the same key type, at '
              'every depth; with d = true a drop inside a container is the value it yields); bindings and expression results are '
              'compared through unwrap (at the top of the value only: drops of every depth resolved, a pointer followed unless it '
              'points to a struct, range or time, nil pointer = nil; a pointer INSIDE a container is kept by norm and is not its '
              'pointee; a binding of the shape of the renderer\'s own forloop record - which no caller can build - is related to itself only: ERel). '
              'run_rep_independent: for EVERY comparison/filter layer and output layer that respect the equivalence '
              '(PrimsRespect, OutRespect), every configuration, file system, include depth and template source, rendering against '
              'two environments with pointwise equivalent bindings gives the same RunResult (mutual induction over the compiled '
              'tree on the two runs in lock step: rel_renderNode; eval_rel for expressions; assign/capture/loop/forloop/cycle/'
              'include state threading); run_rep_independent_upto_unmodelled is the same up to the boundary of the model. '
              'Standard configuration (d = false): stdOut_respects (printing; proved for d = true as well, see below), opEq/opLt/opContains_prep_vrel and '
              'equal_prep_repEq (comparisons), filterRespects_std (exactly: every filter name except sort, sort_natural and those that '
              'observe the Go representation - the value/debugging filters json, inspect, type) / filterRespects_std_upto (up to '
              'unmodelled results: every name except json, inspect, type; uniq respects the equivalence since '
              'fixes/nested-drops-resolved.patch: uniq_respects for the relation d = false, and answering unmodelled on both sides when an element '
              'holds a pointer; its element key and loop uniqKey_repEq, uniqOn_rel for every d; '
              'filterRespects_of_scalar: any filter whose parameters are all bool/int/float64/string/time, whatever its body; sort '
              'and sort_natural exactly on at most 12 elements (congruence of the insertion-sort model insertionSortM: '
              'sortWith_rel_short, sortNaturalWith_rel_short) and through mergeSort_rel (Proofs.RepEqSort; by the Lean core lemma '
              'List.map_mergeSort) up to their unmodelled tie order beyond: sortWith_rel, sortNaturalWith_rel) give '
              'run_std_rep_independent_partial / run_std_rep_independent_without_repr_filters: on the standard engine with any set of '
              'registered filters that excludes json, inspect and type every template renders to agreeing results (equal, or one run is outside the '
              'model) for environments that differ in typed vs generic slices, fixed arrays, typed maps at any depth and in '
              'drops/pointers around a binding. Drops nested in containers (d = true): run_stdOut_rep_independent_nested_drops - for '
              'every comparison/filter layer that respects the equivalence with nested drops, the STANDARD output layer (stdOut_respects t true: '
              'writeObject writes arrays element by element and maps through fmt.Sprint(values.ResolveDrops(.)); sprintR_norm, writeChunksL_norm '
              'for every d) and every template render two such environments to the same result; sprintR_repEq (every place that prints in Go '
              'syntax: Convert to string, join, sort_natural) and uniqKey_repEq / uniqOn_rel (the element key and the loop of uniq) hold for every d, d = true '
              'included; the congruence of values.Equal / Less / contains and of the filter bodies as filters (uniq_respects too) is proved for the '
              'relation d = false only. The four former deviations are theorems of the opposite statement, '
              'evaluated on the same templates and bindings (uniq_typed_nested_slice_repaired, drop_in_printed_map_repaired, '
              'drop_in_array_to_string_repaired, drop_of_drop_in_array_equal_repaired). Forced restrictions are recorded as evaluated counterexamples in '
              'Proofs/C18.lean (type prints the Go type; json/inspect marshal the Go value: '
              '[]uint8 as base64, map[any]any rejected; only Go int indexes, bounds a range and sets '
              'limit/offset/cols; a fixed-array needle against a fixed-array MapSlice key; a pointer nested in a container prints '
              'as an address). The per-construct theorems remain, each about one operation of the model: drop_* (unwrap, property and index lookup, use as index, truth test, integer '
              'use, printing, also as an array element), ptr_unwrap_* / ptr_propertyValue_slice / ptr_indexValue_map (a pointer to '
              'an int, string, slice or map, and lookup through a pointer to the container itself), '
              'typed_*/array_* (index, property, loop, printing), mapslice_lookup_found/skip for string keys and mapslice_size '
              '(under the hypothesis that looking up the key "size" in the ordered map yields nil: no such key, or one whose value is nil), bytes_print (printing by {{ x }} only), '
              'int_width_prints and int_width_truthy (printing and truthiness only; comparison across widths is '
              'equal_num/less_num of Proofs.C09, audited under C09 and not here; no theorem on arithmetic by width nor on float32). Tie: the `reps` stream '
              'renders every generated template with the generic and five derived Go representations of one logical environment '
              'on the model and on the real engine and requires all of them to render identically on the real engine; in addition '
              'a fixed family of 1070 (variant, generic twin) rows with drops and typed containers nested at depth 1-3 under every printing, '
              'comparison and array-filter path is run on the real engine only and every row must agree (the four former deviations among them).'),
    "design_ref": 'DESIGN.md 6 C18',
    "note": NOTE + ('The property as stated was FALSE on the real engine in four recorded places (a drop inside a map that is printed '
              'whole, a drop inside an array converted to a string parameter, a drop that yields a drop inside an array under '
              'case/when, uniq on nested typed slices); they are repaired by fixes/nested-drops-resolved.patch (known_findings.json K-C18-*, '
              'status fixed; DESIGN 7.1b), the former counterexamples of Proofs/C18.lean are theorems of the opposite statement, and the '
              'fixed family of the reps stream requires all of them (and 1066 further rows) to agree; no pair is whitelisted any more. '
              'values.ToLiquid stops after 64 drops in a row and values.ResolveDrops after 64 levels of containers (guards against a drop that '
              'yields itself); the model follows every chain to its end and the driver answers `unmodelled` for a value that holds a drop '
              'and is nested more than 64 deep (GoVal.withinDropDepth). json, inspect and type still print the Go representation of a nested '
              'drop ({} for the struct), by design. A string `contains` whose needle is an array or a map (fmt.Sprint of the needle) is outside the '
              'model (Cmp.sprintNeedle answers unmodelled): the statements of the reps stream that do it are checked by the oracle on the real engine '
              'only, and a generated case that holds one is skipped by the model comparison as a whole (about 12% of the quick tier). '
              'The whole-template theorem is parametric in the value layer; for the standard layer it is proved for the '
              'relation without drops nested in containers (d = false), up to unmodelled results (agreement is vacuous when either '
              'run is outside the model), and without the filters json, '
              'inspect, type (which observe the Go representation and do not respect the equivalence: counterexamples in Proofs/C18.lean); '
              'for the relation WITH drops nested in containers (d = true) the output layer (stdOut_respects, run_stdOut_rep_independent_nested_drops), '
              'printing in Go syntax (sprintR_repEq) and the element key and loop of uniq (uniqKey_repEq, uniqOn_rel) are proved; the standard comparisons '
              'and the filters as a layer (PrimsRespect t true stdPrims) are not: they are covered by the reps stream and its fixed family only. '
              'Pointers are followed at the top of a binding or expression result only: pointers stored inside maps or arrays '
              '(reached by lookup) and pointers to a struct, range or time are outside the equivalence and covered by the reps '
              'stream only. Numeric width: theorems for printing and truthiness of integers only; comparison by C09 (not audited '
              'here); arithmetic by width and float32 by the reps stream only. []byte: theorem for printing only, under string '
              'filters by the reps stream only. MapSlice-as-map: lookup of string keys and size (when the lookup of "size" yields nil) by theorem, the '
              'rest by the reps stream.'),
    "technique": ('Lean 4 proof (normal form of representations, two-run logical relation over the interaction trees, mutual '
              'induction over the compiled template; case analysis on the value representation) + model/implementation correspondence + metamorphic '
              'oracle over Go representations'),
}
