from . import COMMON_TB, NOTE

PROP = {
    "modules": ["Proofs.RepEq", "Proofs.RepEqOps", "Proofs.RepEqProg", "Proofs.RepEqEval", "Proofs.RepEqRender",
                "Proofs.RepEqStd", "Proofs.RepEqCmp", "Proofs.RepEqFilters", "Proofs.RepEqSort"],
    "streams": [{"name": "reps"}],
    "rule": "reps: a logical environment (nil, bool, Go int, float64, string, []any, map[string]any; numbers at the boundaries of "
            "every integer width) and a template of independent statements from a restricted grammar whose uses of every variable "
            "are known (print, string filters as receiver and argument, == != < > <= >=, contains, case/when, conditions, "
            "arithmetic filters as receiver and argument, loops with modifiers, tablerow, array filters join/first/last/reverse/"
            "sort/uniq/compact/concat/map/size, index and property lookup, map lookup/size/iteration). Five further environments "
            "are derived with a representation chosen independently at every node and only where C18 names it: a drop at any "
            "depth; a pointer at a variable and at the values of a lookup-only map; typed slices, fixed arrays and string-keyed "
            "typed maps when the elements fit; yaml.MapSlice for a lookup/size-only map; every signed and unsigned width that "
            "holds an integer and float32 for exactly representable floats in print/compare/arithmetic positions; []byte for a "
            "string that is only printed or passed to a string filter. All six are rendered on the real engine (and by the "
            "model); a difference is isolated to one statement and minimised to the variable and representation feature.",
    "trusted_base": COMMON_TB + ["the generator's use analysis decides where a representation may stand"],
    "assumptions": ["integers of every width are compared with integers, floats of either width with floats: an int is not replaced by a float",
                    "`size` takes any value (array length / rune count / 0) and is not a string filter: []byte is not used there",
                    "uniq distinguishes by Go interface equality, so arrays under uniq get one representation for all elements",
                    "json, inspect and type print the Go representation (their purpose) and are not generated",
                    "arrays nested in arrays are not printed in Go syntax (join of nested arrays) with drops inside",
                    "[]uint8 is []byte in Go and is not used as a typed integer slice"],
}

TEXT = {
    "text": ('Whole-template congruence over the Go-representation value type. RepEq d a b = equality of the normal forms '
              'GoVal.norm d (typed slices and fixed arrays are generic slices, typed maps generic maps with the same key type, at '
              'every depth; with d = true a drop inside a container is the value it yields); bindings and expression results are '
              'compared through unwrap (drops of every depth resolved, pointers followed, nil pointer = nil). '
              'run_rep_independent: for EVERY comparison/filter layer and output layer that respect the equivalence '
              '(PrimsRespect, OutRespect), every configuration, file system, include depth and template source, rendering against '
              'two environments with pointwise equivalent bindings gives the same RunResult (mutual induction over the compiled '
              'tree on the two runs in lock step: rel_renderNode; eval_rel for expressions; assign/capture/loop/forloop/cycle/'
              'include state threading); run_rep_independent_upto_unmodelled is the same up to the boundary of the model. '
              'Standard configuration (d = false): stdOut_respects (printing), opEq/opLt/opContains_prep_vrel and '
              'equal_prep_repEq (comparisons), filterRespects_std / filterRespects_std_upto (every standard filter except those that '
              'observe the Go representation - uniq, and the value/debugging filters json, inspect, type; '
              'filterRespects_of_scalar: any filter whose parameters are all bool/int/float64/string/time, whatever its body; sort '
              'and sort_natural exactly on at most 12 elements (congruence of the insertion-sort model insertionSortM: '
              'sortWith_rel_short, sortNaturalWith_rel_short) and through List.map_mergeSort up to their unmodelled tie order '
              'beyond) give '
              'run_std_rep_independent_partial / run_std_rep_independent_without_repr_filters: on the standard engine with any set of '
              'registered filters that excludes uniq, json, inspect and type every template renders to agreeing results (equal, or one run is outside the '
              'model) for environments that differ in typed vs generic slices, fixed arrays, typed maps at any depth and in '
              'drops/pointers around a binding. Forced restrictions are recorded as evaluated counterexamples in '
              'Proofs/C18.lean (uniq sees nested element types; type prints the Go type; json/inspect marshal the Go value: '
              '[]uint8 as base64, map[any]any rejected; fmt.Sprint shows drops inside maps and under string filters; a '
              'drop yielding a drop inside an array under values.Equal; only Go int indexes, bounds a range and sets '
              'limit/offset/cols; a fixed-array needle against a fixed-array MapSlice key). The per-construct theorems '
              '(drop_*, ptr_unwrap_*, typed_*/array_*, mapslice_*, bytes_print, int_width_*) remain. Tie: the `reps` stream renders '
              'every template with every Go representation of one logical environment on the model and on the real engine and '
              'requires all representations to render identically on the real engine.'),
    "design_ref": 'DESIGN.md 6 C18',
    "note": NOTE + ('The whole-template theorem is parametric in the value layer; for the standard layer it is proved for the '
              'relation without drops nested in containers (d = false), up to unmodelled results, and without the filters uniq, json, '
              'inspect, type (which observe the Go representation and do not respect the equivalence: counterexamples in Proofs/C18.lean). Numeric width, []byte-as-string and MapSlice-as-map are covered by the '
              'per-construct theorems and the reps stream only.'),
    "technique": ('Lean 4 proof (normal form of representations, two-run logical relation over the interaction trees, mutual '
              'induction over the compiled template; case analysis on the value representation) + model/implementation correspondence + metamorphic '
              'oracle over Go representations'),
}
