from . import COMMON_TB, NOTE

PROP = {
    "modules": ["Proofs.RepEq", "Proofs.RepEqOps", "Proofs.RepEqProg", "Proofs.RepEqEval", "Proofs.RepEqRender",
                "Proofs.RepEqStd", "Proofs.RepEqCmp", "Proofs.RepEqFilters", "Proofs.RepEqSort"],
    "streams": [{"name": "reps"}],
    "rule": "reps: a logical environment (nil, bool, Go int, float64, string, []any, map[string]any; numbers at the boundaries of "
            "every integer width) and a template of independent statements from a restricted grammar whose uses of every variable "
            "are known (print, string filters as receiver and argument, == != < > <= >=, contains, case/when, conditions, "
            "arithmetic filters as receiver and argument, loops with modifiers, tablerow, array filters join/first/last/reverse/"
            "sort/uniq/compact/concat/map/size, index and property lookup, map lookup/size/iteration). Five further environments "
            "are derived with a representation chosen independently at every node and only where C18 names it: a drop at any "
            "depth; a pointer at a variable and at the values of a lookup-only map; typed slices, fixed arrays and string-keyed "
            "typed maps when the elements fit; yaml.MapSlice for a lookup/size-only map; every signed and unsigned width that "
            "holds an integer and float32 for exactly representable floats in print/compare/arithmetic positions; []byte for a "
            "string that is only printed or passed to a string filter. All six are rendered on the real engine (and by the "
            "model); a difference is isolated to one statement and minimised to the variable and representation feature. "
            "Fixed family (shard 0, real engine only): seven (variant, generic twin) pairs under fixed case names `reps-nested "
            "<name>` - the four known deviations (drop-in-printed-map, drop-in-array-to-string, drop-of-drop-in-array-equal, "
            "uniq-typed-nested-slice: reported, matched by known_findings.json and printed as KNOWN-FINDING) and three controls "
            "that must agree; the random generator keeps drops out of containers that are printed in Go syntax.",
    "trusted_base": COMMON_TB + ["the generator's use analysis decides where a representation may stand"],
    "assumptions": ["integers of every width are compared with integers, floats of either width with floats: an int is not replaced by a float",
                    "`size` takes any value (array length / rune count / 0) and is not a string filter: []byte is not used there",
                    "uniq distinguishes by Go interface equality, so arrays under uniq get one representation for all elements",
                    "json, inspect and type print the Go representation (their purpose) and are not generated",
                    "arrays nested in arrays are not printed in Go syntax (join of nested arrays) with drops inside",
                    "[]uint8 is []byte in Go and is not used as a typed integer slice"],
}

TEXT = {
    "text": ('Whole-template congruence over the Go-representation value type. RepEq d a b = equality of the normal forms '
              'GoVal.norm d (typed slices and fixed arrays are generic slices, typed maps generic maps with the same key type, at '
              'every depth; with d = true a drop inside a container is the value it yields); bindings and expression results are '
              'compared through unwrap (at the top of the value only: drops of every depth resolved, a pointer followed unless it '
              'points to a struct, range or time, nil pointer = nil; a pointer INSIDE a container is kept by norm and is not its '
              'pointee). '
              'run_rep_independent: for EVERY comparison/filter layer and output layer that respect the equivalence '
              '(PrimsRespect, OutRespect), every configuration, file system, include depth and template source, rendering against '
              'two environments with pointwise equivalent bindings gives the same RunResult (mutual induction over the compiled '
              'tree on the two runs in lock step: rel_renderNode; eval_rel for expressions; assign/capture/loop/forloop/cycle/'
              'include state threading); run_rep_independent_upto_unmodelled is the same up to the boundary of the model. '
              'Standard configuration (d = false): stdOut_respects (printing), opEq/opLt/opContains_prep_vrel and '
              'equal_prep_repEq (comparisons), filterRespects_std / filterRespects_std_upto (every standard filter except those that '
              'observe the Go representation - uniq, and the value/debugging filters json, inspect, type; '
              'filterRespects_of_scalar: any filter whose parameters are all bool/int/float64/string/time, whatever its body; sort '
              'and sort_natural exactly on at most 12 elements (congruence of the insertion-sort model insertionSortM: '
              'sortWith_rel_short, sortNaturalWith_rel_short) and through List.map_mergeSort up to their unmodelled tie order '
              'beyond) give '
              'run_std_rep_independent_partial / run_std_rep_independent_without_repr_filters: on the standard engine with any set of '
              'registered filters that excludes uniq, json, inspect and type every template renders to agreeing results (equal, or one run is outside the '
              'model) for environments that differ in typed vs generic slices, fixed arrays, typed maps at any depth and in '
              'drops/pointers around a binding. Forced restrictions are recorded as evaluated counterexamples in '
              'Proofs/C18.lean (uniq sees nested element types; type prints the Go type; json/inspect marshal the Go value: '
              '[]uint8 as base64, map[any]any rejected; fmt.Sprint shows drops inside maps and under string filters; a '
              'drop yielding a drop inside an array under values.Equal; only Go int indexes, bounds a range and sets '
              'limit/offset/cols; a fixed-array needle against a fixed-array MapSlice key; a pointer nested in a container prints '
              'as an address). The per-construct theorems remain, each about one operation of the model: drop_* (unwrap, property and index lookup, use as index, truth test, integer '
              'use, printing, also as an array element), ptr_unwrap_* / ptr_propertyValue_slice / ptr_indexValue_map (a pointer to '
              'an int, string, slice or map, and lookup through a pointer to the container itself), '
              'typed_*/array_* (index, property, loop, printing), mapslice_lookup_found/skip for string keys and mapslice_size '
              '(under the hypothesis that the ordered map has no key "size"), bytes_print (printing by {{ x }} only), '
              'int_width_prints and int_width_truthy (printing and truthiness only; comparison across widths is C09\'s '
              'equal_num/less_num, not audited here; no theorem on arithmetic by width nor on float32). Tie: the `reps` stream '
              'renders every generated template with the generic and five derived Go representations of one logical environment '
              'on the model and on the real engine and requires all of them to render identically on the real engine; in addition '
              'a fixed family of seven (variant, generic twin) pairs is run on the real engine only, of which four are known to '
              'differ (see Limits) and are whitelisted under fixed case names - any other difference is a violation.'),
    "design_ref": 'DESIGN.md 6 C18',
    "note": NOTE + ('The property as stated is FALSE on the real engine in four recorded places: a drop inside a map that is printed '
              'whole ({{ m }} shows the Go struct), a drop inside an array converted to a string parameter ({{ a | append: "" }}), '
              'a drop that yields a drop inside an array under case/when (values.Equal resolves one level), and uniq on nested '
              'typed slices ([]int{1} and []any{1} are distinct elements). They are recorded in known_findings.json '
              '(K-C18-*, status known; DESIGN 7.1b), proved as counterexamples in Proofs/C18.lean, reported as KNOWN-FINDING by the '
              'fixed family of the reps stream on every run, and not repaired; apart from these four whitelisted pairs the reps '
              'oracle requires identical rendering. '
              'The whole-template theorem is parametric in the value layer; for the standard layer it is proved for the '
              'relation without drops nested in containers (d = false), up to unmodelled results (agreement is vacuous when either '
              'run is outside the model), and without the filters uniq, json, '
              'inspect, type (which observe the Go representation and do not respect the equivalence: counterexamples in Proofs/C18.lean). '
              'Pointers are followed at the top of a binding or expression result only: pointers stored inside maps or arrays '
              '(reached by lookup) and pointers to a struct, range or time are outside the equivalence and covered by the reps '
              'stream only. Numeric width: theorems for printing and truthiness of integers only; comparison by C09 (not audited '
              'here); arithmetic by width and float32 by the reps stream only. []byte: theorem for printing only, under string '
              'filters by the reps stream only. MapSlice-as-map: lookup of string keys and size (no key "size") by theorem, the '
              'rest by the reps stream.'),
    "technique": ('Lean 4 proof (normal form of representations, two-run logical relation over the interaction trees, mutual '
              'induction over the compiled template; case analysis on the value representation) + model/implementation correspondence + metamorphic '
              'oracle over Go representations'),
}
