from . import COMMON_TB, NOTE

PROP = {
    "modules": [],
    "level": "proof",
    "streams": [{"name": "cond"}],
    "rule": "cond: (1) exhaustive: every value of the boundary universe (118 values incl. drops/pointers presenting nil and "
            "false) bound to x, as the condition at every position 1..4 of an if/elsif chain (falsy constants before it; the "
            "first truthy constant after it at every later position, the else branch, or nowhere; the conditions after that "
            "truthy constants or poison; also poison directly after it and poison in every position after it), as the subject of a case with the equal when clause at every position 1..4 (same "
            "layouts, poison when values), and under unless with 0..3 else clauses; (2) case equality matrix over the 53 simple "
            "values (53 x 53); (3) if/unless duality for every universe value, every poison expression and 8000 (quick) / 60000 "
            "(thorough) generated conditions (comparisons, contains, and/or, filters, injected evaluation errors) over generated "
            "environments; (4) 20000 / 200000 generated conditional programs: if chains with 1..6 conditional branches, unless, "
            "case/when with 1..3 values per clause, nesting <= 4, mixed with for loops (depth <= 2); conditions are variables bound "
            "to universe values, literals, loop variables, forloop.first/last, integer comparisons on forloop fields, generated "
            "comparison/contains/and/or expressions over a generated schema (their outcome is measured with an assign+print probe "
            "render, a path that uses no conditional tag) and poison expressions placed after a branch that is always taken. "
            "Every branch body prints a unique marker. Poison = an expression that fails whenever it is evaluated "
            "(1 | divided_by: 0, 1 | nofilter, (1..\"a\") ...). Distinct non-trivial = distinct specs with non-empty output",
    "trusted_base": COMMON_TB + ["the reference interpreter of harness/ref_prog.go (truthiness table, first truthy branch, == on "
                                 "simple values) is the oracle; it does not use the Lean model or the library"],
    "assumptions": ["a drop or pointer is judged by the value it presents (a nil pointer and a drop presenting nil are nil)",
                    "case equality is claimed only for nil, booleans, strings, floats and signed integers below 2^53; for other "
                    "subjects the case lines are compared with the model only"],
}

TEXT = {
    "text": "Correspondence and oracle level (the Lean theorem modules for C10 are added by the render-model owner): every case "
            "is a `render` case line answered by the Lean model and by the real engine; on the real engine's output an "
            "independent reference (harness/ref_prog.go) checks that exactly the marker of the first truthy branch appears "
            "(nil and false falsy, everything else truthy), that unless negates only its own condition, that case selects the "
            "first when clause listing a value equal to the subject, that a failing expression after the selected branch is "
            "never evaluated and one before it fails the render, and that {% if c %}A{% else %}B{% endif %} and "
            "{% unless c %}B{% else %}A{% endunless %} render alike for every generated c, erroring ones included.",
    "design_ref": "DESIGN.md 6 C10",
    "note": NOTE + "Comparison operators inside conditions are answered `unmodelled` by the model until Compare.lean is linked; "
                   "the oracle on the real code does not depend on the model.",
    "technique": "model/implementation correspondence + independent reference oracle + metamorphic (if/unless duality) oracle",
}
