from . import COMMON_TB, NOTE

PROP = {
    "modules": [],
    "level": "proof",
    "streams": [{"name": "cond"}],
    "rule": "cond: (1) exhaustive: every value of the boundary universe (118 values incl. drops/pointers presenting nil and "
            "false) bound to x, as the condition at every position 1..4 of an if/elsif chain (falsy constants before it; the "
            "first truthy constant after it at every later position, the else branch, or nowhere; the conditions after that "
            "truthy constants or poison; also poison directly after it and poison in every position after it), as the subject of a case with the equal when clause at every position 1..4 (same "
            "layouts, poison when values), and under unless with 0..3 else clauses; (2) case equality matrix over the 53 simple "
            "values (53 x 53); (3) if/unless duality for every universe value, every poison expression and 8000 (quick) / 60000 "
            "(thorough) generated conditions (comparisons, contains, and/or, filters, injected evaluation errors) over generated "
            "environments: the two real renders must give equal bytes, or both fail with the same kind of error; (4) 20000 / 200000 generated conditional programs: if chains with 1..6 conditional branches, unless, "
            "case/when with 1..3 values per clause, nesting <= 4, mixed with for loops (depth <= 2); conditions are variables bound "
            "to universe values, literals, loop variables, forloop.first/last, integer comparisons on forloop fields, generated "
            "comparison/contains/and/or expressions over a generated schema (their outcome is measured with an assign+print probe "
            "render, a path that uses no conditional tag) and poison expressions placed after a branch that is always taken. "
            "Every branch body prints a unique marker. Poison = an expression that fails whenever it is evaluated "
            "(1 | divided_by: 0, 1 | nofilter, (1..\"a\") ...). Distinct non-trivial = distinct specs with non-empty output",
    "trusted_base": COMMON_TB + ["the reference interpreter of harness/ref_prog.go (truthiness table, first truthy branch, == on "
                                 "simple values) is the oracle; it does not use the Lean model or the library"],
    "assumptions": ["a drop or pointer is judged by the value it presents (a nil pointer and a drop presenting nil are nil)",
                    "case equality is claimed only for nil, booleans, strings, floats and signed integers below 2^53; for other "
                    "subjects the case lines are compared with the model only"],
}

TEXT = {
    "text": ('Theorems for every condition, body and state: a value is truthy iff it is neither nil nor false (test_truthy_iff); '
              'a conditional renders exactly the body of the first branch whose test is truthy (if_first_truthy), independent of '
              'later branches which are not evaluated (if_lazy), nothing when none is (if_none), and fails when the first '
              'non-falsy test fails (if_cond_err); unless is the dual of if for every condition, erroring ones included '
              '(unless_dual); case renders the first when-clause listing a value equal to the subject, else the else clause, else '
              'nothing (case_first_equal, case_else, case_none). Closed forms composing these: for every branch list and state, '
              'rendering an if/elsif/else or unless chain equals rendering the body that List.find? selects - the first branch '
              'whose test is not falsy - or failing with that test\'s error at its own tag, or nothing (if_denotation, '
              'if_denotation_selects, if_node_denotation); likewise the clauses of a case over the first clause that is an else '
              'or lists a value equal to the subject (case_denotation, case_node_denotation, case_subject_err). From source bytes (Proofs.C10Source: run on the text `spell d items`, read back through scan_spell, the block parser and the compiler; for every good delimiter set, every clean item list - Clean: the items are what the tokenizer reads back from their spelling, i.e. no opening delimiter begins inside a text and the closing delimiter of a tag or object is the first one after its opening - and all self-contained bodies A, B): the one-line sources {% if c %}A{% else %}B{% endif %} and {% unless c %}B{% else %}A{% endunless %} give the same result of run for every such condition text c, value layer and environment (if_else_unless_dual_source; the one-line condition is needed, dual_lines_differ); on any number of lines, for bodies without an include tag and a start line >= 1, the two results agree up to the line of the error - same output, or errors with the same cause, message and path flag (if_else_unless_dual_up_to_line_source, through lineRel_renderNode: rendering depends on the line numbers of the nodes only in the line of an error); both fail with a syntax error at the line of their tag when c is not an expression (if_else_bad_condition_source); when c is an expression that evaluates without error, {% if c %}A{% endif %} renders nothing for a falsy value and succeeds exactly when A does, with the output of A, for a truthy one (if_source; unless_source with the two exchanged); for an `if` chain {% if c0 %}A0{% elsif c1 %}A1 ... {% else %}E{% endif %} with any number of clauses (all compiling) in which c0 and every elsif condition before the selected clause evaluate, without error, to nil or false: the block succeeds exactly when the body of the first clause whose condition evaluates truthy (or the else clause) does, as a template of its own where it stands, with exactly that output - later conditions and bodies play no part - and renders nothing when there is no else clause and every condition evaluates to nil or false (if_chain_first_source, if_chain_clause_source, if_chain_none_source: the error-free cases of if_denotation read on source text); {% case s %}{% when vs %}A{% else %}E{% endcase %}, the subject and the when values evaluating and comparing without error, succeeds exactly as A when one of the when values equals the subject and exactly as E when none does (case_when_else_source). Tie: the `cond` stream answers every case by the model and the real engine, and an independent reference (harness/ref_prog.go) checks the selected marker and laziness on the real output; the if/unless duality is checked between two real renders (equal bytes; two failures are compared by their error kind only).'),
    "design_ref": 'DESIGN.md 6 C10',
    "note": NOTE + ("The tree-level theorems (Proofs.C10) cover failing conditions (if_cond_err, if_denotation, case_denotation, case_subject_err); the source-level chain and case theorems do not: they are stated for `if` chains (not `unless` chains) in which every condition up to the selected clause evaluates without error, and for a case with one when clause and an else whose subject and when values evaluate and compare without error; if_source / unless_source need c to be an expression that evaluates. All source-level theorems need a clean item list (Clean, DESIGN 7.1) and compare results of run, i.e. on a writer that does not fail. The duality is an equality of results for one-line sources only; on several lines it holds up to the line of the error, proved for bodies without an include tag and a start line >= 1 (the other cases are not known to fail). On the real engine the duality oracle compares bytes, and for two failing renders the error kind only (message and line are compared through the model)."),
    "technique": ('Lean 4 proof (induction over the branch list of the render model; closed forms over List.find?) + model/implementation correspondence + '
              'independent reference and metamorphic oracle'),
}
