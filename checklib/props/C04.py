from . import NOTE

PROP = {
    "modules": ["Proofs.C04"],
    # the harness is built with `go build -race` for this property
    "race": True,
    # obligations over generated tables: a translator line `OBLIGATION no_shared_writes BROKEN <fact>` is reported
    "obligations": ["no_shared_writes"],
    # a round = one child process with N goroutines at a given GOMAXPROCS; 10 shards keep at most ~10 children alive
    "streams": [{"name": "conc", "shards": 10}],
    "rule": "conc: rounds over N in {2,4,8,16,32} goroutines x GOMAXPROCS in {1,2,4,16} (quick: 60 rounds, thorough: 500), each "
            "sharing ONE engine (custom filter/tag/block registered, include cache filled, strict variables in every 5th "
            "round, custom delimiters << >> <% %> with every source respelled in every 3rd round; before the shared phase a "
            "configured engine that has not parsed anything yet is handed to all goroutines, which start by parsing), ONE set of parsed templates (36 fixed templates covering every standard tag and all 48 standard "
            "filters, error paths included, + 12 random loop/cycle templates) and ONE bindings map (scalars, caller-owned "
            "slices and maps, typed slice, MapSlice, range, pointer, struct, drops, 3 random values); every goroutine "
            "renders every shared template through Render/RenderString/FRender, all released by one common start signal "
            "(even goroutines in list order, odd ones in reverse; no barrier between the renders), then a random mix of "
            "ParseTemplate+Render, ParseAndRenderString and shared renders; run under the Go race detector "
            "(GORACE=halt_on_error=1 exitcode=66) in a child process. A round is non-trivial by construction; distinct by "
            "(round, N, GOMAXPROCS). The race detector SAMPLES schedules; the all-schedules claim is the theorems about the "
            "abstract machine under an ASSUMED ownership premise, of which the obligation no_shared_writes over the table "
            "translator T3 regenerates from the Go source on every run checks a necessary condition.",
    "trusted_base": [
        "Go memory model and the Go race detector (ThreadSanitizer runtime); sync.Once used by values.dropWrapper",
        "translator T3 (translate/writes.go, go/ssa of golang.org/x/tools v0.29.0): flow-insensitive closure escape test, "
        "not a pointer analysis — writes made by a callee through a pointer parameter are not attributed",
        "Go harness, Python orchestrator and Lean driver I/O loop are ordinary unverified programs",
    ],
    "assumptions": [
        "the machine of Liquid/Conc.lean abstracts a parse or render call as a FIXED, finite, straight-line sequence of "
        "reads/writes of locations with an owner region: no control flow and no address depends on a value read, nothing is "
        "allocated, and there is no lock or other synchronisation in the machine (sync.Once of values.dropWrapper is trusted); "
        "that a call of the real code is such a sequence is assumed",
        "the premise of the theorems (WritesOwned: writes go to locations the call allocated itself; ReadsVisible: no call "
        "reads another call's allocations) is ASSUMED for the code, not derived: no theorem connects it to the source. The "
        "obligation no_shared_writes checks statically one necessary condition of WritesOwned (no store through a captured or "
        "package-level variable); writes through a receiver or pointer parameter into the shared engine, templates or "
        "bindings, and ReadsVisible altogether, have no static check and are covered only by the race detector rounds "
        "(dynamic, sampled schedules)",
        "configuration (RegisterFilter/RegisterTag/RegisterBlock/StrictVariables/Delims/ParseTemplateAndCache, which writes "
        "the engine's include cache) happens before the goroutines start, as the property's premise says",
    ],
}

TEXT = {
    "text": "Theorems for ALL schedules of an abstract interleaving machine whose threads are fixed straight-line sequences of "
            "reads and writes (no control flow or address depending on a value read, no locks; induction on the schedule): if "
            "every write of every thread "
            "targets a location owned by that thread (WritesOwned) and no thread reads another thread's allocations "
            "(ReadsVisible), no trace has two "
            "conflicting accesses by different threads (conc_race_free), every finished thread's result equals its result "
            "when run alone (conc_eq_sequential; prefix form conc_prefix_sequential), the shared region is unchanged "
            "(conc_shared_unchanged), and a thread given enough turns finishes (conc_enough_turns_finishes). That the code "
            "satisfies WritesOwned/ReadsVisible is assumed, not proved. One necessary condition of it, "
            "no_shared_writes, is re-proved by `decide` on every run over the table of stores to "
            "captured/package-level variables that translator T3 regenerates from the Go source with go/ssa (no closure "
            "that outlives its creator writes a captured variable; no package-level variable written outside init). "
            "The real code is run under the race detector on a grid N x GOMAXPROCS with shared engine/templates/bindings; "
            "oracle: no race report and every concurrent result equals the sequential one.",
    "design_ref": "DESIGN.md 6 C04, 4 (Conc.lean in the table of model files), 3.3 and 5.4 (T3), 7.1 (12fa2bb; D10 in A.5)",
    "note": NOTE + "The race-detector rounds sample schedules (and with GOMAXPROCS=1 incidental sync.Pool edges hide many "
            "races); the all-schedules statement is about the abstract machine under the assumed premise WritesOwned/"
            "ReadsVisible; the T3 obligation checks only that no store goes through a captured or package-level variable (its "
            "escape test is an over-approximation for closures but does not follow writes through receivers and pointer "
            "parameters), and nothing static stands for ReadsVisible. The model side of "
            "the `conc` stream is the constant verdict `ok`.",
    "technique": "Lean 4 proof about the interleaving model (invariant preserved by every step, induction on the schedule) + source facts "
                 "re-extracted by translator T3 (go/ssa) on every run and checked by `decide` (no_shared_writes, global_calls_audited: a "
                 "necessary condition of the ownership premise, which the theorems assume) + race-detector differential runs (concurrent vs "
                 "sequential) on the implementation",
}
