from . import COMMON_TB, NOTE

PROP = {
    "level": "proof",
    "modules": ["Proofs.C15Heap"],
    "streams": [{"name": "immut"}, {"name": "alias"}],
    "rule": "immut: sequences of 2..40 operations (Render, RenderString, FRender on templates parsed once, ParseAndRender; "
            "ParseTemplateAndCache is not among them) "
            "on one engine over working sets drawn from pools of 40 generated templates x 12 environments of one schema "
            "(array-filter heavy: sort, reverse, uniq, concat, compact, map, first, last, join, sort_natural applied to "
            "caller-owned []any, typed slices, arrays, nested slices and maps); about a third of the renders fail (measured: "
            "input_distribution immut:renders-failing / immut:renders). The "
            "environments are built once per sequence with spare slice capacity holding a sentinel; a reflect deep "
            "snapshot (slice len/cap/elements up to cap, map entries, struct fields, pointer targets, identities) is "
            "taken before and compared after each render and at the end; each result must equal the result of the same "
            "(template, environment) rendered alone on a fresh engine with fresh bindings (a render whose result varies "
            "by itself is C02's matter and is counted, not reported). Three fixed families first: every array filter (and three two-filter pipelines) "
            "applied directly to 9 caller-owned arrays of each shape, rendered three times; 7 templates with per-render state (cycle, assign, capture, "
            "forloop) rendered with good bindings, then with 3 bindings that make the render fail part-way, then again; a caller-bound `forloop` "
            "record with cycle counters of the renderer's own Go type (3 records x 4 templates). Non-trivial = a sequence with a successful render. "
            "alias: pipelines of array filters on caller-owned []any values realised as sub-slices of larger backing arrays "
            "filled with a sentinel (generation rule under C15); the oracle reports C03 bindings-modified when any location of "
            "a caller's array, or the deep snapshot of the bindings map, differs after the evaluation (also when the evaluation "
            "fails).",
    "trusted_base": COMMON_TB,
    "assumptions": [],
}

TEXT = {
    "text": ('History machine over engine operations (Proofs/C03.lean; a render operation carries the template SOURCE and is the '
              'pure function `run`, the only engine state is the include cache). Its statements hold by construction of that '
              'machine and are not evidence about the code: render_preserves_engine (rfl: the render step is defined to return '
              'the cache it was given), history_independent (in any history that consists of renders only, succeeding or '
              'failing, every render returns what it returns alone from the same cache), rerender_same, vars_reset (rfl: the '
              'unfolding of frender, which starts from the environment it is given and an empty trim buffer). A parsed template '
              'as an object that could be changed, and the caller\'s bindings as memory, do not exist in this model; '
              'ParseTemplateAndCache is an operation of the machine but occurs in no theorem and in no `immut` case. What ties '
              'the statement to the code: every `immut` case line (a history of renders over '
              'several templates and bindings on one engine) is answered by the model and compared with the real engine op by op; '
              "on the real code the caller's bindings are deep-snapshotted (addresses, lengths, spare capacity, contents) around "
              'every render, and every render is compared with the same render on a fresh engine, confirmed by replaying the '
              'history prefix from scratch. Slices reachable from the bindings (Proofs/C15Heap.lean, on the slice-memory model '
              "Liquid/Heap.lean): array_filters_do_not_write_inputs, pipeline_no_write -- every filter application and every "
              "pipeline of the array filters (and default) that the memory model runs to completion (result `ok`) has written "
              "only into arrays it allocated itself, so the caller's backing "
              "arrays, spare capacity included, are unchanged; a run that ends in an error, a panic or `unmodelled` (e.g. a sort "
              "of more than 12 elements outside the model) returns no store in the model and nothing is stated about it; "
              "the swaps of sort.Sort are not derived from its code but modelled as writes into the copy the filter made. "
              "convert_passes_generic_slice_through (well-formed []any without a drop) / array_results_never_alias / "
              "default_returns_its_input_uncopied state which values share memory with the caller's; tied by the `alias` stream "
              "(real []any values with spare capacity: result, alias flag, changed locations)."),
    "design_ref": 'DESIGN.md 6 C03',
    "note": NOTE + ("In-place modification of a caller's slice by a filter is a theorem about the slice-memory model (C15Heap), for "
              "completed runs. Carried by the snapshot oracles only: writes made by a filter or pipeline that fails, "
              "writes through maps, structs and pointers, through nested slices inside "
              "elements (elements are immutable values in the memory model), by tags (assign/capture/for work on the render's "
              "own variable map, copied from the bindings), any change to a parsed template or to engine state other than the "
              "include cache, and histories that contain ParseTemplateAndCache (not generated)."),
    "technique": ('Lean 4 proof (write-log invariant on a slice-memory model, induction over '
              'pipelines; the history-machine statements are definitional) + model/implementation correspondence over generated '
              'histories and over slices with spare capacity + '
              'deep-snapshot oracle on the implementation'),
}
