from . import COMMON_TB, NOTE

PROP = {
    "level": "proof",
    "modules": ["Proofs.C15Heap"],
    "streams": [{"name": "immut"}, {"name": "alias"}],
    "rule": "immut: sequences of 2..40 operations (Render, RenderString, FRender on templates parsed once, ParseAndRender) "
            "on one engine over working sets drawn from pools of 40 generated templates x 12 environments of one schema "
            "(array-filter heavy: sort, reverse, uniq, concat, compact, map, first, last, join, sort_natural applied to "
            "caller-owned []any, typed slices, arrays, nested slices and maps); about 40 % of the renders fail. The "
            "environments are built once per sequence with spare slice capacity holding a sentinel; a reflect deep "
            "snapshot (slice len/cap/elements up to cap, map entries, struct fields, pointer targets, identities) is "
            "taken before and compared after each render and at the end; each result must equal the result of the same "
            "(template, environment) rendered alone on a fresh engine with fresh bindings (a render whose result varies "
            "by itself is C02's matter and is counted, not reported). Non-trivial = a sequence with a successful render. "
            "alias: pipelines of array filters on caller-owned []any values realised as sub-slices of larger backing arrays "
            "filled with a sentinel (generation rule under C15); the oracle reports C03 bindings-modified when any location of "
            "a caller's array, or the deep snapshot of the bindings map, differs after the evaluation.",
    "trusted_base": COMMON_TB,
    "assumptions": [],
}

TEXT = {
    "text": ('History machine over engine operations (render; ParseTemplateAndCache): render_preserves_engine (a render leaves '
              'the only engine state, the cache, unchanged), history_independent (in any history of renders, succeeding or '
              'failing, every render returns what it returns alone), rerender_same, vars_reset (assign/capture/loop variables and '
              'cycle counters start from the bindings in every render). Tie: every `immut` case line (a history of renders over '
              'several templates and bindings on one engine) is answered by the model and compared with the real engine op by op; '
              "on the real code the caller's bindings are deep-snapshotted (addresses, lengths, spare capacity, contents) around "
              'every render, and every render is compared with the same render on a fresh engine, confirmed by replaying the '
              'history prefix from scratch. Slices reachable from the bindings (Proofs/C15Heap.lean, on the slice-memory model '
              "Liquid/Heap.lean): array_filters_do_not_write_inputs, pipeline_no_write -- every filter application and every "
              "pipeline of the array filters (and default) writes only into arrays it allocated itself, so the caller's backing "
              "arrays, spare capacity included, are unchanged; convert_passes_generic_slice_through / array_results_never_alias / "
              "default_returns_its_input_uncopied state which values share memory with the caller's; tied by the `alias` stream "
              "(real []any values with spare capacity: result, alias flag, changed locations)."),
    "design_ref": 'DESIGN.md 6 C03',
    "note": NOTE + ("In-place modification of a caller's slice by a filter is a theorem about the slice-memory model (C15Heap). Still "
              "carried by the snapshot oracles only: writes through maps, structs and pointers, through nested slices inside "
              "elements, and by tags (assign/capture/for work on the render's own variable map, copied from the bindings)."),
    "technique": ('Lean 4 proof (induction over operation histories; write-log invariant on a slice-memory model, induction over '
              'pipelines) + model/implementation correspondence over generated histories and over slices with spare capacity + '
              'deep-snapshot oracle on the implementation'),
}
