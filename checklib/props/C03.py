from . import COMMON_TB, NOTE

PROP = {
    "level": "proof",
    "modules": [],
    "streams": [{"name": "immut"}, {"name": "alias"}],
    "rule": "immut: sequences of 2..40 operations (Render, RenderString, FRender on templates parsed once, ParseAndRender) "
            "on one engine over working sets drawn from pools of 40 generated templates x 12 environments of one schema "
            "(array-filter heavy: sort, reverse, uniq, concat, compact, map, first, last, join, sort_natural applied to "
            "caller-owned []any, typed slices, arrays, nested slices and maps); about 40 % of the renders fail. The "
            "environments are built once per sequence with spare slice capacity holding a sentinel; a reflect deep "
            "snapshot (slice len/cap/elements up to cap, map entries, struct fields, pointer targets, identities) is "
            "taken before and compared after each render and at the end; each result must equal the result of the same "
            "(template, environment) rendered alone on a fresh engine with fresh bindings (a render whose result varies "
            "by itself is C02's matter and is counted, not reported). Non-trivial = a sequence with a successful render.",
    "trusted_base": COMMON_TB,
    "assumptions": [],
}

TEXT = {
    "text": ('History machine over engine operations (render; ParseTemplateAndCache): render_preserves_engine (a render leaves '
              'the only engine state, the cache, unchanged), history_independent (in any history of renders, succeeding or '
              'failing, every render returns what it returns alone), rerender_same, vars_reset (assign/capture/loop variables and '
              'cycle counters start from the bindings in every render). Tie: every `immut` case line (a history of renders over '
              'several templates and bindings on one engine) is answered by the model and compared with the real engine op by op; '
              "on the real code the caller's bindings are deep-snapshotted (addresses, lengths, spare capacity, contents) around "
              'every render, and every render is compared with the same render on a fresh engine, confirmed by replaying the '
              'history prefix from scratch.'),
    "design_ref": 'DESIGN.md 6 C03',
    "note": NOTE + ("Partial in one respect: the model's values are immutable, so in-place modification of a caller's Go slice/map "
              'through aliasing cannot be expressed as a theorem; that clause is carried by the snapshot oracle on the real code '
              "(and by C15's input-unmodified oracle)."),
    "technique": ('Lean 4 proof (induction over operation histories) + model/implementation correspondence over generated histories + '
              'deep-snapshot oracle on the implementation'),
}
