from . import COMMON_TB, NOTE

PROP = {
    "level": "exploration",
    "modules": [],
    "streams": [{"name": "immut"}],
    "rule": "immut: sequences of 2..40 operations (Render, RenderString, FRender on templates parsed once, ParseAndRender) "
            "on one engine over working sets drawn from pools of 40 generated templates x 12 environments of one schema "
            "(array-filter heavy: sort, reverse, uniq, concat, compact, map, first, last, join, sort_natural applied to "
            "caller-owned []any, typed slices, arrays, nested slices and maps); about 40 % of the renders fail. The "
            "environments are built once per sequence with spare slice capacity holding a sentinel; a reflect deep "
            "snapshot (slice len/cap/elements up to cap, map entries, struct fields, pointer targets, identities) is "
            "taken before and compared after each render and at the end; each result must equal the result of the same "
            "(template, environment) rendered alone on a fresh engine with fresh bindings (a render whose result varies "
            "by itself is C02's matter and is counted, not reported). Non-trivial = a sequence with a successful render.",
    "trusted_base": COMMON_TB,
    "assumptions": ["oracle only (no model yet): the Lean driver answers `unmodelled` for `immut` lines"],
}

TEXT = {
    "text": "Exploration of the real code: over generated histories of renders on one engine, the caller's bindings are "
            "deep-equal before and after every render (including failing ones) and every render equals the same render "
            "done alone on a fresh engine; a difference is reported with the sequence.",
    "design_ref": "DESIGN.md 6 C03",
    "note": NOTE + "No theorem is claimed for C03 yet (level exploration).",
    "technique": "history-based testing of the implementation with deep snapshots and a fresh-engine reference",
}
