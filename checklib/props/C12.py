from . import COMMON_TB, NOTE

PROP = {
    "modules": [],
    "level": "proof",
    "streams": [{"name": "scope"}],
    "rule": "scope: (1) 15 hand-written scoping situations (a variable assigned the forloop record keeps the values of that moment, assign inside a block / an iteration, loop variable and forloop "
            "after normal exit and after break, nested loops over one name, capture of a loop, capture inside a loop, a user "
            "variable or a loop variable called forloop, tablerow, empty loop with else); (2) 20000 (quick) / 200000 (thorough) "
            "generated programs interleaving assign, capture, for/tablerow (loop variables drawn from the assigned names a, b, c, "
            "i, k and forloop, environments that pre-bind a, b, i and forloop), if, case, break/continue and include (one or two "
            "files, the second may include the first; files assign too), with a probe <a|b|c|i|k|forloop> after every construct "
            "at every level, inside loop bodies and inside included files; (3) capture equivalence on 10000 / 100000 fragments "
            "of the general template generator (GenFragment: balanced, no escaping break/continue, all tags and filters, "
            "whitespace-control hyphens, generated environments, 5% strict variables): F and "
            "{% capture zzq %}F{% endcapture %}{{ zzq }} must render the same bytes or fail with the same kind of error",
    "trusted_base": COMMON_TB + ["the reference environment interpreter of harness/ref_prog.go (flat variable map, assign/capture "
                                 "sequencing, loop restore, include on a copy) is the oracle; it does not use the Lean model or "
                                 "the library"],
    "assumptions": ["size discipline of the generator: a capture body never prints a variable that may hold captured text "
                    "(no doubling); the fixed situation 'capture inside a loop' covers that read",
                    "a restored variable that did not exist before the loop reads as nil (prints nothing); strict-variables mode "
                    "is used in the capture-equivalence part only"],
}

TEXT = {
    "text": ('Theorems: after assign everything that follows runs with the variable bound to the value (assign_seq; the variable '
              'map is one flat map threaded through the render), capture runs its body against a private buffer, binds exactly '
              'the text and leaves output and trim state untouched (capture_seq, captureM_keeps_tw), a loop restores its variable '
              "and forloop on normal end, break and continue (loop_restores), an include starts from the includer's current "
              'variables and its assignments do not flow back (include_sees_vars, include_isolated). Capture equivalence '
              '(capture_equiv, capture_equiv_root, capture_equiv_root_conv/_iff, capture_equiv_engine for the engine\'s own context, capture_equiv_root_err for a failing body: same error, re-wrapped at the capture tag): for every body that renders normally in place, '
              'capture-then-print puts exactly the same bytes through the trim writer and leaves the same variables plus the '
              'captured one - in any state whose pending text has no trailing white space and whose trim flag is clear, in '
              'particular for whole templates, where the two render normally under exactly the same conditions; each side '
              'condition comes with a proved counterexample (capture_needs_no_trailing_space, capture_needs_flag_clear, '
              'capture_trailing_trim_differs). Flat scope: a fragment changes only the variables it writes, loops restoring '
              'their own two (only_written_change); a condition on the variables established at the end of the bodies of an '
              'if / case / for / tablerow block holds after the block (block_end_scope, if_scope, case_scope, loop_scope, '
              'loop_scope_visited), an assignment inside a block body is still bound after the block whatever follows it '
              'inside (assign_scope_global; assign_scope_expr for an expression whose value the preceding nodes determine), composed for three nested blocks in assign_scope_nested. From source bytes (Proofs.C12Source, every good delimiter set, value layer and environment; for capture every output layer that prints a string as its bytes, the standard one included): the source {% capture v %}F{% endcapture %}{{ v }} renders normally exactly when the self-contained piece F does as a template of its own, to the same bytes (capture_source, capture_source_std), and {% assign x = e %}R gives the result of R run with x bound to the value of e, or fails at the line of the assign tag with the evaluation error of e (assign_source). Tie: the `scope` stream '
              'answers every case by the model and the real engine; an independent reference environment interpreter checks every '
              'probe value on the real output, and the capture equivalence is also checked as a metamorphic relation between two '
              'real renders.'),
    "design_ref": 'DESIGN.md 6 C12',
    "note": NOTE + ('The capture equivalence is a theorem about the bytes of the fragment and the variables; it does not claim that '
              'what follows the fragment sees the same trim-writer state (a trailing -%} inside the body trims what follows only '
              'in place: capture_trailing_trim_differs). The scope rules are pre/post-condition rules on the variables; which '
              'branch or iteration runs enters through their hypotheses.'),
    "technique": ('Lean 4 proof (state-threading lemmas on the render monad; independence of the render from the trim-writer state; '
              'frame and pre/post-condition rules by mutual induction over the node tree) + model/implementation correspondence + independent '
              'reference and metamorphic oracle'),
}
