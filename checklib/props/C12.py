from . import COMMON_TB, NOTE

PROP = {
    "modules": [],
    "level": "proof",
    "streams": [{"name": "scope"}],
    "rule": "scope: (1) 15 hand-written scoping situations (a variable assigned the forloop record keeps the values of that moment, assign inside a block / an iteration, loop variable and forloop "
            "after normal exit and after break, nested loops over one name, capture of a loop, capture inside a loop, a user "
            "variable or a loop variable called forloop, tablerow, empty loop with else); (2) 20000 (quick) / 200000 (thorough) "
            "generated programs interleaving assign, capture, for/tablerow (loop variables drawn from the assigned names a, b, c, "
            "i, k and forloop, environments that pre-bind a, b, i and forloop), if, case, break/continue and include (one or two "
            "files, the second may include the first; files assign too), with a probe <a|b|c|i|k|forloop> after every construct "
            "at every level, inside loop bodies and inside included files; (3) capture equivalence on 10000 / 100000 fragments "
            "of the general template generator (GenFragment: balanced, no escaping break/continue, all tags and filters, "
            "whitespace-control hyphens, generated environments, 5% strict variables): F and "
            "{% capture zzq %}F{% endcapture %}{{ zzq }} must render the same bytes or fail with the same kind of error",
    "trusted_base": COMMON_TB + ["the reference environment interpreter of harness/ref_prog.go (flat variable map, assign/capture "
                                 "sequencing, loop restore, include on a copy) is the oracle; it does not use the Lean model or "
                                 "the library"],
    "assumptions": ["size discipline of the generator: a capture body never prints a variable that may hold captured text "
                    "(no doubling); the fixed situation 'capture inside a loop' covers that read",
                    "a restored variable that did not exist before the loop reads as nil (prints nothing); strict-variables mode "
                    "is used in the capture-equivalence part only"],
}

TEXT = {
    "text": ('Theorems: after assign everything that follows runs with the variable bound to the value (assign_seq; the variable '
              'map is one flat map threaded through the render), capture runs its body against a private buffer, binds exactly '
              'the text and leaves output and trim state untouched (capture_seq, captureM_keeps_tw), a loop restores its variable '
              "and forloop on normal end, break and continue (loop_restores), the include handler is handed exactly the includer's current "
              'variable map (include_sees_vars; that the engine\'s handler renders the file with it is C14) and the assignments of the included file do not flow back (include_isolated). Capture equivalence '
              '(capture_equiv, capture_equiv_root, capture_equiv_root_conv/_iff, capture_equiv_engine for the engine\'s own context, capture_equiv_root_err for a failing body: the same error re-wrapped at the capture tag, but the partial output F wrote before failing is not written by the capture form), for every context whose include handler renders into its own buffer (IncQuiet, a definition of Proofs/RunLemmas.lean) and whose output layer prints a string as its bytes (both proved for the engine\'s: stdOut_str here, incQuiet_mkCtx in Proofs.RunLemmas, audited under C13; capture_equiv_engine uses both), on a writer that does not fail: for every body that renders normally in place, '
              'capture-then-print puts exactly the same bytes through the trim writer (the object prints the captured text as a value, through WriteVerbatim: all of it has reached the writer, nothing is pending afterwards) and leaves the same variables plus the '
              'captured one - in any state whose pending text has no trailing white space and whose trim flag is clear, in '
              'particular for whole templates, where the two render normally under exactly the same conditions; each of the two state '
              'conditions comes with a proved counterexample (capture_needs_no_trailing_space, capture_needs_flag_clear). '
              'Flat scope: a fragment changes only the variables it writes, loops restoring '
              'their own two (only_written_change); a condition on the variables established at the end of the bodies of an '
              'if / case / for / tablerow block holds after the block (block_end_scope, if_scope, case_scope; loop_scope, '
              'loop_scope_visited for a loop with at most one else clause), the assignment of a literal inside a block body is still bound after the block whenever the body ends normally '
              'and nothing after it in the body writes that variable (assign_scope_global; assign_scope_expr for an expression whose value the preceding nodes determine), composed for three nested blocks in assign_scope_nested. From source bytes (Proofs.C12Source, every good delimiter set, clean item list, value layer and environment, results of run, i.e. on a writer that does not fail; for capture every output layer that prints a string as its bytes, the standard one included): the source {% capture v %}F{% endcapture %}{{ v }} renders normally exactly when the self-contained piece F does as a template of its own, to the same bytes (capture_source, capture_source_std; nothing is said there about a failing F), and {% assign x = e %}R gives the result of R run with x bound to the value of e, or fails at the line of the assign tag with the evaluation error of e (assign_source). Tie: the `scope` stream '
              'answers every case by the model and the real engine; an independent reference environment interpreter checks every '
              'probe value on the real output, and the capture equivalence is also checked as a metamorphic relation between two '
              'real renders (equal bytes, or two failures of the same kind).'),
    "design_ref": 'DESIGN.md 6 C12',
    "note": NOTE + ('The capture equivalence is a theorem about the bytes of the fragment and the variables of renders that end normally on a writer that does not fail, '
              'in a context with a quiet include handler and a string-printing output layer; when F fails the two forms fail with the same error (re-wrapped at the capture tag) but '
              'the output F produced before failing appears only in place (capture_equiv_root_err). It does not claim that '
              'what follows the fragment sees the same trim-writer state (a trailing -%} inside the body trims what follows only '
              'in place: capture_trailing_trim_differs). The scope rules are pre/post-condition rules on the variables; which '
              'branch or iteration runs enters through their hypotheses; the loop rules are stated for at most one else clause, assign_scope_global for a literal value, a body '
              'that ends normally and no later write of the variable in that body. include_sees_vars is about the abstract include handler of the context (the engine\'s handler: C14). '
              'The source-level theorems need a clean item list (Clean, decidable, Proofs/E2ESpell.lean; the shapes outside it are listed under C19).'),
    "technique": ('Lean 4 proof (state-threading lemmas on the render monad; independence of the render from the trim-writer state; '
              'frame and pre/post-condition rules by mutual induction over the node tree) + model/implementation correspondence + independent '
              'reference and metamorphic oracle'),
}
