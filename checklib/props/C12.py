from . import COMMON_TB, NOTE

PROP = {
    "modules": [],
    "level": "proof",
    "streams": [{"name": "scope"}],
    "rule": "scope: (1) 13 hand-written scoping situations (assign inside a block / an iteration, loop variable and forloop "
            "after normal exit and after break, nested loops over one name, capture of a loop, capture inside a loop, a user "
            "variable or a loop variable called forloop, tablerow, empty loop with else); (2) 20000 (quick) / 200000 (thorough) "
            "generated programs interleaving assign, capture, for/tablerow (loop variables drawn from the assigned names a, b, c, "
            "i, k and forloop, environments that pre-bind a, b, i and forloop), if, case, break/continue and include (one or two "
            "files, the second may include the first; files assign too), with a probe <a|b|c|i|k|forloop> after every construct "
            "at every level, inside loop bodies and inside included files; (3) capture equivalence on 10000 / 100000 fragments "
            "of the general template generator (GenFragment: balanced, no escaping break/continue, all tags and filters, "
            "whitespace-control hyphens, generated environments, 5% strict variables): F and "
            "{% capture zzq %}F{% endcapture %}{{ zzq }} must render the same bytes or fail with the same kind of error",
    "trusted_base": COMMON_TB + ["the reference environment interpreter of harness/ref_prog.go (flat variable map, assign/capture "
                                 "sequencing, loop restore, include on a copy) is the oracle; it does not use the Lean model or "
                                 "the library"],
    "assumptions": ["size discipline of the generator: a capture body never prints a variable that may hold captured text "
                    "(no doubling); the fixed situation 'capture inside a loop' covers that read",
                    "a restored variable that did not exist before the loop reads as nil (prints nothing); strict-variables mode "
                    "is used in the capture-equivalence part only"],
}

TEXT = {
    "text": "Correspondence and oracle level (the Lean theorem modules for C12 are added by the render-model owner): every case "
            "is a `render` case line answered by the Lean model and by the real engine; on the real engine's output an "
            "independent reference environment interpreter (harness/ref_prog.go) checks every probe value: assign and capture "
            "bind in one flat environment for everything rendered afterwards (after enclosing blocks, in later iterations, in "
            "included files), a capture holds exactly its body's text and outputs nothing, a loop restores its variable and "
            "forloop on normal exit and on break, an included file starts from a copy of the environment and its assignments do "
            "not flow back; and the capture equivalence is checked as a metamorphic relation between two renders of the real "
            "engine on every generated fragment.",
    "design_ref": "DESIGN.md 6 C12",
    "note": NOTE + "String/array filters and comparisons inside generated fragments are answered `unmodelled` by the model "
                   "until those layers are linked.",
    "technique": "model/implementation correspondence + independent reference oracle + metamorphic (capture equivalence) oracle",
}
