from . import COMMON_TB, NOTE

PROP = {
    "modules": [],
    "streams": [{"name": "delims"}],
    "rule": "delims: abstract token-level templates (items: text, object(args, hyphens), tag(name, args, hyphens), with the white "
            "space inside the delimiters recorded) are spelled twice - with custom delimiters d for an engine configured by "
            "Engine.Delims(d...) and with the defaults for a default engine - and both sources are run through the real engine and "
            "the model. Delimiter sets: every GoodDelims quadruple (distinct, mutually non-prefixing) of one-byte strings over "
            "< > [ ] | ! (360, several templates each) and over $ # @ ( ) (120); every quadruple with lengths <= 2 over the first "
            "alphabet in thorough (about 2.1 million, sharded, one short template each; a sample of 400 in quick); random quadruples "
            "with lengths mostly 3..4 over both alphabets; every subset of positions replaced by \"\" (16 variants per base "
            "quadruple). Templates come from a token-level generator (objects with filters, indexing and literals, assign, "
            "if/elsif/else, unless, for with modifiers/else/break/continue, case/when, capture, raw, comment, cycle, hyphens on "
            "either side, tokens spread over several lines, and one construct that fails at parse or render time) and are kept "
            "only if Clean for d and for the defaults. Oracle (real engine only): output / error kind / LineNumber / path / cause "
            "under d equal those under the defaults; bodies of raw blocks that contain tokens are compared modulo re-spelling; the "
            "strings {{ }} {% %} placed in text survive verbatim under fully custom d.",
    "trusted_base": COMMON_TB + ["the harness's own spell/unspell/Clean (harness/tokitems.go) define which sources count as 'the same template'"],
    "assumptions": ["Clean(d, items): every occurrence of a delimiter of d in the spelled source lies inside a delimiter that spell "
                    "wrote; arguments are non-empty for objects, do not begin or end with white space or '-', and a tag's arguments "
                    "do not END in a proper prefix of the tag-right delimiter (with the defaults: `{% assign x = y %%}` is not a tag "
                    "either - the argument pattern consumes `%` only together with the byte after it)",
                    "delimiters are ASCII punctuation"],
}

TEXT = {
    "text": "No Lean theorem yet for this property (modules = []): the level reached on every run is correspondence plus a "
            "metamorphic oracle. The scanner model (Liquid/Scan.lean: Delims.ofList defaulting, tokenRe, hyphen detection relative "
            "to the delimiter lengths) answers both spellings of every case and is diffed against the real engine; the oracle "
            "compares the real engine's two results with each other.",
    "design_ref": "DESIGN.md 6 C19",
    "note": NOTE + "The theorems scan_spell / custom_eq_default / default_is_text / hyphen_detection of DESIGN 6 C19 are not proved yet.",
    "technique": "model/implementation correspondence + metamorphic oracle (custom spelling vs default spelling)",
}
