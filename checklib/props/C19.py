from . import COMMON_TB, NOTE

PROP = {
    "modules": ["Proofs.C19E2E"],
    "streams": [{"name": "delims"}],
    "rule": "delims: abstract token-level templates (items: text, object(args, hyphens), tag(name, args, hyphens), with the white "
            "space inside the delimiters recorded) are spelled twice - with custom delimiters d for an engine configured by "
            "Engine.Delims(d...) and with the defaults for a default engine - and both sources are run through the real engine and "
            "the model. Delimiter sets: every GoodDelims quadruple (distinct, mutually non-prefixing) of one-byte strings over "
            "< > [ ] | ! (360, several templates each) and over $ # @ ( ) (120); every quadruple with lengths <= 2 over the first "
            "alphabet in thorough (about 2.1 million, sharded, one short template each; a sample of 400 in quick); random quadruples "
            "with lengths mostly 3..4 over both alphabets; every subset of positions replaced by \"\" (16 variants per base "
            "quadruple). Templates come from a token-level generator (objects with filters, indexing and literals, assign, "
            "if/elsif/else, unless, for with modifiers/else/break/continue, case/when, capture, raw, comment, cycle, hyphens on "
            "either side, tokens spread over several lines, and one construct that fails at parse or render time) and are kept "
            "only if Clean for d and for the defaults. Oracle (real engine only): output / error kind / LineNumber / path / cause "
            "under d equal those under the defaults; bodies of raw blocks that contain tokens are compared modulo re-spelling; the "
            "strings {{ }} {% %} placed in text survive verbatim under fully custom d.",
    "trusted_base": COMMON_TB + ["the harness's own spell/unspell/Clean (harness/tokitems.go) define which sources count as 'the same template'"],
    "assumptions": ["Clean(d, items): every occurrence of a delimiter of d in the spelled source lies inside a delimiter that spell "
                    "wrote; arguments are non-empty for objects, do not begin or end with white space or '-', and a tag's arguments "
                    "do not END in a proper prefix of the tag-right delimiter (with the defaults: `{% assign x = y %%}` is not a tag "
                    "either - the argument pattern consumes `%` only together with the byte after it)",
                    "delimiters are ASCII punctuation"],
}

TEXT = {
    "text": ('Main theorem, over ALL templates and ALL good delimiter sets (Proofs.C19E2E): a template is a list of abstract items '
              '(text / object / tag with hyphens and inner white space, Proofs.E2ESpell), `spell d items` writes it with the '
              'delimiters d and `tokensOf d items line` is the token list it denotes. For every delimiter quadruple satisfying '
              'GoodDelims (non-empty strings of ASCII punctuation other than - and _, neither opening delimiter a prefix of the '
              'other) and every item list satisfying the decidable predicate Clean d, the tokenizer - token pattern, '
              'leftmost-first backtracking matcher with its lazy loops, hyphen detection, line counting - returns exactly '
              '`tokensOf d items line` on `spell d items` (scan_spell; by induction over the matcher: objRe_m, tagRe_m, '
              'lazyUnits, scanLoop_spell). Hence the token lists of two spellings are equal up to the source field of tag and '
              'object tokens (tokens_equal_up_to_source), and, because the block parser and the compiler do not read that '
              'field - in a raw block only the sources of texts and trim markers, which do not depend on the delimiters '
              '(parseTokens_unsrc, compileList_unsrc) -, for templates whose raw blocks are closed (RawClosed: a raw tag is followed, '
              'at once or after one text item holding the body, arbitrary bytes, by an endraw tag) the '
              'compiled templates are EQUAL (spellings_compile_equal), so `run` of an engine with custom delimiters on the '
              'custom spelling is the run of the template compiled from the default spelling (run_custom_spelling_eq_default). '
              'Since the repair fixes/raw-comment-lexical the body of a raw or comment block is one text token - literal bytes, the '
              'same under every delimiter set - and the equivalence covers raw blocks; still excluded (counterexample recorded): '
              'a raw tag without a lexical end tag whose block the parser closes at `endraw` WITH arguments. Clean also excludes three real quirks of the token pattern, each recorded as an evaluated example: '
              '`{% else  %}` has arguments " ", `{% else -%}` has arguments "-" AND a right trim marker, `{% if x%%}` is text. '
              'Further theorems: Delims("","","","") selects the defaults, position by position; a list that is not four entries selects '
              'the defaults; the delimiters used are never empty (delims_*); a trim marker is emitted exactly when the byte next '
              "to the configured delimiter is a hyphen, relative to that delimiter's length (hyphen_detection_obj/tag); the C05 "
              'partition and line theorems hold for every delimiter list (custom_delims_partition); a source containing none of '
              'the configured opening delimiters is one text token, so default-delimiter tags are ordinary text under custom '
              'delimiters (default_delims_are_text). Tie: the `delims` stream spells every generated template with custom and '
              "default delimiters, answers both by the model and the real engine, and compares the real engine's two results with "
              'each other.'),
    "design_ref": 'DESIGN.md 6 C19',
    "note": NOTE + ('The equivalence theorem requires RawClosed (raw blocks closed by their lexical end tag) and is stated for compilation and for `run` with the same '
              'engine configuration on both sides (included files are read with the engine\'s own delimiters).'),
    "technique": ('Lean 4 proof (induction over the backtracking matcher on the token pattern, for all good delimiter sets; tokenizer '
              'lemmas generic in the delimiter list) + model/implementation correspondence + metamorphic '
              'oracle (custom vs default spelling)'),
}
