from . import COMMON_TB, NOTE

PROP = {
    "modules": ["Proofs.C19E2E"],
    "streams": [{"name": "delims"}],
    "rule": "delims: abstract token-level templates (items: text, object(args, hyphens), tag(name, args, hyphens), with the white "
            "space inside the delimiters recorded) are spelled twice - with custom delimiters d for an engine configured by "
            "Engine.Delims(d...) and with the defaults for a default engine - and both sources are run through the real engine and "
            "the model. Delimiter sets: every harness-GoodDelims quadruple (distinct, mutually non-prefixing) of one-byte strings over "
            "< > [ ] | ! (360, 6 templates each, 12 in thorough) and over $ # @ ( ) (120); every quadruple with lengths <= 2 over the first "
            "alphabet in thorough (2,106,720, sharded, one short template each; a random sample of 4000 in quick); 4000 (thorough 40000) "
            "random quadruples with lengths mostly 3..4 over both alphabets; 1500 (15000) random quadruples of lengths mostly 2..3 over "
            "< > - ~ ( in which some delimiter contains a hyphen or a parenthesis, no hyphen on the edge that faces the inside of the "
            "tag (those with a hyphen are outside the Lean GoodDelims: stream only); every subset of positions replaced by \"\" (16 variants for each of 250 "
            "(2500) base quadruples). Templates come from a token-level generator (objects with filters, indexing and literals, assign, "
            "if/elsif/else, unless, for with modifiers/else/break/continue, case/when, capture, raw, comment, cycle, hyphens on "
            "either side, tokens spread over several lines, and one construct that fails at parse or render time) and are kept "
            "only if harness-Clean for d and for the defaults. Oracle (real engine only): output / error kind / LineNumber / path / cause "
            "under d equal those under the defaults (clause custom-eq-default); bodies of raw blocks that the generator filled with "
            "object/tag items are literal bytes as spelled and are compared modulo re-spelling; in 2000 (12000) further cases the "
            "strings {{ }} {% %} placed in text survive verbatim under fully custom d (default-delims-are-text); five fixed sequences "
            "of several Engine.Delims calls must render as an engine configured by the last call alone (empty-string-selects-default; "
            "shard 0, real engine only, the model has no history of configuration calls). "
            "rex (added to C05 and C19 by EXTRA_STREAMS of checklib/props/__init__.py; harness/stream_rex.go): generated regular expressions printed in Go "
            "syntax, and the pattern text parser.formTokenMatcher builds for generated delimiter lists (read through the verif hook parser.VerifTokenMatcher), are "
            "compiled with regexp.Compile and run on generated inputs; pattern text and FindStringSubmatchIndex of the first match are compared with the model's printer and matcher.",
    "trusted_base": COMMON_TB + ["the harness's own spell/unspell/Clean (harness/tokitems.go) define which sources count as 'the same template'"],
    "assumptions": ["harness Clean(d, items) (harness/tokitems.go; decides which templates the delims stream keeps): every occurrence "
                    "of a delimiter of d in the spelled source lies inside a delimiter that spell "
                    "wrote; arguments are non-empty for objects, do not begin or end with white space or '-', and a tag's arguments "
                    "do not END in a proper prefix of the tag-right delimiter (with the defaults: `{% assign x = y %%}` is not a tag "
                    "either - the argument pattern consumes `%` only together with the byte after it)",
                    "Lean Clean d items (= CleanFrom d none items, Proofs/E2ESpell.lean; hypothesis of the theorems) is a different "
                    "predicate and neither contains the other. Narrower: texts are non-empty and not adjacent; a tag WITHOUT "
                    "arguments has at most one white-space byte before its closing delimiter and none before a right trim marker "
                    "(`{% endif -%}` is outside). Wider: only an opening delimiter beginning inside a text and a closing delimiter "
                    "before its own position are excluded (not every stray delimiter occurrence); arguments may begin with '-' "
                    "after white space or a trim marker; after a tag named raw or comment a text item is the block's body and may "
                    "hold ANY bytes in which no end tag of the block begins. The harness writes tokens inside a raw body as items "
                    "(re-spelled with d, hence compared modulo re-spelling); for the theorem such a body is one text item with the "
                    "same bytes under both delimiter sets",
                    "delimiters are ASCII punctuation. Lean GoodDelims: four non-empty strings of ASCII bytes that are not white "
                    "space, word characters or '-', any length, only the two OPENING delimiters mutually non-prefixing; harness "
                    "GoodDelims: any bytes, lengths 1..4, all four strings mutually non-prefixing"],
}

TEXT = {
    "text": ('Main theorem, over ALL good delimiter sets and ALL item lists that are Clean for them (Proofs.C19E2E): a template is a list of abstract items '
              '(text / object / tag with hyphens and inner white space, Proofs.E2ESpell), `spell d items` writes it with the '
              'delimiters d and `tokensOf d items line` is the token list it denotes. For every delimiter quadruple satisfying '
              'GoodDelims (four non-empty strings of ASCII bytes that are neither white space nor word characters nor `-` - punctuation other than - and _ -, '
              'neither OPENING delimiter a prefix of the other; nothing is required of the closing delimiters against each other) and every item list satisfying the decidable predicate Clean d, the tokenizer - token pattern, '
              'leftmost-first backtracking matcher with its lazy loops, the lexical skip of raw/comment bodies, hyphen detection, '
              'line counting - returns exactly '
              '`tokensOf d items line` on `spell d items` (scan_spell; by induction over the matcher: objRe_m, tagRe_m, '
              'lazyUnits, lexSkip_first/lexSkip_noEnd, scanLoop_spell). Hence, for an item list that is Clean for BOTH delimiter '
              'sets, the token lists of the two spellings are equal up to the source field of tag and '
              'object tokens (tokens_equal_up_to_source), and, because the block parser and the compiler do not read that '
              'field - in a raw block only the sources of texts and trim markers, which do not depend on the delimiters '
              '(parseTokens_unsrc, compileList_unsrc) -, for templates that in addition are RawClosed (every tag named raw is followed, '
              'at once or after ONE text item - the body, arbitrary bytes -, by a tag named endraw) the '
              'compiled templates are EQUAL (spellings_compile_equal), so `run` of an engine with custom delimiters on the '
              'custom spelling is what the SAME engine configuration returns for the template compiled from the default spelling '
              'with the default delimiters (run_custom_spelling_eq_default). '
              'Since the repair fixes/raw-comment-lexical.patch (/repo e30377e) the body of a raw or comment block is one text token - literal bytes, the '
              'same under every delimiter set (Clean admits any body bytes in which no end tag of the block begins) - and the '
              'equivalence covers raw blocks; excluded by RawClosed: a raw tag with no lexical end tag ahead that is not followed, '
              'at once or after one text, by a tag named endraw - an unterminated raw block (equivalence not proved) or a block '
              'the parser closes at `endraw` WITH arguments after objects or tags (equivalence false: the body is the token '
              'sources as spelled; counterexample `{% raw %}{{ x }}{% endraw y %}` recorded). Clean also excludes three real '
              'behaviours of the token pattern, each recorded as an evaluated example: '
              '`{% else  %}` has arguments " ", `{% else -%}` has arguments "-" AND a right trim marker, `{% if x%%}` is text - '
              'so an argument-less tag with white space before a right trim marker (`{% endif -%}`) or with more than one blank '
              'before its closing delimiter is outside the theorem. '
              'Further theorems: Delims("","","","") selects the defaults (delims_all_empty), position by position '
              '(delims_default_per_position); a list that is not four entries selects '
              'the defaults (delims_wrong_arity); the delimiters used are never empty (delims_nonempty); a trim marker is emitted exactly when the byte next '
              "to the configured delimiter is a hyphen, relative to that delimiter's length (hyphen_detection_obj/tag); the C05 "
              'partition and line theorems hold for every delimiter list (custom_delims_partition); a source containing none of '
              'the configured opening delimiters is one text token, so default-delimiter tags are ordinary text under custom '
              'delimiters (default_delims_are_text). Tie: the `delims` stream spells every generated template with custom and '
              "default delimiters, answers both by the model and the real engine, and compares the real engine's two results with "
              'each other.'),
    "design_ref": 'DESIGN.md 6 C19',
    "note": NOTE + ('The equivalence theorems (spellings_compile_equal, run_custom_spelling_eq_default) need: GoodDelims (ASCII, no - or _; '
              'delimiters containing a hyphen are covered by the delims stream only); Clean for BOTH delimiter sets; RawClosed; and '
              'are stated for compilation and for `run` with the same '
              'engine configuration on both sides (included files are read with the engine\'s own delimiters), not for a default '
              'engine on the right-hand side. Shapes outside Clean: an opening delimiter beginning inside a text (also one completed '
              'by the following bytes), empty or adjacent texts; a closing delimiter inside the arguments; an object without '
              'arguments; arguments that begin with white space, end with white space or -, or (object, directly after the opening '
              'delimiter) begin with -; tag arguments that end in a non-empty prefix of the tag-right delimiter (`{% if x%%}`); a tag '
              'WITHOUT arguments with more than one white-space byte before its closing delimiter (`{% else  %}`) or with white space '
              'before a right trim marker (`{% endif -%}`, `{% else -%}`: the hyphen is read as arguments "-" AND as a trim marker); '
              'after a raw/comment tag with an end tag of the block ahead, anything but one body text (or nothing) before that end '
              'tag: objects or tags inside such a body must be written as bytes of the body text. '
              'Shapes outside RawClosed: an unterminated raw block (not proved) and a raw block closed only by `endraw` with '
              'arguments after objects or tags (false, counterexample in Proofs/C19E2E.lean). The Lean Clean/GoodDelims are not the '
              'harness Clean/GoodDelims of harness/tokitems.go (see Assumptions): `{% endif -%}` may occur in the delims stream and '
              'is then covered by the stream, not by the theorem.'),
    "technique": ('Lean 4 proof (induction over the backtracking matcher on the token pattern, for all good delimiter sets; tokenizer '
              'lemmas generic in the delimiter list) + model/implementation correspondence + metamorphic '
              'oracle (custom vs default spelling)'),
}
