from . import COMMON_TB, NOTE

PROP = {
    "modules": ["Proofs.C19E2E"],
    "streams": [{"name": "delims"}],
    "rule": "delims: abstract token-level templates (items: text, object(args, hyphens), tag(name, args, hyphens), with the white "
            "space inside the delimiters recorded) are spelled twice - with custom delimiters d for an engine configured by "
            "Engine.Delims(d...) and with the defaults for a default engine - and both sources are run through the real engine and "
            "the model. Delimiter sets: every GoodDelims quadruple (distinct, mutually non-prefixing) of one-byte strings over "
            "< > [ ] | ! (360, several templates each) and over $ # @ ( ) (120); every quadruple with lengths <= 2 over the first "
            "alphabet in thorough (about 2.1 million, sharded, one short template each; a sample of 400 in quick); random quadruples "
            "with lengths mostly 3..4 over both alphabets; every subset of positions replaced by \"\" (16 variants per base "
            "quadruple). Templates come from a token-level generator (objects with filters, indexing and literals, assign, "
            "if/elsif/else, unless, for with modifiers/else/break/continue, case/when, capture, raw, comment, cycle, hyphens on "
            "either side, tokens spread over several lines, and one construct that fails at parse or render time) and are kept "
            "only if Clean for d and for the defaults. Oracle (real engine only): output / error kind / LineNumber / path / cause "
            "under d equal those under the defaults; bodies of raw blocks that contain tokens are compared modulo re-spelling; the "
            "strings {{ }} {% %} placed in text survive verbatim under fully custom d.",
    "trusted_base": COMMON_TB + ["the harness's own spell/unspell/Clean (harness/tokitems.go) define which sources count as 'the same template'"],
    "assumptions": ["harness Clean(d, items) (harness/tokitems.go, decides which templates the delims stream keeps): every "
                    "occurrence of a delimiter of d in the spelled source lies inside a delimiter that spell "
                    "wrote; arguments are non-empty for objects, do not begin or end with white space or '-', and a tag's arguments "
                    "do not END in a proper prefix of the tag-right delimiter (with the defaults: `{% assign x = y %%}` is not a tag "
                    "either - the argument pattern consumes `%` only together with the byte after it)",
                    "Lean Clean d items (Proofs/E2ESpell.lean, hypothesis of the theorems) is a different predicate, narrower where "
                    "it matters: texts are non-empty, not adjacent, and no opening delimiter begins inside a text; the closing "
                    "delimiter is the first one after its opening; arguments do not begin with white space and do not end with "
                    "white space or '-'; a tag's arguments do not end in a non-empty prefix of the tag-right delimiter; a tag "
                    "WITHOUT arguments has at most one white-space byte before its closing delimiter and none before a right trim "
                    "marker (`{% endif -%}` is outside); the equivalence theorems need it for both delimiter sets",
                    "delimiters are ASCII punctuation (Lean GoodDelims: not '-' or '_', no length bound, only the two opening "
                    "delimiters mutually non-prefixing; harness GoodDelims: lengths 1..4, all four mutually non-prefixing)"],
}

TEXT = {
    "text": ('Main theorem, over ALL good delimiter sets and ALL item lists that are Clean for them (Proofs.C19E2E): a template is a list of abstract items '
              '(text / object / tag with hyphens and inner white space, Proofs.E2ESpell), `spell d items` writes it with the '
              'delimiters d and `tokensOf d items line` is the token list it denotes. For every delimiter quadruple satisfying '
              'GoodDelims (non-empty strings of ASCII punctuation other than - and _, neither opening delimiter a prefix of the '
              'other) and every item list satisfying the decidable predicate Clean d, the tokenizer - token pattern, '
              'leftmost-first backtracking matcher with its lazy loops, hyphen detection, line counting - returns exactly '
              '`tokensOf d items line` on `spell d items` (scan_spell; by induction over the matcher: objRe_m, tagRe_m, '
              'lazyUnits, scanLoop_spell). Hence the token lists of two spellings are equal up to the source field of tag and '
              'object tokens, for an item list that is Clean for BOTH delimiter sets (tokens_equal_up_to_source), and, because the block parser and the compiler do not read that '
              'field outside raw blocks (parseTokens_unsrc, compileList_unsrc), for templates without a tag named raw the '
              'compiled templates are EQUAL (spellings_compile_equal), so `run` of an engine with custom delimiters on the '
              'custom spelling is the run of the template compiled from the default spelling (run_custom_spelling_eq_default). '
              'Raw blocks are excluded because the equivalence is false there (a raw body is emitted as spelled; counterexample '
              'recorded). Clean also excludes three real behaviours of the token pattern, each recorded as an evaluated example: '
              '`{% else  %}` has arguments " ", `{% else -%}` has arguments "-" AND a right trim marker, `{% if x%%}` is text - '
              'so every argument-less tag with white space before a right trim marker (`{% endif -%}`, `{% endfor -%}`) or with '
              'more than one blank before its closing delimiter is outside the theorem. '
              'Further theorems: Delims("","","","") selects the defaults (delims_all_empty), position by position '
              '(delims_default_per_position); a list that is not four entries selects the defaults (delims_wrong_arity); the '
              'delimiters used are never empty (delims_nonempty); a trim marker is emitted exactly when the byte next '
              "to the configured delimiter is a hyphen, relative to that delimiter's length (hyphen_detection_obj/tag); the C05 "
              'partition and line theorems hold for every delimiter list (custom_delims_partition); a source containing none of '
              'the configured opening delimiters is one text token, so default-delimiter tags are ordinary text under custom '
              'delimiters (default_delims_are_text). Tie: the `delims` stream spells every generated template with custom and '
              "default delimiters, answers both by the model and the real engine, and compares the real engine's two results with "
              'each other.'),
    "design_ref": 'DESIGN.md 6 C19',
    "note": NOTE + ('The equivalence theorem excludes templates with a tag named raw (false when the raw body contains objects or '
              'tags; true but not proved when it contains only text) and is stated for compilation and for `run` with the same '
              'engine configuration on both sides (included files are read with the engine\'s own delimiters). It needs Clean for '
              'BOTH delimiter sets (the custom ones and the defaults). The Lean Clean (Proofs/E2ESpell.lean: CleanItem, CleanClose, '
              'CleanText) is not the harness Clean of harness/tokitems.go and neither contains the other: the Lean one admits '
              'more delimiter occurrences (only an opening delimiter inside a text and a closing delimiter before its own position '
              'are excluded) and a leading - in arguments after white space, but in addition requires non-empty, '
              'non-adjacent texts and, for a tag WITHOUT arguments, at most one white-space byte before the closing delimiter and '
              'none before a right trim marker - so `{% endif -%}` / `{% else -%}` with a blank before the hyphen are outside the '
              'theorem (the hyphen is read as arguments "-" AND as a trim marker; the delims stream, whose Clean has no such '
              'condition, may generate such tags: they are then covered by the stream, not by the theorem); GoodDelims in Lean excludes '
              '- and _ and bounds no length, the harness GoodDelims requires lengths 1..4 and all four strings mutually non-prefixing.'),
    "technique": ('Lean 4 proof (induction over the backtracking matcher on the token pattern, for all good delimiter sets; tokenizer '
              'lemmas generic in the delimiter list) + model/implementation correspondence + metamorphic '
              'oracle (custom vs default spelling)'),
}
