from . import COMMON_TB, NOTE

PROP = {
    "modules": ["Proofs.C05"],
    "streams": [{"name": "scan"}, {"name": "val", "shards": 2}, {"name": "verbatim"}],
    "rule": "scan: every string of length<=5 (quick) / 6 (thorough) over {{ }} % - \" space newline a, harvested test "
            "templates and their mutants, random bytes / UTF-8 / delimiter-dense sources up to 64 KiB; a case is "
            "non-trivial when it yields more than one token; distinct by case line",
    "trusted_base": COMMON_TB,
    "assumptions": ["the model's Scan/tokenRe describe parser/scanner.go: checked by the scan stream on every run"],
}

TEXT = {
    "text": "Theorems for every delimiter set, source and start line: token sources concatenate to the input "
            "(scan_partition), located tokens carry start line + preceding newlines (scan_lines, scan_line_at), a source "
            "in which no delimiter opens is one text token (scan_no_open_delim). The tokenizer model is compared with "
            "parser.Scan on exhaustive small strings and random/64KiB inputs each run; the partition/line oracle is "
            "evaluated on the real tokens.",
    "design_ref": "DESIGN.md 6 C05",
    "note": NOTE + "Render-level clauses (raw/comment bodies, printed strings) are added as the render model lands.",
    "technique": "Lean 4 proof (induction on the FindAll loop, generic in the regexp) + model/implementation correspondence",
}
