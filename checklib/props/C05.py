from . import COMMON_TB, NOTE

PROP = {
    "modules": ["Proofs.C05", "Proofs.C05E2E", "Proofs.C05Spell", "Proofs.C05Verbatim"],
    "streams": [{"name": "scan"}, {"name": "val", "shards": 2}, {"name": "verbatim"}],
    "rule": "scan: under the DEFAULT delimiters every string of length<=5 (quick) / 6 (thorough) over { } % - \" space newline a, "
            "harvested test templates and their mutants, random bytes / UTF-8 / delimiter-dense sources up to 64 KiB (start "
            "line 0..3); under the default delimiters, << >> [ ] and { } {% %} the raw/comment family: `p` + 3 opening-tag "
            "spellings (plain, hyphenated, with an argument) x every body of <=3 (quick) / 4 (thorough) pieces over {TL TR OL OR - "
            "space newline a endraw endcomment} (quick, custom delimiters: the 6 pieces TL TR OL space endraw -) x 6 "
            "continuations (end tag in three spellings, end tag with arguments, a near miss "
            "followed by the end tag, nothing); a case is "
            "non-trivial when it yields more than one token; distinct by case line. val: the value universe and random value "
            "trees, encoded, realised as Go values, reified and re-encoded (a codec round trip; nothing is printed). verbatim "
            "(default delimiters; every case a render line compared with the model): ten fixed inputs (bodies of the repaired "
            "deviation: an opening delimiter left unclosed inside a raw / comment body, also after the OTHER block's end tag; shard 0) and random templates of five shapes in turn - text+raw block+text, text+comment block+text, 2..4 "
            "raw/comment blocks with delimiter-free text between them, a source without `{{` and `{%`, `[{{ s }}]` with s a "
            "string / []byte / drop of a string holding tag-like text, arbitrary bytes and HTML/URL metacharacters; a body is up "
            "to 5 (4) tag-like bits (objects, tags, trim markers, LONE `{{` `}}` `{%` `%}`, syntax errors, `{% raw %}`, "
            "`{% comment %}`), kept as drawn - delimiters are no longer stripped or balanced - and redrawn only when it contains the "
            "substring endraw resp. endcomment; the neighbour-hyphen family (fixed, shard 0): 44 shapes in which the hyphen of a NEIGHBOUR "
            "stands next to a value or a raw body with white space at its edges - neighbours: object, assign, if / elsif / else / unless, "
            "case / when / else, for (body, else, break, continue), tablerow, capture (hyphens inside the body, and the captured text printed "
            "between hyphens), comment, cycle, another raw block; values: string, []byte, drop, pointer, []any and []string (several Write "
            "calls), nested arrays, an array with empty strings and nil, a value that is only white space, NBSP / EM SPACE at the edges, a "
            "filter result, a string literal, empty string and nil next to a value - and 6 controls (the object's OWN hyphens, literal text "
            "between hyphen and value); each compared with the expected bytes and with the model",
    "trusted_base": COMMON_TB,
    "assumptions": ["the model's Scan/tokenRe describe parser/scanner.go: checked by the scan stream on every run - under the default "
                    "delimiters, and for raw/comment blocks also under << >> [ ] and { } {% %}; under other custom delimiters the token "
                    "pattern is tied by the rex stream (first match of the real matcher) and Scan through rendering by the delims "
                    "stream of C19",
                    "the end-tag pattern of formEndTagMatcher (TL-?\\s*end<name>\\s*-?TR) is modelled by endTagRe and is tied by the scan "
                    "stream's raw/comment family (default and custom delimiters), not by translator T4"],
}

TEXT = {
    "text": ('Theorems for every delimiter set, source and start line: token sources concatenate to the input (scan_partition), '
              'located tokens carry start line + preceding newlines (scan_lines, scan_line_at), a source in which no delimiter '
              'opens is one text token, none when the source is empty (scan_no_open_delim). Render level (Proofs.C05Render): a template that is one text node renders to exactly its bytes '
              '(text_renders_itself), a template that is one raw node to the concatenation of its slices (raw_verbatim; both: what a fault-free writer has received) and inside a raw block the '
              'parser keeps the source of every token that is not the endraw tag (raw_body_kept), inside a comment block the parser '
              'drops every token that is not the endcomment tag without handing it to the expression checker '
              '(comment_body_skipped; both about one step of the block parser), a string value is written as one write of its bytes without escaping (string_value_exact, '
              'bytes_value_exact, drop_string_value_exact for []byte and a drop of a string: the standard output layer), nil prints nothing (nil_prints_nothing). No hyphen of a NEIGHBOUR reaches into a value or a raw body (Proofs.C05Verbatim; '
              'objects, raw blocks and what a tag writes go through trimWriter.WriteVerbatim since the repair fixes/verbatim-output-not-trimmed.patch = /repo 4126d59, modelled as '
              'the operations Write "", Write b, Flush; all on a writer that does not fail): from EVERY state of the trim writer - any text pending, a right trim armed or not - '
              'an object whose expression evaluates without error (not to nil under strict variables) and whose value is printed as at least one chunk, resp. a raw node with at least one slice, lets the pending text out '
              'unchanged, then its own bytes unchanged, and leaves nothing pending and no trim armed (object_writes_value_verbatim, '
              'raw_writes_body_verbatim; string_value_written_verbatim for a variable bound to a string); for ALL trees A and B, whatever '
              'hyphens they hold, every context and start state: if A ends normally having written outA and leaving the text p pending, the '
              'sequence A ++ [such an object] ++ B puts out outA, p unchanged, the bytes of the value unchanged and contiguous, and then exactly what B '
              'renders from an EMPTY trim writer with the variables A left, and ends as B ends (value_bytes_not_trimmed; raw_bytes_not_trimmed '
              'for a raw node); for whole templates: Render of A ++ [object] ++ B is the output of A rendered on its own, the bytes of the '
              'value, the output of B rendered on its own from the variables A left (value_bytes_not_trimmed_root, raw_bytes_not_trimmed_root); '
              'directly between a right and a left trim marker (string_value_between_hyphens - a variable bound to a string, an output layer that prints a string as one write of its bytes -, raw_body_between_hyphens); from source bytes (default configuration, start line 1), for '
              'every value layer, every output layer that prints a string as one write of its bytes, file system, include depth and environment binding x and s to ANY '
              'byte strings xv and sv: `{{ x -}}{{ s }}` renders xv ++ sv, `{{ s }}{{- x }}` renders sv ++ xv, `{{ x -}}{% raw %}  y{% endraw %}` '
              'renders xv, two blanks, y and `{% raw %}y  {% endraw %}{{- x }}` renders y, two blanks, xv (value_after_right_hyphen_source, value_before_left_hyphen_source, raw_after_right_hyphen_source; the '
              'three former counterexamples are evaluated examples with the standard layers). End to end, about the whole pipeline `run` (tokenizer, block parser, '
              'compiler, renderer, fault-free writer) for every value layer, configuration, file system, start line and '
              'environment: a source in which neither configured opening delimiter occurs renders to exactly itself, the empty '
              'source included (source_without_open_delim_renders_itself); `run` is the tokenizer followed by `runTokens` '
              '(run_eq_runTokens in Proofs.E2ERun), and on a token list raw-tag, body, endraw-tag whose body holds no endraw tag '
              '`runTokens` returns exactly the concatenated sources of the body tokens (raw_block_renders_body_sources), on '
              'comment-tag, body, endcomment-tag whose body holds no endcomment tag it returns the empty output and never an error '
              'whatever else the body tokens are (comment_block_renders_nothing), and deleting such a comment block after any '
              'prefix the parser leaves outside comment/raw changes nothing (comment_block_erased); these token-level statements '
              'assume that no object token of the body has arguments outside '
              'the expression-lexer model (negative-zero literal; the model answers `unmodelled` there). From source bytes, for every '
              'delimiter set satisfying GoodDelims (C19, scan_spell) and EVERY body - any bytes such that no end tag of the block '
              '(TL -? blanks endraw blanks -? TR) begins at an offset inside the body, unclosed `{%` and `{{` included; no '
              'negative-zero condition, the body being one text token (the tokenizer treats raw and comment lexically since the repair '
              'fixes/raw-comment-lexical; before it such a body swallowed the end tag): the source `TL raw TR body TL endraw TR` '
              'renders to exactly the bytes of the body (raw_body_bytes_emitted) and `TL comment TR body TL endcomment TR` renders '
              'to nothing, never an error (comment_body_bytes_dropped) - for an opening tag without left hyphen and an end tag '
              'without right hyphen (a right hyphen on the opening tag and a left hyphen on the end tag are allowed and strip nothing '
              'of the body), both without arguments and satisfying CleanItem: only blanks around the name, at most one blank before the '
              'closing delimiter and none before a right hyphen; the former counterexamples `{% b `, `a {{ x `, '
              '`%}\\t{%b c{{- x -}}`, `{% comment %}{% if ` and one under << >> [ ] with hyphens are evaluated examples; the block ends at the FIRST end tag, whatever follows: a text T1 inside which no opening delimiter begins, '
              'the opening tag (any hyphens, no arguments, CleanItem), any such body, the end tag and any Clean remainder are tokenized as text, tag, ONE text token '
              'holding the body (none when empty), end tag, remainder (lex_block_tokens); a comment block without hyphens and arguments with any such body between Clean '
              'items, the items before it leaving the block parser outside comment/raw, can be deleted from the token list without changing the result of `run` (comment_block_anywhere); the item-list forms raw_source_renders_body / '
              'comment_source_renders_nothing remain (body a Clean item list without an endraw / endcomment tag and without a '
              'negative-zero literal, same conditions on the two tags). Clean (decidable) = every object and tag is closed by the first '
              'closing delimiter after its opening, no opening delimiter begins inside a text, except that the text after a raw / '
              'comment tag is any bytes up to the first end tag. Ties: the tokenizer model is compared with parser.Scan on exhaustive '
              'small strings and random/64KiB inputs under the default delimiters and on the raw/comment family under three delimiter '
              'sets, and the partition/line oracle is evaluated on the real tokens; `val` round-trips the value encoding between '
              'harness and model (nothing is printed); the `verbatim` stream renders '
              'text / raw / comment / string-value templates on the real engine (default delimiters), compares them with the model '
              'and checks byte equality with the source pieces - its string-value cases (string, []byte, drop of a string) are where '
              'printing by the real writeObject is exercised under this property; a fixed family of 50 shapes puts a value or a raw body '
              'with white space at its edges next to a neighbour\'s hyphen (see the rule).'),
    "design_ref": 'DESIGN.md 6 C05',
    "note": NOTE + ('The deviation K-C05-value-trimmed-by-neighbour-hyphen / K-C05-raw-trimmed-by-neighbour-hyphen (the trim writer trims the '
              'output stream, so the hyphen of a NEIGHBOUR stripped white space at the edge of a value or of a raw body) is repaired by '
              'fixes/verbatim-output-not-trimmed.patch = /repo 4126d59 (ObjectNode.render, RawNode.render and TagNode.render write through trimWriter.WriteVerbatim / verbatimWriter); the theorems of '
              'Proofs.C05Verbatim state what it made false. They need at least one chunk / slice: a nil value and a raw block without body write '
              'nothing, and then a pending right trim stays pending for what follows (nothing of theirs can be stripped). An EMPTY string value is one empty chunk: it drops a '
              'pending right trim like every value. The source-level forms are four fixed templates (three theorems; default delimiters, start line 1) with arbitrary bound strings; for arbitrary '
              'templates the statement is the tree-level one. The deviation recorded earlier (K-C05-raw-unclosed-delimiter, K-C05-comment-unclosed-delimiter: an opening delimiter '
              'left unclosed inside a raw/comment body took the end tag\'s closer) is repaired in /repo by e30377e '
              '(fixes/raw-comment-lexical.patch); bodies of its kind are ten fixed cases of the verbatim stream on every run, five evaluated examples in '
              'Proofs/C05Spell.lean (four under the default delimiters, one under << >> [ ]), and bodies of the same kind are enumerated by the scan family. '
              'known_findings.json lists the four C05 entries as fixed; none is open. Remaining side conditions of the byte-level theorems '
              '(raw_body_bytes_emitted, comment_body_bytes_dropped), exactly: GoodDelims (four non-empty strings of ASCII bytes that are '
              'not white space, word characters or `-`, neither opening delimiter a prefix of the other); CleanItem of the two tags, which are taken without '
              'arguments, the opening tag without left hyphen, the end tag without right hyphen (`{% raw x %}`, `{%- raw %}`, '
              '`{% endraw -%}` and an end tag with two blanks before TR are not covered by these two theorems; lex_block_tokens covers '
              'all four hyphen positions at token level); no end tag of the block begins inside the body. The render-level and '
              'token-level statements are about nodes, single parser steps and token lists; only the token-level and item-list ones need '
              'the negative-zero assumption. Scan is compared with the model under the default delimiters, and under two further '
              'delimiter sets for raw/comment blocks only (other custom delimiters: rex, and delims of C19); verbatim uses the default '
              'delimiters and bodies that do not contain the substring endraw / endcomment.'),
    "technique": ('Lean 4 proof (induction on the match loop of Scan, generic in the regexp, with the lexical skip of raw/comment bodies; render-tree lemmas) + model/implementation '
              'correspondence + verbatim oracle on the implementation'),
}
