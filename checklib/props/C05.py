from . import COMMON_TB, NOTE

PROP = {
    "modules": ["Proofs.C05", "Proofs.C05E2E", "Proofs.C05Spell"],
    "streams": [{"name": "scan"}, {"name": "val", "shards": 2}, {"name": "verbatim"}],
    "rule": "scan: every string of length<=5 (quick) / 6 (thorough) over {{ }} % - \" space newline a, every raw/comment "
            "block made of 3 opening-tag spellings x every body of <=3 (quick) / 4 (thorough) pieces over {TL TR OL OR - space "
            "newline a endraw endcomment} x 6 continuations (end tag in three spellings, end tag with arguments, a near miss "
            "followed by the end tag, nothing) under the default delimiters, << >> [ ] and { } {% %}, harvested test "
            "templates and their mutants, random bytes / UTF-8 / delimiter-dense sources up to 64 KiB; a case is "
            "non-trivial when it yields more than one token; distinct by case line",
    "trusted_base": COMMON_TB,
    "assumptions": ["the model's Scan/tokenRe describe parser/scanner.go: checked by the scan stream on every run",
                    "the end-tag pattern of formEndTagMatcher (TL-?\\s*end<name>\\s*-?TR) is modelled by endTagRe and is tied by the scan "
                    "stream's raw/comment family (default and custom delimiters), not by translator T4"],
}

TEXT = {
    "text": ('Theorems for every delimiter set, source and start line: token sources concatenate to the input (scan_partition), '
              'located tokens carry start line + preceding newlines (scan_lines, scan_line_at), a source in which no delimiter '
              'opens is one text token (scan_no_open_delim). Render level: a text node renders to exactly its bytes '
              '(text_renders_itself), a raw body is emitted as the concatenation of its token sources whatever it contains '
              '(raw_verbatim, raw_body_kept), a comment body contributes nothing and is never parsed as an expression '
              '(comment_body_skipped), a string value is written as one write of its bytes without escaping (string_value_exact, '
              'bytes/drop variants), nil prints nothing. End to end, about the whole pipeline `run` (tokenizer, block parser, '
              'compiler, renderer, fault-free writer) for every value layer, configuration, file system, start line and '
              'environment: a source in which neither configured opening delimiter occurs renders to exactly itself, the empty '
              'source included (source_without_open_delim_renders_itself); `run` is the tokenizer followed by `runTokens` '
              '(run_eq_runTokens in Proofs.E2ERun), and on a token list raw-tag, body, endraw-tag `runTokens` returns exactly the '
              'concatenated sources of the body tokens (raw_block_renders_body_sources), on comment-tag, body, endcomment-tag it '
              'returns the empty output and never an error whatever the body tokens are (comment_block_renders_nothing), and '
              'deleting a whole comment block after any prefix the parser leaves outside comment/raw changes nothing '
              '(comment_block_erased); the token-level statements assume that no object token of the body has arguments outside '
              'the expression-lexer model (negative-zero literal; the model answers `unmodelled` there). From source bytes, for every '
              'delimiter set satisfying GoodDelims (C19, scan_spell) and EVERY body - any bytes in which no end tag of the block '
              'begins, unclosed `{%` and `{{` included (the tokenizer treats raw and comment lexically since the repair '
              'fixes/raw-comment-lexical; before it such a body swallowed the end tag): the source `TL raw TR body TL endraw TR` '
              'renders to exactly the bytes of the body (raw_body_bytes_emitted) and `TL comment TR body TL endcomment TR` renders '
              'to nothing, never an error (comment_body_bytes_dropped); the former counterexamples `{% b `, `a {{ x `, '
              '`%}\\t{%b c{{- x -}}` are evaluated examples; the block ends at the FIRST end tag, whatever follows: a clean text, '
              'the opening tag, any such body, the end tag and any clean remainder are tokenized as text, tag, ONE text token '
              'holding the body, end tag, remainder (lex_block_tokens); a comment block with any such body between any clean '
              'items can be deleted from the token list without changing the result of `run` (comment_block_anywhere); the item-list forms raw_source_renders_body / '
              'comment_source_renders_nothing remain. Ties: the tokenizer model is compared with parser.Scan on exhaustive '
              'small strings and random/64KiB inputs; printed values with the real writeObject; the `verbatim` stream renders '
              'text / raw / comment / string-value templates on the real engine and checks byte equality with the source pieces; '
              'the partition/line oracle is evaluated on the real tokens.'),
    "design_ref": 'DESIGN.md 6 C05',
    "note": NOTE + (""),
    "technique": ('Lean 4 proof (induction on the match loop of Scan, generic in the regexp, with the lexical skip of raw/comment bodies; render-tree lemmas) + model/implementation '
              'correspondence + verbatim oracle on the implementation'),
}
