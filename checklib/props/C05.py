from . import COMMON_TB, NOTE

PROP = {
    "modules": ["Proofs.C05", "Proofs.C05E2E", "Proofs.C05Spell"],
    "streams": [{"name": "scan"}, {"name": "val", "shards": 2}, {"name": "verbatim"}],
    "rule": "scan (always the DEFAULT delimiters, start line 0..3): every string of length<=5 (quick) / 6 (thorough) over "
            "{ } % - \" space newline a, harvested test "
            "templates and their mutants, random bytes / UTF-8 / delimiter-dense sources up to 64 KiB; a case is "
            "non-trivial when it yields more than one token; distinct by case line. val: the value universe and random value "
            "trees, encoded, realised as Go values, reified and re-encoded (a codec round trip; nothing is printed). verbatim "
            "(default delimiters): random templates of five shapes in turn - text+raw block+text, text+comment block+text, "
            "several raw/comment blocks, a delimiter-free source, `[{{ s }}]` with s a string / []byte / drop of a string "
            "holding tag-like text, arbitrary bytes and HTML/URL metacharacters - with bodies assembled from tag-like bits "
            "(objects, tags, trim markers, lone delimiters, syntax errors); a raw/comment body whose opening and closing "
            "delimiters do not balance is stripped of all delimiters before use, so bodies with an unclosed opening delimiter "
            "occur only in four fixed inputs (the recorded deviation, see Limits) and where the counts balance in the wrong order",
    "trusted_base": COMMON_TB,
    "assumptions": ["the model's Scan/tokenRe describe parser/scanner.go: checked by the scan stream on every run under the default "
                    "delimiters only; under custom delimiters the token pattern is tied by the rex stream (first match of the real "
                    "matcher) and Scan itself through rendering by the delims stream of C19",
                    "the property is read as stated, so a raw/comment body with an opening delimiter that is not closed inside the "
                    "body is a deviation of the code (known_findings K-C05-raw-unclosed-delimiter, K-C05-comment-unclosed-delimiter), "
                    "not an exception of the property"],
}

TEXT = {
    "text": ('Theorems for every delimiter set, source and start line: token sources concatenate to the input (scan_partition), '
              'located tokens carry start line + preceding newlines (scan_lines, scan_line_at), a source in which no delimiter '
              'opens is one text token (scan_no_open_delim). Render level: a text node renders to exactly its bytes '
              '(text_renders_itself), a raw node writes the concatenation of its slices (raw_verbatim) and inside a raw block the '
              'parser keeps the source of every token that is not the endraw tag, whatever it is (raw_body_kept), inside a comment '
              'block the parser drops every token that is not the endcomment tag without handing it to the expression checker '
              '(comment_body_skipped), a string value is written as one write of its bytes without escaping (string_value_exact, '
              'bytes/drop variants), nil prints nothing. End to end, about the whole pipeline `run` (tokenizer, block parser, '
              'compiler, renderer, fault-free writer) for every value layer, configuration, file system, start line and '
              'environment: a source in which neither configured opening delimiter occurs renders to exactly itself, the empty '
              'source included (source_without_open_delim_renders_itself); `run` is the tokenizer followed by `runTokens` '
              '(run_eq_runTokens in Proofs.E2ERun), and on a token list raw-tag, body, endraw-tag whose body holds no endraw tag '
              '`runTokens` returns exactly the concatenated sources of the body tokens (raw_block_renders_body_sources), on '
              'comment-tag, body, endcomment-tag whose body holds no endcomment tag it returns the empty output and never an error '
              'whatever else the body tokens are - objects that are not expressions, unknown or unbalanced tags '
              '(comment_block_renders_nothing), and deleting such a comment block after any prefix the parser leaves outside '
              'comment/raw changes nothing (comment_block_erased). From source bytes, for every delimiter set satisfying GoodDelims '
              'and every item list `TL raw TR`, body, `TL endraw TR` satisfying the decidable predicate Clean (C19, scan_spell '
              'reads a Clean spelling back: the body is a sequence of complete objects and tags, each closed by the first closing '
              'delimiter after its opening, and of texts inside which no opening delimiter begins), the raw tag written without '
              'left hyphen and the end tag without right hyphen, neither with arguments, the body without an endraw tag: the source '
              'renders to exactly the bytes of the body as written (raw_source_renders_body); under the same conditions '
              '`TL comment TR body TL endcomment TR` renders to nothing, never an error (comment_source_renders_nothing). All '
              'token-level and source-level raw/comment statements assume that no object of the body has arguments outside the '
              'expression-lexer model (negative-zero literal; the model answers `unmodelled` there). Ties: the tokenizer model '
              'is compared with parser.Scan, under the default delimiters, on exhaustive small strings and random/64KiB inputs, '
              'and the partition/line oracle is evaluated on the real tokens; `val` round-trips the value encoding between '
              'harness and model; the `verbatim` stream renders text / raw / comment / string-value templates on the real engine '
              '(default delimiters), compares them with the model and checks byte equality with the source pieces - its '
              'string-value cases (string, []byte, drop of a string) are where printing by the real writeObject is exercised '
              'under this property.'),
    "design_ref": 'DESIGN.md 6 C05',
    "note": NOTE + ('The property is FALSE on the real engine in two recorded places, not repaired at this commit '
              '(known_findings.json K-C05-raw-unclosed-delimiter, K-C05-comment-unclosed-delimiter; DESIGN 7.1b): the tokenizer '
              'runs before the block parser knows it is inside a raw or comment block, so an opening delimiter in the body that is '
              'not closed inside the body takes the closing delimiter of the end tag ("{% raw %}{% b {% endraw %}" is the raw tag '
              'followed by one tag named b) and the block is reported as unterminated instead of being emitted as written / '
              'contributing nothing; `./check C05` prints these as KNOWN-FINDING while they reproduce. The theorems do not '
              'contradict this: the render-level and token-level ones speak about nodes and token lists, and the byte-level ones '
              'exclude such bodies through `Clean` (complete objects and tags closed by the first closer, no opening delimiter '
              'beginning inside a text) - a sufficient condition: every body with an opening delimiter inside a text '
              'is left out, also where the code emits it correctly. The verbatim generator avoids these bodies (delimiters are stripped from a body whose openers and closers do '
              'not balance) except four fixed inputs and balanced-in-the-wrong-order bodies, whose failures are classified by asking '
              'the real tokenizer whether body + end tag still delivers the end tag. The source-level raw/comment theorems cover '
              '`{% raw -%}`/`{%- endraw %}` but not a left hyphen on the raw/comment tag or a right hyphen on the end tag. Scan is '
              'compared with the model under the default delimiters only (custom delimiters: rex, and delims of C19).'),
    "technique": ('Lean 4 proof (induction on the FindAll loop, generic in the regexp; render-tree lemmas) + model/implementation '
              'correspondence + verbatim oracle on the implementation'),
}
