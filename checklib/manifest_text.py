"""Texts for MANIFEST.json (level claimed per property)."""
HOOK_COMMITS = []

NOT_APPLICABLE = {}

_NOTE = ("Trusted: Lean 4.33.0 kernel (axioms propext, Classical.choice, Quot.sound only; no sorry/native_decide); the model is "
         "hand-written and tied to /repo by differential correspondence (Go harness vs compiled Lean driver) on every run; "
         "Go's regexp/fmt/strconv/reflect behaviour is modelled, not verified. ")

LEVEL_TEXT = {
    "C05": {
        "text": "Theorems for every delimiter set, source and start line: token sources concatenate to the input "
                "(scan_partition), located tokens carry start line + preceding newlines (scan_lines, scan_line_at), a source "
                "in which no delimiter opens is one text token (scan_no_open_delim). The tokenizer model is compared with "
                "parser.Scan on exhaustive small strings and random/64KiB inputs each run; the partition/line oracle is "
                "evaluated on the real tokens.",
        "design_ref": "DESIGN.md 6 C05",
        "note": _NOTE + "Render-level clauses (raw/comment bodies, printed strings) are added as the render model lands.",
        "technique": "Lean 4 proof (induction on the FindAll loop, generic in the regexp) + model/implementation correspondence",
    },
}
