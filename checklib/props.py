"""Per-property configuration of ./check: Lean modules holding the property's theorems,
correspondence streams (harness stream names), evidence texts."""

COMMON_TB = [
    "Go regexp: leftmost-first backtracking semantics assumed by the model's matcher; exercised by every scan case",
    "Go harness, Python orchestrator and Lean driver I/O loop are ordinary unverified programs",
]

PROPS = {
    "C05": {
        "modules": ["Proofs.C05"],
        "streams": [{"name": "scan"}, {"name": "val", "shards": 2}],
        "rule": "scan: every string of length<=5 (quick) / 6 (thorough) over {{ }} % - \" space newline a, harvested test "
                "templates and their mutants, random bytes / UTF-8 / delimiter-dense sources up to 64 KiB; a case is "
                "non-trivial when it yields more than one token; distinct by case line",
        "trusted_base": COMMON_TB,
        "assumptions": ["the model's Scan/tokenRe describe parser/scanner.go: checked by the scan stream on every run"],
    },
}
