#!/usr/bin/env python3
"""Regenerate MANIFEST.json from checklib/props.py (keeps the manifest valid and in sync)."""
import json, os, sys
sys.path.insert(0, os.path.dirname(os.path.abspath(__file__)))
from checklib.props import PROPS, LEVEL_TEXT, NOT_APPLICABLE, HOOK_COMMITS

ids = [json.loads(l)["id"] for l in open("properties.jsonl")]
checks = []
for pid in ids:
    if pid not in PROPS:
        continue
    t = LEVEL_TEXT[pid]
    checks.append({
        "property_id": pid,
        "quick_cmd": f"./check {pid} --tier quick",
        "thorough_cmd": f"./check {pid} --tier thorough",
        "evidence_file": f"/verif/evidence/{pid}.json",
        "replay_cmd_template": f"./check {pid} --replay {{path}}",
        "engine": "lean-proof+correspondence",
        "level_claimed": {"category": PROPS[pid].get("level", "proof"), "text": t["text"], "design_ref": t["design_ref"]},
        "level_note": t["note"],
        "technique": t["technique"],
    })
na = [{"property_id": p, "reason": NOT_APPLICABLE.get(p, "check not built yet in this session; see DESIGN.md section 6")}
      for p in ids if p not in PROPS]
m = {
    "version": 1,
    "setup_cmd": "./setup.sh",
    "hooks": {
        "guard": "verif",
        "enable": "go build -tags verif (the harness module replaces github.com/osteele/liquid with /repo)",
        "baseline_off_cmd": "cd /repo && GOFLAGS=-mod=mod GOPROXY=off GOSUMDB=off GOTOOLCHAIN=local go test -vet=off -count=1 ./...",
        "source_commits": HOOK_COMMITS,
        "add_only": True,
    },
    "engines": [{
        "name": "lean-proof+correspondence", "path": "/verif/check",
        "serves_properties": [c["property_id"] for c in checks],
        "kind_free_text": "Lean 4 theorems about a hand-written executable model (lean/), tied to /repo on every run by a "
                          "line-protocol correspondence between the model driver and a Go harness that runs the real code "
                          "(harness/), plus translators that regenerate Lean facts from the Go source (translate/)",
    }],
    "checks": checks,
    "notes": "See DESIGN.md. Every check rebuilds the harness from /repo's working tree with -tags verif.",
    "not_applicable": na,
}
json.dump(m, open("MANIFEST.json", "w"), indent=1)
print("checks:", [c["property_id"] for c in checks], "not_applicable:", len(na))
