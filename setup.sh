#!/bin/bash
# Build the framework from files on disk only (offline).
set -e
cd "$(dirname "$0")"
export GOFLAGS=-mod=mod GOPROXY=off GOSUMDB=off GOTOOLCHAIN=local
mkdir -p .build .work evidence/replay
(cd lean && lake build Liquid Proofs liquid_model)
cp /repo/go.sum harness/go.sum 2>/dev/null || true
(cd harness && go build -tags verif -o ../.build/harness .)
if [ -d translate ]; then (cd translate && go build -o ../.build/translate .); fi
echo setup-ok
