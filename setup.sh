#!/bin/bash
# Build the framework from files on disk only (offline).
set -e
cd "$(dirname "$0")"
export GOFLAGS=-mod=mod GOPROXY=off GOSUMDB=off GOTOOLCHAIN=local
mkdir -p .build .work evidence/replay
(cd lean && lake build Liquid Proofs liquid_model)
cp /repo/go.sum harness/go.sum 2>/dev/null || true
(cd harness && go build -tags verif -o ../.build/harness .)
if [ -f translate/go.mod ]; then (cd translate && go build -o ../.build/translate .); fi
for d in translate/*/; do if [ -f "$d/go.mod" ]; then (cd "$d" && go build -o "../../.build/translate-$(basename "$d")" .); fi; done
echo setup-ok
