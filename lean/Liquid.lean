import Liquid.Basic
import Liquid.Regex
import Liquid.Scan
import Liquid.Driver
import Liquid.Value
import Liquid.Utf8
import Liquid.Compare
