import Liquid.Lookup
import Liquid.Compare
import Liquid.Sprint
import Liquid.Std
/-!
# `values.ToLiquid` followed to the end of a chain of drops (helper lemmas)

After `fixes/nested-drops-resolved` a drop that yields a drop is resolved in turn. These are the facts about
`GoVal.toLiquid` (and its twin `Cmp.toLiq`) that the proofs written for the one-level function used by
computation.
-/

open GoVal

/-- `value.(drop)` succeeds: a drop, or a pointer to one -/
def GoVal.isDropLike : GoVal → Bool
  | .drop _ => true
  | .ptr (.drop _) => true
  | _ => false

theorem toLiquid_of_not_dropLike {v : GoVal} (h : v.isDropLike = false) : v.toLiquid = v := by
  cases v with
  | drop w => simp [isDropLike] at h
  | ptr w => cases w <;> simp_all [isDropLike, toLiquid]
  | _ => simp [toLiquid]

theorem toLiquid_not_dropLike : ∀ v : GoVal, v.toLiquid.isDropLike = false
  | .drop v => by rw [toLiquid]; exact toLiquid_not_dropLike v
  | .ptr (.drop v) => by rw [toLiquid]; exact toLiquid_not_dropLike v
  | .ptr .nil | .ptr (.bool _) | .ptr (.int _ _) | .ptr (.flt _ _) | .ptr (.str _) | .ptr (.bytes _)
  | .ptr (.slice _ _) | .ptr (.array _ _) | .ptr (.map _ _ _) | .ptr (.mapSlice _) | .ptr (.keyedMap _)
  | .ptr (.range _ _) | .ptr (.ptr _) | .ptr .nilPtr | .ptr (.struct _) | .ptr (.time _) => by
    simp [toLiquid, isDropLike]
  | .nil | .bool _ | .int _ _ | .flt _ _ | .str _ | .bytes _ | .slice _ _ | .array _ _ | .map _ _ _
  | .mapSlice _ | .keyedMap _ | .range _ _ | .nilPtr | .struct _ | .time _ => by simp [toLiquid, isDropLike]

theorem toLiquid_idem (v : GoVal) : v.toLiquid.toLiquid = v.toLiquid :=
  toLiquid_of_not_dropLike (toLiquid_not_dropLike v)

@[simp] theorem toLiquid_drop (v : GoVal) : (GoVal.drop v).toLiquid = v.toLiquid := by rw [toLiquid]
@[simp] theorem toLiquid_ptr_drop (v : GoVal) : (GoVal.ptr (.drop v)).toLiquid = v.toLiquid := by rw [toLiquid]

/-- on a drop whose value is not a drop (the only kind the one-level function resolved fully) -/
theorem toLiquid_drop_of_not_dropLike {v : GoVal} (h : v.isDropLike = false) : (GoVal.drop v).toLiquid = v := by
  rw [toLiquid_drop, toLiquid_of_not_dropLike h]

theorem unwrap_toLiquid : ∀ v : GoVal, v.toLiquid.unwrap = v.unwrap
  | .drop v => by rw [toLiquid_drop, unwrap]; exact unwrap_toLiquid v
  | .ptr (.drop v) => by rw [toLiquid_ptr_drop, unwrap]; exact unwrap_toLiquid v
  | .ptr .nil | .ptr (.bool _) | .ptr (.int _ _) | .ptr (.flt _ _) | .ptr (.str _) | .ptr (.bytes _)
  | .ptr (.slice _ _) | .ptr (.array _ _) | .ptr (.map _ _ _) | .ptr (.mapSlice _) | .ptr (.keyedMap _)
  | .ptr (.range _ _) | .ptr (.ptr _) | .ptr .nilPtr | .ptr (.struct _) | .ptr (.time _) => by simp [toLiquid]
  | .nil | .bool _ | .int _ _ | .flt _ _ | .str _ | .bytes _ | .slice _ _ | .array _ _ | .map _ _ _
  | .mapSlice _ | .keyedMap _ | .range _ _ | .nilPtr | .struct _ | .time _ => by simp [toLiquid]

theorem sizeOf_toLiquid_le : ∀ v : GoVal, sizeOf v.toLiquid ≤ sizeOf v
  | .drop v => by rw [toLiquid_drop]; have := sizeOf_toLiquid_le v; simp; omega
  | .ptr (.drop v) => by rw [toLiquid_ptr_drop]; have := sizeOf_toLiquid_le v; simp; omega
  | .ptr .nil | .ptr (.bool _) | .ptr (.int _ _) | .ptr (.flt _ _) | .ptr (.str _) | .ptr (.bytes _)
  | .ptr (.slice _ _) | .ptr (.array _ _) | .ptr (.map _ _ _) | .ptr (.mapSlice _) | .ptr (.keyedMap _)
  | .ptr (.range _ _) | .ptr (.ptr _) | .ptr .nilPtr | .ptr (.struct _) | .ptr (.time _) => by simp [toLiquid]
  | .nil | .bool _ | .int _ _ | .flt _ _ | .str _ | .bytes _ | .slice _ _ | .array _ _ | .map _ _ _
  | .mapSlice _ | .keyedMap _ | .range _ _ | .nilPtr | .struct _ | .time _ => by simp [toLiquid]

/-- the comparison layer's `ToLiquid` is the same function -/
theorem Cmp.toLiq_eq_toLiquid : ∀ v : GoVal, Cmp.toLiq v = v.toLiquid
  | .drop v => by rw [toLiquid_drop, Cmp.toLiq]; exact Cmp.toLiq_eq_toLiquid v
  | .ptr (.drop v) => by rw [toLiquid_ptr_drop, Cmp.toLiq]; exact Cmp.toLiq_eq_toLiquid v
  | .ptr .nil | .ptr (.bool _) | .ptr (.int _ _) | .ptr (.flt _ _) | .ptr (.str _) | .ptr (.bytes _)
  | .ptr (.slice _ _) | .ptr (.array _ _) | .ptr (.map _ _ _) | .ptr (.mapSlice _) | .ptr (.keyedMap _)
  | .ptr (.range _ _) | .ptr (.ptr _) | .ptr .nilPtr | .ptr (.struct _) | .ptr (.time _) => by simp [toLiquid, Cmp.toLiq]
  | .nil | .bool _ | .int _ _ | .flt _ _ | .str _ | .bytes _ | .slice _ _ | .array _ _ | .map _ _ _
  | .mapSlice _ | .keyedMap _ | .range _ _ | .nilPtr | .struct _ | .time _ => by simp [toLiquid, Cmp.toLiq]

/-! ## `values.ResolveDrops`: the identity where there is nothing to resolve -/

@[simp] theorem resolveDrops_nil : GoVal.nil.resolveDrops = .nil := by simp [resolveDrops]
@[simp] theorem resolveDrops_bool (b : Bool) : (GoVal.bool b).resolveDrops = .bool b := by simp [resolveDrops]
@[simp] theorem resolveDrops_int (k : IntKind) (n : Int) : (GoVal.int k n).resolveDrops = .int k n := by simp [resolveDrops]
@[simp] theorem resolveDrops_flt (k : FltKind) (q : Rat) : (GoVal.flt k q).resolveDrops = .flt k q := by simp [resolveDrops]
@[simp] theorem resolveDrops_str (s : Bytes) : (GoVal.str s).resolveDrops = .str s := by simp [resolveDrops]
@[simp] theorem resolveDrops_bytes (s : Bytes) : (GoVal.bytes s).resolveDrops = .bytes s := by simp [resolveDrops]
@[simp] theorem resolveDrops_range (a b : Int) : (GoVal.range a b).resolveDrops = .range a b := by simp [resolveDrops]
@[simp] theorem resolveDrops_nilPtr : GoVal.nilPtr.resolveDrops = .nilPtr := by simp [resolveDrops]
@[simp] theorem resolveDrops_struct (fs : List (Bytes × GoVal)) : (GoVal.struct fs).resolveDrops = .struct fs := by simp [resolveDrops]
@[simp] theorem resolveDrops_time (u : Int) : (GoVal.time u).resolveDrops = .time u := by simp [resolveDrops]
@[simp] theorem resolveDrops_drop (v : GoVal) : (GoVal.drop v).resolveDrops = v.resolveDrops := by simp [resolveDrops]
@[simp] theorem resolveDrops_slice (t : Ty) (xs : List GoVal) :
    (GoVal.slice t xs).resolveDrops = .slice t (resolveDropsList xs) := by simp [resolveDrops]
@[simp] theorem resolveDrops_array (t : Ty) (xs : List GoVal) :
    (GoVal.array t xs).resolveDrops = .array t (resolveDropsList xs) := by simp [resolveDrops]
@[simp] theorem resolveDrops_map (k t : Ty) (kvs : List (GoVal × GoVal)) :
    (GoVal.map k t kvs).resolveDrops = .map k t (resolveDropsVals kvs) := by simp [resolveDrops]
@[simp] theorem resolveDrops_mapSlice (kvs : List (GoVal × GoVal)) :
    (GoVal.mapSlice kvs).resolveDrops = .mapSlice (resolveDropsVals kvs) := by simp [resolveDrops]
@[simp] theorem resolveDrops_keyedMap (fs : List (Bytes × GoVal)) :
    (GoVal.keyedMap fs).resolveDrops = .keyedMap (resolveDropsFields fs) := by simp [resolveDrops]

@[simp] theorem sprintR_nil : sprintR .nil = sprint .nil := by simp [sprintR]
@[simp] theorem sprintR_bool (b : Bool) : sprintR (.bool b) = sprint (.bool b) := by simp [sprintR]
@[simp] theorem sprintR_int (k : IntKind) (n : Int) : sprintR (.int k n) = sprint (.int k n) := by simp [sprintR]
@[simp] theorem sprintR_flt (k : FltKind) (q : Rat) : sprintR (.flt k q) = sprint (.flt k q) := by simp [sprintR]
@[simp] theorem sprintR_str (s : Bytes) : sprintR (.str s) = sprint (.str s) := by simp [sprintR]
@[simp] theorem sprintR_bytes (s : Bytes) : sprintR (.bytes s) = sprint (.bytes s) := by simp [sprintR]
@[simp] theorem sprintR_range (a b : Int) : sprintR (.range a b) = sprint (.range a b) := by simp [sprintR]
@[simp] theorem sprintR_nilPtr : sprintR .nilPtr = sprint .nilPtr := by simp [sprintR]
@[simp] theorem sprintR_struct (fs : List (Bytes × GoVal)) : sprintR (.struct fs) = sprint (.struct fs) := by simp [sprintR]
@[simp] theorem sprintR_time (u : Int) : sprintR (.time u) = sprint (.time u) := by simp [sprintR]

theorem resolveDropsList_eq_map (xs : List GoVal) : resolveDropsList xs = xs.map GoVal.resolveDrops := by
  induction xs with
  | nil => rfl
  | cons x xs ih => simp [resolveDropsList, ih]

theorem resolveDropsVals_eq_map (kvs : List (GoVal × GoVal)) :
    resolveDropsVals kvs = kvs.map fun kv => (kv.1, kv.2.resolveDrops) := by
  induction kvs with
  | nil => rfl
  | cons kv kvs ih => obtain ⟨k, v⟩ := kv; simp [resolveDropsVals, ih]

theorem resolveDropsFields_eq_map (fs : List (Bytes × GoVal)) :
    resolveDropsFields fs = fs.map fun kv => (kv.1, kv.2.resolveDrops) := by
  induction fs with
  | nil => rfl
  | cons kv fs ih => obtain ⟨k, v⟩ := kv; simp [resolveDropsFields, ih]

/-! ## `writeObject` of a chain of drops -/

@[simp] theorem writeObjectL_drop (v : GoVal) : writeObjectL (.drop v) = writeObjectL v := by simp only [writeObjectL]
@[simp] theorem writeObjectL_ptr_drop (v : GoVal) : writeObjectL (.ptr (.drop v)) = writeObjectL v := by simp only [writeObjectL]
@[simp] theorem writeChunksL_drop (v : GoVal) : writeChunksL (.drop v) = writeChunksL v := by simp only [writeChunksL]
@[simp] theorem writeChunksL_ptr_drop (v : GoVal) : writeChunksL (.ptr (.drop v)) = writeChunksL v := by simp only [writeChunksL]

/-- `writeObjectL` resolves what `ToLiquid` would have resolved -/
theorem writeObjectL_toLiquid : ∀ v : GoVal, writeObjectL v.toLiquid = writeObjectL v
  | .drop v => by rw [toLiquid_drop, writeObjectL_drop]; exact writeObjectL_toLiquid v
  | .ptr (.drop v) => by rw [toLiquid_ptr_drop, writeObjectL_ptr_drop]; exact writeObjectL_toLiquid v
  | .ptr .nil | .ptr (.bool _) | .ptr (.int _ _) | .ptr (.flt _ _) | .ptr (.str _) | .ptr (.bytes _)
  | .ptr (.slice _ _) | .ptr (.array _ _) | .ptr (.map _ _ _) | .ptr (.mapSlice _) | .ptr (.keyedMap _)
  | .ptr (.range _ _) | .ptr (.ptr _) | .ptr .nilPtr | .ptr (.struct _) | .ptr (.time _) => by simp [toLiquid]
  | .nil | .bool _ | .int _ _ | .flt _ _ | .str _ | .bytes _ | .slice _ _ | .array _ _ | .map _ _ _
  | .mapSlice _ | .keyedMap _ | .range _ _ | .nilPtr | .struct _ | .time _ => by simp [toLiquid]

theorem writeChunksL_toLiquid : ∀ v : GoVal, writeChunksL v.toLiquid = writeChunksL v
  | .drop v => by rw [toLiquid_drop, writeChunksL_drop]; exact writeChunksL_toLiquid v
  | .ptr (.drop v) => by rw [toLiquid_ptr_drop, writeChunksL_ptr_drop]; exact writeChunksL_toLiquid v
  | .ptr .nil | .ptr (.bool _) | .ptr (.int _ _) | .ptr (.flt _ _) | .ptr (.str _) | .ptr (.bytes _)
  | .ptr (.slice _ _) | .ptr (.array _ _) | .ptr (.map _ _ _) | .ptr (.mapSlice _) | .ptr (.keyedMap _)
  | .ptr (.range _ _) | .ptr (.ptr _) | .ptr .nilPtr | .ptr (.struct _) | .ptr (.time _) => by simp [toLiquid]
  | .nil | .bool _ | .int _ _ | .flt _ _ | .str _ | .bytes _ | .slice _ _ | .array _ _ | .map _ _ _
  | .mapSlice _ | .keyedMap _ | .range _ _ | .nilPtr | .struct _ | .time _ => by simp [toLiquid]

/-- `writeObject` is `writeObjectL`: the chain of drops is followed either way -/
theorem writeObject_eq_writeObjectL (v : GoVal) : writeObject v = writeObjectL v := writeObjectL_toLiquid v
theorem stdChunks_eq_writeChunksL (v : GoVal) : stdChunks v = writeChunksL v := writeChunksL_toLiquid v
