import Proofs.HyphenSourceFace
/-!
# C13, from source bytes — the hyphens of the SOURCE and the `.trim` nodes of the compiled tree

`Proofs/C13Template.lean` states the laws of whitespace control for compiled trees: a hyphen is a `.trim` node and
`stripTrims` removes the hyphens. This file ties that to the template SOURCE. A template is a list of items
(`Item`, `Proofs/E2ESpell.lean`: texts, objects, tags, each object and tag with a left and a right hyphen flag and
its inner white space); `spell d items` is its source text under the delimiters `d`; `dropHyphens items` clears
every flag, so that `spell d (dropHyphens items)` is the same source with the hyphen bytes next to the delimiters
deleted and nothing else changed (`hyphen_source_bytes`).

* `compile_dropHyphens`: compiling the hyphen-free source gives `stripTrims` of the tree the source compiles to —
  or the same compile-time error. Hypotheses (`HyphenClean`, decidable): good delimiters; BOTH item lists are
  `Clean` (what the tokenizer reads back from the spelling is the items; deleting a hyphen can change how the rest
  is read: `{{--1}}`, `{{ x}-}}` below); raw blocks are closed (`RawClosed`) and have no hyphen on the inner side
  of their tags (`RawPlain`).
* `hyphen_source_ops`, `hyphen_source_same_outcome`, `hyphen_source_erasure`, `hyphen_source_free_identity`:
  `hyphen_ops_root`, `hyphen_same_outcome`, `hyphen_erasure`, `hyphen_free_identity` of `Proofs/C13Template.lean`
  read on `run … (spell d items)` and `run … (spell d (dropHyphens items))`.

Helper lemmas: `Proofs/HyphenSource.lean` (items, tokens, block parser), `Proofs/HyphenSourceCompile.lean` (compiler,
side conditions), `Proofs/HyphenSourceRun.lean` (`run`).
-/

open Gen

/-- **the bytes.** Mark in `spell d items` the hyphens that stand next to a delimiter (`spellMarked`): the source
    is the marked list's bytes, every marked byte is a hyphen, and the source of `dropHyphens items` is exactly the
    unmarked bytes in order — the source with its whitespace-control hyphens deleted, nothing else changed. No
    hypothesis on the items or the delimiters. -/
theorem hyphen_source_bytes (d : Delims) (items : List Item) :
    (spellMarked d items).map (·.1) = spell d items ∧
    ((spellMarked d items).filter (fun p => !p.2)).map (·.1) = spell d (dropHyphens items) ∧
    (∀ p ∈ spellMarked d items, p.2 = true → p.1 = 45) :=
  spell_dropHyphens_bytes d items

/-- **compile_dropHyphens.** For every good delimiter set and every template that is clean with and without its
    hyphens, whose raw blocks are closed and plain (`HyphenClean`): compiling the source with the hyphens deleted
    gives the tree of the source with every `.trim` node removed, at every depth (`stripTrims`) — or the same
    located compile-time error (the line included: deleting hyphens moves no token to another line). -/
theorem compile_dropHyphens (delims : List Bytes) (items : List Item) (line : Nat)
    (h : HyphenClean (Delims.ofList delims) items) :
    compileSource delims (spell (Delims.ofList delims) (dropHyphens items)) line =
      (compileSource delims (spell (Delims.ofList delims) items) line).mapOk stripTrims :=
  compileSource_dropHyphens delims items line h

/-- the tree compiled from a hyphen-free source has no `.trim` node -/
theorem hyphen_free_source_no_trim (delims : List Bytes) (items : List Item) (line : Nat)
    (h : HyphenClean (Delims.ofList delims) items) (nodes0 : List Node)
    (hc : compileSource delims (spell (Delims.ofList delims) (dropHyphens items)) line = .ok nodes0) :
    hasTrim nodes0 = false := by
  rw [compile_dropHyphens delims items line h] at hc
  cases hcs : compileSource delims (spell (Delims.ofList delims) items) line with
  | ok nodes =>
    rw [hcs] at hc
    cases hc
    exact hasTrim_stripTrims nodes
  | err e => rw [hcs] at hc; cases hc
  | panic w => rw [hcs] at hc; cases hc
  | unmodelled w => rw [hcs] at hc; cases hc

/-- **hyphen_ops, from source bytes.** Let the template be `HyphenClean` and let no hyphen stand inside a `capture`
    body (`SrcCapTrimFree`: `capTrimFree` of the compiled tree). For every value layer, output layer, configuration,
    file system, include fuel and environment: EITHER there is one list `ops` of trim-writer operations such that
    the source renders to `runOps ops`, making the calls `writeCalls ops` on its writer, and the source with its
    hyphens deleted renders to `runOps (eraseTrims ops)` — the same writes and flushes in the same order, the
    `TrimLeft`/`TrimRight` operations left out — with the calls `writeCalls (eraseTrims ops)`: the two sides of the
    operation-list theorems of `Proofs/C13.lean`; OR neither render succeeds and the two results are EQUAL (the
    same located error at compile time or at render time, the same panic). -/
theorem hyphen_source_ops (P : Prims) (O : OutPrims) (cfg : Cfg) (fs : FS) (fuel : Nat) (items : List Item) (line : Nat) (env : Env)
    (h : HyphenClean (Delims.ofList cfg.delims) items)
    (hcap : SrcCapTrimFree cfg.delims (spell (Delims.ofList cfg.delims) items) line) :
    (∃ ops,
      run P O cfg fs fuel (spell (Delims.ofList cfg.delims) items) line env = .ok (runOps ops) ∧
      run P O cfg fs fuel (spell (Delims.ofList cfg.delims) (dropHyphens items)) line env = .ok (runOps (eraseTrims ops)) ∧
      runCalls P O cfg fs fuel (spell (Delims.ofList cfg.delims) items) line env = writeCalls ops ∧
      runCalls P O cfg fs fuel (spell (Delims.ofList cfg.delims) (dropHyphens items)) line env = writeCalls (eraseTrims ops)) ∨
    ((∀ out, run P O cfg fs fuel (spell (Delims.ofList cfg.delims) items) line env ≠ .ok out) ∧
      run P O cfg fs fuel (spell (Delims.ofList cfg.delims) items) line env =
        run P O cfg fs fuel (spell (Delims.ofList cfg.delims) (dropHyphens items)) line env) := by
  rcases run_pair_dropHyphens P O cfg fs fuel items line env h with ⟨nodes, hc, hc0, hA, hB⟩ | ⟨hno, _, _, heq⟩
  · obtain ⟨ops, o, h1, h2, h3, h4⟩ :=
      hyphen_ops_root (mkCtx P O cfg fs fuel) (incQuiet_mkCtx P O cfg fs fuel) nodes (hcap nodes hc) env
    have hcA : runCalls P O cfg fs fuel (spell (Delims.ofList cfg.delims) items) line env = rootCalls ops o := by
      simp only [runCalls, hc, h3]
    have hcB : runCalls P O cfg fs fuel (spell (Delims.ofList cfg.delims) (dropHyphens items)) line env =
        rootCalls (eraseTrims ops) o := by
      simp only [runCalls, hc0, h4]
    rw [hA, hB, h1, h2, hcA, hcB]
    cases o with
    | ok st env' =>
      cases st with
      | done => exact .inl ⟨ops, rfl, rfl, rfl, rfl⟩
      | brk e => exact .inr ⟨(fun out hh => by cases hh), rfl⟩
      | cont e => exact .inr ⟨(fun out hh => by cases hh), rfl⟩
    | err e => cases e <;> exact .inr ⟨(fun out hh => by cases hh), rfl⟩
    | panic w => exact .inr ⟨(fun out hh => by cases hh), rfl⟩
    | unmodelled w => exact .inr ⟨(fun out hh => by cases hh), rfl⟩
  · exact .inr ⟨hno, heq⟩

/-- **hyphen_same_outcome, from source bytes.** Under the same hypotheses the hyphens do not change how the run
    ends: the source renders normally iff the source without hyphens does, and when it does not the two results
    are equal — the same located error (compile time or render time, a stray `break`/`continue` included), or the
    same panic. -/
theorem hyphen_source_same_outcome (P : Prims) (O : OutPrims) (cfg : Cfg) (fs : FS) (fuel : Nat) (items : List Item) (line : Nat)
    (env : Env) (h : HyphenClean (Delims.ofList cfg.delims) items)
    (hcap : SrcCapTrimFree cfg.delims (spell (Delims.ofList cfg.delims) items) line) :
    ((∃ out, run P O cfg fs fuel (spell (Delims.ofList cfg.delims) items) line env = .ok out) ↔
      (∃ out0, run P O cfg fs fuel (spell (Delims.ofList cfg.delims) (dropHyphens items)) line env = .ok out0)) ∧
    ((∀ out, run P O cfg fs fuel (spell (Delims.ofList cfg.delims) items) line env ≠ .ok out) →
      run P O cfg fs fuel (spell (Delims.ofList cfg.delims) items) line env =
        run P O cfg fs fuel (spell (Delims.ofList cfg.delims) (dropHyphens items)) line env) := by
  rcases hyphen_source_ops P O cfg fs fuel items line env h hcap with ⟨ops, hA, hB, -, -⟩ | ⟨hno, heq⟩
  · exact ⟨⟨fun _ => ⟨_, hB⟩, fun _ => ⟨_, hA⟩⟩, fun hno => absurd hA (hno _)⟩
  · refine ⟨⟨fun ⟨out, ho⟩ => absurd ho (hno out), fun ⟨out0, ho⟩ => ?_⟩, fun _ => heq⟩
    rw [← heq] at ho
    exact absurd ho (hno out0)

/-- **hyphen_erasure, from source bytes** (the last sentence of C13 on template source text). Let the template be
    `HyphenClean` with no hyphen inside a `capture` body, let the source render to `out` and the source with its
    hyphens deleted to `out0` (one does iff the other does: `hyphen_source_same_outcome`), and let every `Write` call
    of the hyphen-free render be valid UTF-8 (`runCalls`; on invalid UTF-8 the law is false already for operation
    lists: `tw_erasure_fails_on_invalid_utf8`). Then deleting every `unicode.IsSpace` rune from `out` and from `out0`
    gives the same bytes; `out` is obtained from `out0` by deleting whitespace runes only; `out` is a subsequence of
    `out0`; and `out` is valid UTF-8. -/
theorem hyphen_source_erasure (P : Prims) (O : OutPrims) (cfg : Cfg) (fs : FS) (fuel : Nat) (items : List Item) (line : Nat)
    (env : Env) (h : HyphenClean (Delims.ofList cfg.delims) items)
    (hcap : SrcCapTrimFree cfg.delims (spell (Delims.ofList cfg.delims) items) line) (out out0 : Bytes)
    (hA : run P O cfg fs fuel (spell (Delims.ofList cfg.delims) items) line env = .ok out)
    (hB : run P O cfg fs fuel (spell (Delims.ofList cfg.delims) (dropHyphens items)) line env = .ok out0)
    (hv : ∀ b ∈ runCalls P O cfg fs fuel (spell (Delims.ofList cfg.delims) (dropHyphens items)) line env, ValidUtf8 b) :
    stripSpaceBytes out = stripSpaceBytes out0 ∧
    WsDeletion isSpaceRune (decodeRunes out0) (decodeRunes out) ∧
    out.Sublist out0 ∧ ValidUtf8 out := by
  rcases run_pair_dropHyphens P O cfg fs fuel items line env h with ⟨nodes, hc, hc0, hrA, hrB⟩ | ⟨hno, _, _, _⟩
  · rw [hrA, resOfRoot_ok_iff] at hA
    rw [hrB, resOfRoot_ok_iff] at hB
    refine hyphen_erasure_engine P O cfg fs fuel nodes (hcap nodes hc) env out out0 hA hB ?_
    simpa only [runCalls, hc0] using hv
  · exact absurd hA (hno out)

/-- **hyphen_free_identity, from source bytes.** A source without whitespace-control hyphens loses nothing: when
    `spell d (dropHyphens items)` renders, its output is the concatenation of the chunks written, and every
    non-empty chunk reaches the writer as one unchanged `Write` call, in order (all bytes, valid UTF-8 or not). -/
theorem hyphen_source_free_identity (P : Prims) (O : OutPrims) (cfg : Cfg) (fs : FS) (fuel : Nat) (items : List Item) (line : Nat)
    (env : Env) (h : HyphenClean (Delims.ofList cfg.delims) items) (out0 : Bytes)
    (hB : run P O cfg fs fuel (spell (Delims.ofList cfg.delims) (dropHyphens items)) line env = .ok out0) :
    ∃ ops : List WOp, _root_.eraseTrims ops = ops ∧ out0 = wopWrites ops ∧
      runCalls P O cfg fs fuel (spell (Delims.ofList cfg.delims) (dropHyphens items)) line env =
        (wopChunks ops).filter (fun b => !b.isEmpty) := by
  rcases run_pair_dropHyphens P O cfg fs fuel items line env h with ⟨nodes, hc, hc0, _, hrB⟩ | ⟨_, _, hno0, _⟩
  · rw [hrB, resOfRoot_ok_iff] at hB
    obtain ⟨ops, o, _, he, hall⟩ := hyphen_free_identity (mkCtx P O cfg fs fuel) (incQuiet_mkCtx P O cfg fs fuel)
      (stripTrims nodes) (hasTrim_stripTrims nodes) env
    obtain ⟨h1, h2⟩ := hall out0 hB
    exact ⟨ops, he, h1, by simp only [runCalls, hc0, h2]⟩
  · rw [run_eq_runCompiled] at hB
    cases hcs : compileSource cfg.delims (spell (Delims.ofList cfg.delims) (dropHyphens items)) line with
    | ok n => exact absurd hcs (hno0 n)
    | err e => rw [hcs] at hB; cases hB
    | panic w => rw [hcs] at hB; cases hB
    | unmodelled w => rw [hcs] at hB; cases hB

/-! ## A hyphen that faces a literal text

The two rules of `Proofs/C13Template.lean` (`hyphen_faces_text_right`, `hyphen_faces_text_left_block`) read on source
text, for a site at the top level of a template between two self-contained pieces: `A X -}}u B` against
`A X }}u' B` with `u'` the left-stripped text, and `A u{{- X B` against `A u'{{ X B` with `u'` the right-stripped
text. Deleting white space from the source moves the rest of the template up when a newline is deleted, so the two
results are compared up to the line of the error (`RunResult.sameUpToLine`: the same output; or errors with the same
cause, message and path flag; or the same panic); when no newline is deleted they are equal. -/

/-- **hyphen_faces_text_right, from source bytes.** `A` is any item list and `X` an object or tag with a right
    hyphen such that `A X` without that hyphen is a self-contained piece (`Compiles`: `X` may close a block opened in
    `A`); `u` is a text whose left-stripped form `trimLeftSpace u` (`bytes.TrimLeftFunc(u, unicode.IsSpace)`) is not
    empty (part of `Clean` of the second template); `B` is a self-contained piece without an `include` tag. For every
    value layer, output layer, configuration with good delimiters, file system and environment, from any start line
    ≥ 1: the source `A X -}}u B` and the source `A X }}u' B` — the hyphen deleted and the adjacent white space of the
    text deleted with it — give results that agree up to the line of the error. -/
theorem hyphen_faces_text_right_source (P : Prims) (O : OutPrims) (cfg : Cfg) (fs : FS) (fuel : Nat) (line : Nat) (env : Env)
    (hline : 1 ≤ line) (A : List Item) (X : Item) (u : Bytes) (B : List Item) (hX : X.hr = true)
    (hg : GoodDelims (Delims.ofList cfg.delims))
    (hc1 : Clean (Delims.ofList cfg.delims) (A ++ X :: .text u :: B))
    (hc2 : Clean (Delims.ofList cfg.delims) (A ++ X.clearR :: .text (trimLeftSpace u) :: B))
    (hrc : RawClosed (A ++ X :: .text u :: B))
    (hP : Compiles (Delims.ofList cfg.delims) (A ++ [X.clearR]) line) (hB : Compiles (Delims.ofList cfg.delims) B 0)
    (hiB : NoIncludeItem B) :
    (run P O cfg fs fuel (spell (Delims.ofList cfg.delims) (A ++ X :: .text u :: B)) line env).sameUpToLine
      (run P O cfg fs fuel (spell (Delims.ofList cfg.delims) (A ++ X.clearR :: .text (trimLeftSpace u) :: B)) line env) := by
  obtain ⟨nP, hnP⟩ := hP.nodes
  obtain ⟨nB, hnB⟩ := hB.nodes
  have hni := compiles_noIncl _ B 0 nB hnB hiB
  rw [run_spell P O cfg fs fuel _ line env hg hc1, run_spell P O cfg fs fuel _ line env hg hc2,
    compile_faceR_site _ A X u B line hX hrc nP nB hnP hnB, compile_faceR_site0 _ A X _ B line nP nB hnP hnB]
  show (runRoot P O cfg fs fuel _ env).sameUpToLine (runRoot P O cfg fs fuel _ env)
  rw [runRoot_faceR]
  have key := runRoot_shift_tail P O cfg fs fuel
    (nP ++ [.text (line + countNL (spell (Delims.ofList cfg.delims) (A ++ [X]))) (trimLeftSpace u)]) nB
    (line + countNL (spell (Delims.ofList cfg.delims) (A ++ [X])) + countNL u)
    (line + countNL (spell (Delims.ofList cfg.delims) (A ++ [X])) + countNL (trimLeftSpace u)) (by omega) (by omega) hni env
  simp only [List.append_assoc, List.singleton_append] at key
  exact key

/-- the same when the white space deleted holds no newline: the two results are EQUAL (every line included), for
    every `B` (an `include` tag allowed) and every start line -/
theorem hyphen_faces_text_right_source_eq (P : Prims) (O : OutPrims) (cfg : Cfg) (fs : FS) (fuel : Nat) (line : Nat) (env : Env)
    (A : List Item) (X : Item) (u : Bytes) (B : List Item) (hX : X.hr = true)
    (hnl : countNL (trimLeftSpace u) = countNL u)
    (hg : GoodDelims (Delims.ofList cfg.delims))
    (hc1 : Clean (Delims.ofList cfg.delims) (A ++ X :: .text u :: B))
    (hc2 : Clean (Delims.ofList cfg.delims) (A ++ X.clearR :: .text (trimLeftSpace u) :: B))
    (hrc : RawClosed (A ++ X :: .text u :: B))
    (hP : Compiles (Delims.ofList cfg.delims) (A ++ [X.clearR]) line) (hB : Compiles (Delims.ofList cfg.delims) B 0) :
    run P O cfg fs fuel (spell (Delims.ofList cfg.delims) (A ++ X :: .text u :: B)) line env =
      run P O cfg fs fuel (spell (Delims.ofList cfg.delims) (A ++ X.clearR :: .text (trimLeftSpace u) :: B)) line env := by
  obtain ⟨nP, hnP⟩ := hP.nodes
  obtain ⟨nB, hnB⟩ := hB.nodes
  rw [run_spell P O cfg fs fuel _ line env hg hc1, run_spell P O cfg fs fuel _ line env hg hc2,
    compile_faceR_site _ A X u B line hX hrc nP nB hnP hnB, compile_faceR_site0 _ A X _ B line nP nB hnP hnB, hnl]
  show runRoot P O cfg fs fuel _ env = runRoot P O cfg fs fuel _ env
  rw [runRoot_faceR]

/-- **hyphen_faces_text_left, from source bytes.** `A` is a self-contained piece, `u` a text on which stripping the
    two sides commutes (`TrimComm`, decidable; true of valid UTF-8: `trimComm_of_valid`) and whose right-stripped form
    `trimRightSpace u` is not empty, `X` an object or tag with a left hyphen such that `X B` without that hyphen is a
    self-contained piece without an `include` tag (`X` may open a block closed in `B`). From any start line ≥ 1 the
    source `A u{{- X B` and the source `A u'{{ X B` — the hyphen deleted and the adjacent white space of the text
    deleted with it — give results that agree up to the line of the error. (On a writer that fails the two renders
    differ in what has been written: `hyphen_left_partial_output_differs`; `run` is the fault-free result.) -/
theorem hyphen_faces_text_left_source (P : Prims) (O : OutPrims) (cfg : Cfg) (fs : FS) (fuel : Nat) (line : Nat) (env : Env)
    (hline : 1 ≤ line) (A : List Item) (u : Bytes) (X : Item) (B : List Item) (hX : X.hl = true) (hu : TrimComm u)
    (hg : GoodDelims (Delims.ofList cfg.delims))
    (hc1 : Clean (Delims.ofList cfg.delims) (A ++ .text u :: X :: B))
    (hc2 : Clean (Delims.ofList cfg.delims) (A ++ .text (trimRightSpace u) :: X.clearL :: B))
    (hrc : RawClosed (A ++ .text u :: X :: B))
    (hA : Compiles (Delims.ofList cfg.delims) A line) (hQ : Compiles (Delims.ofList cfg.delims) (X.clearL :: B) 0)
    (hiQ : NoIncludeItem (X.clearL :: B)) :
    (run P O cfg fs fuel (spell (Delims.ofList cfg.delims) (A ++ .text u :: X :: B)) line env).sameUpToLine
      (run P O cfg fs fuel (spell (Delims.ofList cfg.delims) (A ++ .text (trimRightSpace u) :: X.clearL :: B)) line env) := by
  obtain ⟨nA, hnA⟩ := hA.nodes
  obtain ⟨nQ, hnQ⟩ := hQ.nodes
  have hni := compiles_noIncl _ _ 0 nQ hnQ hiQ
  rw [run_spell P O cfg fs fuel _ line env hg hc1, run_spell P O cfg fs fuel _ line env hg hc2,
    compile_faceL_site _ A u X B line hX hrc nA nQ hnA hnQ, compile_faceL_site0 _ A _ X B line nA nQ hnA hnQ]
  show (runRoot P O cfg fs fuel _ env).sameUpToLine (runRoot P O cfg fs fuel _ env)
  rw [runRoot_faceL P O cfg fs fuel nA _ _ u hu]
  have key := runRoot_shift_tail P O cfg fs fuel
    (nA ++ [.text (line + countNL (spell (Delims.ofList cfg.delims) A)) (trimRightSpace u)]) nQ
    (line + countNL (spell (Delims.ofList cfg.delims) A) + countNL u)
    (line + countNL (spell (Delims.ofList cfg.delims) A) + countNL (trimRightSpace u)) (by omega) (by omega) hni env
  simp only [List.append_assoc, List.singleton_append] at key
  exact key

/-- the same when the white space deleted holds no newline: the two results are EQUAL -/
theorem hyphen_faces_text_left_source_eq (P : Prims) (O : OutPrims) (cfg : Cfg) (fs : FS) (fuel : Nat) (line : Nat) (env : Env)
    (A : List Item) (u : Bytes) (X : Item) (B : List Item) (hX : X.hl = true) (hu : TrimComm u)
    (hnl : countNL (trimRightSpace u) = countNL u)
    (hg : GoodDelims (Delims.ofList cfg.delims))
    (hc1 : Clean (Delims.ofList cfg.delims) (A ++ .text u :: X :: B))
    (hc2 : Clean (Delims.ofList cfg.delims) (A ++ .text (trimRightSpace u) :: X.clearL :: B))
    (hrc : RawClosed (A ++ .text u :: X :: B))
    (hA : Compiles (Delims.ofList cfg.delims) A line) (hQ : Compiles (Delims.ofList cfg.delims) (X.clearL :: B) 0) :
    run P O cfg fs fuel (spell (Delims.ofList cfg.delims) (A ++ .text u :: X :: B)) line env =
      run P O cfg fs fuel (spell (Delims.ofList cfg.delims) (A ++ .text (trimRightSpace u) :: X.clearL :: B)) line env := by
  obtain ⟨nA, hnA⟩ := hA.nodes
  obtain ⟨nQ, hnQ⟩ := hQ.nodes
  rw [run_spell P O cfg fs fuel _ line env hg hc1, run_spell P O cfg fs fuel _ line env hg hc2,
    compile_faceL_site _ A u X B line hX hrc nA nQ hnA hnQ, compile_faceL_site0 _ A _ X B line nA nQ hnA hnQ, hnl]
  show runRoot P O cfg fs fuel _ env = runRoot P O cfg fs fuel _ env
  rw [runRoot_faceL P O cfg fs fuel nA _ _ u hu]

/-! ## Non-vacuity, on concrete bytes (default delimiters)

`a {{- v -}} b{% if v -%} c {% endif %}`: a hyphen on every side of the object, one inside a block. -/

def c13Items : List Item :=
  [.text [97, 32], .obj [118] true true [32] [32], .text [32, 98], .tag nmIf [118] false true [32] [32] [32],
   .text [32, 99, 32], .tag (endPrefix ++ nmIf) [] false false [32] [] [32]]

/-- the source, and the source with its three hyphens deleted -/
example : spell Delims.default c13Items =
    [97, 32, 123, 123, 45, 32, 118, 32, 45, 125, 125, 32, 98, 123, 37, 32, 105, 102, 32, 118, 32, 45, 37, 125, 32, 99, 32,
     123, 37, 32, 101, 110, 100, 105, 102, 32, 37, 125] ∧
    spell Delims.default (dropHyphens c13Items) =
    [97, 32, 123, 123, 32, 118, 32, 125, 125, 32, 98, 123, 37, 32, 105, 102, 32, 118, 32, 37, 125, 32, 99, 32,
     123, 37, 32, 101, 110, 100, 105, 102, 32, 37, 125] := by decide

/-- the hypotheses of every theorem above hold of it -/
example : HyphenClean Delims.default c13Items ∧ SrcCapTrimFree [] (spell Delims.default c13Items) 1 := by decide

theorem c13_compiles : compileSource [] (spell Delims.default c13Items) 1 =
    .ok [.text 1 [97, 32], .trim true, .obj 1 (.var [118]), .trim false, .text 1 [32, 98],
      .ifB 1 [(.expr 1 (.var [118]), [.trim false, .text 1 [32, 99, 32]])]] := by rfl

/-- `compile_dropHyphens` on it: the hyphen-free source compiles to the tree without the three `.trim` nodes -/
example : compileSource [] (spell Delims.default (dropHyphens c13Items)) 1 =
    .ok [.text 1 [97, 32], .obj 1 (.var [118]), .text 1 [32, 98], .ifB 1 [(.expr 1 (.var [118]), [.text 1 [32, 99, 32]])]] := by
  show compileSource [] (spell (Delims.ofList []) (dropHyphens c13Items)) 1 = _
  rw [compile_dropHyphens [] c13Items 1 (by decide)]
  show (compileSource [] (spell Delims.default c13Items) 1).mapOk stripTrims = _
  rw [c13_compiles]
  simp [Res.mapOk, stripTrims, stripNode, stripBranches]

/-- `hyphen_source_ops` / `hyphen_source_same_outcome` on it, for every value layer, output layer, file system and
    environment -/
example (P : Prims) (O : OutPrims) (fs : FS) (env : Env) :
    (∃ out, run P O {} fs 1 (spell Delims.default c13Items) 1 env = .ok out) ↔
      (∃ out0, run P O {} fs 1 (spell Delims.default (dropHyphens c13Items)) 1 env = .ok out0) :=
  (hyphen_source_same_outcome P O {} fs 1 c13Items 1 env (by decide) (by decide)).1

def c13Env : Env := [([118], .str [120])]

set_option linter.unusedSimpArgs false in
/-- evaluate `run` of a source that compiles to `nodes` in the small value layer `hyPrims`/`hyOut` of `Proofs/C13Template.lean` -/
local macro "c13_eval" "[" ts:Lean.Parser.Tactic.simpLemma,* "]" : tactic => `(tactic|
  simp [$ts,*, resOfRoot, runCalls, renderRoot, renderList, renderNode, renderBranches,
    renderBlockBody, evalCond, wrapFailAt, wrapAt, M.mapFail, M.bind, M.pure, M.fail, M.getVar, writeM, trimLeftM, trimRightM, flushM,
    captureM, Prog.bind, Prog.mapFail, Prog.runPure, Prog.calls, bind, pure, mkCtx, hyPrims, M.setVar, M.getEnv, M.ofRes, evaluate,
    eval, Env.set, Env.get, GoVal.toLiquid, GoVal.unwrap, GoVal.isNil, GoVal.test, hyOut, writeAllM, writeVerbatimM, Status.wrap, cyclesOf, errorfAt,
    wrapError])

/-- with `v` = `"x"` the source renders `axbc␠` -/
theorem c13_out (fs : FS) : run hyPrims hyOut {} fs 1 (spell Delims.default c13Items) 1 c13Env = .ok [97, 120, 98, 99, 32] := by
  have h1 : trimRightSpace [97, 32] = [97] := by decide
  have h2 : trimLeftSpace [32, 98] = [98] := by decide
  have h3 : trimRightSpace [98] = [98] := by decide
  have h4 : trimLeftSpace [32, 99, 32] = [99, 32] := by decide
  rw [run_eq_runCompiled]
  show runCompiled hyPrims hyOut {} fs 1 (compileSource [] (spell Delims.default c13Items) 1) c13Env = _
  rw [c13_compiles]
  show runRoot hyPrims hyOut {} fs 1 _ c13Env = _
  rw [runRoot_eq_resOfRoot]
  c13_eval [c13Env, h1, h2, h3, h4]

theorem c13_compiles0 : compileSource [] (spell Delims.default (dropHyphens c13Items)) 1 =
    .ok [.text 1 [97, 32], .obj 1 (.var [118]), .text 1 [32, 98], .ifB 1 [(.expr 1 (.var [118]), [.text 1 [32, 99, 32]])]] := by rfl

/-- the source without hyphens renders `a␠x␠b␠c␠` -/
theorem c13_out0 (fs : FS) :
    run hyPrims hyOut {} fs 1 (spell Delims.default (dropHyphens c13Items)) 1 c13Env = .ok [97, 32, 120, 32, 98, 32, 99, 32] := by
  rw [run_eq_runCompiled]
  show runCompiled hyPrims hyOut {} fs 1 (compileSource [] (spell Delims.default (dropHyphens c13Items)) 1) c13Env = _
  rw [c13_compiles0]
  show runRoot hyPrims hyOut {} fs 1 _ c13Env = _
  rw [runRoot_eq_resOfRoot]
  c13_eval [c13Env]

/-- … in four `Write` calls -/
theorem c13_calls0 (fs : FS) :
    runCalls hyPrims hyOut {} fs 1 (spell Delims.default (dropHyphens c13Items)) 1 c13Env = [[97, 32], [120], [32, 98], [32, 99, 32]] := by
  unfold runCalls
  show (match compileSource [] (spell Delims.default (dropHyphens c13Items)) 1 with
    | .ok root => (renderRoot (mkCtx hyPrims hyOut {} fs 1) root c13Env).calls | _ => []) = _
  rw [c13_compiles0]
  c13_eval [c13Env]

/-- Non-vacuity of `hyphen_source_erasure`: every hypothesis holds of `c13Items` with `v` = `"x"`; the outputs
    `axbc␠` and `a␠x␠b␠c␠` are both `axbc` without whitespace -/
example (fs : FS) : stripSpaceBytes [97, 120, 98, 99, 32] = stripSpaceBytes [97, 32, 120, 32, 98, 32, 99, 32] ∧
    WsDeletion isSpaceRune (decodeRunes [97, 32, 120, 32, 98, 32, 99, 32]) (decodeRunes [97, 120, 98, 99, 32]) ∧
    ([97, 120, 98, 99, 32] : Bytes).Sublist [97, 32, 120, 32, 98, 32, 99, 32] ∧ ValidUtf8 [97, 120, 98, 99, 32] :=
  hyphen_source_erasure hyPrims hyOut {} fs 1 c13Items 1 c13Env (by decide) (by decide) _ _ (c13_out fs) (c13_out0 fs) (by
    intro b hb
    have hb' : b ∈ runCalls hyPrims hyOut {} fs 1 (spell Delims.default (dropHyphens c13Items)) 1 c13Env := hb
    rw [c13_calls0] at hb'
    simp only [List.mem_cons, List.not_mem_nil, or_false] at hb'
    rcases hb' with rfl | rfl | rfl | rfl <;> decide)

/-- Non-vacuity of `hyphen_source_free_identity`: the four chunks of the hyphen-free render -/
example (fs : FS) : ∃ ops : List WOp, _root_.eraseTrims ops = ops ∧ [97, 32, 120, 32, 98, 32, 99, 32] = wopWrites ops ∧
    runCalls hyPrims hyOut {} fs 1 (spell Delims.default (dropHyphens c13Items)) 1 c13Env =
      (wopChunks ops).filter (fun b => !b.isEmpty) :=
  hyphen_source_free_identity hyPrims hyOut {} fs 1 c13Items 1 c13Env (by decide) _ (c13_out0 fs)

/-- Non-vacuity of `hyphen_source_same_outcome` on a render that FAILS: `a {{- v }}{% cycle "b" %}` fails at the cycle
    tag (no enclosing loop), and so does the source without the hyphen, with the same error -/
def c13Fail : List Item := [.text [97, 32], .obj [118] true false [32] [32], .tag nmCycle [34, 98, 34] false false [32] [32] [32]]

example (fs : FS) :
    run hyPrims hyOut {} fs 1 (spell Delims.default c13Fail) 1 [] = .err ⟨1, true, .none, .cycleOutside⟩ ∧
    run hyPrims hyOut {} fs 1 (spell Delims.default (dropHyphens c13Fail)) 1 [] = .err ⟨1, true, .none, .cycleOutside⟩ := by
  have hc : compileSource [] (spell Delims.default c13Fail) 1 =
      .ok [.text 1 [97, 32], .trim true, .obj 1 (.var [118]), .cycle 1 [] [98] []] := by rfl
  have h : run hyPrims hyOut {} fs 1 (spell Delims.default c13Fail) 1 [] = .err ⟨1, true, .none, .cycleOutside⟩ := by
    have h0 : trimRightSpace [97, 32] = [97] := by decide
    rw [run_eq_runCompiled]
    show runCompiled hyPrims hyOut {} fs 1 (compileSource [] (spell Delims.default c13Fail) 1) [] = _
    rw [hc]
    show runRoot hyPrims hyOut {} fs 1 _ [] = _
    rw [runRoot_eq_resOfRoot]
    c13_eval [h0]
  refine ⟨h, ?_⟩
  have h2 := (hyphen_source_same_outcome hyPrims hyOut {} fs 1 c13Fail 1 [] (by decide) (by decide)).2
    (fun out ho => by
      have ho' : run hyPrims hyOut {} fs 1 (spell Delims.default c13Fail) 1 [] = .ok out := ho
      rw [h] at ho'; cases ho')
  exact h2.symm.trans h

/-- … and on a source that does not COMPILE: `a {{- v }}{% endif %}`, with or without the hyphen, is rejected with
    the same located error -/
example : compileSource [] (spell Delims.default (dropHyphens [.text [97, 32], .obj [118] true false [32] [32],
      .tag (endPrefix ++ nmIf) [] false false [32] [] [32]])) 1 = .err ⟨1, true, .none, .notInside⟩ := by
  show compileSource [] (spell (Delims.ofList []) (dropHyphens _)) 1 = _
  rw [compile_dropHyphens [] _ 1 (by decide)]
  rfl

/-! ## The hypotheses are needed

Each example below is a template on which ONE hypothesis of `compile_dropHyphens` fails and its conclusion is false.
The Go engine was run on the same bytes (both spellings); it agrees with the model on all of them. -/

/-- **`Clean` of the hyphen-free items does not follow from `Clean` of the items (1).** `{{--1}}` is the object `-1`
    after a left hyphen; with the hyphen deleted, `{{-1}}` is the object `1` after a left hyphen: deleting the hyphen
    character changes the EXPRESSION. (Go: `a {{--1}}` renders `a-1`, `a {{-1}}` renders `a1`.) -/
example : Clean Delims.default [.obj [45, 49] true false [] []] ∧
    ¬ Clean Delims.default (dropHyphens [.obj [45, 49] true false [] []]) ∧
    compileSource [] (spell Delims.default [.obj [45, 49] true false [] []]) 1 =
      .ok [.trim true, .obj 1 (.lit (.int .int (-1)))] ∧
    compileSource [] (spell Delims.default (dropHyphens [.obj [45, 49] true false [] []])) 1 =
      .ok [.trim true, .obj 1 (.lit (.int .int 1))] := ⟨by decide, by decide, by rfl, by rfl⟩

/-- **(2).** `{{ x}-}}` is an object with the arguments `x}` (a syntax error) and a right hyphen; with the hyphen
    deleted, `{{ x}}}` is the object `x` followed by the text `}`. (Go: `{{ x}-}}` is rejected with a syntax error in
    `x}`, `{{ x}}}` renders the value of `x` and `}`.) -/
example : Clean Delims.default [.obj [120, 125] false true [32] []] ∧
    ¬ Clean Delims.default (dropHyphens [.obj [120, 125] false true [32] []]) ∧
    compileSource [] (spell Delims.default [.obj [120, 125] false true [32] []]) 1 = .err ⟨1, true, .syntax, .byCause⟩ ∧
    compileSource [] (spell Delims.default (dropHyphens [.obj [120, 125] false true [32] []])) 1 =
      .ok [.obj 1 (.var [120]), .text 1 [125]] := ⟨by decide, by decide, by rfl, by rfl⟩

/-- `{% raw -%}x{% endraw %}` -/
def c13RawHy : List Item := [.tag rawName [] false true [32] [] [], .text [120], .tag endrawName [] false false [32] [] [32]]

/-- **`RawPlain` is needed.** Inside a raw block the parser keeps every token as a slice of the body, a trim marker as
    an EMPTY slice: `{% raw -%}x{% endraw %}` compiles to `raw ["", "x"]`, `{% raw %}x{% endraw %}` to `raw ["x"]`, and
    `stripTrims` does not touch raw nodes: the two TREES differ, and so do the operation lists (the empty slice is one
    more verbatim write), which is what `compile_dropHyphens` and `hyphen_source_ops` speak about. The OUTPUT no longer
    differs: the hyphen does not trim the body (Go renders `{% raw -%}  y{% endraw %}` as `␠␠y`), and since the repair
    `fixes/verbatim-output-not-trimmed` no neighbour's hyphen does either — `{{ x -}}{% raw -%}  y{% endraw %}` and
    `{{ x -}}{% raw %}  y{% endraw %}` both render `X␠␠y` (before the repair the second rendered `Xy`; the second is
    `raw_after_right_hyphen_source` in `Proofs/C05Verbatim.lean`, the `hyphens` stream compares both). -/
example : GoodDelims Delims.default ∧ Clean Delims.default c13RawHy ∧ Clean Delims.default (dropHyphens c13RawHy) ∧
    RawClosed c13RawHy ∧ ¬ RawPlain c13RawHy ∧
    compileSource [] (spell Delims.default c13RawHy) 1 = .ok [.raw [[], [120]]] ∧
    compileSource [] (spell Delims.default (dropHyphens c13RawHy)) 1 = .ok [.raw [[120]]] :=
  ⟨by decide, by decide, by decide, by decide, by decide, by rfl, by rfl⟩

/-- `{% raw %}{{- x }}{% endraw y %}` -/
def c13RawOpen : List Item := [.tag rawName [] false false [32] [] [32], .obj [120] true false [32] [32],
  .tag endrawName [121] false false [32] [32] [32]]

/-- **`RawClosed` is needed.** A raw block that the tokenizer does not close (its `endraw` tag carries arguments) is
    closed by the block parser, and its body is the token sources AS SPELLED, hyphens included. (Go renders
    `{% raw %}{{- x }}{% endraw y %}` as `{{- x }}` and `{% raw %}{{ x }}{% endraw y %}` as `{{ x }}`.) -/
example : GoodDelims Delims.default ∧ Clean Delims.default c13RawOpen ∧ Clean Delims.default (dropHyphens c13RawOpen) ∧
    ¬ RawClosed c13RawOpen ∧ RawPlain c13RawOpen ∧
    compileSource [] (spell Delims.default c13RawOpen) 1 = .ok [.raw [[], [123, 123, 45, 32, 120, 32, 125, 125]]] ∧
    compileSource [] (spell Delims.default (dropHyphens c13RawOpen)) 1 = .ok [.raw [[123, 123, 32, 120, 32, 125, 125]]] :=
  ⟨by decide, by decide, by decide, by decide, by decide, by rfl, by rfl⟩

/-- `{% capture x %} {{- v }}{% endcapture %}{% if x == " " %}yes{% endif %}` -/
def c13Cap : List Item := [.tag nmCapture [120] false false [32] [32] [32], .text [32], .obj [118] true false [32] [32],
  .tag (endPrefix ++ nmCapture) [] false false [32] [] [32], .tag nmIf [120, 32, 61, 61, 32, 34, 32, 34] false false [32] [32] [32],
  .text [121, 101, 115], .tag (endPrefix ++ nmIf) [] false false [32] [] [32]]

/-- **`SrcCapTrimFree` is needed** (`hyphen_in_capture_changes_control_flow`, from source bytes). The template is
    `HyphenClean`; the hyphen stands inside a capture body. With it the captured text is empty and nothing is printed;
    without it the captured text is one blank and `yes` is printed: the two outputs differ by more than whitespace. -/
example (fs : FS) : HyphenClean Delims.default c13Cap ∧ ¬ SrcCapTrimFree [] (spell Delims.default c13Cap) 1 ∧
    run hyPrims hyOut {} fs 1 (spell Delims.default c13Cap) 1 [] = .ok [] ∧
    run hyPrims hyOut {} fs 1 (spell Delims.default (dropHyphens c13Cap)) 1 [] = .ok [121, 101, 115] ∧
    stripSpaceBytes [] ≠ stripSpaceBytes [121, 101, 115] := by
  have hc : compileSource [] (spell Delims.default c13Cap) 1 =
      .ok [.capture 1 [120] [.text 1 [32], .trim true, .obj 1 (.var [118])],
        .ifB 1 [(.expr 1 (.rel .eq (.var [120]) (.lit (.str [32]))), [.text 1 [121, 101, 115]])]] :=
    (compileSource_spell [] c13Cap 1 (by decide) (by decide)).trans (by rfl)
  have hc0 : compileSource [] (spell Delims.default (dropHyphens c13Cap)) 1 =
      .ok [.capture 1 [120] [.text 1 [32], .obj 1 (.var [118])],
        .ifB 1 [(.expr 1 (.rel .eq (.var [120]) (.lit (.str [32]))), [.text 1 [121, 101, 115]])]] :=
    (compileSource_spell [] (dropHyphens c13Cap) 1 (by decide) (by decide)).trans (by rfl)
  have h : trimRightSpace [32] = [] := by decide
  refine ⟨by decide, (fun hall => by have := hall _ hc; cases this), ?_, ?_, by decide⟩
  · rw [run_eq_runCompiled]
    show runCompiled hyPrims hyOut {} fs 1 (compileSource [] (spell Delims.default c13Cap) 1) [] = _
    rw [hc]
    show runRoot hyPrims hyOut {} fs 1 _ [] = _
    rw [runRoot_eq_resOfRoot]
    c13_eval [h]
  · rw [run_eq_runCompiled]
    show runCompiled hyPrims hyOut {} fs 1 (compileSource [] (spell Delims.default (dropHyphens c13Cap)) 1) [] = _
    rw [hc0]
    show runRoot hyPrims hyOut {} fs 1 _ [] = _
    rw [runRoot_eq_resOfRoot]
    c13_eval [h]

/-! ## Non-vacuity of the faces-text rules, on concrete bytes -/

/-- `{% if v %}c{% endif %}` -/
def c13B : List Item := [tg nmIf [118], .text [99], tg (endPrefix ++ nmIf) []]

/-- `a{{ v -}}␠⏎␠b{% if v %}c{% endif %}` and `a{{ v }}b{% if v %}c{% endif %}` (an object with a right hyphen before a
    text that begins with white space holding a newline): the same result up to the line of the error, for every
    value layer, output layer, file system and environment -/
example (P : Prims) (O : OutPrims) (fs : FS) (env : Env) :
    (run P O {} fs 1 (spell Delims.default ([.text [97]] ++ .obj [118] false true [32] [32] :: .text [32, 10, 32, 98] :: c13B)) 1 env).sameUpToLine
      (run P O {} fs 1 (spell Delims.default
        ([.text [97]] ++ (Item.obj [118] false true [32] [32]).clearR :: .text (trimLeftSpace [32, 10, 32, 98]) :: c13B)) 1 env) :=
  hyphen_faces_text_right_source P O {} fs 1 1 env (by decide) [.text [97]] (.obj [118] false true [32] [32]) [32, 10, 32, 98] c13B
    rfl (by decide) (by decide) (by decide) (by decide) (by decide) (by decide) (by decide)

example : spell Delims.default ([.text [97]] ++ .obj [118] false true [32] [32] :: .text [32, 10, 32, 98] :: c13B) =
    [97, 123, 123, 32, 118, 32, 45, 125, 125, 32, 10, 32, 98, 123, 37, 32, 105, 102, 32, 118, 32, 37, 125, 99,
     123, 37, 32, 101, 110, 100, 105, 102, 32, 37, 125] ∧
    spell Delims.default ([.text [97]] ++ (Item.obj [118] false true [32] [32]).clearR :: .text (trimLeftSpace [32, 10, 32, 98]) :: c13B) =
    [97, 123, 123, 32, 118, 32, 125, 125, 98, 123, 37, 32, 105, 102, 32, 118, 32, 37, 125, 99,
     123, 37, 32, 101, 110, 100, 105, 102, 32, 37, 125] := by decide

/-- `{% if v %}a{% endif -%}⏎␠b` and `{% if v %}a{% endif %}b`: the hyphen stands on a tag that closes a block -/
example (P : Prims) (O : OutPrims) (fs : FS) (env : Env) :
    (run P O {} fs 1 (spell Delims.default ([tg nmIf [118], .text [97]] ++
        .tag (endPrefix ++ nmIf) [] false true [32] [] [] :: .text [10, 32, 98] :: [])) 1 env).sameUpToLine
      (run P O {} fs 1 (spell Delims.default ([tg nmIf [118], .text [97]] ++
        (Item.tag (endPrefix ++ nmIf) [] false true [32] [] []).clearR :: .text (trimLeftSpace [10, 32, 98]) :: [])) 1 env) :=
  hyphen_faces_text_right_source P O {} fs 1 1 env (by decide) _ _ _ _ rfl (by decide) (by decide) (by decide) (by decide)
    (by decide) (by decide) (by decide)

/-- `a{{ v -}}␠b{% include "f" %}` and `a{{ v }}b{% include "f" %}`: no newline is deleted, the results are equal, an
    `include` tag may follow -/
example (P : Prims) (O : OutPrims) (fs : FS) (env : Env) :
    run P O {} fs 1 (spell Delims.default ([.text [97]] ++ .obj [118] false true [32] [32] :: .text [32, 98] ::
        [tg nmInclude [34, 102, 34]])) 1 env =
      run P O {} fs 1 (spell Delims.default ([.text [97]] ++ (Item.obj [118] false true [32] [32]).clearR ::
        .text (trimLeftSpace [32, 98]) :: [tg nmInclude [34, 102, 34]])) 1 env :=
  hyphen_faces_text_right_source_eq P O {} fs 1 1 env _ _ _ _ rfl (by decide) (by decide) (by decide) (by decide) (by decide)
    (by decide) (by decide)

/-- `{{ v }}a␠⏎␠{{- v }}{% if v %}c{% endif %}` and `{{ v }}a{{ v }}{% if v %}c{% endif %}` -/
example (P : Prims) (O : OutPrims) (fs : FS) (env : Env) :
    (run P O {} fs 1 (spell Delims.default ([ob [118]] ++ .text [97, 32, 10, 32] :: .obj [118] true false [32] [32] :: c13B)) 1 env).sameUpToLine
      (run P O {} fs 1 (spell Delims.default
        ([ob [118]] ++ .text (trimRightSpace [97, 32, 10, 32]) :: (Item.obj [118] true false [32] [32]).clearL :: c13B)) 1 env) :=
  hyphen_faces_text_left_source P O {} fs 1 1 env (by decide) [ob [118]] [97, 32, 10, 32] (.obj [118] true false [32] [32]) c13B
    rfl (by decide) (by decide) (by decide) (by decide) (by decide) (by decide) (by decide) (by decide)

/-- `a⏎{%- if v %}c{% endif %}d` and `a{% if v %}c{% endif %}d`: the hyphen stands on a tag that opens a block -/
example (P : Prims) (O : OutPrims) (fs : FS) (env : Env) :
    (run P O {} fs 1 (spell Delims.default ([] ++ .text [97, 10] :: .tag nmIf [118] true false [32] [32] [32] ::
        [.text [99], tg (endPrefix ++ nmIf) [], .text [100]])) 1 env).sameUpToLine
      (run P O {} fs 1 (spell Delims.default ([] ++ .text (trimRightSpace [97, 10]) ::
        (Item.tag nmIf [118] true false [32] [32] [32]).clearL :: [.text [99], tg (endPrefix ++ nmIf) [], .text [100]])) 1 env) :=
  hyphen_faces_text_left_source P O {} fs 1 1 env (by decide) _ _ _ _ rfl (by decide) (by decide) (by decide) (by decide)
    (by decide) (by decide) (by decide) (by decide)

/-- **Why "up to the line".** `a{{ v -}}⏎b{% cycle "b" %}` fails at the cycle tag on line 2; with the hyphen and the
    newline deleted, `a{{ v }}b{% cycle "b" %}` fails with the same message at the same tag, now on line 1. (The Go
    engine reports the line of the tag in the source it was given, like the model.) -/
example (fs : FS) :
    run hyPrims hyOut {} fs 1 (spell Delims.default ([.text [97]] ++ .obj [118] false true [32] [32] :: .text [10, 98] ::
      [tg nmCycle [34, 98, 34]])) 1 [] = .err ⟨2, true, .none, .cycleOutside⟩ ∧
    run hyPrims hyOut {} fs 1 (spell Delims.default ([.text [97]] ++ (Item.obj [118] false true [32] [32]).clearR ::
      .text (trimLeftSpace [10, 98]) :: [tg nmCycle [34, 98, 34]])) 1 [] = .err ⟨1, true, .none, .cycleOutside⟩ := by
  have hc1 : compileSource [] (spell Delims.default ([.text [97]] ++ .obj [118] false true [32] [32] :: .text [10, 98] ::
      [tg nmCycle [34, 98, 34]])) 1 = .ok [.text 1 [97], .obj 1 (.var [118]), .trim false, .text 1 [10, 98], .cycle 2 [] [98] []] :=
    (compileSource_spell [] _ 1 (by decide) (by decide)).trans (by rfl)
  have hc2 : compileSource [] (spell Delims.default ([.text [97]] ++ (Item.obj [118] false true [32] [32]).clearR ::
      .text (trimLeftSpace [10, 98]) :: [tg nmCycle [34, 98, 34]])) 1 =
      .ok [.text 1 [97], .obj 1 (.var [118]), .text 1 [98], .cycle 1 [] [98] []] :=
    (compileSource_spell [] _ 1 (by decide) (by decide)).trans (by rfl)
  have h1 : trimLeftSpace [10, 98] = [98] := by decide
  constructor
  · rw [run_eq_runCompiled]
    show runCompiled hyPrims hyOut {} fs 1 (compileSource [] _ 1) [] = _
    rw [hc1]
    show runRoot hyPrims hyOut {} fs 1 _ [] = _
    rw [runRoot_eq_resOfRoot]
    c13_eval [h1]
  · rw [run_eq_runCompiled]
    show runCompiled hyPrims hyOut {} fs 1 (compileSource [] _ 1) [] = _
    rw [hc2]
    show runRoot hyPrims hyOut {} fs 1 _ [] = _
    rw [runRoot_eq_resOfRoot]
    c13_eval [h1]
