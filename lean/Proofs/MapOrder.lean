import Proofs.MapOrderLemmas
import Liquid.Std
/-!
# `values.SortedMapKeys` orders the keys of a map totally: the sorted entry list does not depend on
the order in which the Go runtime (or the line protocol) hands the entries out (property C02)

`MapOrder.keyLess` (`Liquid/MapOrder.lean`) is the comparator of `values/sort.go`, clause by clause.
This file proves that on keys of classes 1–3 — booleans, numbers, strings (`GoodKey`) — that are
distinct *as Go map keys* it is a strict total order:

* `keyLess_irrefl`, `keyLess_trans`, `keyLess_total`;
* `sortedEntries_perm`: the stable sort by it gives the same list for every permutation of the entries;
* the sites: the items a `for`/`tablerow` loop visits (`loopItems_map_perm`), the array an array filter
  receives (`convert_map_perm`), and `first`, `last`, `join`, `size` of a map (`first_map_perm`, …).

Two keys of one Go map are the same key iff they have the same dynamic type and the same value. On
`GoodKey`s that is equality of the model's values (`.int k n = .int k' m ↔ k = k' ∧ n = m`, rationals
are kept normalised), so "pairwise distinct as Go map keys" is `List.Pairwise (·.1 ≠ ·.1)`.

`keyLess_total` is the statement that was FALSE before the repair `6d9b1b2` of /repo: `keyLess` ended
with `return valueLess(ca, a, b)`, and `1`, `1.0`, `int64(1)` — three keys of a `map[any]any` — were
incomparable, so `sort.SliceStable` left them in Go's random map order.
-/

namespace MapOrder

/-! ## Keys the theorems are about -/

/-- a key of class 1–3 (boolean, number, string); an integer lies in the range of its Go type (a value
    of kind `uint8` is never negative: `numberLess` relies on it when it compares `int` with `uint`) -/
def goodKey : GoVal → Bool
  | .bool _ | .str _ | .flt _ _ => true
  | .int k n => k.inRange n
  | _ => false

abbrev GoodKey (k : GoVal) : Prop := goodKey k = true

theorem goodKey_class {k : GoVal} (h : GoodKey k) : keyClass k ≠ 4 := by
  cases k <;> simp_all [GoodKey, goodKey, keyClass]

/-! ## Strict linear orders and their lexicographic product -/

/-- a strict total ("linear") order -/
structure SLO {α : Type} (lt : α → α → Prop) : Prop where
  irrefl : ∀ a, ¬ lt a a
  trans : ∀ a b c, lt a b → lt b c → lt a c
  tri : ∀ a b, lt a b ∨ a = b ∨ lt b a

def lexLt {α β : Type} (r : α → α → Prop) (s : β → β → Prop) (x y : α × β) : Prop :=
  r x.1 y.1 ∨ (x.1 = y.1 ∧ s x.2 y.2)

theorem SLO.lex {α β : Type} {r : α → α → Prop} {s : β → β → Prop} (hr : SLO r) (hs : SLO s) :
    SLO (lexLt r s) where
  irrefl := by
    rintro ⟨a, b⟩ (h | ⟨_, h⟩)
    · exact hr.irrefl a h
    · exact hs.irrefl b h
  trans := by
    rintro ⟨a1, b1⟩ ⟨a2, b2⟩ ⟨a3, b3⟩ h12 h23
    simp only [lexLt] at *
    rcases h12 with h12 | ⟨e12, h12⟩ <;> rcases h23 with h23 | ⟨e23, h23⟩
    · exact .inl (hr.trans _ _ _ h12 h23)
    · subst e23; exact .inl h12
    · subst e12; exact .inl h23
    · subst e12 e23; exact .inr ⟨rfl, hs.trans _ _ _ h12 h23⟩
  tri := by
    rintro ⟨a1, b1⟩ ⟨a2, b2⟩
    simp only [lexLt]
    rcases hr.tri a1 a2 with h | rfl | h
    · exact .inl (.inl h)
    · rcases hs.tri b1 b2 with h | rfl | h
      · exact .inl (.inr ⟨rfl, h⟩)
      · exact .inr (.inl rfl)
      · exact .inr (.inr (.inr ⟨rfl, h⟩))
    · exact .inr (.inr (.inl h))

theorem slo_nat : SLO (fun a b : Nat => a < b) where
  irrefl := fun a => Nat.lt_irrefl a
  trans := fun _ _ _ => Nat.lt_trans
  tri := fun a b => by omega

theorem slo_rat : SLO (fun a b : Rat => a < b) where
  irrefl := fun _ => Rat.lt_irrefl
  trans := by
    intro a b c hab hbc
    refine Rat.lt_of_le_of_ne (Rat.le_trans (Rat.le_of_lt hab) (Rat.le_of_lt hbc)) ?_
    rintro rfl
    exact Rat.not_lt.mpr (Rat.le_of_lt hab) hbc
  tri := by
    intro a b
    rcases Rat.le_total (a := a) (b := b) with h | h
    · by_cases e : a = b
      · exact .inr (.inl e)
      · exact .inl (Rat.lt_of_le_of_ne h e)
    · by_cases e : a = b
      · exact .inr (.inl e)
      · exact .inr (.inr (Rat.lt_of_le_of_ne h (Ne.symm e)))

theorem slo_bytes : SLO (fun a b : Bytes => a < b) where
  irrefl := fun a => List.lt_irrefl a
  trans := fun _ _ _ => List.lt_trans
  tri := by
    intro a b
    by_cases h1 : a < b
    · exact .inl h1
    · by_cases h2 : b < a
      · exact .inr (.inr h2)
      · exact .inr (.inl (List.le_antisymm (List.not_lt.mp h2) (List.not_lt.mp h1)))

/-! ## The rank of a key -/

/-- the exact value of a number -/
def num : GoVal → Rat
  | .int _ n => (n : Rat)
  | .flt _ q => q
  | _ => 0

def boolRank : GoVal → Nat
  | .bool true => 1
  | _ => 0

def strOf : GoVal → Bytes
  | .str s => s
  | _ => []

/-- class, then value (only one of the three value components is used in each class), then type name -/
def rank (k : GoVal) : Nat × Nat × Rat × Bytes × Bytes := (keyClass k, boolRank k, num k, strOf k, keyTypeName k)

/-- the lexicographic order of ranks -/
def rankLt : (Nat × Nat × Rat × Bytes × Bytes) → (Nat × Nat × Rat × Bytes × Bytes) → Prop :=
  lexLt (· < ·) (lexLt (· < ·) (lexLt (· < ·) (lexLt (· < ·) (· < ·))))

theorem slo_rank : SLO rankLt := slo_nat.lex (slo_nat.lex (slo_rat.lex (slo_bytes.lex slo_bytes)))

/-- the type name determines the Go type: different integer or float kinds have different names -/
theorem intName_inj (k k' : IntKind) (n m : Int) (h : keyTypeName (.int k n) = keyTypeName (.int k' m)) : k = k' := by
  cases k <;> cases k' <;> first | rfl | simp [keyTypeName] at h

theorem fltName_inj (k k' : FltKind) (q r : Rat) (h : keyTypeName (.flt k q) = keyTypeName (.flt k' r)) : k = k' := by
  cases k <;> cases k' <;> first | rfl | simp [keyTypeName] at h

theorem intName_ne_fltName (k : IntKind) (k' : FltKind) (n : Int) (q : Rat) : keyTypeName (.int k n) ≠ keyTypeName (.flt k' q) := by
  cases k <;> cases k' <;> simp [keyTypeName]

/-- two good keys with the same rank are the same Go map key: the same dynamic type and value -/
theorem rank_inj {a b : GoVal} (ha : GoodKey a) (hb : GoodKey b) (h : rank a = rank b) : a = b := by
  simp only [rank, Prod.mk.injEq] at h
  obtain ⟨hc, hbk, hn, hs, ht⟩ := h
  cases a <;> simp [GoodKey, goodKey] at ha <;> cases b <;> simp [GoodKey, goodKey] at hb <;> simp [keyClass] at hc
  · next x y => cases x <;> cases y <;> simp_all [boolRank]
  · next k n k' m =>
    have := intName_inj k k' n m ht
    subst this
    simp only [num] at hn
    rw [Rat.intCast_inj.mp hn]
  · next k n k' q => exact absurd ht (intName_ne_fltName k k' n q)
  · next k q k' m => exact absurd ht.symm (intName_ne_fltName k' k m q)
  · next k q k' r =>
    have := fltName_inj k k' q r ht
    subst this
    simp only [num] at hn
    rw [hn]
  · next s t => simp only [strOf] at hs; rw [hs]

/-! ## `numberLess` is the exact comparison -/

theorem unsigned_nonneg {k : IntKind} {n : Int} (h : k.inRange n = true) (hs : k.isSigned = false) : 0 ≤ n := by
  cases k <;> simp [IntKind.inRange, IntKind.minVal, IntKind.isSigned] at h hs ⊢ <;> omega

/-- Every clause of `numberLess` answers `num a < num b`:
    * `CanInt`/`CanInt` and `CanUint`/`CanUint`: `n < m` on the integers;
    * `CanInt`/`CanUint`: `n < 0 || uint64(n) < m` — `m ≥ 0` because `b` is unsigned, so this is `n < m`;
    * `CanUint`/`CanInt`: `m >= 0 && n < uint64(m)` — `n ≥ 0` because `a` is unsigned, so this is `n < m`;
    * `CanFloat`/`CanFloat`: `<` on the `float64`s, exact rationals here;
    * an integer and a float: `big.Float` holds both exactly. -/
theorem numberLess_eq {a b : GoVal} (ha : GoodKey a) (hb : GoodKey b) (ca : keyClass a = 2) (cb : keyClass b = 2) :
    numberLess a b = decide (num a < num b) := by
  cases a <;> simp [keyClass] at ca <;> cases b <;> simp [keyClass] at cb
  · next k n k' m =>
    simp only [GoodKey, goodKey] at ha hb
    simp only [numberLess, num, Rat.intCast_lt_intCast]
    cases hk : k.isSigned <;> cases hk' : k'.isSigned <;> simp only
    · have := unsigned_nonneg ha hk
      by_cases h : n < m <;> simp [h] <;> omega
    · have := unsigned_nonneg hb hk'
      by_cases h : n < m <;> simp [h] <;> omega
  · rfl
  · rfl
  · rfl

/-! ## `keyLess` is the lexicographic order of ranks -/

theorem rat_eq_of_not_lt {a b : Rat} (h1 : ¬ a < b) (h2 : ¬ b < a) : a = b :=
  Rat.le_antisymm (Rat.not_lt.mp h2) (Rat.not_lt.mp h1)

theorem bytes_eq_of_not_lt {a b : Bytes} (h1 : ¬ a < b) (h2 : ¬ b < a) : a = b :=
  List.le_antisymm (List.not_lt.mp h2) (List.not_lt.mp h1)

theorem valueLess_two (a b : GoVal) : valueLess 2 a b = numberLess a b := by
  unfold valueLess
  split <;> first | rfl | (next h => cases h) | simp_all

theorem goodKey_cases {a : GoVal} (ha : GoodKey a) :
    (∃ x, a = .bool x) ∨ (keyClass a = 2 ∧ boolRank a = 0 ∧ strOf a = []) ∨ (∃ s, a = .str s) := by
  cases a <;> simp [GoodKey, goodKey] at ha
  · exact .inl ⟨_, rfl⟩
  · exact .inr (.inl ⟨rfl, rfl, rfl⟩)
  · exact .inr (.inl ⟨rfl, rfl, rfl⟩)
  · exact .inr (.inr ⟨_, rfl⟩)

/-- `keyLess a b` says exactly that the rank of `a` is below the rank of `b`. The cases of the proof
    are the clauses of the Go function: different classes — `return ca < cb`; the same class —
    `valueLess(ca, a, b)` true, `valueLess(ca, b, a)` true (so not less), or neither, and then
    `keyTypeName(a) < keyTypeName(b)`. -/
theorem keyLess_iff_rank {a b : GoVal} (ha : GoodKey a) (hb : GoodKey b) :
    keyLess a b = true ↔ rankLt (rank a) (rank b) := by
  unfold keyLess
  simp only
  by_cases hc : keyClass a = keyClass b
  · -- the same class
    have hne : (keyClass a != keyClass b) = false := by simp [hc]
    simp only [hne, Bool.false_eq_true, if_false]
    simp only [rankLt, lexLt, rank]
    have hcl : ¬ keyClass a < keyClass b := by omega
    have hce : (keyClass a = keyClass b) = True := eq_true hc
    simp only [hcl, false_or, hce, true_and]
    have hi : ¬ ((0 : Rat) < 0) := Rat.lt_irrefl
    have hn : ¬ ((0 : Nat) < 0) := Nat.lt_irrefl 0
    have hl : ¬ (([] : Bytes) < []) := List.lt_irrefl _
    rcases goodKey_cases ha with ⟨x, rfl⟩ | ⟨c2, br, so⟩ | ⟨s, rfl⟩
    · -- class 1: `!a.Bool() && b.Bool()`; two booleans have the same type
      rcases goodKey_cases hb with ⟨y, rfl⟩ | ⟨c2', _, _⟩ | ⟨t, rfl⟩
      · cases x <;> cases y <;> simp [valueLess, keyClass, boolRank, num, strOf, keyTypeName]
      · rw [c2'] at hc; simp [keyClass] at hc
      · simp [keyClass] at hc
    · -- class 2: `numberLess`, exact; numbers equal by value are ordered by the name of their type
      rcases goodKey_cases hb with ⟨y, rfl⟩ | ⟨c2', br', so'⟩ | ⟨t, rfl⟩
      · rw [c2] at hc; simp [keyClass] at hc
      · rw [c2, valueLess_two, valueLess_two, numberLess_eq ha hb c2 c2', numberLess_eq hb ha c2' c2,
          br, br', so, so']
        simp only [hn, hl, false_or, true_and, decide_eq_true_eq]
        by_cases h1 : num a < num b
        · simp [h1]
        · by_cases h2 : num b < num a
          · simp only [h1, h2, if_false, if_true, false_or, Bool.false_eq_true, false_iff, not_and]
            intro e; rw [e] at h2; exact absurd h2 Rat.lt_irrefl
          · have := rat_eq_of_not_lt h1 h2
            simp [this]
      · rw [c2] at hc; simp [keyClass] at hc
    · -- class 3: `a.String() < b.String()`; two strings have the same type
      rcases goodKey_cases hb with ⟨y, rfl⟩ | ⟨c2', _, _⟩ | ⟨t, rfl⟩
      · simp [keyClass] at hc
      · rw [c2'] at hc; simp [keyClass] at hc
      · simp only [valueLess, keyClass, boolRank, num, strOf, keyTypeName, decide_eq_true_eq]
        simp only [hi, hn, false_or, true_and]
        by_cases h1 : s < t
        · simp [h1]
        · by_cases h2 : t < s
          · simp only [h1, h2, if_false, if_true, false_or, Bool.false_eq_true, false_iff, not_and]
            intro e; subst e; exact absurd h2 (List.lt_irrefl _)
          · have := bytes_eq_of_not_lt h1 h2
            subst this
            simp [List.lt_irrefl]
  · -- different classes: `return ca < cb`
    have hne : (keyClass a != keyClass b) = true := by simp [hc]
    simp only [hne, if_true, decide_eq_true_eq, rankLt, lexLt, rank]
    constructor
    · exact fun h => .inl h
    · rintro (h | ⟨h, _⟩)
      · exact h
      · exact absurd h hc

/-! ## The strict total order -/

/-- no key is below itself -/
theorem keyLess_irrefl {a : GoVal} (ha : GoodKey a) : keyLess a a = false := by
  cases h : keyLess a a
  · rfl
  · exact absurd ((keyLess_iff_rank ha ha).mp h) (slo_rank.irrefl _)

theorem keyLess_trans {a b c : GoVal} (ha : GoodKey a) (hb : GoodKey b) (hc : GoodKey c)
    (hab : keyLess a b = true) (hbc : keyLess b c = true) : keyLess a c = true :=
  (keyLess_iff_rank ha hc).mpr
    (slo_rank.trans _ _ _ ((keyLess_iff_rank ha hb).mp hab) ((keyLess_iff_rank hb hc).mp hbc))

/-- two distinct keys of one map are ordered, one way or the other. (Before the repair `6d9b1b2` this
    failed for `1`, `1.0`, `int64(1)`: equal by value, so neither `valueLess` held, and the function
    returned false both ways.) -/
theorem keyLess_total {a b : GoVal} (ha : GoodKey a) (hb : GoodKey b) (hne : a ≠ b) :
    keyLess a b = true ∨ keyLess b a = true := by
  rcases slo_rank.tri (rank a) (rank b) with h | h | h
  · exact .inl ((keyLess_iff_rank ha hb).mpr h)
  · exact absurd (rank_inj ha hb h) hne
  · exact .inr ((keyLess_iff_rank hb ha).mpr h)

theorem keyLess_asymm {a b : GoVal} (ha : GoodKey a) (hb : GoodKey b) (hab : keyLess a b = true) : keyLess b a = false := by
  cases h : keyLess b a
  · rfl
  · have := keyLess_trans ha hb ha hab h
    rw [keyLess_irrefl ha] at this
    cases this

/-! ## Sorting: the same list for every order of the entries -/

theorem SLO.ntrans {α : Type} {lt : α → α → Prop} (h : SLO lt) {a b c : α} (hab : ¬ lt a b) (hbc : ¬ lt b c) : ¬ lt a c := by
  intro hac
  rcases h.tri a b with h1 | rfl | h1
  · exact hab h1
  · exact hbc hac
  · exact hbc (h.trans _ _ _ h1 hac)

/-- the keys are booleans, numbers or strings and pairwise distinct as Go map keys — as the keys of
    one Go map with keys of these kinds always are -/
def KeysOK (kvs : List (GoVal × GoVal)) : Prop :=
  (∀ kv ∈ kvs, GoodKey kv.1) ∧ kvs.Pairwise (fun a b => a.1 ≠ b.1)

theorem KeysOK.perm {kvs kvs' : List (GoVal × GoVal)} (h : kvs'.Perm kvs) (hk : KeysOK kvs) : KeysOK kvs' :=
  ⟨fun kv hkv => hk.1 kv (h.subset hkv), (h.pairwise_iff (fun hab => Ne.symm hab)).mpr hk.2⟩

/-- the entry with a given key is unique -/
theorem KeysOK.entry_unique {kvs : List (GoVal × GoVal)} (hk : KeysOK kvs) {a b : GoVal × GoVal}
    (ha : a ∈ kvs) (hb : b ∈ kvs) (h : a.1 = b.1) : a = b := by
  have hp := hk.2
  clear hk
  induction kvs with
  | nil => cases ha
  | cons x r ih =>
    rw [List.pairwise_cons] at hp
    rcases List.mem_cons.mp ha with rfl | ha' <;> rcases List.mem_cons.mp hb with rfl | hb'
    · rfl
    · exact absurd h (hp.1 b hb')
    · exact absurd h.symm (hp.1 a ha')
    · exact ih ha' hb' hp.2

theorem keyLess_false_iff {a b : GoVal} (ha : GoodKey a) (hb : GoodKey b) :
    keyLess a b = false ↔ ¬ rankLt (rank a) (rank b) := by
  rw [← keyLess_iff_rank ha hb]
  cases keyLess a b <;> simp

/-- the sorted list is sorted: no entry is below an earlier one -/
theorem sortedEntries_sorted {kvs : List (GoVal × GoVal)} (hg : ∀ kv ∈ kvs, GoodKey kv.1) :
    (sortedEntries kvs).Pairwise (fun a b => entryLess b a = false) := by
  refine insertionSort_sorted_of_mem entryLess kvs ?_ ?_
  · intro a ha b hb hab
    exact keyLess_asymm (hg a ha) (hg b hb) hab
  · intro a ha b hb c hc hab hbc
    simp only [entryLess] at *
    rw [keyLess_false_iff (hg a ha) (hg c hc)]
    exact slo_rank.ntrans ((keyLess_false_iff (hg a ha) (hg b hb)).mp hab) ((keyLess_false_iff (hg b hb) (hg c hc)).mp hbc)

/-- **Whatever order the entries of a map arrive in, `SortedMapKeys` puts them in the same order.**
    `kvs'` is any permutation of `kvs`; the keys are booleans, numbers or strings, pairwise distinct
    as Go map keys. -/
theorem sortedEntries_perm {kvs kvs' : List (GoVal × GoVal)} (h : kvs'.Perm kvs) (hk : KeysOK kvs) :
    sortedEntries kvs' = sortedEntries kvs := by
  have hk' := hk.perm h
  apply List.Perm.eq_of_pairwise (le := fun a b => entryLess b a = false)
  · intro a b ha hb hab hba
    have ha' : a ∈ kvs := h.subset (mem_sortedEntries.mp ha)
    have hb' : b ∈ kvs := mem_sortedEntries.mp hb
    apply hk.entry_unique ha' hb'
    apply Classical.byContradiction
    intro hne
    rcases keyLess_total (hk.1 a ha') (hk.1 b hb') hne with h1 | h1
    · simp only [entryLess] at hba; rw [h1] at hba; cases hba
    · simp only [entryLess] at hab; rw [h1] at hab; cases hab
  · exact sortedEntries_sorted hk'.1
  · exact sortedEntries_sorted hk.1
  · exact ((sortedEntries_perm_self kvs').trans h).trans (sortedEntries_perm_self kvs).symm

theorem KeysOK.noClass4 {kvs : List (GoVal × GoVal)} (hk : KeysOK kvs) : ∀ kv ∈ kvs, keyClass kv.1 ≠ 4 :=
  fun kv h => goodKey_class (hk.1 kv h)

/-- what an iteration site sees -/
theorem sortedMapEntries_perm {ε : Type} {kvs kvs' : List (GoVal × GoVal)} (h : kvs'.Perm kvs) (hk : KeysOK kvs) :
    (sortedMapEntries kvs' : Res ε _) = sortedMapEntries kvs := by
  rw [sortedMapEntries_of_noClass4 hk.noClass4, sortedMapEntries_of_noClass4 (hk.perm h).noClass4, sortedEntries_perm h hk]

/-! ## The iteration sites -/

/-- `{% for p in m %}` / `{% tablerow p in m %}`: the items the loop visits -/
theorem loopItems_map_perm {budget : Int} (kt vt : Ty) {kvs kvs' : List (GoVal × GoVal)} (h : kvs'.Perm kvs) (hk : KeysOK kvs) :
    loopItems budget (.map kt vt kvs') = loopItems budget (.map kt vt kvs) := by
  simp only [loopItems, sortedMapEntries_perm h hk]

/-- `values.Convert(m, []any)`: the array an array filter receives -/
theorem convert_map_perm (kt vt : Ty) {kvs kvs' : List (GoVal × GoVal)} (h : kvs'.Perm kvs) (hk : KeysOK kvs) :
    convert (.map kt vt kvs') .anys = convert (.map kt vt kvs) .anys := by
  simp only [convert, GoVal.toLiquid, sortedMapEntries_perm h hk]

/-- … and it is the values in key order, each through `ToLiquid` -/
theorem convert_map_sorted (kt vt : Ty) {kvs : List (GoVal × GoVal)} (hk : KeysOK kvs) :
    convert (.map kt vt kvs) .anys = .ok (.slice .any (((sortedEntries kvs).map (·.2)).map GoVal.toLiquid)) := by
  simp [convert, GoVal.toLiquid, sortedMapEntries_of_noClass4 hk.noClass4, convElems]

/-- every filter whose receiver is a `[]any` — `first`, `last`, `join`, `map`, `sort`, `reverse`, … —
    applied to a map, with any arguments -/
theorem applyFilter_map_perm (impls : Bytes → Option FilterImpl) (name : Bytes) (sg : FilterSig) (ps : List Param)
    (hsig : lookupSig name = some sg) (hp : sg.params = .val .anys :: ps) (args : List GoVal)
    (kt vt : Ty) {kvs kvs' : List (GoVal × GoVal)} (h : kvs'.Perm kvs) (hk : KeysOK kvs) :
    applyFilter impls name (.map kt vt kvs') args = applyFilter impls name (.map kt vt kvs) args := by
  simp only [applyFilter, hsig, hp, convertArgs, convert_map_perm kt vt h hk, List.length_cons]

theorem first_map_perm (kt vt : Ty) {kvs kvs' : List (GoVal × GoVal)} (h : kvs'.Perm kvs) (hk : KeysOK kvs) :
    stdPrims.applyFilter (ArrF.bn "first") (.map kt vt kvs') [] = stdPrims.applyFilter (ArrF.bn "first") (.map kt vt kvs) [] :=
  applyFilter_map_perm _ _ ⟨ArrF.bn "first", [.val .anys], false⟩ [] (by decide +kernel) rfl [] kt vt h hk

theorem last_map_perm (kt vt : Ty) {kvs kvs' : List (GoVal × GoVal)} (h : kvs'.Perm kvs) (hk : KeysOK kvs) :
    stdPrims.applyFilter (ArrF.bn "last") (.map kt vt kvs') [] = stdPrims.applyFilter (ArrF.bn "last") (.map kt vt kvs) [] :=
  applyFilter_map_perm _ _ ⟨ArrF.bn "last", [.val .anys], false⟩ [] (by decide +kernel) rfl [] kt vt h hk

/-- `{{ m | join }}` and `{{ m | join: sep }}` -/
theorem join_map_perm (args : List GoVal) (kt vt : Ty) {kvs kvs' : List (GoVal × GoVal)} (h : kvs'.Perm kvs) (hk : KeysOK kvs) :
    stdPrims.applyFilter (ArrF.bn "join") (.map kt vt kvs') args = stdPrims.applyFilter (ArrF.bn "join") (.map kt vt kvs) args :=
  applyFilter_map_perm _ _ ⟨ArrF.bn "join", [.val .anys, .fn .str], false⟩ [.fn .str] (by decide +kernel) rfl args kt vt h hk

/-- `{{ m | size }}`: `values.Length` of a map is 0 (only strings, arrays, slices and ordered maps have
    a length there) — no function of the entries at all -/
theorem size_map (kt vt : Ty) (kvs : List (GoVal × GoVal)) :
    stdPrims.applyFilter (ArrF.bn "size") (.map kt vt kvs) [] = .ok (.int .int 0) := by
  have hs : lookupSig (ArrF.bn "size") = some ⟨ArrF.bn "size", [.val .any], false⟩ := by decide +kernel
  have hi : lookupImpl stdFilterImpls (ArrF.bn "size") = some Num.size := by with_unfolding_all rfl
  simp [stdPrims, applyFilter, hs, hi, convertArgs, convert, convAny, GoVal.toLiquid, Num.size, ret, bytesToString]

theorem size_map_perm (kt vt : Ty) {kvs kvs' : List (GoVal × GoVal)} :
    stdPrims.applyFilter (ArrF.bn "size") (.map kt vt kvs') [] = stdPrims.applyFilter (ArrF.bn "size") (.map kt vt kvs) [] := by
  rw [size_map, size_map]

/-! ## Non-vacuity: the keys `1`, `1.0`, `int64(1)`, `"1"`, `true` of a `map[any]any`, in two orders -/

def exA : List (GoVal × GoVal) :=
  [(.int .int 1, .str [97]), (.flt .f64 1, .str [98]), (.int .i64 1, .str [99]), (.str [49], .str [100]), (.bool true, .str [101])]
def exB : List (GoVal × GoVal) :=
  [(.bool true, .str [101]), (.str [49], .str [100]), (.int .i64 1, .str [99]), (.flt .f64 1, .str [98]), (.int .int 1, .str [97])]

theorem exA_keysOK : KeysOK exA := by
  constructor
  · intro kv h
    simp only [exA, List.mem_cons, List.mem_nil_iff, or_false] at h
    rcases h with rfl | rfl | rfl | rfl | rfl <;> first | rfl | decide
  · simp [exA]

theorem exB_perm_exA : exB.Perm exA := List.reverse_perm exA

theorem intCast_one_rat : ((1 : Int) : Rat) = 1 := rfl

/-- `1`, `1.0`, `int64(1)` are equal by value: the clause added by the repair orders them by type name
    (`float64` < `int` < `int64`) -/
example : keyLess (.flt .f64 1) (.int .int 1) = true ∧ keyLess (.int .int 1) (.int .i64 1) = true := by
  constructor
  · rw [keyLess_iff_rank rfl (by decide)]
    simp only [rankLt, lexLt, rank, keyClass, boolRank, num, strOf, keyTypeName, intCast_one_rat]
    exact .inr ⟨trivial, .inr ⟨trivial, .inr ⟨trivial, .inr ⟨trivial, by decide⟩⟩⟩⟩
  · rw [keyLess_iff_rank (by decide) (by decide)]
    simp only [rankLt, lexLt, rank, keyClass, boolRank, num, strOf, keyTypeName]
    exact .inr ⟨trivial, .inr ⟨trivial, .inr ⟨trivial, .inr ⟨trivial, by decide⟩⟩⟩⟩

/-- `keyLess_irrefl`, `keyLess_total`, `keyLess_trans` on them -/
example : keyLess (.flt .f64 1) (.flt .f64 1) = false := keyLess_irrefl rfl
example : keyLess (.int .int 1) (.flt .f64 1) = true ∨ keyLess (.flt .f64 1) (.int .int 1) = true :=
  keyLess_total (by decide) rfl (by simp)
example (h1 : keyLess (.flt .f64 1) (.int .int 1) = true) (h2 : keyLess (.int .int 1) (.int .i64 1) = true) :
    keyLess (.flt .f64 1) (.int .i64 1) = true :=
  keyLess_trans rfl (by decide) (by decide) h1 h2

/-- the five entries are put in the same order from both lists -/
example : sortedEntries exB = sortedEntries exA := sortedEntries_perm exB_perm_exA exA_keysOK
example (budget : Int) : loopItems budget (.map .any .any exB) = loopItems budget (.map .any .any exA) := loopItems_map_perm _ _ exB_perm_exA exA_keysOK
example : convert (.map .any .any exB) .anys = convert (.map .any .any exA) .anys := convert_map_perm _ _ exB_perm_exA exA_keysOK
example : stdPrims.applyFilter (ArrF.bn "first") (.map .any .any exB) [] = stdPrims.applyFilter (ArrF.bn "first") (.map .any .any exA) [] :=
  first_map_perm _ _ exB_perm_exA exA_keysOK
example : stdPrims.applyFilter (ArrF.bn "last") (.map .any .any exB) [] = stdPrims.applyFilter (ArrF.bn "last") (.map .any .any exA) [] :=
  last_map_perm _ _ exB_perm_exA exA_keysOK
example : stdPrims.applyFilter (ArrF.bn "join") (.map .any .any exB) [.str [44]] = stdPrims.applyFilter (ArrF.bn "join") (.map .any .any exA) [.str [44]] :=
  join_map_perm _ _ _ exB_perm_exA exA_keysOK
example : stdPrims.applyFilter (ArrF.bn "size") (.map .any .any exB) [] = stdPrims.applyFilter (ArrF.bn "size") (.map .any .any exA) [] :=
  size_map_perm _ _

end MapOrder
