import Liquid.InsertionSort
/-!
# Go's insertion sort (`Liquid/InsertionSort.lean`): permutation, sortedness, stability, agreement
with `List.mergeSort`

Helper lemmas for C15. `lt` is the comparator handed to `sort.Sort` (`data.Less`); no property of it
is assumed unless stated.
-/

section
variable {α β ε : Type}

/-! ## A. a permutation, for every comparator -/

theorem insertRev_perm (lt : α → α → Bool) (x : α) (rev : List α) :
    (insertRev lt x rev).Perm (x :: rev) := by
  induction rev with
  | nil => exact .refl _
  | cons y r ih =>
    unfold insertRev
    split
    · exact (ih.cons y).trans (List.Perm.swap x y r)
    · exact .refl _

theorem mem_insertRev {lt : α → α → Bool} {x z : α} {rev : List α} :
    z ∈ insertRev lt x rev ↔ z = x ∨ z ∈ rev := by
  rw [(insertRev_perm lt x rev).mem_iff, List.mem_cons]

theorem insertionLoop_perm (lt : α → α → Bool) (rev rest : List α) :
    (insertionLoop lt rev rest).Perm (rev.reverse ++ rest) := by
  induction rest generalizing rev with
  | nil => simp [insertionLoop]
  | cons x rest ih =>
    unfold insertionLoop
    refine (ih _).trans ?_
    have h : (insertRev lt x rev).reverse.Perm (rev.reverse ++ [x]) :=
      (List.reverse_perm _).trans ((insertRev_perm lt x rev).trans
        ((List.reverse_perm (x :: rev)).symm.trans (by rw [List.reverse_cons])))
    simpa using h.append_right rest

/-- Go's insertion sort returns a permutation of its input — for every comparator. -/
theorem insertionSort_perm' (lt : α → α → Bool) (xs : List α) : (insertionSort lt xs).Perm xs := by
  simpa [insertionSort] using insertionLoop_perm lt [] xs

/-! ## B. the partial version: a permutation whenever it answers; equal to the total one wherever the
comparator answers; no panic unless a comparison panics -/

theorem insertRevM_perm {lt : α → α → Res ε Bool} {x : α} {rev out : List α}
    (h : insertRevM lt x rev = .ok out) : out.Perm (x :: rev) := by
  induction rev generalizing out with
  | nil => simp only [insertRevM, Res.ok.injEq] at h; subst h; exact .refl _
  | cons y r ih =>
    unfold insertRevM at h
    cases hb : lt x y with
    | ok b =>
      rw [hb] at h
      simp only [Res.bind] at h
      cases b with
      | true =>
        simp only [if_true] at h
        cases hr : insertRevM lt x r with
        | ok r' =>
          rw [hr] at h
          simp only [Res.ok.injEq] at h
          subst h
          exact ((ih hr).cons y).trans (List.Perm.swap x y r)
        | err e => rw [hr] at h; cases h
        | panic w => rw [hr] at h; cases h
        | unmodelled w => rw [hr] at h; cases h
      | false =>
        simp only [Bool.false_eq_true, if_false, Res.ok.injEq] at h
        subst h; exact .refl _
    | err e => rw [hb] at h; cases h
    | panic w => rw [hb] at h; cases h
    | unmodelled w => rw [hb] at h; cases h

theorem insertionLoopM_perm {lt : α → α → Res ε Bool} {rev rest out : List α}
    (h : insertionLoopM lt rev rest = .ok out) : out.Perm (rev.reverse ++ rest) := by
  induction rest generalizing rev with
  | nil =>
    simp only [insertionLoopM, Res.ok.injEq] at h
    subst h; simp
  | cons x rest ih =>
    unfold insertionLoopM at h
    cases hr : insertRevM lt x rev with
    | ok rev' =>
      rw [hr] at h
      refine (ih h).trans ?_
      have h' : rev'.reverse.Perm (rev.reverse ++ [x]) :=
        (List.reverse_perm _).trans ((insertRevM_perm hr).trans
          ((List.reverse_perm (x :: rev)).symm.trans (by rw [List.reverse_cons])))
      simpa using h'.append_right rest
    | err e => rw [hr] at h; cases h
    | panic w => rw [hr] at h; cases h
    | unmodelled w => rw [hr] at h; cases h

/-- Whenever the partial insertion sort answers, its answer is a permutation of the input. -/
theorem insertionSortM_perm {lt : α → α → Res ε Bool} {xs out : List α}
    (h : insertionSortM lt xs = .ok out) : out.Perm xs := by
  simpa using insertionLoopM_perm (rev := []) h

theorem insertRevM_eq {ltM : α → α → Res ε Bool} {lt : α → α → Bool} {S : α → Prop}
    (hlt : ∀ a b, S a → S b → ltM a b = .ok (lt a b)) {x : α} (hx : S x) :
    ∀ {rev : List α}, (∀ y ∈ rev, S y) → insertRevM ltM x rev = .ok (insertRev lt x rev)
  | [], _ => rfl
  | y :: r, hr => by
    have hy : S y := hr y List.mem_cons_self
    have ih := insertRevM_eq hlt hx (rev := r) (fun z hz => hr z (List.mem_cons_of_mem _ hz))
    unfold insertRevM insertRev
    rw [hlt x y hx hy]
    simp only [Res.bind]
    cases lt x y
    · simp
    · simp [ih]

theorem insertionLoopM_eq {ltM : α → α → Res ε Bool} {lt : α → α → Bool} {S : α → Prop}
    (hlt : ∀ a b, S a → S b → ltM a b = .ok (lt a b)) :
    ∀ {rest rev : List α}, (∀ y ∈ rev, S y) → (∀ y ∈ rest, S y) →
      insertionLoopM ltM rev rest = .ok (insertionLoop lt rev rest)
  | [], _, _, _ => rfl
  | x :: rest, rev, hr, hrest => by
    have hx : S x := hrest x List.mem_cons_self
    unfold insertionLoopM insertionLoop
    rw [insertRevM_eq hlt hx hr]
    simp only [Res.bind]
    refine insertionLoopM_eq hlt ?_ (fun z hz => hrest z (List.mem_cons_of_mem _ hz))
    intro z hz
    rcases mem_insertRev.mp hz with rfl | hz
    · exact hx
    · exact hr z hz

/-- Where the comparator answers on the elements of the list, the partial sort is the total one. -/
theorem insertionSortM_eq {ltM : α → α → Res ε Bool} {lt : α → α → Bool} {xs : List α}
    (hlt : ∀ a ∈ xs, ∀ b ∈ xs, ltM a b = .ok (lt a b)) :
    insertionSortM ltM xs = .ok (insertionSort lt xs) :=
  insertionLoopM_eq (S := (· ∈ xs)) (fun a b ha hb => hlt a ha b hb) (by simp) (fun _ h => h)

theorem insertRevM_isPanic {lt : α → α → Res ε Bool} (hlt : ∀ a b, (lt a b).isPanic = false) (x : α) :
    ∀ rev : List α, (insertRevM lt x rev).isPanic = false
  | [] => rfl
  | y :: r => by
    unfold insertRevM
    have := hlt x y
    cases hb : lt x y with
    | ok b =>
      simp only [Res.bind]
      cases b
      · simp [Res.isPanic]
      · have ih := insertRevM_isPanic hlt x r
        simp only [if_true]
        cases hr : insertRevM lt x r <;> simp_all [Res.isPanic]
    | err e => rfl
    | panic w => simp [hb, Res.isPanic] at this
    | unmodelled w => rfl

/-- the sort panics only if a comparison does -/
theorem insertionSortM_isPanic {lt : α → α → Res ε Bool} (hlt : ∀ a b, (lt a b).isPanic = false)
    (xs : List α) : (insertionSortM lt xs).isPanic = false := by
  have : ∀ rest rev : List α, (insertionLoopM lt rev rest).isPanic = false := by
    intro rest
    induction rest with
    | nil => intro rev; rfl
    | cons x rest ih =>
      intro rev
      unfold insertionLoopM
      have := insertRevM_isPanic hlt x rev
      cases hr : insertRevM lt x rev with
      | ok r' => exact ih r'
      | err e => rfl
      | panic w => simp [hr, Res.isPanic] at this
      | unmodelled w => rfl
  exact this xs []

/-! ## C. sorted, when the comparator is asymmetric and negatively transitive on the elements
(a strict weak order: `¬ a<b ∧ ¬ b<c → ¬ a<c`) -/

theorem insertRev_sorted {lt : α → α → Bool} {S : α → Prop}
    (asym : ∀ a b, S a → S b → lt a b = true → lt b a = false)
    (ntrans : ∀ a b c, S a → S b → S c → lt a b = false → lt b c = false → lt a c = false)
    {x : α} (hx : S x) :
    ∀ {rev : List α}, (∀ y ∈ rev, S y) → rev.Pairwise (fun a b => lt a b = false) →
      (insertRev lt x rev).Pairwise (fun a b => lt a b = false)
  | [], _, _ => by simp [insertRev]
  | y :: r, hr, hs => by
    have hy : S y := hr y List.mem_cons_self
    have hr' : ∀ z ∈ r, S z := fun z hz => hr z (List.mem_cons_of_mem _ hz)
    rw [List.pairwise_cons] at hs
    unfold insertRev
    cases hxy : lt x y
    · simp only [Bool.false_eq_true, if_false]
      refine List.Pairwise.cons ?_ (List.Pairwise.cons hs.1 hs.2)
      intro z hz
      rcases List.mem_cons.mp hz with rfl | hz
      · exact hxy
      · exact ntrans x y z hx hy (hr' z hz) hxy (hs.1 z hz)
    · simp only [if_true]
      refine List.Pairwise.cons ?_ (insertRev_sorted asym ntrans hx hr' hs.2)
      intro z hz
      rcases mem_insertRev.mp hz with rfl | hz
      · exact asym _ _ hx hy hxy
      · exact hs.1 z hz

theorem insertionLoop_sorted {lt : α → α → Bool} {S : α → Prop}
    (asym : ∀ a b, S a → S b → lt a b = true → lt b a = false)
    (ntrans : ∀ a b c, S a → S b → S c → lt a b = false → lt b c = false → lt a c = false) :
    ∀ {rest rev : List α}, (∀ y ∈ rev, S y) → (∀ y ∈ rest, S y) →
      rev.Pairwise (fun a b => lt a b = false) →
      (insertionLoop lt rev rest).Pairwise (fun a b => lt b a = false)
  | [], rev, _, _, hs => by
    unfold insertionLoop
    rw [List.pairwise_reverse]
    exact hs
  | x :: rest, rev, hr, hrest, hs => by
    have hx : S x := hrest x List.mem_cons_self
    unfold insertionLoop
    refine insertionLoop_sorted asym ntrans ?_ (fun z hz => hrest z (List.mem_cons_of_mem _ hz))
      (insertRev_sorted asym ntrans hx hr hs)
    intro z hz
    rcases mem_insertRev.mp hz with rfl | hz
    · exact hx
    · exact hr z hz

/-- Go's insertion sort sorts — no element is less than an earlier one — whenever the comparator is
a strict weak order *on the elements of the list*. -/
theorem insertionSort_sorted_of_mem (lt : α → α → Bool) (l : List α)
    (asym : ∀ a ∈ l, ∀ b ∈ l, lt a b = true → lt b a = false)
    (ntrans : ∀ a ∈ l, ∀ b ∈ l, ∀ c ∈ l, lt a b = false → lt b c = false → lt a c = false) :
    (insertionSort lt l).Pairwise (fun a b => lt b a = false) :=
  insertionLoop_sorted (S := (· ∈ l)) (fun a b ha hb => asym a ha b hb)
    (fun a b c ha hb hc => ntrans a ha b hb c hc) (by simp) (fun _ h => h) .nil

/-- … in particular when `lt` is, on the list, the strict part of a total preorder of keys
(the form in which C15 has the order facts of `values.Less`). -/
theorem insertionSort_sorted_of_key (lt : α → α → Bool) {κ : Type} (key : α → κ) (kle : κ → κ → Prop)
    (ktrans : ∀ a b c, kle a b → kle b c → kle a c) (ktotal : ∀ a b, kle a b ∨ kle b a)
    (l : List α) (h : ∀ a ∈ l, ∀ b ∈ l, (lt a b = true ↔ ¬ kle (key b) (key a))) :
    (insertionSort lt l).Pairwise (fun a b => lt b a = false) := by
  have hf : ∀ a ∈ l, ∀ b ∈ l, (lt a b = false ↔ kle (key b) (key a)) := by
    intro a ha b hb
    have := h a ha b hb
    constructor
    · intro hn
      apply Classical.byContradiction
      intro hk
      rw [this.mpr hk] at hn
      cases hn
    · intro hk
      cases hlt : lt a b
      · rfl
      · exact absurd hk (this.mp hlt)
  refine insertionSort_sorted_of_mem lt l ?_ ?_
  · intro a ha b hb hab
    rcases ktotal (key a) (key b) with hk | hk
    · exact (hf b hb a ha).mpr hk
    · exact absurd hk ((h a ha b hb).mp hab)
  · intro a ha b hb c hc hab hbc
    exact (hf a ha c hc).mpr (ktrans _ _ _ ((hf b hb c hc).mp hbc) ((hf a ha b hb).mp hab))

/-! ## D. stable, for every comparator: a subsequence of the input in which no element is less than
an earlier one is a subsequence of the result -/

theorem sublist_insertRev (lt : α → α → Bool) (x : α) (rev : List α) : rev.Sublist (insertRev lt x rev) := by
  induction rev with
  | nil => simp
  | cons y r ih =>
    unfold insertRev
    split
    · exact ih.cons_cons y
    · exact List.sublist_cons_self x _

/-- the travelling element ends up to the right of everything it is not less than -/
theorem cons_sublist_insertRev {lt : α → α → Bool} {x : α} :
    ∀ {rev ys : List α}, ys.Sublist rev → (∀ y ∈ ys, lt x y = false) →
      (x :: ys).Sublist (insertRev lt x rev)
  | [], ys, hs, _ => by
    cases List.sublist_nil.mp hs
    simp [insertRev]
  | c :: r, ys, hs, hys => by
    unfold insertRev
    cases hxc : lt x c
    · simp only [Bool.false_eq_true, if_false]
      exact hs.cons_cons x
    · simp only [if_true]
      refine (cons_sublist_insertRev (rev := r) ?_ hys).cons c
      cases hs with
      | cons _ h => exact h
      | cons_cons _ h =>
        have := hys c List.mem_cons_self
        rw [hxc] at this
        cases this

theorem insertionLoop_stable {lt : α → α → Bool} :
    ∀ {rest rev ys zs : List α}, ys.reverse.Sublist rev → zs.Sublist rest →
      (ys ++ zs).Pairwise (fun a b => lt b a = false) → (ys ++ zs).Sublist (insertionLoop lt rev rest)
  | [], rev, ys, zs, hy, hz, _ => by
    cases List.sublist_nil.mp hz
    unfold insertionLoop
    simpa using hy.reverse
  | x :: rest, rev, ys, zs, hy, hz, hp => by
    unfold insertionLoop
    cases hz with
    | cons _ h => exact insertionLoop_stable (hy.trans (sublist_insertRev lt x rev)) h hp
    | @cons_cons zs' _ _ h =>
      have hp' : ((ys ++ [x]) ++ zs').Pairwise (fun a b => lt b a = false) := by simpa using hp
      have hx : ∀ y ∈ ys.reverse, lt x y = false := by
        intro y hy'
        rw [List.pairwise_append] at hp
        exact hp.2.2 y (List.mem_reverse.mp hy') x List.mem_cons_self
      have := insertionLoop_stable (lt := lt) (rest := rest) (rev := insertRev lt x rev) (ys := ys ++ [x]) (zs := zs')
        (by simpa using cons_sublist_insertRev hy hx) h hp'
      simpa using this

/-- Go's insertion sort is stable — for every comparator: a subsequence `ys` of the input in which
no element is less than an earlier one (so the sort has no reason to reorder it) is a subsequence of
the result. With `ys = [a, b]`: if `a` precedes `b` in the input and `¬ b < a`, `a` precedes `b` in
the result. -/
theorem insertionSort_stable' (lt : α → α → Bool) {l ys : List α}
    (hp : ys.Pairwise (fun a b => lt b a = false)) (hs : ys.Sublist l) :
    ys.Sublist (insertionSort lt l) := by
  have := insertionLoop_stable (lt := lt) (rest := l) (rev := []) (ys := []) (zs := ys) (by simp) hs (by simpa using hp)
  simpa [insertionSort] using this

/-! ## E. on a total preorder the insertion sort *is* `List.mergeSort` -/

/-- the first element of the input enters the (reversed) sorted rest: it passes whatever is not
strictly below it — the step `mergeSort (a :: l)` makes (`List.mergeSort_cons`) -/
def insRevL (lt : α → α → Bool) (a : α) : List α → List α
  | [] => [a]
  | c :: r => if lt c a then a :: c :: r else c :: insRevL lt a r

theorem insRevL_append (lt : α → α → Bool) (a : α) (p q : List α)
    (hp : ∀ c ∈ p, lt c a = false) (hq : ∀ b ∈ q, lt b a = true) :
    insRevL lt a (p ++ q) = p ++ a :: q := by
  induction p with
  | nil =>
    cases q with
    | nil => rfl
    | cons b q => simp [insRevL, hq b List.mem_cons_self]
  | cons c p ih =>
    have hc := hp c List.mem_cons_self
    simp only [List.cons_append, insRevL, hc, Bool.false_eq_true, if_false]
    rw [ih (fun z hz => hp z (List.mem_cons_of_mem _ hz))]

/-- the two insertions commute (no sortedness needed): the last element of the input entering from
the right, the first one from the left -/
theorem insertRev_insRevL {lt : α → α → Bool}
    (t1 : ∀ a b c, lt a b = true → lt b c = true → lt a c = true)
    (t2 : ∀ a b c, lt a b = false → lt b c = false → lt a c = false) (x a : α) :
    ∀ rev : List α, insertRev lt x (insRevL lt a rev) = insRevL lt a (insertRev lt x rev)
  | [] => by
    simp only [insRevL, insertRev]
  | c :: r => by
    have ih := insertRev_insRevL t1 t2 x a r
    cases hca : lt c a <;> cases hxc : lt x c
    · -- `a` passes `c`, `x` stops at `c`: then `x` is not below `a`
      have hxa : lt x a = false := t2 x c a hxc hca
      simp [insRevL, insertRev, hca, hxc, hxa]
    · simp [insRevL, insertRev, hca, hxc, ih]
    · cases hxa : lt x a <;> simp [insRevL, insertRev, hca, hxc, hxa]
    · have hxa : lt x a = true := t1 x c a hxc hca
      simp [insRevL, insertRev, hca, hxc, hxa]

theorem insertionLoop_insRevL {lt : α → α → Bool}
    (t1 : ∀ a b c, lt a b = true → lt b c = true → lt a c = true)
    (t2 : ∀ a b c, lt a b = false → lt b c = false → lt a c = false) (a : α) :
    ∀ rest rev : List α,
      insertionLoop lt (insRevL lt a rev) rest = (insRevL lt a (insertionLoop lt rev rest).reverse).reverse
  | [], rev => by simp [insertionLoop]
  | x :: rest, rev => by
    unfold insertionLoop
    rw [insertRev_insRevL t1 t2]
    exact insertionLoop_insRevL t1 t2 a rest _

theorem reverse_mergeSort_cons {le : α → α → Bool}
    (trans : ∀ (a b c : α), le a b → le b c → le a c) (total : ∀ (a b : α), le a b || le b a)
    (a : α) (l : List α) :
    ((a :: l).mergeSort le).reverse = insRevL (fun x y => !le y x) a (l.mergeSort le).reverse := by
  obtain ⟨l₁, l₂, h₁, h₂, h₃⟩ := List.mergeSort_cons trans total a l
  have hs := List.pairwise_mergeSort trans total (a :: l)
  rw [h₁, List.pairwise_append] at hs
  rw [h₁, h₂, List.reverse_append, List.reverse_append, List.reverse_cons, List.append_assoc]
  refine (insRevL_append _ a l₂.reverse l₁.reverse ?_ ?_).symm
  · intro c hc
    have := (List.pairwise_cons.mp hs.2.1).1 c (List.mem_reverse.mp hc)
    simp [this]
  · intro b hb
    exact h₃ b (List.mem_reverse.mp hb)

/-- On a total preorder `le` the insertion sort by its strict part is `mergeSort le`. -/
theorem insertionSort_eq_mergeSort_total {le : α → α → Bool}
    (trans : ∀ (a b c : α), le a b → le b c → le a c) (total : ∀ (a b : α), le a b || le b a)
    (l : List α) : insertionSort (fun x y => !le y x) l = l.mergeSort le := by
  have t1 : ∀ a b c : α, (!le b a) = true → (!le c b) = true → (!le c a) = true := by
    intro a b c hab hbc
    cases hca : le c a
    · rfl
    · -- c ≤ a, and b ≤ c by totality (¬ c ≤ b): b ≤ a, contradiction
      have hbc' : le b c = true := by
        have := total b c
        cases h : le b c
        · simp [h] at this; simp [this] at hbc
        · rfl
      have := trans b c a hbc' hca
      simp [this] at hab
  have t2 : ∀ a b c : α, (!le b a) = false → (!le c b) = false → (!le c a) = false := by
    intro a b c hab hbc
    have h1 : le b a = true := by simpa using hab
    have h2 : le c b = true := by simpa using hbc
    simp [trans c b a h2 h1]
  induction l with
  | nil => simp [insertionSort, insertionLoop]
  | cons a l ih =>
    have h := insertionLoop_insRevL t1 t2 a l []
    have h0 : insRevL (fun x y => !le y x) a [] = [a] := rfl
    have h1 : insertionSort (fun x y => !le y x) (a :: l) = insertionLoop (fun x y => !le y x) [a] l := rfl
    rw [h1, ← h0, h]
    have : insertionLoop (fun x y => !le y x) [] l = l.mergeSort le := ih
    rw [this, ← reverse_mergeSort_cons trans total, List.reverse_reverse]

/-! ### … and it is enough that the order is a total preorder on the elements of the list -/

theorem insertRev_map (f : β → α) (lt : α → α → Bool) (x : β) (rev : List β) :
    (insertRev (fun a b => lt (f a) (f b)) x rev).map f = insertRev lt (f x) (rev.map f) := by
  induction rev with
  | nil => rfl
  | cons y r ih =>
    simp only [insertRev, List.map_cons]
    split
    · simp [ih]
    · rfl

theorem insertionLoop_map (f : β → α) (lt : α → α → Bool) (rev rest : List β) :
    (insertionLoop (fun a b => lt (f a) (f b)) rev rest).map f = insertionLoop lt (rev.map f) (rest.map f) := by
  induction rest generalizing rev with
  | nil => simp [insertionLoop]
  | cons x rest ih =>
    simp only [insertionLoop, List.map_cons]
    rw [ih, insertRev_map]

theorem insertionSort_map (f : β → α) (lt : α → α → Bool) (l : List β) :
    (insertionSort (fun a b => lt (f a) (f b)) l).map f = insertionSort lt (l.map f) := by
  simpa [insertionSort] using insertionLoop_map f lt [] l

/-- If "not greater" (`le a b = ¬ lt b a`) is transitive and total *on the elements of the list*,
Go's insertion sort by `lt` and `mergeSort` by `le` return the same list. -/
theorem insertionSort_eq_mergeSort_of_mem (lt : α → α → Bool) (l : List α)
    (trans : ∀ a ∈ l, ∀ b ∈ l, ∀ c ∈ l, lt b a = false → lt c b = false → lt c a = false)
    (total : ∀ a ∈ l, ∀ b ∈ l, lt b a = false ∨ lt a b = false) :
    insertionSort lt l = l.mergeSort (fun a b => !lt b a) := by
  let le' : {x // x ∈ l} → {x // x ∈ l} → Bool := fun a b => !lt b.1 a.1
  have hm : (l.attach.mergeSort le').map Subtype.val = l.mergeSort (fun a b => !lt b a) := by
    have h := List.map_mergeSort (r := le') (s := fun a b => !lt b a) (f := Subtype.val) (l := l.attach)
      (fun a _ b _ => rfl)
    rw [h, List.attach_map_subtype_val]
  have hi : (insertionSort (fun x y => !le' y x) l.attach).map Subtype.val = insertionSort lt l := by
    have h := insertionSort_map (Subtype.val : {x // x ∈ l} → α) lt l.attach
    rw [List.attach_map_subtype_val] at h
    rw [← h]
    congr 2
    funext a b
    simp [le']
  rw [← hi, ← hm]
  congr 1
  apply insertionSort_eq_mergeSort_total
  · intro a b c hab hbc
    have h1 : lt b.1 a.1 = false := by simpa [le'] using hab
    have h2 : lt c.1 b.1 = false := by simpa [le'] using hbc
    simp [le', trans a.1 a.2 b.1 b.2 c.1 c.2 h1 h2]
  · intro a b
    rcases total a.1 a.2 b.1 b.2 with h | h <;> simp [le', h]

end
