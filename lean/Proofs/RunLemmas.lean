import Proofs.RenderStops
import Proofs.PostLemmas
import Proofs.TwBridge
/-!
# Runs on a fault-free writer, and independence of the trim-writer state

`Prog.runPure` is the run of an interaction tree against a writer that never fails. The
variables and the control flow of a render never depend on the state of the trim writer: from
given variables a render performs a fixed list of trim-writer operations (`WOp`) and ends with a
fixed result, whatever text is pending and whether the trim flag is set (`Traced`). This is what
makes "the text a body renders" a well-defined notion, used by the capture equivalence (C12)
and the loop denotation (C11).
-/

/-! ## `runPure` of composed programs -/

theorem Prog.runPure_bind {α β} (p : Prog α) (f : α → Prog β) :
    (p.bind f).runPure =
      match p.runPure with
      | (out, .ok a) => (out ++ (f a).runPure.1, (f a).runPure.2)
      | (out, .err e) => (out, .err e)
      | (out, .panic w) => (out, .panic w)
      | (out, .unmodelled w) => (out, .unmodelled w) := by
  induction p with
  | ret a => simp [Prog.bind, Prog.runPure]
  | fail e => rfl
  | panic w => rfl
  | unmodelled w => rfl
  | call b k ih =>
    simp only [Prog.bind, Prog.runPure, ih]
    rcases h : (k .ok).runPure with ⟨out, o⟩
    cases o <;> simp [List.append_assoc]

theorem Prog.runPure_mapFail {α} (g : RawErr → RawErr) (p : Prog α) :
    (p.mapFail g).runPure =
      match p.runPure with
      | (out, .err e) => (out, .err (g e))
      | r => r := by
  induction p with
  | ret a => rfl
  | fail e => rfl
  | panic w => rfl
  | unmodelled w => rfl
  | call b k ih =>
    simp only [Prog.mapFail, Prog.runPure, ih]
    rcases h : (k .ok).runPure with ⟨out, o⟩
    cases o <;> rfl

theorem Prog.runPure_noCalls_fst {α} (p : Prog α) (h : NoCalls p) : p.runPure.1 = [] := by
  cases p with
  | call b k => exact absurd h (by simp [NoCalls])
  | _ => rfl

/-! ## All bytes a trim writer has let through or still holds -/

/-- the bytes written by `ops` from state `t`, followed by the text still pending -/
def twTotal (t : TW) (ops : List WOp) : Bytes := (TW.run t ops).2.flatten ++ (TW.run t ops).1.buf

theorem twTotal_nil (t : TW) : twTotal t [] = t.buf := by simp [twTotal, TW.run]

theorem twTotal_cons (t : TW) (op : WOp) (ops : List WOp) :
    twTotal t (op :: ops) = (t.step op).2.flatten ++ twTotal (t.step op).1 ops := by
  simp [twTotal, TW.run, List.append_assoc]

/-- text pending before a sequence of operations goes out in front of what the sequence produces
    from an empty buffer — provided a trim-left cannot bite into it (it has no trailing white
    space). The trim flag may be anything. -/
theorem twTotal_pending (ops : List WOp) : ∀ (B : Bytes) (t : Bool), trimRightSpace B = B →
    twTotal { buf := B, trim := t } ops = B ++ twTotal { buf := [], trim := t } ops ∧
    (TW.run { buf := B, trim := t } ops).1.trim = (TW.run { buf := [], trim := t } ops).1.trim := by
  induction ops with
  | nil => intro B t _; simp [twTotal, TW.run]
  | cons op ops ih =>
    intro B t hB
    cases op with
    | write b =>
      simp only [twTotal_cons, TW.run, TW.step, tw_flatten_flushCalls, List.isEmpty_nil, if_true, List.flatten_nil,
        List.nil_append]
      exact ⟨trivial, trivial⟩
    | trimLeft =>
      have h0 : trimRightSpace ([] : Bytes) = [] := rfl
      simp only [twTotal_cons, TW.run, TW.step, hB, h0, List.flatten_cons, List.flatten_nil, List.append_nil,
        List.nil_append]
      exact ⟨trivial, trivial⟩
    | trimRight =>
      simp only [twTotal_cons, TW.run, TW.step, List.flatten_nil, List.nil_append]
      exact ih B true hB
    | flush =>
      simp only [twTotal_cons, TW.run, TW.step, tw_flatten_flushCalls, List.isEmpty_nil, if_true, List.flatten_nil,
        List.nil_append]
      exact ⟨trivial, trivial⟩

/-! ## Traced programs -/

/-- the result of a run without the trim-writer part of the state -/
inductive EOut (α : Type) where
  | ok (a : α) (env : Env)
  | err (e : RawErr)
  | panic (w : String)
  | unmodelled (w : String)

def EOut.withTw {α} (tw : TW) : EOut α → Prog.Outcome (α × RS)
  | .ok a env => .ok (a, ⟨env, tw⟩)
  | .err e => .err e
  | .panic w => .panic w
  | .unmodelled w => .unmodelled w

/-- from the variables `env`, `m` performs exactly the trim-writer operations `ops` and ends with
    `o` — whatever the state of the trim writer -/
def TracedAt {α} (m : M α) (env : Env) (ops : List WOp) (o : EOut α) : Prop :=
  ∀ tw, (m ⟨env, tw⟩).runPure = ((TW.run tw ops).2.flatten, o.withTw (TW.run tw ops).1)

def Traced {α} (m : M α) : Prop := ∀ env, ∃ ops o, TracedAt m env ops o

theorem tracedAt_bind_ok {α β} {m : M α} {f : α → M β} {env env1 : Env} {ops1 ops2 : List WOp} {a : α} {o : EOut β}
    (h1 : TracedAt m env ops1 (.ok a env1)) (h2 : TracedAt (f a) env1 ops2 o) :
    TracedAt (m >>= f) env (ops1 ++ ops2) o := by
  intro tw
  show ((m ⟨env, tw⟩).bind (fun (a, s') => f a s')).runPure = _
  rw [Prog.runPure_bind, h1 tw]
  simp only [EOut.withTw]
  rw [h2 (TW.run tw ops1).1, tw_run_append]
  simp
  cases o <;> rfl

theorem traced_bind {α β} {m : M α} {f : α → M β} (hm : Traced m) (hf : ∀ a, Traced (f a)) :
    Traced (m >>= f) := by
  intro env
  obtain ⟨ops1, o1, h1⟩ := hm env
  cases o1 with
  | ok a env1 =>
    obtain ⟨ops2, o2, h2⟩ := hf a env1
    exact ⟨ops1 ++ ops2, o2, tracedAt_bind_ok h1 h2⟩
  | err e =>
    refine ⟨ops1, .err e, fun tw => ?_⟩
    show ((m ⟨env, tw⟩).bind (fun (a, s') => f a s')).runPure = _
    rw [Prog.runPure_bind, h1 tw]; rfl
  | panic w =>
    refine ⟨ops1, .panic w, fun tw => ?_⟩
    show ((m ⟨env, tw⟩).bind (fun (a, s') => f a s')).runPure = _
    rw [Prog.runPure_bind, h1 tw]; rfl
  | unmodelled w =>
    refine ⟨ops1, .unmodelled w, fun tw => ?_⟩
    show ((m ⟨env, tw⟩).bind (fun (a, s') => f a s')).runPure = _
    rw [Prog.runPure_bind, h1 tw]; rfl

theorem traced_pure {α} (a : α) : Traced (pure a : M α) :=
  fun env => ⟨[], .ok a env, fun _ => rfl⟩

theorem traced_fail {α} (e : RawErr) : Traced (M.fail e : M α) :=
  fun _ => ⟨[], .err e, fun _ => rfl⟩

theorem traced_getEnv : Traced M.getEnv := fun env => ⟨[], .ok env env, fun _ => rfl⟩
theorem traced_setVar (x : Bytes) (v : GoVal) : Traced (M.setVar x v) :=
  fun env => ⟨[], .ok () (env.set x v), fun _ => rfl⟩
theorem traced_getVar (x : Bytes) : Traced (M.getVar x) := fun env => ⟨[], .ok (env.get x) env, fun _ => rfl⟩

theorem traced_ofRes {α} (r : Res Cause α) : Traced (M.ofRes r) := by
  intro env
  cases r with
  | ok a => exact ⟨[], .ok a env, fun _ => rfl⟩
  | err c => exact ⟨[], .err (.plain c), fun _ => rfl⟩
  | panic w => exact ⟨[], .panic w, fun _ => rfl⟩
  | unmodelled w => exact ⟨[], .unmodelled w, fun _ => rfl⟩

def EOut.mapErr {α} (g : RawErr → RawErr) : EOut α → EOut α
  | .err e => .err (g e)
  | o => o

theorem tracedAt_mapFail {α} {m : M α} {env : Env} {ops : List WOp} {o : EOut α} (g : RawErr → RawErr)
    (h : TracedAt m env ops o) : TracedAt (M.mapFail g m) env ops (o.mapErr g) := by
  intro tw
  show ((m ⟨env, tw⟩).mapFail g).runPure = _
  rw [Prog.runPure_mapFail, h tw]
  cases o <;> rfl

theorem traced_mapFail {α} {m : M α} (g : RawErr → RawErr) (hm : Traced m) : Traced (M.mapFail g m) := by
  intro env
  obtain ⟨ops, o, h⟩ := hm env
  exact ⟨ops, o.mapErr g, tracedAt_mapFail g h⟩

theorem traced_wrapFailAt {α} (path : Bytes) (loc : Loc) {m : M α} (hm : Traced m) :
    Traced (wrapFailAt path loc m) := traced_mapFail _ hm

theorem wrapAt_eq (path : Bytes) (loc : Loc) (m : M Status) :
    wrapAt path loc m = (M.mapFail (fun e => .located (wrapError path e loc)) m >>= fun st => pure (st.wrap path loc)) := rfl

theorem traced_wrapAt (path : Bytes) (loc : Loc) {m : M Status} (hm : Traced m) : Traced (wrapAt path loc m) := by
  rw [wrapAt_eq]
  exact traced_bind (traced_mapFail _ hm) (fun _ => traced_pure _)

theorem tracedAt_flush (env : Env) : TracedAt flushM env [.flush] (.ok () env) := by
  intro tw
  unfold flushM
  by_cases hb : tw.buf.isEmpty
  · simp [hb, Prog.runPure, TW.run, TW.step, EOut.withTw]
    have : tw.buf = [] := by simpa using hb
    cases tw; simp_all
  · simp [hb, Prog.runPure, TW.run, TW.step, EOut.withTw]

theorem traced_flush : Traced flushM := fun env => ⟨_, _, tracedAt_flush env⟩

theorem tracedAt_write (b : Bytes) (env : Env) : TracedAt (writeM b) env [.write b] (.ok () env) := by
  intro tw
  unfold writeM
  by_cases hb : tw.buf.isEmpty
  · simp [hb, Prog.runPure, TW.run, TW.step, EOut.withTw]
  · simp [hb, Prog.runPure, TW.run, TW.step, EOut.withTw]

theorem traced_write (b : Bytes) : Traced (writeM b) := fun env => ⟨_, _, tracedAt_write b env⟩

theorem tracedAt_trimLeft (env : Env) : TracedAt trimLeftM env [.trimLeft] (.ok () env) := by
  intro tw
  simp [trimLeftM, Prog.runPure, TW.run, TW.step, EOut.withTw]

theorem traced_trimLeft : Traced trimLeftM := fun env => ⟨_, _, tracedAt_trimLeft env⟩

theorem tracedAt_trimRight (env : Env) : TracedAt trimRightM env [.trimRight] (.ok () env) := by
  intro tw
  simp [trimRightM, Prog.runPure, TW.run, TW.step, EOut.withTw]

theorem traced_trimRight : Traced trimRightM := fun env => ⟨_, _, tracedAt_trimRight env⟩

/-- one verbatim write on a fault-free writer: the text pending goes out unchanged, then the bytes
    written, unchanged, whatever the trim flag was; nothing stays pending and the flag is clear -/
theorem writeVerbatim_runPure (c : Bytes) (env : Env) (buf : Bytes) (t : Bool) :
    (writeVerbatimM c { env := env, tw := { buf := buf, trim := t } }).runPure =
      (buf ++ c, .ok ((), { env := env, tw := { buf := [], trim := false } })) := by
  cases buf <;> cases c <;> cases t <;>
    simp [writeVerbatimM, bind, M.bind, Prog.bind, writeM, flushM, Prog.runPure]

theorem tracedAt_writeVerbatim (b : Bytes) (env : Env) :
    TracedAt (writeVerbatimM b) env (verbatimOps b) (.ok () env) := by
  unfold writeVerbatimM
  exact tracedAt_bind_ok (tracedAt_write [] env)
    (tracedAt_bind_ok (tracedAt_write b env) (tracedAt_flush env))

theorem traced_writeVerbatim (b : Bytes) : Traced (writeVerbatimM b) :=
  fun env => ⟨_, _, tracedAt_writeVerbatim b env⟩

/-- the operations of a run of verbatim writes -/
def verbatimAllOps (cs : List Bytes) : List WOp := (cs.map verbatimOps).flatten

theorem tracedAt_writeAll (env : Env) : ∀ cs, TracedAt (writeAllM cs) env (verbatimAllOps cs) (.ok () env)
  | [] => fun _ => rfl
  | c :: cs => by
    unfold writeAllM
    exact tracedAt_bind_ok (tracedAt_writeVerbatim c env) (tracedAt_writeAll env cs)

theorem traced_writeAll (cs : List Bytes) : Traced (writeAllM cs) :=
  fun env => ⟨_, _, tracedAt_writeAll env cs⟩

/-- capture runs its body on a private writer that starts empty: nothing of the outer trim
    writer is read or changed -/
theorem traced_capture {α} (m : M α) : Traced (captureM m) := by
  intro env
  rcases h : ((m { env := env, tw := {} }).bind
      (fun (a, s1) => (flushM s1).bind (fun (_, s2) => .ret (a, s2)))).runPure with ⟨out, o⟩
  cases o with
  | ok r =>
    obtain ⟨a, s2⟩ := r
    refine ⟨[], .ok (a, out) s2.env, fun tw => ?_⟩
    simp only [captureM, h]; rfl
  | err e =>
    refine ⟨[], .err e, fun tw => ?_⟩
    simp only [captureM, h]; rfl
  | panic w =>
    refine ⟨[], .panic w, fun tw => ?_⟩
    simp only [captureM, h]; rfl
  | unmodelled w =>
    refine ⟨[], .unmodelled w, fun tw => ?_⟩
    simp only [captureM, h]; rfl

theorem traced_tablerowBefore (cols i : Nat) : Traced (tablerowBefore cols i) := by
  unfold tablerowBefore
  simp only [bind_pure_comp]
  split
  · exact traced_bind (traced_write _) (fun _ => traced_write _)
  · exact traced_bind (traced_pure _) (fun _ => traced_write _)

theorem traced_tablerowAfter (cols i l : Nat) : Traced (tablerowAfter cols i l) := by
  unfold tablerowAfter
  refine traced_bind (traced_write _) (fun _ => ?_)
  split
  · exact traced_write _
  · exact traced_pure _

theorem traced_evalCond (P : Prims) (path : Bytes) (t : CondT) : Traced (evalCond P path t) := by
  unfold evalCond
  refine traced_bind traced_getEnv (fun env => ?_)
  cases t with
  | always => exact traced_pure _
  | expr line e => exact traced_wrapFailAt _ _ (traced_bind (traced_ofRes _) (fun _ => traced_pure _))
  | notExpr line e => exact traced_wrapFailAt _ _ (traced_bind (traced_ofRes _) (fun _ => traced_pure _))

theorem traced_intModifier (P : Prims) (e : Option Expr) (loc : Loc) : Traced (intModifier P e loc) := by
  unfold intModifier
  cases e with
  | none => exact traced_pure _
  | some ex =>
    refine traced_bind traced_getEnv (fun env => traced_bind (traced_ofRes _) (fun v => ?_))
    split
    · exact traced_pure _
    · exact traced_fail _

theorem traced_restore (var : Bytes) (a b : GoVal) : Traced (restoreLoopVars var a b) := by
  unfold restoreLoopVars
  exact traced_bind (traced_setVar _ _) (fun _ => traced_setVar _ _)

theorem traced_iterate (var : Bytes) (cols : Option Nat) (body : M Status) (hb : Traced body) (n : Nat) :
    ∀ xs i cyc, Traced (iterateM var cols body n xs i cyc) := by
  intro xs
  induction xs with
  | nil => intro i cyc; exact traced_pure _
  | cons x xs ih =>
    intro i cyc
    unfold iterateM
    refine traced_bind (traced_setVar _ _) (fun _ => traced_bind (traced_setVar _ _) (fun _ => ?_))
    refine traced_bind ?_ (fun _ => traced_bind hb (fun st => traced_bind ?_ (fun _ => traced_bind (traced_getVar _) (fun cur => ?_))))
    · cases cols with
      | none => exact traced_pure _
      | some c => exact traced_tablerowBefore c i
    · cases cols with
      | none => exact traced_pure _
      | some c => exact traced_tablerowAfter c i n
    · cases st with
      | brk e => exact traced_pure _
      | done => exact ih _ _
      | cont e => exact ih _ _

theorem traced_tablerowCols (P : Prims) (tr : Bool) (cols : Option Expr) (loc : Loc) :
    Traced (tablerowCols P tr cols loc) := by
  unfold tablerowCols
  split
  · refine traced_bind (traced_intModifier _ _ _) (fun cv => ?_)
    cases cv <;> exact traced_pure _
  · exact traced_pure _

theorem traced_loopRun {budget : Int} (P : Prims) (path : Bytes) (loc : Loc) (tr : Bool) (var : Bytes) (e : Expr) (mods : LoopMods)
    {bodyM : M Status} (hb : Traced bodyM) (tooMany : Bool) (elseM : Option (M Status))
    (he : ∀ m, elseM = some m → Traced m) :
    Traced (loopRun budget P path loc tr var e mods bodyM tooMany elseM) := by
  unfold loopRun
  refine traced_wrapAt _ _ (traced_bind traced_getEnv (fun env => traced_bind (traced_ofRes _) (fun v =>
    traced_bind (traced_ofRes _) (fun items0 => traced_bind (traced_intModifier _ _ _) (fun off =>
    traced_bind (traced_intModifier _ _ _) (fun lim => ?_))))))
  split
  · exact traced_fail _
  · unfold loopDispatch
    split
    · next els => exact he _ rfl
    · unfold loopIterate
      exact traced_bind (traced_tablerowCols _ _ _ _) (fun cols => traced_bind (traced_getVar _) (fun pl =>
        traced_bind (traced_getVar _) (fun pv => traced_bind (traced_iterate _ _ _ hb _ _ _ _) (fun st =>
        traced_bind (traced_restore _ _ _) (fun _ => traced_pure _)))))

/-- the include handler renders into a buffer of its own: no call reaches the caller's writer -/
def IncQuiet (c : RCtx) : Prop := ∀ line f env, NoCalls (c.inc line f env)

theorem traced_inc (c : RCtx) (hc : IncQuiet c) (line : Nat) (f : Bytes) (env0 : Env) :
    Traced (fun s => (c.inc line f env0).bind (fun r => .ret (r, s)) : M (Status × Bytes)) := by
  intro env
  have hq := hc line f env0
  cases h : c.inc line f env0 with
  | ret r => exact ⟨[], .ok r env, fun tw => by simp [h, Prog.bind, Prog.runPure, TW.run, EOut.withTw]⟩
  | fail e => exact ⟨[], .err e, fun tw => by simp [h, Prog.bind, Prog.runPure, TW.run, EOut.withTw]⟩
  | panic w => exact ⟨[], .panic w, fun tw => by simp [h, Prog.bind, Prog.runPure, TW.run, EOut.withTw]⟩
  | unmodelled w => exact ⟨[], .unmodelled w, fun tw => by simp [h, Prog.bind, Prog.runPure, TW.run, EOut.withTw]⟩
  | call b k => rw [h] at hq; exact absurd hq (by simp [NoCalls])

mutual
theorem traced_renderNode (c : RCtx) (hc : IncQuiet c) : ∀ n : Node, Traced (renderNode c n)
  | .text line src => by
    unfold renderNode
    exact traced_wrapFailAt _ _ (traced_bind (traced_write _) (fun _ => traced_pure _))
  | .obj line e => by
    unfold renderNode
    refine traced_wrapFailAt _ _ (traced_bind traced_getEnv (fun env => traced_bind (traced_ofRes _) (fun v => ?_)))
    split
    · exact traced_fail _
    · exact traced_bind (traced_ofRes _) (fun _ => traced_bind (traced_writeAll _) (fun _ => traced_pure _))
  | .raw slices => by
    unfold renderNode
    exact traced_wrapFailAt _ _ (traced_bind (traced_writeAll _) (fun _ => traced_pure _))
  | .trim true => by
    unfold renderNode
    exact traced_wrapFailAt _ _ (traced_bind traced_trimLeft (fun _ => traced_pure _))
  | .trim false => by
    unfold renderNode
    exact traced_bind traced_trimRight (fun _ => traced_pure _)
  | .assign line x e => by
    unfold renderNode
    exact traced_wrapFailAt _ _ (traced_bind traced_getEnv (fun env => traced_bind (traced_ofRes _)
      (fun v => traced_bind (traced_setVar _ _) (fun _ => traced_pure _))))
  | .capture line x body => by
    unfold renderNode
    refine traced_wrapAt _ _ (traced_bind (traced_capture _) (fun r => ?_))
    obtain ⟨st, out⟩ := r
    cases st with
    | done => exact traced_bind (traced_setVar _ _) (fun _ => traced_pure _)
    | brk e => exact traced_pure _
    | cont e => exact traced_pure _
  | .ifB line branches => by
    unfold renderNode
    exact traced_wrapAt _ _ (traced_renderBranches c hc branches)
  | .caseB line subject cases => by
    unfold renderNode
    exact traced_wrapAt _ _ (traced_bind traced_getEnv (fun env => traced_bind (traced_ofRes _)
      (fun sel => traced_renderCases c hc sel cases)))
  | .loop line tablerow var e mods body clauses => by
    unfold renderNode
    simp only
    split
    · exact traced_loopRun _ _ _ _ _ _ _ (traced_renderBlockBody c hc body) _ none (fun _ h => by cases h)
    · next els =>
      exact traced_loopRun _ _ _ _ _ _ _ (traced_renderBlockBody c hc body) _ (some _)
        (fun m h => by cases h; exact traced_renderBlockBody c hc els)
    · exact traced_loopRun _ _ _ _ _ _ _ (traced_renderBlockBody c hc body) _ none (fun _ h => by cases h)
  | .cycle line group v0 rest => by
    unfold renderNode
    refine traced_wrapFailAt _ _ (traced_bind (traced_getVar _) (fun lv => ?_))
    split
    · exact traced_fail _
    · exact traced_bind (traced_setVar _ _) (fun _ => traced_bind (traced_writeVerbatim _) (fun _ => traced_pure _))
  | .brk line => by unfold renderNode; exact traced_pure _
  | .cont line => by unfold renderNode; exact traced_pure _
  | .incl line args => by
    unfold renderNode
    refine traced_wrapAt _ _ (traced_bind traced_getEnv (fun env => traced_bind (traced_ofRes _) (fun e =>
      traced_bind (traced_ofRes _) (fun v => ?_))))
    split
    · next rel =>
      refine traced_bind (traced_inc c hc _ _ _) (fun r => ?_)
      obtain ⟨st, out⟩ := r
      cases st with
      | done => exact traced_bind (traced_writeVerbatim _) (fun _ => traced_pure _)
      | brk e => exact traced_pure _
      | cont e => exact traced_pure _
    · exact traced_fail _
theorem traced_renderList (c : RCtx) (hc : IncQuiet c) : ∀ ns : List Node, Traced (renderList c ns)
  | [] => by unfold renderList; exact traced_pure _
  | n :: ns => by
    unfold renderList
    refine traced_bind (traced_renderNode c hc n) (fun st => ?_)
    cases st with
    | done => exact traced_renderList c hc ns
    | brk e => exact traced_pure _
    | cont e => exact traced_pure _
theorem traced_renderBlockBody (c : RCtx) (hc : IncQuiet c) (body : List Node) : Traced (renderBlockBody c body) := by
  unfold renderBlockBody
  refine traced_bind (traced_renderList c hc body) (fun st => ?_)
  cases st with
  | done => exact traced_bind (traced_wrapFailAt _ _ traced_flush) (fun _ => traced_pure _)
  | brk e => exact traced_pure _
  | cont e => exact traced_pure _
theorem traced_renderBranches (c : RCtx) (hc : IncQuiet c) : ∀ bs : List (CondT × List Node), Traced (renderBranches c bs)
  | [] => by unfold renderBranches; exact traced_pure _
  | (t, body) :: rest => by
    unfold renderBranches
    refine traced_bind (traced_evalCond _ _ _) (fun b => ?_)
    split
    · exact traced_renderBlockBody c hc body
    · exact traced_renderBranches c hc rest
theorem traced_renderCases (c : RCtx) (hc : IncQuiet c) (sel : GoVal) :
    ∀ cs : List (Option (Nat × List Expr) × List Node), Traced (renderCases c sel cs)
  | [] => by unfold renderCases; exact traced_pure _
  | (none, body) :: _ => by unfold renderCases; exact traced_renderBlockBody c hc body
  | (some (line, es), body) :: rest => by
    unfold renderCases
    refine traced_bind (traced_wrapFailAt _ _ (traced_whenMatches c sel es)) (fun hit => ?_)
    split
    · exact traced_renderBlockBody c hc body
    · exact traced_renderCases c hc sel rest
theorem traced_whenMatches (c : RCtx) (sel : GoVal) : ∀ es : List Expr, Traced (whenMatches c sel es)
  | [] => by unfold whenMatches; exact traced_pure _
  | e :: es => by
    unfold whenMatches
    refine traced_bind traced_getEnv (fun env => traced_bind (traced_ofRes _) (fun v => traced_bind (traced_ofRes _) (fun eq => ?_)))
    split
    · exact traced_pure _
    · exact traced_whenMatches c sel es
end

/-! ## Consequences for blocks and captures -/

theorem twTotal_flush (t : TW) (ops : List WOp) : (TW.run t (ops ++ [.flush])).2.flatten = twTotal t ops := by
  rw [tw_run_append]
  simp only [twTotal, TW.run, TW.step, List.append_nil, List.flatten_append, tw_flatten_flushCalls]

theorem tw_run_flush_state (t : TW) (ops : List WOp) :
    (TW.run t (ops ++ [.flush])).1 = { buf := [], trim := (TW.run t ops).1.trim } := by
  rw [tw_run_append]
  simp [TW.run, TW.step]

/-- a block body that ends normally: its operations, then the flush of `RenderBlock` -/
theorem tracedAt_blockBody_done (c : RCtx) (body : List Node) (env env' : Env) (ops : List WOp)
    (h : TracedAt (renderList c body) env ops (.ok .done env')) :
    TracedAt (renderBlockBody c body) env (ops ++ [.flush]) (.ok .done env') := by
  unfold renderBlockBody
  refine tracedAt_bind_ok h ?_
  have h1 : TracedAt (wrapFailAt c.cfg.path invalidLoc flushM) env' [.flush] (.ok () env') :=
    tracedAt_mapFail _ (tracedAt_flush env')
  have h2 : TracedAt (pure Status.done : M Status) env' [] (.ok .done env') := fun _ => rfl
  exact tracedAt_bind_ok h1 h2

/-- …and one that does not (sentinel or failure): no flush -/
theorem tracedAt_blockBody_other (c : RCtx) (body : List Node) (env : Env) (ops : List WOp) (o : EOut Status)
    (h : TracedAt (renderList c body) env ops o) (hnd : ∀ env', o ≠ .ok .done env') :
    TracedAt (renderBlockBody c body) env ops o := by
  intro tw
  unfold renderBlockBody
  show ((renderList c body ⟨env, tw⟩).bind _).runPure = _
  rw [Prog.runPure_bind, h tw]
  cases o with
  | ok st env' =>
    cases st with
    | done => exact absurd rfl (hnd env')
    | brk e => simp [EOut.withTw, pure, M.pure, Prog.runPure]
    | cont e => simp [EOut.withTw, pure, M.pure, Prog.runPure]
  | err e => rfl
  | panic w => rfl
  | unmodelled w => rfl

/-- what a capture hands back: the text its body renders from an empty trim writer, flushed -/
theorem captureM_of_traced {α} (m : M α) (env env' : Env) (ops : List WOp) (a : α)
    (h : TracedAt m env ops (.ok a env')) (tw : TW) :
    captureM m ⟨env, tw⟩ = .ret ((a, twTotal {} ops), ⟨env', tw⟩) := by
  have h1 : TracedAt (m >>= fun a => flushM >>= fun _ => (pure a : M α)) env (ops ++ ([.flush] ++ [])) (.ok a env') :=
    tracedAt_bind_ok h (tracedAt_bind_ok (tracedAt_flush env') (fun _ => rfl))
  have h2 := h1 {}
  simp only [List.append_nil, twTotal_flush, EOut.withTw] at h2
  unfold captureM
  simp only
  have h3 : ((m { env := env, tw := {} }).bind fun (a, s1) => (flushM s1).bind fun (_, s2) => Prog.ret (a, s2)).runPure =
      (twTotal {} ops, .ok (a, ⟨env', (TW.run {} (ops ++ [.flush])).1⟩)) := h2
  rw [h3]

/-- the engine's include handler (`ctx.RenderFile`, any fuel) renders into a private buffer -/
theorem incQuiet_mkCtx (P : Prims) (O : OutPrims) (cfg : Cfg) (fs : FS) (fuel : Nat) :
    IncQuiet (mkCtx P O cfg fs fuel) := by
  intro line f env
  cases fuel with
  | zero => simp [mkCtx, incFuel, NoCalls]
  | succ n =>
    simp only [mkCtx, incFuel]
    unfold renderFileWith
    simp only
    split
    · simp [NoCalls]
    · split
      · simp [NoCalls]
      · simp [NoCalls]
      · simp [NoCalls]
      · split <;> simp [NoCalls]

/-- `Render`: the root sequence is rendered like a block body (sequence, then flush); only the
    status is returned -/
theorem renderRoot_eq_blockBody (c : RCtx) (root : List Node) (env : Env) :
    renderRoot c root env = (renderBlockBody c root ⟨env, {}⟩).bind (fun r => .ret r.1) := by
  unfold renderRoot renderBlockBody
  simp only [bind, M.bind, Prog.bind_assoc]
  congr 1
  funext r
  obtain ⟨st, s⟩ := r
  cases st with
  | done =>
    show _ = ((wrapFailAt c.cfg.path invalidLoc flushM s).bind (fun r => M.pure Status.done r.2)).bind fun r => Prog.ret r.fst
    rw [Prog.bind_assoc]
    rfl
  | brk e => rfl
  | cont e => rfl

/-- a capture whose body fails, fails the same way -/
theorem captureM_of_traced_err {α} (m : M α) (env : Env) (ops : List WOp) (e : RawErr)
    (h : TracedAt m env ops (.err e)) (tw : TW) : captureM m ⟨env, tw⟩ = .fail e := by
  have h2 := h {}
  unfold captureM
  simp only
  rw [Prog.runPure_bind, h2]
  rfl

theorem captureM_of_traced_panic {α} (m : M α) (env : Env) (ops : List WOp) (w : String)
    (h : TracedAt m env ops (.panic w)) (tw : TW) : captureM m ⟨env, tw⟩ = .panic w := by
  have h2 := h {}
  unfold captureM
  simp only
  rw [Prog.runPure_bind, h2]
  rfl

theorem captureM_of_traced_unmodelled {α} (m : M α) (env : Env) (ops : List WOp) (w : String)
    (h : TracedAt m env ops (.unmodelled w)) (tw : TW) : captureM m ⟨env, tw⟩ = .unmodelled w := by
  have h2 := h {}
  unfold captureM
  simp only
  rw [Prog.runPure_bind, h2]
  rfl
