import Proofs.PostLemmas
import Proofs.RunLemmas
/-!
# C14 — include renders the named file (or cached source) with the current variables
-/

/-- **C14 (resolution).** The file name is the string value of the argument, joined to the directory
    of the path the including template was parsed with; the handler receives the includer's
    current variables. (`include_sees_vars` of C12 states the same from the variables' side.) -/
theorem include_resolves (c : RCtx) (line : Nat) (args : Bytes) (s : RS) (e : Expr) (rel : Bytes)
    (he : parseExprSource args = .ok e) (hv : evaluate c.P s.env e = .ok (.str rel)) :
    renderNode c (.incl line args) s =
      wrapAt c.cfg.path ⟨line, true⟩ (fun s0 =>
        (c.inc line (joinPath (dirPath c.cfg.path) rel) s.env).bind fun (st, out) =>
          match st with
          | .done => (writeVerbatimM out s0).bind fun (_, s1) => .ret (.done, s1)
          | st => .ret (st, s0)) s := by
  unfold renderNode
  simp only [wrapAt, bind, M.bind, M.getEnv, Prog.bind, he, Res.mapErr, M.ofRes, pure, M.pure, hv, Prog.bind_assoc]
  congr 3
  funext r
  obtain ⟨st, out⟩ := r
  cases st <;> rfl

/-- a non-string argument is an error located at the include tag -/
theorem include_nonstring_err (c : RCtx) (line : Nat) (args : Bytes) (s : RS) (e : Expr) (v : GoVal)
    (he : parseExprSource args = .ok e) (hv : evaluate c.P s.env e = .ok v) (hs : ∀ r, v ≠ .str r) :
    renderNode c (.incl line args) s = .fail (.located ⟨line, true, .none, .includeArg⟩) := by
  unfold renderNode
  simp only [wrapAt, bind, M.bind, M.getEnv, Prog.bind, he, Res.mapErr, M.ofRes, pure, M.pure, hv]
  cases v <;> first | exact absurd rfl (hs _) | simp [M.fail, Prog.mapFail, Prog.bind, errorfAt, wrapError, Loc.isZero]

/-- **C14 (disk first).** A file on disk takes precedence over source registered in the cache. -/
theorem disk_over_cache (P : Prims) (O : OutPrims) (cfg : Cfg) (read : Bytes → FileRes) (cache cache' : Bytes → Option Bytes)
    (inner : Nat → Bytes → Env → Prog (Status × Bytes)) (line : Nat) (f : Bytes) (env : Env) (b : Bytes)
    (h : read f = .content b) :
    renderFileWith P O cfg ⟨read, cache⟩ inner line f env = renderFileWith P O cfg ⟨read, cache'⟩ inner line f env := by
  simp only [renderFileWith, h]

/-- **C14 (cache fallback).** Cached source is used when no such file exists: the include behaves
    exactly as if the file had that content. -/
theorem cache_fallback (P : Prims) (O : OutPrims) (cfg : Cfg) (read read' : Bytes → FileRes) (cache : Bytes → Option Bytes)
    (inner : Nat → Bytes → Env → Prog (Status × Bytes)) (line : Nat) (f : Bytes) (env : Env) (b : Bytes)
    (h : read f = .notExist) (hc : cache f = some b) (h' : read' f = .content b) :
    renderFileWith P O cfg ⟨read, cache⟩ inner line f env = renderFileWith P O cfg ⟨read', cache⟩ inner line f env := by
  simp only [renderFileWith, h, hc, h']

/-- a missing file (neither on disk nor cached) fails the render -/
theorem include_missing_err (P : Prims) (O : OutPrims) (cfg : Cfg) (fs : FS)
    (inner : Nat → Bytes → Env → Prog (Status × Bytes)) (line : Nat) (f : Bytes) (env : Env)
    (h : fs.read f = .notExist) (hc : fs.cache f = none) :
    renderFileWith P O cfg fs inner line f env = .fail (.plain (.other "notExist")) := by
  simp only [renderFileWith, h, hc]

/-- an error inside the included template (here: at compile time) fails the render with that
    located error -/
theorem include_inner_compile_err (P : Prims) (O : OutPrims) (cfg : Cfg) (fs : FS)
    (inner : Nat → Bytes → Env → Prog (Status × Bytes)) (line : Nat) (f : Bytes) (env : Env) (b : Bytes) (e : SErr)
    (h : fs.read f = .content b) (hc : compileSource cfg.delims b line = .err e) :
    renderFileWith P O cfg fs inner line f env = .fail (.located e) := by
  simp only [renderFileWith, h, hc]

/-- **C14 (equivalence).** What an include inserts is exactly the output of rendering the file's
    content (compiled at the include tag's location) with the includer's current variables:
    the handler returns `renderRoot` of that content, run against a private buffer. -/
theorem include_equiv (P : Prims) (O : OutPrims) (cfg : Cfg) (fs : FS)
    (inner : Nat → Bytes → Env → Prog (Status × Bytes)) (line : Nat) (f : Bytes) (env : Env) (b : Bytes) (root : List Node)
    (out : Bytes)
    (h : fs.read f = .content b) (hc : compileSource cfg.delims b line = .ok root)
    (hr : (renderRoot { P := P, O := O, cfg := cfg, inc := inner } root env).runPure = (out, .ok .done)) :
    renderFileWith P O cfg fs inner line f env = .ret (.done, out) := by
  simp only [renderFileWith, h, hc, hr]

/-- the fuel is the number of include levels left (`maxIncludeDepth - depth` of the Go code): with `n+1` levels
    left the file is rendered with `n` levels left inside — including at fuel `n+1` is rendering the file at
    fuel `n` (`include_denotation_mk`, `include_source`); with none left the handler is the depth error
    (`include_depth_error`, Proofs/C14Depth.lean) -/
theorem incFuel_succ (P : Prims) (O : OutPrims) (cfg : Cfg) (fs : FS) (n : Nat) :
    incFuel P O cfg fs (n + 1) = renderFileWith P O cfg fs (incFuel P O cfg fs n) := rfl

/-! ### Closed form: the whole include in one equation -/

/-- the source `ctx.RenderFile` renders: the file on disk, else (only when it does not exist) the
    source registered in the cache -/
def fileSource (fs : FS) (f : Bytes) : Option Bytes :=
  match fs.read f with
  | .content b => some b
  | .notExist => fs.cache f
  | .otherError => none

/-- **C14 (include_denotation).** `{% include e %}` where `e` evaluates to the string `rel`, the
    file `dir(path)/rel` has source `src` (on disk, or in the cache when no such file exists),
    `src` compiles (at the include tag's location) to `root`, and rendering `root` directly with a
    copy of the includer's current variables gives `out`: the include node does exactly one thing —
    it writes `out` to the includer's writer, verbatim (`TagNode.render` hands the tag `verbatimWriter{w}`,
    repair `fixes/verbatim-output-not-trimmed`: what a tag writes is not literal text of the template, no
    neighbour's hyphen strips it; failures located at the include tag). Composes
    `include_resolves`, `disk_over_cache`/`cache_fallback` and `include_equiv`. -/
theorem include_denotation (c : RCtx) (fs : FS) (inner : Nat → Bytes → Env → Prog (Status × Bytes))
    (hinc : c.inc = renderFileWith c.P c.O c.cfg fs inner)
    (line : Nat) (args : Bytes) (s : RS) (e : Expr) (rel src : Bytes) (root : List Node) (out : Bytes)
    (he : parseExprSource args = .ok e) (hv : evaluate c.P s.env e = .ok (.str rel))
    (hsrc : fileSource fs (joinPath (dirPath c.cfg.path) rel) = some src)
    (hc : compileSource c.cfg.delims src line = .ok root)
    (hr : (renderRoot { c with inc := inner } root s.env).runPure = (out, .ok .done)) :
    renderNode c (.incl line args) s =
      wrapFailAt c.cfg.path ⟨line, true⟩ (do writeVerbatimM out; pure .done) s := by
  have hfile : c.inc line (joinPath (dirPath c.cfg.path) rel) s.env = .ret (.done, out) := by
    rw [hinc]
    unfold fileSource at hsrc
    unfold renderFileWith
    cases hrd : fs.read (joinPath (dirPath c.cfg.path) rel) with
    | content b =>
      simp only [hrd, Option.some.injEq] at hsrc
      subst hsrc
      simp only [hc, hr]
    | notExist =>
      simp only [hrd] at hsrc
      simp only [hsrc, hc, hr]
    | otherError => simp [hrd] at hsrc
  rw [include_resolves c line args s e rel he hv]
  simp only [wrapAt, hfile, Prog.bind, wrapFailAt, M.mapFail, bind, M.bind, pure, M.pure]
  generalize writeVerbatimM out s = p
  induction p with
  | ret a => rfl
  | fail e => rfl
  | panic w => rfl
  | unmodelled w => rfl
  | call b k ih =>
    simp only [Prog.bind, Prog.mapFail]
    congr 1
    funext r
    exact ih r

/-- …so on a writer that does not fail: the previously pending text and then the bytes of `out` go
    out unchanged — "inserts exactly the output that rendering that file's content directly would
    give", also when a `-%}` precedes or a `{%-` follows: nothing of `out` stays pending and the trim
    flag is clear —, and the variables after the include are the variables before it, whatever the
    included template assigned. -/
theorem include_denotation_run (c : RCtx) (fs : FS) (inner : Nat → Bytes → Env → Prog (Status × Bytes))
    (hinc : c.inc = renderFileWith c.P c.O c.cfg fs inner)
    (line : Nat) (args : Bytes) (s : RS) (e : Expr) (rel src : Bytes) (root : List Node) (out : Bytes)
    (he : parseExprSource args = .ok e) (hv : evaluate c.P s.env e = .ok (.str rel))
    (hsrc : fileSource fs (joinPath (dirPath c.cfg.path) rel) = some src)
    (hc : compileSource c.cfg.delims src line = .ok root)
    (hr : (renderRoot { c with inc := inner } root s.env).runPure = (out, .ok .done)) :
    (renderNode c (.incl line args) s).runPure =
      (s.tw.buf ++ out, .ok (.done, { env := s.env, tw := { buf := [], trim := false } })) := by
  rw [include_denotation c fs inner hinc line args s e rel src root out he hv hsrc hc hr]
  obtain ⟨env, B, t⟩ := s
  simp only [wrapFailAt, M.mapFail, bind, M.bind, pure, M.pure]
  rw [Prog.runPure_mapFail, Prog.runPure_bind, writeVerbatim_runPure]
  simp [Prog.runPure]

/-- the same for the engine's own context: at fuel `n+1` the included file is rendered by the
    context of fuel `n` -/
theorem include_denotation_mk (P : Prims) (O : OutPrims) (cfg : Cfg) (fs : FS) (fuel : Nat)
    (line : Nat) (args : Bytes) (s : RS) (e : Expr) (rel src : Bytes) (root : List Node) (out : Bytes)
    (he : parseExprSource args = .ok e) (hv : evaluate P s.env e = .ok (.str rel))
    (hsrc : fileSource fs (joinPath (dirPath cfg.path) rel) = some src)
    (hc : compileSource cfg.delims src line = .ok root)
    (hr : (renderRoot (mkCtx P O cfg fs fuel) root s.env).runPure = (out, .ok .done)) :
    renderNode (mkCtx P O cfg fs (fuel + 1)) (.incl line args) s =
      wrapFailAt cfg.path ⟨line, true⟩ (do writeVerbatimM out; pure .done) s :=
  include_denotation (mkCtx P O cfg fs (fuel + 1)) fs (incFuel P O cfg fs fuel) rfl line args s e rel src root out
    he hv hsrc hc hr

/-! ### Errors through `include`: where they are located

`ctx.RenderFile` returns plain errors for a file it cannot read (`os.ReadFile`'s error) and `parser.Error`s for
what goes wrong in the file (compiled with the include tag's `SourceLoc`: the INCLUDER's path, lines counted from
the tag's line). `TagNode.render` wraps what the tag returns with `WrapError(err, node)`: a plain error becomes a
`parser.Error` at the include tag with that error as cause; a `parser.Error` that has a line or a path is returned
as it is. (Render-time errors inside the file and the first failing construct there: Proofs/C14Errors.lean.) -/

/-- **C14 (a handler failure is located at the include tag).** When the handler fails with an error that is
    not a `parser.Error` — whatever the handler is — the include node fails with the error located at the
    include tag of the including template (its line, the template's path), the handler's error as cause. -/
theorem include_plain_err_located (c : RCtx) (line : Nat) (args : Bytes) (s : RS) (e : Expr) (rel : Bytes) (cause : Cause)
    (he : parseExprSource args = .ok e) (hv : evaluate c.P s.env e = .ok (.str rel))
    (hf : c.inc line (joinPath (dirPath c.cfg.path) rel) s.env = .fail (.plain cause)) :
    renderNode c (.incl line args) s = .fail (.located ⟨line, true, cause, .byCause⟩) := by
  rw [include_resolves c line args s e rel he hv]
  simp only [wrapAt, hf, Prog.bind, Prog.mapFail, wrapError]

/-- **C14 (missing file).** `{% include e %}` where `e` evaluates to a string naming a file that is neither on
    disk nor in the cache: the render fails with an error at the include tag (line of the tag, path of the
    including template) whose cause is the not-exist error. For every include depth `fuel + 1`. -/
theorem include_missing_located (P : Prims) (O : OutPrims) (cfg : Cfg) (fs : FS) (fuel : Nat) (line : Nat) (args : Bytes) (s : RS)
    (e : Expr) (rel : Bytes) (he : parseExprSource args = .ok e) (hv : evaluate P s.env e = .ok (.str rel))
    (h : fs.read (joinPath (dirPath cfg.path) rel) = .notExist) (hc : fs.cache (joinPath (dirPath cfg.path) rel) = none) :
    renderNode (mkCtx P O cfg fs (fuel + 1)) (.incl line args) s = .fail (.located ⟨line, true, .other "notExist", .byCause⟩) :=
  include_plain_err_located (mkCtx P O cfg fs (fuel + 1)) line args s e rel _ he hv
    (include_missing_err P O cfg fs (incFuel P O cfg fs fuel) line _ s.env h hc)

/-- a read error other than not-exist (the name is a directory, no permission): the same, with the read error
    as cause -/
theorem include_read_err_located (P : Prims) (O : OutPrims) (cfg : Cfg) (fs : FS) (fuel : Nat) (line : Nat) (args : Bytes) (s : RS)
    (e : Expr) (rel : Bytes) (he : parseExprSource args = .ok e) (hv : evaluate P s.env e = .ok (.str rel))
    (h : fs.read (joinPath (dirPath cfg.path) rel) = .otherError) :
    renderNode (mkCtx P O cfg fs (fuel + 1)) (.incl line args) s = .fail (.located ⟨line, true, .io, .byCause⟩) :=
  include_plain_err_located (mkCtx P O cfg fs (fuel + 1)) line args s e rel _ he hv (by simp only [mkCtx, incFuel, renderFileWith, h])

/-- **C14 (an error from inside the file keeps its own location).** When the handler fails with a located error
    `e'`, the include node fails with `WrapError(e', tag)`: `e'` itself whenever `e'` has a line or names a path
    (`wrap_keeps_located`: always, except on line 0 of a template parsed without a path). -/
theorem include_located_err_passes (c : RCtx) (line : Nat) (args : Bytes) (s : RS) (e : Expr) (rel : Bytes) (e' : SErr)
    (he : parseExprSource args = .ok e) (hv : evaluate c.P s.env e = .ok (.str rel))
    (hf : c.inc line (joinPath (dirPath c.cfg.path) rel) s.env = .fail (.located e')) :
    renderNode c (.incl line args) s = .fail (.located (wrapError c.cfg.path (.located e') ⟨line, true⟩)) ∧
    ((e'.line ≠ 0 ∨ (e'.pathSet = true ∧ c.cfg.path ≠ [])) → renderNode c (.incl line args) s = .fail (.located e')) := by
  have h1 : renderNode c (.incl line args) s = .fail (.located (wrapError c.cfg.path (.located e') ⟨line, true⟩)) := by
    rw [include_resolves c line args s e rel he hv]
    simp only [wrapAt, hf, Prog.bind, Prog.mapFail]
  refine ⟨h1, fun h => ?_⟩
  rw [h1]
  unfold wrapError
  rcases h with h | ⟨h2, h3⟩
  · simp [h]
  · have : c.cfg.path.isEmpty = false := by cases hp : c.cfg.path <;> simp_all
    simp [h2, this]

/-- **C14 (parse error in the included file).** The file is found (on disk, or in the cache when no such file
    exists) and does not compile — compiled at the include tag's line with the includer's path, so `e'` counts
    its lines from the tag's line and names the includer's path: the render fails with `WrapError(e', tag)`,
    which is `e'` itself when `e'` has a line or a path. For every include depth. -/
theorem include_compile_err_located (P : Prims) (O : OutPrims) (cfg : Cfg) (fs : FS) (fuel : Nat) (line : Nat) (args : Bytes)
    (s : RS) (e : Expr) (rel src : Bytes) (e' : SErr)
    (he : parseExprSource args = .ok e) (hv : evaluate P s.env e = .ok (.str rel))
    (hsrc : fileSource fs (joinPath (dirPath cfg.path) rel) = some src)
    (hc : compileSource cfg.delims src line = .err e') :
    renderNode (mkCtx P O cfg fs (fuel + 1)) (.incl line args) s =
      .fail (.located (wrapError cfg.path (.located e') ⟨line, true⟩)) ∧
    ((e'.line ≠ 0 ∨ (e'.pathSet = true ∧ cfg.path ≠ [])) →
      renderNode (mkCtx P O cfg fs (fuel + 1)) (.incl line args) s = .fail (.located e')) := by
  have hf : (mkCtx P O cfg fs (fuel + 1)).inc line (joinPath (dirPath cfg.path) rel) s.env = .fail (.located e') := by
    show renderFileWith P O cfg fs (incFuel P O cfg fs fuel) line _ s.env = _
    unfold fileSource at hsrc
    unfold renderFileWith
    cases hrd : fs.read (joinPath (dirPath cfg.path) rel) with
    | content b =>
      simp only [hrd, Option.some.injEq] at hsrc
      subst hsrc
      simp only [hc]
    | notExist =>
      simp only [hrd] at hsrc
      simp only [hsrc, hc]
    | otherError => simp [hrd] at hsrc
  exact include_located_err_passes (mkCtx P O cfg fs (fuel + 1)) line args s e rel e' he hv hf

/-! Non-vacuity: path resolution on concrete paths -/
-- joinPath (dirPath "dir/t.liquid") "inc/a.html" = "dir/inc/a.html"
example : joinPath (dirPath [100, 105, 114, 47, 116, 46, 108, 105, 113, 117, 105, 100]) [105, 110, 99, 47, 97, 46, 104, 116, 109, 108] = [100, 105, 114, 47, 105, 110, 99, 47, 97, 46, 104, 116, 109, 108] := by decide
-- "../x" relative to "a/b/t" is "a/x"
example : joinPath (dirPath [97, 47, 98, 47, 116]) [46, 46, 47, 120] = [97, 47, 120] := by decide

/-! Non-vacuity of `include_denotation`: disk wins over the cache, the cache serves a missing file -/
example : fileSource ⟨fun _ => .content [97], fun _ => some [98]⟩ [102] = some [97] := rfl
example : fileSource ⟨fun _ => .notExist, fun _ => some [98]⟩ [102] = some [98] := rfl
example : fileSource ⟨fun _ => .otherError, fun _ => some [98]⟩ [102] = none := rfl
/-- all hypotheses of `include_denotation` at once: `{% include "f" %}` where the file `f` (found on
    disk) contains `hi` inserts `hi` -/
example (P : Prims) (O : OutPrims) :
    renderNode (mkCtx P O {} ⟨fun _ => .content [104, 105], fun _ => none⟩ 1) (.incl 1 [34, 102, 34]) ⟨[], {}⟩ =
      wrapFailAt [] ⟨1, true⟩ (do writeVerbatimM [104, 105]; pure .done) ⟨[], {}⟩ :=
  include_denotation_mk P O {} ⟨fun _ => .content [104, 105], fun _ => none⟩ 0 1 [34, 102, 34] ⟨[], {}⟩
    (.lit (.str [102])) [102] [104, 105] [.text 1 [104, 105]] [104, 105] rfl rfl rfl rfl
    (by simp [renderRoot, renderList, renderNode, wrapFailAt, M.mapFail, M.bind, M.pure, writeM, flushM, Prog.bind,
      Prog.mapFail, Prog.runPure, bind, pure])

/-! Non-vacuity of the error theorems: `{% include "f" %}` at line 4 of `dir/t`, no file anywhere -/
example (P : Prims) (O : OutPrims) :
    renderNode (mkCtx P O { path := [100, 47, 116] } ⟨fun _ => .notExist, fun _ => none⟩ 1) (.incl 4 [34, 102, 34]) ⟨[], {}⟩ =
      .fail (.located ⟨4, true, .other "notExist", .byCause⟩) :=
  include_missing_located P O { path := [100, 47, 116] } ⟨fun _ => .notExist, fun _ => none⟩ 0 4 [34, 102, 34] ⟨[], {}⟩
    (.lit (.str [102])) [102] rfl rfl rfl rfl
/-- a file `⏎{{ 1 | }}` included at line 4: the syntax error is reported at line 5 (the tag's line plus the
    newline before the object), with the includer's path -/
example (P : Prims) (O : OutPrims) :
    renderNode (mkCtx P O { path := [100, 47, 116] } ⟨fun _ => .content [10, 123, 123, 32, 49, 32, 124, 32, 125, 125], fun _ => none⟩ 1)
      (.incl 4 [34, 102, 34]) ⟨[], {}⟩ = .fail (.located ⟨5, true, .syntax, .byCause⟩) :=
  (include_compile_err_located P O { path := [100, 47, 116] } ⟨fun _ => .content [10, 123, 123, 32, 49, 32, 124, 32, 125, 125], fun _ => none⟩
    0 4 [34, 102, 34] ⟨[], {}⟩ (.lit (.str [102])) [102] [10, 123, 123, 32, 49, 32, 124, 32, 125, 125] ⟨5, true, .syntax, .byCause⟩
    rfl rfl rfl rfl).2 (Or.inl (by decide))
/-- a read error that is not not-exist: the error is located at the tag as well -/
example (P : Prims) (O : OutPrims) :
    renderNode (mkCtx P O { path := [100, 47, 116] } ⟨fun _ => .otherError, fun _ => none⟩ 1) (.incl 4 [34, 102, 34]) ⟨[], {}⟩ =
      .fail (.located ⟨4, true, .io, .byCause⟩) :=
  include_read_err_located P O { path := [100, 47, 116] } ⟨fun _ => .otherError, fun _ => none⟩ 0 4 [34, 102, 34] ⟨[], {}⟩
    (.lit (.str [102])) [102] rfl rfl rfl
