import Proofs.PostLemmas
/-!
# C14 — include renders the named file (or cached source) with the current variables
-/

/-- **C14 (resolution).** The file name is the string value of the argument, joined to the directory
    of the path the including template was parsed with; the handler receives the includer's
    current variables. (`include_sees_vars` of C12 states the same from the variables' side.) -/
theorem include_resolves (c : RCtx) (line : Nat) (args : Bytes) (s : RS) (e : Expr) (rel : Bytes)
    (he : parseExprSource args = .ok e) (hv : evaluate c.P s.env e = .ok (.str rel)) :
    renderNode c (.incl line args) s =
      wrapAt c.cfg.path ⟨line, true⟩ (fun s0 =>
        (c.inc line (joinPath (dirPath c.cfg.path) rel) s.env).bind fun (st, out) =>
          match st with
          | .done => (writeM out s0).bind fun (_, s1) => .ret (.done, s1)
          | st => .ret (st, s0)) s := by
  unfold renderNode
  simp only [wrapAt, bind, M.bind, M.getEnv, Prog.bind, he, Res.mapErr, M.ofRes, pure, M.pure, hv, Prog.bind_assoc]
  congr 3
  funext r
  obtain ⟨st, out⟩ := r
  cases st <;> rfl

/-- a non-string argument is an error located at the include tag -/
theorem include_nonstring_err (c : RCtx) (line : Nat) (args : Bytes) (s : RS) (e : Expr) (v : GoVal)
    (he : parseExprSource args = .ok e) (hv : evaluate c.P s.env e = .ok v) (hs : ∀ r, v ≠ .str r) :
    renderNode c (.incl line args) s = .fail (.located ⟨line, true, .none, .includeArg⟩) := by
  unfold renderNode
  simp only [wrapAt, bind, M.bind, M.getEnv, Prog.bind, he, Res.mapErr, M.ofRes, pure, M.pure, hv]
  cases v <;> first | exact absurd rfl (hs _) | simp [M.fail, Prog.mapFail, Prog.bind, errorfAt, wrapError, Loc.isZero]

/-- **C14 (disk first).** A file on disk takes precedence over source registered in the cache. -/
theorem disk_over_cache (P : Prims) (O : OutPrims) (cfg : Cfg) (read : Bytes → FileRes) (cache cache' : Bytes → Option Bytes)
    (inner : Nat → Bytes → Env → Prog (Status × Bytes)) (line : Nat) (f : Bytes) (env : Env) (b : Bytes)
    (h : read f = .content b) :
    renderFileWith P O cfg ⟨read, cache⟩ inner line f env = renderFileWith P O cfg ⟨read, cache'⟩ inner line f env := by
  simp only [renderFileWith, h]

/-- **C14 (cache fallback).** Cached source is used when no such file exists: the include behaves
    exactly as if the file had that content. -/
theorem cache_fallback (P : Prims) (O : OutPrims) (cfg : Cfg) (read read' : Bytes → FileRes) (cache : Bytes → Option Bytes)
    (inner : Nat → Bytes → Env → Prog (Status × Bytes)) (line : Nat) (f : Bytes) (env : Env) (b : Bytes)
    (h : read f = .notExist) (hc : cache f = some b) (h' : read' f = .content b) :
    renderFileWith P O cfg ⟨read, cache⟩ inner line f env = renderFileWith P O cfg ⟨read', cache⟩ inner line f env := by
  simp only [renderFileWith, h, hc, h']

/-- a missing file (neither on disk nor cached) fails the render -/
theorem include_missing_err (P : Prims) (O : OutPrims) (cfg : Cfg) (fs : FS)
    (inner : Nat → Bytes → Env → Prog (Status × Bytes)) (line : Nat) (f : Bytes) (env : Env)
    (h : fs.read f = .notExist) (hc : fs.cache f = none) :
    renderFileWith P O cfg fs inner line f env = .fail (.plain (.other "notExist")) := by
  simp only [renderFileWith, h, hc]

/-- an error inside the included template (here: at compile time) fails the render with that
    located error -/
theorem include_inner_compile_err (P : Prims) (O : OutPrims) (cfg : Cfg) (fs : FS)
    (inner : Nat → Bytes → Env → Prog (Status × Bytes)) (line : Nat) (f : Bytes) (env : Env) (b : Bytes) (e : SErr)
    (h : fs.read f = .content b) (hc : compileSource cfg.delims b line = .err e) :
    renderFileWith P O cfg fs inner line f env = .fail (.located e) := by
  simp only [renderFileWith, h, hc]

/-- **C14 (equivalence).** What an include inserts is exactly the output of rendering the file's
    content (compiled at the include tag's location) with the includer's current variables:
    the handler returns `renderRoot` of that content, run against a private buffer. -/
theorem include_equiv (P : Prims) (O : OutPrims) (cfg : Cfg) (fs : FS)
    (inner : Nat → Bytes → Env → Prog (Status × Bytes)) (line : Nat) (f : Bytes) (env : Env) (b : Bytes) (root : List Node)
    (out : Bytes)
    (h : fs.read f = .content b) (hc : compileSource cfg.delims b line = .ok root)
    (hr : (renderRoot { P := P, O := O, cfg := cfg, inc := inner } root env).runPure = (out, .ok .done)) :
    renderFileWith P O cfg fs inner line f env = .ret (.done, out) := by
  simp only [renderFileWith, h, hc, hr]

/-- the include depth is bounded by the fuel: with fuel `n+1` an include chain of depth `≤ n` is
    rendered by the real handler at every level (the `unmodelled` leaf of `incFuel 0` is not reached) -/
theorem incFuel_succ (P : Prims) (O : OutPrims) (cfg : Cfg) (fs : FS) (n : Nat) :
    incFuel P O cfg fs (n + 1) = renderFileWith P O cfg fs (incFuel P O cfg fs n) := rfl

/-! Non-vacuity: path resolution on concrete paths -/
-- joinPath (dirPath "dir/t.liquid") "inc/a.html" = "dir/inc/a.html"
example : joinPath (dirPath [100, 105, 114, 47, 116, 46, 108, 105, 113, 117, 105, 100]) [105, 110, 99, 47, 97, 46, 104, 116, 109, 108] = [100, 105, 114, 47, 105, 110, 99, 47, 97, 46, 104, 116, 109, 108] := by decide
-- "../x" relative to "a/b/t" is "a/x"
example : joinPath (dirPath [97, 47, 98, 47, 116]) [46, 46, 47, 120] = [97, 47, 120] := by decide
