import Proofs.VerbatimLemmas
/-!
# C05 — the bytes of a value and of a raw body are out of reach of a neighbour's hyphen

`render.trimWriter` trims the OUTPUT STREAM: a right hyphen strips the next `Write`, a left hyphen the
text still buffered — whoever wrote it. Until the repair `fixes/verbatim-output-not-trimmed` an object
and a raw block wrote through `Write`, so the hyphen of a NEIGHBOUR reached into them:
`{{ x -}}{{ s }}` with `s = "␠␠s"` rendered `Xs`, `{{ s }}{{- x }}` with `s = "s␠␠"` rendered `sX`,
`{{ x -}}{% raw %}␠␠y{% endraw %}` rendered `Xy` — against C05 ("a string value printed by an object
is emitted exactly", "the body of a raw block is emitted exactly as written"). Now `ObjectNode.render`
and `RawNode.render` write through `trimWriter.WriteVerbatim` (`writeVerbatimM`: drop a pending right
trim, write, flush; so does what a tag writes — the output of an included file, `include_denotation_run`
in `Proofs/C14.lean` —), and the statements the deviation made false are theorems:

* `object_writes_value_verbatim`, `raw_writes_body_verbatim`: from EVERY state of the trim writer (any
  text pending, a right trim pending or not) the node lets the pending text out unchanged, then its own
  bytes unchanged, and leaves NOTHING pending and no trim armed;
* `value_bytes_not_trimmed`, `raw_bytes_not_trimmed`: in every sequence `A ++ [node] ++ B` — whatever
  trees `A` and `B` are, whatever trim nodes end `A` or begin `B` — the output is what `A` puts out
  (written and pending, after ITS OWN trims), the bytes of the value / of the body, contiguous and
  unchanged, and then what `B` renders from an EMPTY trim writer (so nothing in `B` sees those bytes);
  `_root`: the same for whole templates;
* `string_value_between_hyphens`, `raw_body_between_hyphens`: `-}}`/`-%}` before and `{{-`/`{%-`
  after, directly;
* from source bytes: `value_after_right_hyphen_source`, `value_before_left_hyphen_source`,
  `raw_after_right_hyphen_source` and the three former counterexamples as evaluated `example`s.
-/

/-! ## One node -/

/-- **C05 (a value is written verbatim).** An object whose expression evaluates to `v` (not nil in
    strict mode) and whose value is printed as the chunks `cs` (one `Write` of `writeObject` each;
    at least one): from EVERY state of the trim writer — any text pending, a right trim armed by a
    preceding `-}}`/`-%}` or not — the render of the object lets the pending text out unchanged,
    then the bytes of the value unchanged, ends normally, changes no variable, and leaves nothing
    pending and no trim armed (a following `{{-`/`{%-` finds nothing of the value to strip). -/
theorem object_writes_value_verbatim (c : RCtx) (line : Nat) (e : Expr) (s : RS) (v : GoVal) (cs : List Bytes)
    (hv : evaluate c.P s.env e = .ok v) (hs : (v.isNil && c.cfg.strict) = false)
    (hcs : c.O.chunks v = .ok cs) (hne : cs ≠ []) :
    (renderNode c (.obj line e) s).runPure =
      (s.tw.buf ++ cs.flatten, .ok (.done, ⟨s.env, ⟨[], false⟩⟩)) := by
  obtain ⟨env, B, t⟩ := s
  simp only [renderNode, wrapFailAt, M.mapFail, bind, M.bind, M.getEnv, Prog.bind, hv, M.ofRes, pure, M.pure, hs,
    Bool.false_eq_true, if_false, hcs, Prog.bind_assoc]
  rw [Prog.runPure_mapFail, Prog.runPure_bind, writeAll_runPure cs hne]
  simp [Prog.runPure]

/-- **C05 (a raw body is written verbatim).** A raw node with at least one slice, from EVERY state of
    the trim writer: the pending text goes out unchanged, then the slices unchanged; nothing is left
    pending, no trim armed. -/
theorem raw_writes_body_verbatim (c : RCtx) (slices : List Bytes) (hne : slices ≠ []) (s : RS) :
    (renderNode c (.raw slices) s).runPure =
      (s.tw.buf ++ slices.flatten, .ok (.done, ⟨s.env, ⟨[], false⟩⟩)) := by
  obtain ⟨env, B, t⟩ := s
  simp only [renderNode, wrapFailAt, M.mapFail, bind, M.bind, pure, M.pure]
  rw [Prog.runPure_mapFail, Prog.runPure_bind, writeAll_runPure slices hne]
  simp [Prog.runPure]

/-! ## In a sequence -/

/-- **C05 (value_bytes_not_trimmed).** For every context, all trees `A` and `B` — whatever trim nodes
    (hyphens) they contain, at their ends or anywhere —, every object and every start state: if `A`
    ends normally having written `outA` and leaving the state `s1` (its text `s1.tw.buf` still pending,
    possibly a right trim armed by a hyphen at the end of `A`), and the object prints its value as the
    chunks `cs` (at least one), then the sequence `A ++ [object] ++ B` puts out: what `A` wrote, what
    `A` left pending UNCHANGED, the bytes of the value UNCHANGED — contiguous, whatever hyphen ends `A`
    or begins `B` —, and then exactly what `B` renders from an EMPTY trim writer with the variables
    `A` left: nothing in `B` can reach the value, and no trim of `A` reaches past it. The sequence ends
    as `B` ends. -/
theorem value_bytes_not_trimmed (c : RCtx) (A B : List Node) (line : Nat) (e : Expr) (s0 s1 : RS) (outA : Bytes)
    (v : GoVal) (cs : List Bytes)
    (hA : (renderList c A s0).runPure = (outA, .ok (.done, s1)))
    (hv : evaluate c.P s1.env e = .ok v) (hs : (v.isNil && c.cfg.strict) = false)
    (hcs : c.O.chunks v = .ok cs) (hne : cs ≠ []) :
    (renderList c (A ++ .obj line e :: B) s0).runPure =
      (outA ++ s1.tw.buf ++ cs.flatten ++ (renderList c B ⟨s1.env, {}⟩).runPure.1,
       (renderList c B ⟨s1.env, {}⟩).runPure.2) := by
  rw [renderList_append_run c _ A s0 s1 outA hA, renderList_cons_apply, Prog.runPure_bind,
    object_writes_value_verbatim c line e s1 v cs hv hs hcs hne]
  simp only [List.append_assoc]

/-- **C05 (raw_bytes_not_trimmed).** The same for a raw block (at least one slice; the parser makes one
    slice per body token): in `A ++ [raw] ++ B` the body's bytes stand unchanged between everything `A`
    put out and what `B` renders from an empty trim writer. -/
theorem raw_bytes_not_trimmed (c : RCtx) (A B : List Node) (slices : List Bytes) (s0 s1 : RS) (outA : Bytes)
    (hA : (renderList c A s0).runPure = (outA, .ok (.done, s1))) (hne : slices ≠ []) :
    (renderList c (A ++ .raw slices :: B) s0).runPure =
      (outA ++ s1.tw.buf ++ slices.flatten ++ (renderList c B ⟨s1.env, {}⟩).runPure.1,
       (renderList c B ⟨s1.env, {}⟩).runPure.2) := by
  rw [renderList_append_run c _ A s0 s1 outA hA, renderList_cons_apply, Prog.runPure_bind,
    raw_writes_body_verbatim c slices hne s1]
  simp only [List.append_assoc]

/-! ## Whole templates -/

/-- **C05 (value_bytes_not_trimmed, whole templates).** If the template `A`, rendered on its own from
    the variables `env`, ends normally with the output `outA` and the variables `s1.env`, and the object
    prints its value (in those variables) as the chunks `cs` (at least one), then the template
    `A ++ [object] ++ B` renders exactly `outA`, the bytes of the value, and the output of the template
    `B` rendered on its own from the variables `A` left — for all trees `A` and `B`, whatever hyphens
    they hold — and ends as `B` ends. -/
theorem value_bytes_not_trimmed_root (c : RCtx) (A B : List Node) (line : Nat) (e : Expr) (env : Env) (s1 : RS)
    (outA : Bytes) (v : GoVal) (cs : List Bytes)
    (hA : (renderBlockBody c A ⟨env, {}⟩).runPure = (outA, .ok (.done, s1)))
    (hv : evaluate c.P s1.env e = .ok v) (hs : (v.isNil && c.cfg.strict) = false)
    (hcs : c.O.chunks v = .ok cs) (hne : cs ≠ []) :
    (renderRoot c (A ++ .obj line e :: B) env).runPure =
      (outA ++ cs.flatten ++ (renderRoot c B s1.env).runPure.1, (renderRoot c B s1.env).runPure.2) := by
  obtain ⟨o, s', hl, rfl, henv⟩ := blockBody_done_list c A _ s1 outA hA
  rw [henv] at hv ⊢
  have hX : (renderList c (A ++ [.obj line e]) ⟨env, {}⟩).runPure =
      (o ++ s'.tw.buf ++ cs.flatten, .ok (.done, ⟨s'.env, {}⟩)) := by
    have := value_bytes_not_trimmed c A [] line e _ s' o v cs hl hv hs hcs hne
    simpa [renderList, pure, M.pure, Prog.runPure] using this
  have := renderRoot_of_prefix c (A ++ [.obj line e]) B env _ s'.env hX
  simpa [List.append_assoc] using this

/-- **C05 (raw_bytes_not_trimmed, whole templates).** -/
theorem raw_bytes_not_trimmed_root (c : RCtx) (A B : List Node) (slices : List Bytes) (env : Env) (s1 : RS)
    (outA : Bytes) (hA : (renderBlockBody c A ⟨env, {}⟩).runPure = (outA, .ok (.done, s1))) (hne : slices ≠ []) :
    (renderRoot c (A ++ .raw slices :: B) env).runPure =
      (outA ++ slices.flatten ++ (renderRoot c B s1.env).runPure.1, (renderRoot c B s1.env).runPure.2) := by
  obtain ⟨o, s', hl, rfl, henv⟩ := blockBody_done_list c A _ s1 outA hA
  rw [henv]
  have hX : (renderList c (A ++ [.raw slices]) ⟨env, {}⟩).runPure =
      (o ++ s'.tw.buf ++ slices.flatten, .ok (.done, ⟨s'.env, {}⟩)) := by
    have := raw_bytes_not_trimmed c A [] slices _ s' o hl hne
    simpa [renderList, pure, M.pure, Prog.runPure] using this
  have := renderRoot_of_prefix c (A ++ [.raw slices]) B env _ s'.env hX
  simpa [List.append_assoc] using this

/-! ## Directly between two hyphens -/

/-- **C05 (a string value between two hyphens).** `… -}}{{ x }}{{- …`: a right trim marker, an object
    whose variable holds the string `b`, a left trim marker — from every state of the trim writer
    (text `s.tw.buf` pending), for every output layer that prints a string as one write of its bytes
    (`stdOut_str`): the pending text and `b` go out byte for byte, the left trim issues its one (empty)
    call, nothing is pending afterwards. Leading and trailing white space of `b` included. -/
theorem string_value_between_hyphens (c : RCtx) (hO : ∀ b, c.O.chunks (.str b) = .ok [b]) (line : Nat) (x b : Bytes)
    (s : RS) (hx : s.env.get x = .str b) :
    (renderList c [.trim false, .obj line (.var x), .trim true] s).runPure =
      (s.tw.buf ++ b, .ok (.done, ⟨s.env, ⟨[], false⟩⟩)) := by
  obtain ⟨env, B, t⟩ := s
  have hev : evaluate c.P env (.var x) = .ok (.str b) := by
    simp only [evaluate, eval]; simp only at hx; rw [hx]; rfl
  have h1 : (renderList c [.trim false] ⟨env, B, t⟩).runPure = ([], .ok (.done, ⟨env, B, true⟩)) := by
    simp [renderList, renderNode, trimRightM, bind, M.bind, pure, M.pure, Prog.bind, Prog.runPure]
  have := value_bytes_not_trimmed c [.trim false] [.trim true] line (.var x) _ _ _ (.str b) [b] h1 hev
    (by simp [GoVal.isNil]) (hO b) (by simp)
  simp only [List.cons_append, List.nil_append] at this
  rw [this]
  have htr : trimRightSpace ([] : Bytes) = [] := by decide
  simp [renderList, renderNode, trimLeftM, wrapFailAt, M.mapFail, bind, M.bind, pure, M.pure, Prog.bind, Prog.mapFail,
    Prog.runPure, htr]

/-- **C05 (a raw body between two hyphens).** -/
theorem raw_body_between_hyphens (c : RCtx) (slices : List Bytes) (hne : slices ≠ []) (s : RS) :
    (renderList c [.trim false, .raw slices, .trim true] s).runPure =
      (s.tw.buf ++ slices.flatten, .ok (.done, ⟨s.env, ⟨[], false⟩⟩)) := by
  obtain ⟨env, B, t⟩ := s
  have h1 : (renderList c [.trim false] ⟨env, B, t⟩).runPure = ([], .ok (.done, ⟨env, B, true⟩)) := by
    simp [renderList, renderNode, trimRightM, bind, M.bind, pure, M.pure, Prog.bind, Prog.runPure]
  have := raw_bytes_not_trimmed c [.trim false] [.trim true] slices _ _ _ h1 hne
  simp only [List.cons_append, List.nil_append] at this
  rw [this]
  have htr : trimRightSpace ([] : Bytes) = [] := by decide
  simp [renderList, renderNode, trimLeftM, wrapFailAt, M.mapFail, bind, M.bind, pure, M.pure, Prog.bind, Prog.mapFail,
    Prog.runPure, htr]

/-! ## From source bytes -/

/-- **C05 (a string value, from every state).** An object that prints a variable bound to the string `b`, for
    every output layer that prints a string as one write of its bytes: whatever text `B` is pending and whether a
    right trim is armed, `B` and `b` go out unchanged and nothing stays pending. -/
theorem string_value_written_verbatim (c : RCtx) (hO : ∀ b, c.O.chunks (.str b) = .ok [b]) (line : Nat) (x b : Bytes) (env : Env)
    (B : Bytes) (t : Bool) (hx : env.get x = .str b) :
    (renderNode c (.obj line (.var x)) ⟨env, ⟨B, t⟩⟩).runPure = (B ++ b, .ok (.done, ⟨env, ⟨[], false⟩⟩)) := by
  have hev : evaluate c.P env (.var x) = .ok (.str b) := by
    simp only [evaluate, eval]; rw [hx]; rfl
  simpa using object_writes_value_verbatim c line (.var x) ⟨env, ⟨B, t⟩⟩ (.str b) [b] hev (by simp [GoVal.isNil]) (hO b) (by simp)

/-- `{{ x -}}{{ s }}` -/
def c05vRight : List Item := [.obj [120] false true [32] [32], .obj [115] false false [32] [32]]
/-- `{{ s }}{{- x }}` -/
def c05vLeft : List Item := [.obj [115] false false [32] [32], .obj [120] true false [32] [32]]
/-- `{{ x -}}{% raw %}␠␠y{% endraw %}` -/
def c05vRaw : List Item := [.obj [120] false true [32] [32], .tag rawName [] false false [32] [] [32], .text [32, 32, 121],
  .tag endrawName [] false false [32] [] [32]]
/-- `{% raw %}y␠␠{% endraw %}{{- x }}` -/
def c05vRawLeft : List Item := [.tag rawName [] false false [32] [] [32], .text [121, 32, 32],
  .tag endrawName [] false false [32] [] [32], .obj [120] true false [32] [32]]

example : spell Delims.default c05vRight = [123, 123, 32, 120, 32, 45, 125, 125, 123, 123, 32, 115, 32, 125, 125] ∧
    spell Delims.default c05vLeft = [123, 123, 32, 115, 32, 125, 125, 123, 123, 45, 32, 120, 32, 125, 125] ∧
    spell Delims.default c05vRaw = [123, 123, 32, 120, 32, 45, 125, 125, 123, 37, 32, 114, 97, 119, 32, 37, 125, 32, 32, 121,
      123, 37, 32, 101, 110, 100, 114, 97, 119, 32, 37, 125] ∧
    spell Delims.default c05vRawLeft = [123, 37, 32, 114, 97, 119, 32, 37, 125, 121, 32, 32,
      123, 37, 32, 101, 110, 100, 114, 97, 119, 32, 37, 125, 123, 123, 45, 32, 120, 32, 125, 125] := by decide

theorem c05vRight_compiles : compileSource [] (spell Delims.default c05vRight) 1 =
    .ok [.obj 1 (.var [120]), .trim false, .obj 1 (.var [115])] :=
  (compileSource_spell [] c05vRight 1 (by decide) (by decide)).trans (by rfl)

theorem c05vLeft_compiles : compileSource [] (spell Delims.default c05vLeft) 1 =
    .ok [.obj 1 (.var [115]), .trim true, .obj 1 (.var [120])] :=
  (compileSource_spell [] c05vLeft 1 (by decide) (by decide)).trans (by rfl)

theorem c05vRaw_compiles : compileSource [] (spell Delims.default c05vRaw) 1 =
    .ok [.obj 1 (.var [120]), .trim false, .raw [[32, 32, 121]]] :=
  (compileSource_spell [] c05vRaw 1 (by decide) (by decide)).trans (by rfl)

theorem c05vRawLeft_compiles : compileSource [] (spell Delims.default c05vRawLeft) 1 =
    .ok [.raw [[121, 32, 32]], .trim true, .obj 1 (.var [120])] :=
  (compileSource_spell [] c05vRawLeft 1 (by decide) (by decide)).trans (by rfl)

/-- **C05 (value_after_right_hyphen_source).** The source `{{ x -}}{{ s }}`, for every value layer, every
    output layer that prints a string as one write of its bytes (the standard one: `stdOut_str`), every
    file system, include depth and environment in which `x` and `s` are bound to strings `xv` and `sv` —
    ANY bytes, leading and trailing white space included: the whole pipeline `run` (tokenizer, block
    parser, compiler, renderer) returns exactly `xv ++ sv`. Before the repair the right hyphen of the
    first object stripped the leading white space of `sv`. -/
theorem value_after_right_hyphen_source (P : Prims) (O : OutPrims) (hO : ∀ b, O.chunks (.str b) = .ok [b]) (fs : FS)
    (fuel : Nat) (env : Env) (xv sv : Bytes) (hx : env.get [120] = .str xv) (hs : env.get [115] = .str sv) :
    run P O {} fs fuel (spell Delims.default c05vRight) 1 env = .ok (xv ++ sv) := by
  rw [run_eq_runCompiled]
  show runCompiled P O {} fs fuel (compileSource [] (spell Delims.default c05vRight) 1) env = _
  rw [c05vRight_compiles]
  show runRoot P O {} fs fuel _ env = _
  rw [runRoot_ok_iff, renderRoot_runPure]
  have hO' : ∀ b, (mkCtx P O {} fs fuel).O.chunks (.str b) = .ok [b] := hO
  simp only [renderList_cons_apply, Prog.runPure_bind, string_value_written_verbatim _ hO' _ _ _ _ _ _ hx, string_value_written_verbatim _ hO' _ _ _ _ _ _ hs,
    trimRight_node_run, renderList, pure, M.pure, Prog.runPure, final_flush_clear, List.nil_append, List.append_nil]

/-- **C05 (value_before_left_hyphen_source).** The source `{{ s }}{{- x }}` returns exactly `sv ++ xv`: the
    left hyphen of the second object finds nothing of the first value to strip. -/
theorem value_before_left_hyphen_source (P : Prims) (O : OutPrims) (hO : ∀ b, O.chunks (.str b) = .ok [b]) (fs : FS)
    (fuel : Nat) (env : Env) (xv sv : Bytes) (hx : env.get [120] = .str xv) (hs : env.get [115] = .str sv) :
    run P O {} fs fuel (spell Delims.default c05vLeft) 1 env = .ok (sv ++ xv) := by
  rw [run_eq_runCompiled]
  show runCompiled P O {} fs fuel (compileSource [] (spell Delims.default c05vLeft) 1) env = _
  rw [c05vLeft_compiles]
  show runRoot P O {} fs fuel _ env = _
  rw [runRoot_ok_iff, renderRoot_runPure]
  have hO' : ∀ b, (mkCtx P O {} fs fuel).O.chunks (.str b) = .ok [b] := hO
  have htr : trimRightSpace ([] : Bytes) = [] := by decide
  simp only [renderList_cons_apply, Prog.runPure_bind, string_value_written_verbatim _ hO' _ _ _ _ _ _ hx, string_value_written_verbatim _ hO' _ _ _ _ _ _ hs,
    trimLeft_node_run, htr, renderList, pure, M.pure, Prog.runPure, final_flush_clear, List.nil_append, List.append_nil]

/-- **C05 (raw_after_right_hyphen_source).** The source `{{ x -}}{% raw %}␠␠y{% endraw %}` returns `xv`, two
    blanks and `y`; `{% raw %}y␠␠{% endraw %}{{- x }}` returns `y`, two blanks and `xv`. -/
theorem raw_after_right_hyphen_source (P : Prims) (O : OutPrims) (hO : ∀ b, O.chunks (.str b) = .ok [b]) (fs : FS)
    (fuel : Nat) (env : Env) (xv : Bytes) (hx : env.get [120] = .str xv) :
    run P O {} fs fuel (spell Delims.default c05vRaw) 1 env = .ok (xv ++ [32, 32, 121]) ∧
    run P O {} fs fuel (spell Delims.default c05vRawLeft) 1 env = .ok ([121, 32, 32] ++ xv) := by
  have hO' : ∀ b, (mkCtx P O {} fs fuel).O.chunks (.str b) = .ok [b] := hO
  have htr : trimRightSpace ([] : Bytes) = [] := by decide
  constructor
  · rw [run_eq_runCompiled]
    show runCompiled P O {} fs fuel (compileSource [] (spell Delims.default c05vRaw) 1) env = _
    rw [c05vRaw_compiles]
    show runRoot P O {} fs fuel _ env = _
    rw [runRoot_ok_iff, renderRoot_runPure]
    simp only [renderList_cons_apply, Prog.runPure_bind, string_value_written_verbatim _ hO' _ _ _ _ _ _ hx, trimRight_node_run,
      raw_writes_body_verbatim _ _ (List.cons_ne_nil _ _), renderList, pure, M.pure, Prog.runPure, final_flush_clear,
      List.nil_append, List.append_nil, List.flatten_cons, List.flatten_nil]
  · rw [run_eq_runCompiled]
    show runCompiled P O {} fs fuel (compileSource [] (spell Delims.default c05vRawLeft) 1) env = _
    rw [c05vRawLeft_compiles]
    show runRoot P O {} fs fuel _ env = _
    rw [runRoot_ok_iff, renderRoot_runPure]
    simp only [renderList_cons_apply, Prog.runPure_bind, string_value_written_verbatim _ hO' _ _ _ _ _ _ hx, trimLeft_node_run, htr,
      raw_writes_body_verbatim _ _ (List.cons_ne_nil _ _), renderList, pure, M.pure, Prog.runPure, final_flush_clear,
      List.nil_append, List.append_nil, List.flatten_cons, List.flatten_nil]

/-! ## The former counterexamples, evaluated (standard value and output layers) -/

/-- `{{ x -}}{{ s }}` with `x = "X"`, `s = "␠␠s"` renders `X␠␠s` (was `Xs`) -/
example (fs : FS) (fuel : Nat) :
    run stdPrims stdOut {} fs fuel [123, 123, 32, 120, 32, 45, 125, 125, 123, 123, 32, 115, 32, 125, 125] 1
      [([120], .str [88]), ([115], .str [32, 32, 115])] = .ok [88, 32, 32, 115] :=
  value_after_right_hyphen_source stdPrims stdOut stdOut_str fs fuel _ [88] [32, 32, 115] rfl rfl

/-- `{{ s }}{{- x }}` with `s = "s␠␠"` renders `s␠␠X` (was `sX`) -/
example (fs : FS) (fuel : Nat) :
    run stdPrims stdOut {} fs fuel [123, 123, 32, 115, 32, 125, 125, 123, 123, 45, 32, 120, 32, 125, 125] 1
      [([120], .str [88]), ([115], .str [115, 32, 32])] = .ok [115, 32, 32, 88] :=
  value_before_left_hyphen_source stdPrims stdOut stdOut_str fs fuel _ [88] [115, 32, 32] rfl rfl

/-- `{{ x -}}{% raw %}␠␠y{% endraw %}` renders `X␠␠y` (was `Xy`) -/
example (fs : FS) (fuel : Nat) :
    run stdPrims stdOut {} fs fuel [123, 123, 32, 120, 32, 45, 125, 125, 123, 37, 32, 114, 97, 119, 32, 37, 125, 32, 32, 121,
      123, 37, 32, 101, 110, 100, 114, 97, 119, 32, 37, 125] 1 [([120], .str [88])] = .ok [88, 32, 32, 121] :=
  (raw_after_right_hyphen_source stdPrims stdOut stdOut_str fs fuel _ [88] rfl).1

/-! ## Non-vacuity of the sequence theorems on concrete trees -/

/-- `value_bytes_not_trimmed_root` with `A` = `a␠{{ x -}}` (a text, an object, a right hyphen), the value
    `␠s␠`, `B` = `{{- x }}␠b` (a left hyphen, an object, a text): `a␠X`, then `␠s␠` unchanged, then `X␠b` -/
example : (renderRoot demoCtx ([.text 1 [97, 32], .obj 1 (.var [120]), .trim false] ++ .obj 1 (.var [115]) ::
      [.trim true, .obj 1 (.var [120]), .text 1 [32, 98]]) [([120], .str [88]), ([115], .str [32, 115, 32])]).runPure =
    ([97, 32, 88] ++ [[32, 115, 32]].flatten ++ [88, 32, 98], .ok .done) := by
  have hA : (renderBlockBody demoCtx [.text 1 [97, 32], .obj 1 (.var [120]), .trim false]
      ⟨[([120], .str [88]), ([115], .str [32, 115, 32])], {}⟩).runPure =
      ([97, 32, 88], .ok (.done, ⟨[([120], .str [88]), ([115], .str [32, 115, 32])], ⟨[], true⟩⟩)) := by
    simp [renderBlockBody, renderList, renderNode, wrapFailAt, M.mapFail, M.bind, M.pure, writeM, trimRightM, flushM,
      Prog.bind, Prog.mapFail, Prog.runPure, bind, pure, demoCtx, M.getEnv, M.ofRes, evaluate, eval, Env.get,
      GoVal.toLiquid, GoVal.unwrap, GoVal.isNil, demoOut, writeAllM, writeVerbatimM]
  have hB : (renderRoot demoCtx [.trim true, .obj 1 (.var [120]), .text 1 [32, 98]]
      [([120], .str [88]), ([115], .str [32, 115, 32])]).runPure = ([88, 32, 98], .ok .done) := by
    have htr : trimRightSpace ([] : Bytes) = [] := by decide
    simp [renderRoot, renderList, renderNode, wrapFailAt, M.mapFail, M.bind, M.pure, writeM, trimLeftM, flushM,
      Prog.bind, Prog.mapFail, Prog.runPure, bind, pure, demoCtx, M.getEnv, M.ofRes, evaluate, eval, Env.get,
      GoVal.toLiquid, GoVal.unwrap, GoVal.isNil, demoOut, writeAllM, writeVerbatimM, htr]
  have := value_bytes_not_trimmed_root demoCtx _ [.trim true, .obj 1 (.var [120]), .text 1 [32, 98]] 1 (.var [115]) _ _ _
    (.str [32, 115, 32]) [[32, 115, 32]] hA (by simp [evaluate, eval, Env.get, GoVal.toLiquid, GoVal.unwrap]) rfl rfl (by simp)
  rw [this, hB]

/-- `raw_bytes_not_trimmed_root` with `A` = `{{ x -}}`, the body `␠y␠`, `B` = `{{- x }}` -/
example : (renderRoot demoCtx ([.obj 1 (.var [120]), .trim false] ++ .raw [[32, 121, 32]] :: [.trim true, .obj 1 (.var [120])])
      [([120], .str [88])]).runPure = ([88] ++ [[32, 121, 32]].flatten ++ [88], .ok .done) := by
  have hA : (renderBlockBody demoCtx [.obj 1 (.var [120]), .trim false] ⟨[([120], .str [88])], {}⟩).runPure =
      ([88], .ok (.done, ⟨[([120], .str [88])], ⟨[], true⟩⟩)) := by
    simp [renderBlockBody, renderList, renderNode, wrapFailAt, M.mapFail, M.bind, M.pure, writeM, trimRightM, flushM,
      Prog.bind, Prog.mapFail, Prog.runPure, bind, pure, demoCtx, M.getEnv, M.ofRes, evaluate, eval, Env.get,
      GoVal.toLiquid, GoVal.unwrap, GoVal.isNil, demoOut, writeAllM, writeVerbatimM]
  have hB : (renderRoot demoCtx [.trim true, .obj 1 (.var [120])] [([120], .str [88])]).runPure = ([88], .ok .done) := by
    have htr : trimRightSpace ([] : Bytes) = [] := by decide
    simp [renderRoot, renderList, renderNode, wrapFailAt, M.mapFail, M.bind, M.pure, writeM, trimLeftM, flushM,
      Prog.bind, Prog.mapFail, Prog.runPure, bind, pure, demoCtx, M.getEnv, M.ofRes, evaluate, eval, Env.get,
      GoVal.toLiquid, GoVal.unwrap, GoVal.isNil, demoOut, writeAllM, writeVerbatimM, htr]
  have := raw_bytes_not_trimmed_root demoCtx _ [.trim true, .obj 1 (.var [120])] [[32, 121, 32]] _ _ _ hA (by simp)
  rw [this, hB]

/-- `string_value_between_hyphens` from a state with the text `a␠` pending and a right trim armed: `a␠` and `␠s␠` -/
example : (renderList demoCtx [.trim false, .obj 1 (.var [115]), .trim true]
      ⟨[([115], .str [32, 115, 32])], ⟨[97, 32], true⟩⟩).runPure =
    ([97, 32] ++ [32, 115, 32], .ok (.done, ⟨[([115], .str [32, 115, 32])], ⟨[], false⟩⟩)) :=
  string_value_between_hyphens demoCtx demoOut_str 1 [115] [32, 115, 32] _ rfl

example : (renderList demoCtx [.trim false, .raw [[32, 121, 32]], .trim true] ⟨[], ⟨[97, 32], true⟩⟩).runPure =
    ([97, 32] ++ [[32, 121, 32]].flatten, .ok (.done, ⟨[], ⟨[], false⟩⟩)) :=
  raw_body_between_hyphens demoCtx [[32, 121, 32]] (by simp) _
