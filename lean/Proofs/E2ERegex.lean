import Proofs.ScanLemmas
/-!
# The backtracking matcher on the pieces of the token pattern

Success lemmas ("if the continuation succeeds at the intended position, and the choices the
matcher prefers are the intended ones or fail, the expression succeeds with the same result") and
soundness lemmas ("a success of the expression is a success of the continuation at a position of
this shape") for literals, `-?`, `\s*`, `\w+`, the lazy `.+?` and the lazy exclusion loop.
-/

def AllP (pr : Pred) (ws : Bytes) : Prop := ∀ x ∈ ws, pr.test x = true

/-- the head of `t`, if any, fails `pr` -/
def HeadNot (pr : Pred) (t : Bytes) : Prop := ∀ x t', t = x :: t' → pr.test x = false

theorem headNot_nil (pr : Pred) : HeadNot pr [] := by intro x t' h; cases h

theorem headNot_cons {pr : Pred} {x : UInt8} {t : Bytes} (h : pr.test x = false) : HeadNot pr (x :: t) := by
  intro y t' e; cases e; exact h

theorem allP_nil (pr : Pred) : AllP pr [] := fun x hx => by cases hx

/-! ## One step of the matcher, as rewriting rules -/

theorem chr_m_nil {R} (mf : Nat) (pr : Pred) (p : Nat) (c : Caps) (k : K R) : (Re.chr pr).m mf [] p c k = none := rfl
theorem chr_m_cons {R} (mf : Nat) (pr : Pred) (x : UInt8) (xs : Bytes) (p : Nat) (c : Caps) (k : K R) :
    (Re.chr pr).m mf (x :: xs) p c k = if pr.test x then k xs (p + 1) c else none := rfl
theorem seq_m {R} (mf : Nat) (a b : Re) (s : Bytes) (p : Nat) (c : Caps) (k : K R) :
    (Re.seq a b).m mf s p c k = a.m mf s p c (fun s' p' c' => b.m mf s' p' c' k) := rfl
theorem alt_m {R} (mf : Nat) (a b : Re) (s : Bytes) (p : Nat) (c : Caps) (k : K R) :
    (Re.alt a b).m mf s p c k = (match a.m mf s p c k with | some r => some r | none => b.m mf s p c k) := rfl
theorem group_m {R} (mf : Nat) (i : Nat) (a : Re) (s : Bytes) (p : Nat) (c : Caps) (k : K R) :
    (Re.group i a).m mf s p c k = a.m mf s p c (fun s' p' c' => k s' p' (⟨i, p, p'⟩ :: c')) := rfl
theorem star_m {R} (mf : Nat) (g : Bool) (a : Re) (s : Bytes) (p : Nat) (c : Caps) (k : K R) :
    (Re.star g a).m mf s p c k = starLoop (fun s p c k => a.m mf s p c k) g mf s p c k := rfl
theorem eps_m {R} (mf : Nat) (s : Bytes) (p : Nat) (c : Caps) (k : K R) : Re.eps.m mf s p c k = k s p c := rfl

theorem starLoop_zero {R} (ma : Bytes → Nat → Caps → K R → Option R) (g : Bool) (s : Bytes) (p : Nat) (c : Caps) (k : K R) :
    starLoop ma g 0 s p c k = k s p c := rfl
theorem starLoop_succ_true {R} (ma : Bytes → Nat → Caps → K R → Option R) (n : Nat) (s : Bytes) (p : Nat) (c : Caps) (k : K R) :
    starLoop ma true (n + 1) s p c k =
      (match ma s p c (fun s' p' c' => if p < p' then starLoop ma true n s' p' c' k else none) with
       | some r => some r
       | none => k s p c) := rfl
theorem starLoop_succ_false {R} (ma : Bytes → Nat → Caps → K R → Option R) (n : Nat) (s : Bytes) (p : Nat) (c : Caps) (k : K R) :
    starLoop ma false (n + 1) s p c k =
      (match k s p c with
       | some r => some r
       | none => ma s p c (fun s' p' c' => if p < p' then starLoop ma false n s' p' c' k else none)) := rfl

/-! ## Literals -/

theorem lit_m_ok {R} (fuel : Nat) : ∀ (l t : Bytes) (p : Nat) (c : Caps) (k : K R),
    (Re.lit l).m fuel (l ++ t) p c k = k t (p + l.length) c := by
  intro l
  induction l with
  | nil => intro t p c k; simp [Re.lit, Re.m]
  | cons x xs ih =>
    intro t p c k
    have h1 : Re.lit (x :: xs) = Re.seq (.chr (.eq x)) (Re.lit xs) := by simp [Re.lit]
    rw [h1]
    simp only [Re.m, List.cons_append, Pred.test, beq_self_eq_true, if_true]
    rw [ih]
    simp [Nat.add_assoc, Nat.add_comm 1]

theorem lit_m_fail {R} (fuel : Nat) (l s : Bytes) (p : Nat) (c : Caps) (k : K R) (h : ¬ l <+: s) :
    (Re.lit l).m fuel s p c k = none := by
  cases hm : (Re.lit l).m fuel s p c k with
  | none => rfl
  | some r =>
    obtain ⟨t, ht, _⟩ := lit_m fuel l s p c k r hm
    exact absurd ⟨t, ht.symm⟩ h

/-! ## `-?` -/

theorem hy_m_take {R} (fuel : Nat) (t : Bytes) (p : Nat) (c : Caps) (k : K R) (r : R)
    (h : k t (p + 1) c = some r) : hy.m fuel (45 :: t) p c k = some r := by
  simp [hy, Re.opt, Re.m, Pred.test, h]

theorem hy_m_skip {R} (fuel : Nat) (s : Bytes) (p : Nat) (c : Caps) (k : K R)
    (h : HeadNot (.eq 45) s) : hy.m fuel s p c k = k s p c := by
  cases s with
  | nil => simp [hy, Re.opt, Re.m]
  | cons x xs =>
    have := h x xs rfl
    simp [hy, Re.opt, Re.m, this]

theorem hy_m_sound {R} (fuel : Nat) (s : Bytes) (p : Nat) (c : Caps) (k : K R) (r : R)
    (h : hy.m fuel s p c k = some r) :
    k s p c = some r ∨ ∃ t, s = 45 :: t ∧ k t (p + 1) c = some r := by
  simp only [hy, Re.opt, Re.m] at h
  split at h
  · next r' hr' =>
    cases h
    right
    split at hr'
    · cases hr'
    · next x xs =>
      split at hr'
      · next hx =>
        have : x = 45 := by simpa [Pred.test] using hx
        exact ⟨xs, by rw [this], hr'⟩
      · cases hr'
  · exact .inl h

/-! ## Greedy `[class]*` -/

/-- greedy star of a character class: takes the whole run when the continuation then succeeds -/
theorem starGreedy_all {R} (mf : Nat) (pr : Pred) (t : Bytes) (c : Caps) (k : K R) (r : R) (ht : HeadNot pr t) :
    ∀ (ws : Bytes) (n p : Nat), AllP pr ws → ws.length ≤ n → k t (p + ws.length) c = some r →
      starLoop (fun s p c k => (Re.chr pr).m mf s p c k) true n (ws ++ t) p c k = some r := by
  intro ws
  induction ws with
  | nil =>
    intro n p _ _ hk
    simp only [List.nil_append, List.length_nil, Nat.add_zero] at hk ⊢
    cases n with
    | zero => rw [starLoop_zero]; exact hk
    | succ n =>
      rw [starLoop_succ_true]
      have : (Re.chr pr).m mf t p c (fun s' p' c' => if p < p' then
          starLoop (fun s p c k => (Re.chr pr).m mf s p c k) true n s' p' c' k else none) = none := by
        cases t with
        | nil => rfl
        | cons x xs => rw [chr_m_cons, ht x xs rfl]; rfl
      rw [this]
      exact hk
  | cons w ws ih =>
    intro n p hall hn hk
    cases n with
    | zero => simp at hn
    | succ n =>
      have hw : pr.test w = true := hall w (List.mem_cons_self ..)
      rw [starLoop_succ_true]
      rw [List.cons_append, chr_m_cons, if_pos hw, if_pos (Nat.lt_succ_self p)]
      have := ih n (p + 1) (fun x hx => hall x (List.mem_cons_of_mem _ hx)) (by simpa using hn)
        (by simpa [Nat.add_assoc, Nat.add_comm 1] using hk)
      rw [this]

theorem sp_m_all {R} (fuel : Nat) (ws t : Bytes) (p : Nat) (c : Caps) (k : K R) (r : R)
    (hall : AllP .space ws) (ht : HeadNot .space t) (hf : ws.length ≤ fuel) (hk : k t (p + ws.length) c = some r) :
    sp.m fuel (ws ++ t) p c k = some r := by
  rw [sp, star_m]
  exact starGreedy_all fuel .space t c k r ht ws fuel p hall hf hk

/-- `[class]+` greedy -/
theorem plusGreedy_all {R} (fuel : Nat) (pr : Pred) (w : UInt8) (ws t : Bytes) (p : Nat) (c : Caps) (k : K R) (r : R)
    (hw : pr.test w = true) (hall : AllP pr ws) (ht : HeadNot pr t) (hf : ws.length ≤ fuel)
    (hk : k t (p + (ws.length + 1)) c = some r) :
    (Re.plus (.chr pr)).m fuel (w :: (ws ++ t)) p c k = some r := by
  rw [Re.plus, seq_m, chr_m_cons, if_pos hw, star_m]
  exact starGreedy_all fuel pr t c k r ht ws fuel (p + 1) hall hf (by simpa [Nat.add_assoc, Nat.add_comm 1] using hk)

/-- soundness: a greedy or lazy star of a class consumes a run of the class -/
theorem starClass_sound {R} (mf : Nat) (pr : Pred) (g : Bool) (c : Caps) (k : K R) (r : R) :
    ∀ (n : Nat) (s : Bytes) (p : Nat),
      starLoop (fun s p c k => (Re.chr pr).m mf s p c k) g n s p c k = some r →
      ∃ ws t, s = ws ++ t ∧ AllP pr ws ∧ k t (p + ws.length) c = some r := by
  intro n
  induction n with
  | zero => intro s p h; exact ⟨[], s, rfl, allP_nil pr, by simpa [starLoop] using h⟩
  | succ n ih =>
    intro s p h
    have hmore : (Re.chr pr).m mf s p c (fun s' p' c' => if p < p' then
        starLoop (fun s p c k => (Re.chr pr).m mf s p c k) g n s' p' c' k else none) = some r →
        ∃ ws t, s = ws ++ t ∧ AllP pr ws ∧ k t (p + ws.length) c = some r := by
      intro hr'
      cases s with
      | nil => rw [chr_m_nil] at hr'; cases hr'
      | cons x xs =>
        rw [chr_m_cons] at hr'
        split at hr'
        · next hx =>
          rw [if_pos (Nat.lt_succ_self p)] at hr'
          obtain ⟨ws, t, h1, h2, h3⟩ := ih xs (p + 1) hr'
          refine ⟨x :: ws, t, by rw [h1]; rfl, ?_, by simpa [Nat.add_assoc, Nat.add_comm 1] using h3⟩
          intro y hy
          rcases List.mem_cons.mp hy with rfl | hy
          · exact hx
          · exact h2 y hy
        · cases hr'
    cases g with
    | true =>
      rw [starLoop_succ_true] at h
      split at h
      · next r' hr' => cases h; exact hmore hr'
      · exact ⟨[], s, rfl, allP_nil pr, by simpa using h⟩
    | false =>
      rw [starLoop_succ_false] at h
      split at h
      · next r' hr' => cases h; exact ⟨[], s, rfl, allP_nil pr, by simpa using hr'⟩
      · exact hmore h

theorem sp_m_sound {R} (fuel : Nat) (s : Bytes) (p : Nat) (c : Caps) (k : K R) (r : R)
    (h : sp.m fuel s p c k = some r) :
    ∃ ws t, s = ws ++ t ∧ AllP .space ws ∧ k t (p + ws.length) c = some r := by
  rw [sp, star_m] at h
  exact starClass_sound fuel .space true c k r fuel s p h

/-! ## The closing part `\s*-?CLOSE` -/

def closer (l : Bytes) : Re := .seq sp (.seq hy (Re.lit l))

def hyB (b : Bool) : Bytes := if b then [45] else []

theorem hyB_length (b : Bool) : (hyB b).length = if b then 1 else 0 := by cases b <;> rfl

/-- a success of the closing part: white space, an optional hyphen, the delimiter -/
theorem closer_sound {R} (fuel : Nat) (l s : Bytes) (p : Nat) (c : Caps) (k : K R) (r : R)
    (h : (closer l).m fuel s p c k = some r) :
    ∃ ws b t, s = ws ++ (hyB b ++ (l ++ t)) ∧ AllP .space ws := by
  rw [closer, seq_m] at h
  obtain ⟨ws, t1, h1, h2, h3⟩ := sp_m_sound fuel s p c _ r h
  rw [seq_m] at h3
  rcases hy_m_sound fuel t1 _ c _ r h3 with h4 | ⟨t2, h4, h5⟩
  · obtain ⟨t, ht, _⟩ := lit_m fuel l t1 _ c k r h4
    exact ⟨ws, false, t, by rw [h1, ht]; rfl, h2⟩
  · obtain ⟨t, ht, _⟩ := lit_m fuel l t2 _ c k r h5
    exact ⟨ws, true, t, by rw [h1, h4, ht]; rfl, h2⟩

/-- the closing part on `ws -? CLOSE rest`, when the delimiter starts with neither white space nor a hyphen -/
theorem closer_ok {R} (fuel : Nat) (l ws rest : Bytes) (b : Bool) (p : Nat) (c : Caps) (k : K R) (r : R)
    (hall : AllP .space ws) (hf : ws.length ≤ fuel)
    (hl1 : HeadNot .space l) (hl2 : HeadNot (.eq 45) l) (hne : l ≠ [])
    (hk : k rest (p + (ws.length + ((hyB b).length + l.length))) c = some r) :
    (closer l).m fuel (ws ++ (hyB b ++ (l ++ rest))) p c k = some r := by
  rw [closer, seq_m]
  have hhead : HeadNot .space (hyB b ++ (l ++ rest)) := by
    cases b with
    | true => exact headNot_cons (by decide)
    | false =>
      intro x t' e
      cases l with
      | nil => exact absurd rfl hne
      | cons y ys => simp only [hyB, Bool.false_eq_true, if_false, List.nil_append, List.cons_append, List.cons.injEq] at e; exact hl1 x ys (by rw [e.1])
  refine sp_m_all fuel ws _ p c _ r hall hhead hf ?_
  rw [seq_m]
  cases b with
  | true =>
    simp only [hyB, if_true, List.singleton_append]
    refine hy_m_take fuel _ _ c _ r ?_
    rw [lit_m_ok]
    simpa [hyB, Nat.add_assoc] using hk
  | false =>
    simp only [hyB, Bool.false_eq_true, if_false, List.nil_append]
    rw [hy_m_skip]
    · rw [lit_m_ok]
      simpa [hyB, Nat.add_assoc] using hk
    · intro x t' e
      cases l with
      | nil => exact absurd rfl hne
      | cons y ys => simp only [List.cons_append, List.cons.injEq] at e; exact hl2 x ys (by rw [e.1])

/-! ## The lazy `(?s:.)+?` -/

theorem starLazy_any {R} (mf : Nat) (t : Bytes) (c : Caps) (k : K R) (r : R) :
    ∀ (u : Bytes) (n p : Nat), u.length ≤ n →
      (∀ i, i < u.length → k ((u ++ t).drop i) (p + i) c = none) → k t (p + u.length) c = some r →
      starLoop (fun s p c k => (Re.chr .any).m mf s p c k) false n (u ++ t) p c k = some r := by
  intro u
  induction u with
  | nil =>
    intro n p _ _ hk
    simp only [List.nil_append, List.length_nil, Nat.add_zero] at hk ⊢
    cases n with
    | zero => rw [starLoop_zero]; exact hk
    | succ n => rw [starLoop_succ_false, hk]
  | cons x u ih =>
    intro n p hn hnone hk
    cases n with
    | zero => simp at hn
    | succ n =>
      have h0 := hnone 0 (by simp)
      simp only [List.drop_zero, Nat.add_zero] at h0
      rw [starLoop_succ_false, h0]
      rw [List.cons_append, chr_m_cons]
      simp only [Pred.test, if_true, Nat.lt_succ_self]
      refine ih n (p + 1) (by simpa using hn) ?_ (by simpa [Nat.add_assoc, Nat.add_comm 1] using hk)
      intro i hi
      have := hnone (i + 1) (by simpa using hi)
      simpa [Nat.add_assoc, Nat.add_comm 1] using this

/-- `(.+?)` as a group: takes exactly `w` when the continuation fails after every shorter non-empty
    piece and succeeds after `w` -/
theorem plusLazy_any_group {R} (fuel : Nat) (gi : Nat) (x : UInt8) (u t : Bytes) (p : Nat) (c : Caps) (k : K R) (r : R)
    (hf : u.length ≤ fuel)
    (hnone : ∀ i, i < u.length → ∀ c', k ((u ++ t).drop i) (p + 1 + i) c' = none)
    (hk : k t (p + (u.length + 1)) (⟨gi, p, p + (u.length + 1)⟩ :: c) = some r) :
    (Re.group gi (Re.plusLazy (.chr .any))).m fuel (x :: (u ++ t)) p c k = some r := by
  rw [group_m, Re.plusLazy, seq_m, chr_m_cons, star_m]
  simp only [Pred.test, if_true]
  refine starLazy_any fuel t c _ r u fuel (p + 1) hf ?_ ?_
  · intro i hi; exact hnone i hi _
  · simpa [Nat.add_assoc, Nat.add_comm 1] using hk
