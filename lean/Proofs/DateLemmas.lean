import Proofs.StdNoPanicLemmas
import Liquid.Filters.Date
/-!
# Helper lemmas about `Liquid/Time.lean` and `Liquid/Filters/Date.lean`

* no `.panic` is reachable in the model of `tuesday.Strftime` and in the body of `date`;
* the calendar: one 400-year era (`yoeDoy`, `monthDay`), the shift by whole eras, the round trips
  between day numbers and civil dates, the ranges of the fields of a broken-down time.
-/

/-! ## no panic -/

namespace DateF

theorem np_ite {ε α} {c : Prop} [Decidable c] {a b : Res ε α} (ha : NoPanicRes a) (hb : NoPanicRes b) :
    NoPanicRes (if c then a else b) := by
  split <;> assumption

theorem numText_noPanic (c : UInt8) (fl w : Bytes) (n : Int) : NoPanicRes (numText c fl w n) := by
  unfold numText
  exact np_ite trivial trivial

theorem convertD_noPanic (t : Cal.Broken) (c : UInt8) (fl w : Bytes) : NoPanicRes (convertD t c fl w) := by
  unfold convertD
  repeat' apply np_ite
  all_goals trivial

theorem directive_noPanic (t : Cal.Broken) (d : Directive) : NoPanicRes (directive t d) := by
  unfold directive
  refine NoPanicRes.bind (convertD_noPanic _ _ _ _) (fun v => ?_)
  cases v with
  | str s => trivial
  | num n => exact NoPanicRes.bind (numText_noPanic _ _ _ _) (fun _ => trivial)

theorem strftimeAux_noPanic (t : Cal.Broken) : ∀ (n : Nat) (s : Bytes), NoPanicRes (strftimeAux t n s)
  | 0, _ => by rw [strftimeAux]; trivial
  | _ + 1, [] => by rw [strftimeAux]; trivial
  | n + 1, b :: r => by
    rw [strftimeAux]
    split
    · split
      · exact NoPanicRes.bind (directive_noPanic t _) (fun _ =>
          NoPanicRes.bind (strftimeAux_noPanic t n _) (fun _ => trivial))
      · exact NoPanicRes.bind (strftimeAux_noPanic t n r) (fun _ => trivial)
    · exact NoPanicRes.bind (strftimeAux_noPanic t n r) (fun _ => trivial)

theorem strftime_noPanic (t : Cal.Broken) (f : Bytes) : NoPanicRes (strftime t f) :=
  strftimeAux_noPanic t _ _

theorem args_time_fnstr {args : List Arg} (h : ArgsOK [.val .time, .fn .str] args) :
    ∃ u a, args = [.val (.time u), a] ∧ ArgOK (.fn .str) a := by
  obtain ⟨x, xs, rfl, h1, h2⟩ := h.cons_inv
  obtain ⟨y, ys, rfl, h3, h4⟩ := h2.cons_inv
  cases h4.nil_inv
  obtain ⟨v, rfl, ⟨u, rfl⟩⟩ := h1.val_inv
  exact ⟨u, y, rfl, h3⟩

/-- the body of `date` on the arguments `values.Call` hands it: a time and a string default function -/
theorem date_noPanic (args : List Arg) (h : ArgsOK [.val .time, .fn .str] args) : NoPanicRes (date args) := by
  obtain ⟨u, a, rfl, ha⟩ := args_time_fnstr h
  simp only [date]
  obtain ⟨hnp, hty⟩ := ha.call (dflt := .str defaultFormat) ⟨_, rfl⟩
  refine NoPanicRes.bind' hnp (fun v hv => ?_)
  obtain ⟨f, rfl⟩ := hty v hv
  simp only []
  split
  · exact NoPanicRes.bind (strftime_noPanic _ _) (fun _ => trivial)
  · trivial

end DateF

/-! ## the calendar -/

namespace Cal

/-- length of the March-based year `yoe` of an era: it ends with February of the civil year `yoe + 1` -/
def yearLenMarch (yoe : Nat) : Nat := if yoe % 4 = 3 ∧ (yoe % 100 ≠ 99 ∨ yoe % 400 = 399) then 366 else 365

/-- `yoeDoy` splits a day of the era into a year below 400 and a day of that year, exactly -/
theorem yoeDoy_spec (doe : Nat) (h : doe < 146097) :
    (yoeDoy doe).1 < 400 ∧ daysBeforeYoe (yoeDoy doe).1 + (yoeDoy doe).2 = doe ∧
    (yoeDoy doe).2 < yearLenMarch (yoeDoy doe).1 := by
  simp only [yoeDoy]
  generalize hc : min (doe / 36524) 3 = c
  have hc3 : c ≤ 3 := by omega
  have hdoc : 36524 * c ≤ doe ∧ doe - 36524 * c ≤ 36524 ∧ (doe - 36524 * c = 36524 → c = 3) := by omega
  generalize hdc : doe - 36524 * c = doc at *
  generalize hq : doc / 1461 = q
  have hq24 : q ≤ 24 := by omega
  have hdoq : 1461 * q ≤ doc ∧ doc - 1461 * q ≤ 1460 ∧ (q = 24 → doc - 1461 * q = 1460 → c = 3) := by omega
  generalize hdq : doc - 1461 * q = doq at *
  generalize ha : min (doq / 365) 3 = a
  have ha3 : a ≤ 3 := by omega
  have hy4 : (100 * c + 4 * q + a) / 4 = 25 * c + q := by omega
  have hy100 : (100 * c + 4 * q + a) / 100 = c := by omega
  have hm4 : (100 * c + 4 * q + a) % 4 = a := by omega
  have hm100 : (100 * c + 4 * q + a) % 100 = 4 * q + a := by omega
  have hm400 : (100 * c + 4 * q + a) % 400 = 100 * c + 4 * q + a := by omega
  simp only [daysBeforeYoe, yearLenMarch, hy4, hy100, hm4, hm100, hm400]
  refine ⟨by omega, by omega, ?_⟩
  split <;> omega

/-- and back -/
theorem yoeDoy_inv (yoe doy : Nat) (hy : yoe < 400) (hd : doy < yearLenMarch yoe) :
    daysBeforeYoe yoe + doy < 146097 ∧ yoeDoy (daysBeforeYoe yoe + doy) = (yoe, doy) := by
  obtain ⟨c, q, a, rfl, hc, hq, ha⟩ : ∃ c q a, yoe = 100 * c + 4 * q + a ∧ c ≤ 3 ∧ q ≤ 24 ∧ a ≤ 3 :=
    ⟨yoe / 100, yoe % 100 / 4, yoe % 4, by omega, by omega, by omega, by omega⟩
  have hy4 : (100 * c + 4 * q + a) / 4 = 25 * c + q := by omega
  have hy100 : (100 * c + 4 * q + a) / 100 = c := by omega
  have hm4 : (100 * c + 4 * q + a) % 4 = a := by omega
  have hm100 : (100 * c + 4 * q + a) % 100 = 4 * q + a := by omega
  have hm400 : (100 * c + 4 * q + a) % 400 = 100 * c + 4 * q + a := by omega
  simp only [yearLenMarch, hm4, hm100, hm400] at hd
  have hd' : doy ≤ 365 ∧ (doy = 365 → a = 3 ∧ (q ≠ 24 ∨ c = 3)) := by
    split at hd <;> omega
  simp only [daysBeforeYoe, hy4, hy100]
  have e : 365 * (100 * c + 4 * q + a) + (25 * c + q) - c + doy = 36524 * c + 1461 * q + 365 * a + doy := by omega
  rw [e]
  refine ⟨by omega, ?_⟩
  simp only [yoeDoy]
  have h1 : min ((36524 * c + 1461 * q + 365 * a + doy) / 36524) 3 = c := by omega
  rw [h1]
  have h2 : 36524 * c + 1461 * q + 365 * a + doy - 36524 * c = 1461 * q + 365 * a + doy := by omega
  rw [h2]
  have h3 : (1461 * q + 365 * a + doy) / 1461 = q := by omega
  rw [h3]
  have h4 : 1461 * q + 365 * a + doy - 1461 * q = 365 * a + doy := by omega
  rw [h4]
  have h5 : min ((365 * a + doy) / 365) 3 = a := by omega
  rw [h5]
  have h6 : 365 * a + doy - 365 * a = doy := by omega
  rw [h6]

/-! ### month and day of a March-based day of the year: by evaluation of the 366 days -/

def allLt (p : Nat → Bool) : Nat → Bool
  | 0 => true
  | n + 1 => p n && allLt p n

theorem allLt_spec {p : Nat → Bool} : ∀ {n}, allLt p n = true → ∀ i, i < n → p i = true
  | 0, _, i, hi => absurd hi (Nat.not_lt_zero i)
  | n + 1, h, i, hi => by
    simp only [allLt, Bool.and_eq_true] at h
    rcases Nat.lt_succ_iff_lt_or_eq.mp hi with hi | rfl
    · exact allLt_spec h.2 i hi
    · exact h.1

/-- what is checked for one day of the year (`daysInMonth 0`: the lengths with February 29,
    `daysInMonth 1`: with February 28) -/
def monthDayOK (doy : Nat) : Bool :=
  let md := monthDay doy
  decide (1 ≤ md.1 ∧ md.1 ≤ 12 ∧ 1 ≤ md.2 ∧ md.2 ≤ daysInMonth 0 md.1 ∧ doyOfMonthDay md.1 md.2 = doy ∧
    (doy < 365 → md.2 ≤ daysInMonth 1 md.1) ∧ (md.1 ≤ 2 ↔ 306 ≤ doy))

theorem monthDay_all : allLt monthDayOK 366 = true := by decide +kernel

theorem monthDay_spec (doy : Nat) (h : doy < 366) :
    1 ≤ (monthDay doy).1 ∧ (monthDay doy).1 ≤ 12 ∧ 1 ≤ (monthDay doy).2 ∧ (monthDay doy).2 ≤ daysInMonth 0 (monthDay doy).1 ∧
    doyOfMonthDay (monthDay doy).1 (monthDay doy).2 = doy ∧ (doy < 365 → (monthDay doy).2 ≤ daysInMonth 1 (monthDay doy).1) ∧
    ((monthDay doy).1 ≤ 2 ↔ 306 ≤ doy) := by
  have := allLt_spec monthDay_all doy h
  simp only [monthDayOK, decide_eq_true_eq] at this
  exact this

/-- the converse, for the 12 × 31 pairs -/
def dayMonthOK (k : Nat) : Bool :=
  let m := k / 32
  let d := k % 32
  decide (1 ≤ m → m ≤ 12 → 1 ≤ d → d ≤ daysInMonth 0 m →
    monthDay (doyOfMonthDay m d) = (m, d) ∧ doyOfMonthDay m d < 366 ∧ (d ≤ daysInMonth 1 m → doyOfMonthDay m d < 365))

theorem dayMonth_all : allLt dayMonthOK 416 = true := by decide +kernel

theorem dayMonth_spec (m d : Nat) (hm1 : 1 ≤ m) (hm : m ≤ 12) (hd1 : 1 ≤ d) (hd : d ≤ daysInMonth 0 m) :
    monthDay (doyOfMonthDay m d) = (m, d) ∧ doyOfMonthDay m d < 366 ∧ (d ≤ daysInMonth 1 m → doyOfMonthDay m d < 365) := by
  have hd31 : d ≤ 31 := by
    refine Nat.le_trans hd ?_
    unfold daysInMonth; split
    · split <;> decide
    · split <;> decide
  have := allLt_spec dayMonth_all (m * 32 + d) (by omega)
  simp only [dayMonthOK, decide_eq_true_eq] at this
  have e1 : (m * 32 + d) / 32 = m := by omega
  have e2 : (m * 32 + d) % 32 = d := by omega
  rw [e1, e2] at this
  exact this hm1 hm hd1 hd

end Cal

/-! ### whole eras, leap years -/

namespace Cal

theorem isLeap_iff (y : Int) : isLeap y = true ↔ y % 4 = 0 ∧ (y % 100 ≠ 0 ∨ y % 400 = 0) := by
  simp [isLeap]

/-- the March-based year `yoe` of an era has 366 days exactly when the civil year it ends in is a leap year -/
theorem yearLenMarch_leap (yoe : Nat) (era : Int) (h : yoe < 400) :
    yearLenMarch yoe = 366 ↔ isLeap ((yoe : Int) + era * 400 + 1) = true := by
  rw [isLeap_iff]
  unfold yearLenMarch
  split <;> omega

theorem yearLenMarch_le (yoe : Nat) : yearLenMarch yoe = 365 ∨ yearLenMarch yoe = 366 := by
  unfold yearLenMarch; split <;> simp

theorem daysInMonth_ne2 {m : Nat} (h : m ≠ 2) (y y' : Int) : daysInMonth y m = daysInMonth y' m := by
  unfold daysInMonth
  have : (m == 2) = false := by simpa using h
  simp only [this]
  rfl

theorem daysInMonth_feb (y : Int) : daysInMonth y 2 = if isLeap y then 29 else 28 := by
  simp [daysInMonth]

theorem daysInMonth_le_leap (y : Int) (m : Nat) : daysInMonth y m ≤ daysInMonth 0 m := by
  by_cases h : m = 2
  · subst h; rw [daysInMonth_feb, daysInMonth_feb]; split <;> decide
  · rw [daysInMonth_ne2 h y 0]; exact Nat.le_refl _

/-! ### the round trips -/

/-- `civilOfDays` with the era and the day of the era as parameters -/
def civilOfEraDoe (era : Int) (doe : Nat) : Int × Nat × Nat :=
  let yd := yoeDoy doe
  let md := monthDay yd.2
  ((yd.1 : Int) + era * 400 + (if md.1 ≤ 2 then 1 else 0), md.1, md.2)

theorem civilOfDays_eq (z : Int) :
    civilOfDays z = civilOfEraDoe ((z + 719468) / 146097) ((z + 719468) % 146097).toNat := rfl

/-- the date `(m, d)` = `monthDay doy` of the March-based year `yoe` of the era `era`: its day number and the bound on `d` -/
theorem civil_core (era : Int) (yoe doy m d : Nat) (hy : yoe < 400) (hdoy : doy < yearLenMarch yoe)
    (dmax : d ≤ daysInMonth 0 m) (hinv : doyOfMonthDay m d = doy) (hnl : doy < 365 → d ≤ daysInMonth 1 m) :
    daysOfCivil ((yoe : Int) + era * 400 + (if m ≤ 2 then 1 else 0)) m d =
      era * 146097 + ((daysBeforeYoe yoe + doy : Nat) : Int) - 719468 ∧
    d ≤ daysInMonth ((yoe : Int) + era * 400 + (if m ≤ 2 then 1 else 0)) m := by
  constructor
  · simp only [daysOfCivil]
    have e0 : (yoe : Int) + era * 400 + (if m ≤ 2 then 1 else 0) - (if m ≤ 2 then 1 else 0) = (yoe : Int) + era * 400 := by omega
    rw [e0]
    have e1 : ((yoe : Int) + era * 400) / 400 = era := by omega
    have e2 : (((yoe : Int) + era * 400) % 400).toNat = yoe := by omega
    rw [e1, e2, hinv]
  · by_cases h2 : m = 2
    · subst h2
      simp only [Nat.le_refl, if_true]
      have h28 : daysInMonth 1 2 = 28 := by decide
      have h29 : daysInMonth 0 2 = 29 := by decide
      rw [h28] at hnl
      rw [h29] at dmax
      by_cases h365 : doy < 365
      · have := hnl h365
        rw [daysInMonth_feb]; split <;> omega
      · have hl : yearLenMarch yoe = 366 := by rcases yearLenMarch_le yoe with h | h <;> omega
        have := (yearLenMarch_leap yoe era hy).mp hl
        rw [daysInMonth_feb, this]
        exact dmax
    · rw [daysInMonth_ne2 h2 _ 0]; exact dmax

theorem civilOfEraDoe_spec (era : Int) (doe : Nat) (hlt : doe < 146097) :
    daysOfCivil (civilOfEraDoe era doe).1 (civilOfEraDoe era doe).2.1 (civilOfEraDoe era doe).2.2 =
      era * 146097 + (doe : Int) - 719468 ∧
    1 ≤ (civilOfEraDoe era doe).2.1 ∧ (civilOfEraDoe era doe).2.1 ≤ 12 ∧ 1 ≤ (civilOfEraDoe era doe).2.2 ∧
    (civilOfEraDoe era doe).2.2 ≤ daysInMonth (civilOfEraDoe era doe).1 (civilOfEraDoe era doe).2.1 := by
  have hs := yoeDoy_spec doe hlt
  have hdoy366 : (yoeDoy doe).2 < 366 := by rcases yearLenMarch_le (yoeDoy doe).1 with h | h <;> omega
  have hm := monthDay_spec (yoeDoy doe).2 hdoy366
  have hc := civil_core era (yoeDoy doe).1 (yoeDoy doe).2 (monthDay (yoeDoy doe).2).1 (monthDay (yoeDoy doe).2).2
    hs.1 hs.2.2 hm.2.2.2.1 hm.2.2.2.2.1 hm.2.2.2.2.2.1
  rw [hs.2.1] at hc
  exact ⟨hc.1, hm.1, hm.2.1, hm.2.2.1, hc.2⟩

/-- **day number → civil date → day number** is the identity, for every integer day number -/
theorem daysOfCivil_civilOfDays (z : Int) :
    daysOfCivil (civilOfDays z).1 (civilOfDays z).2.1 (civilOfDays z).2.2 = z := by
  rw [civilOfDays_eq]
  have hlt : ((z + 719468) % 146097).toNat < 146097 := by omega
  rw [(civilOfEraDoe_spec _ _ hlt).1]
  omega

/-- **the fields of the civil date are in range**: 1 ≤ month ≤ 12, 1 ≤ day ≤ the length of that month in that year -/
theorem civil_ranges (z : Int) :
    1 ≤ (civilOfDays z).2.1 ∧ (civilOfDays z).2.1 ≤ 12 ∧ 1 ≤ (civilOfDays z).2.2 ∧
    (civilOfDays z).2.2 ≤ daysInMonth (civilOfDays z).1 (civilOfDays z).2.1 := by
  rw [civilOfDays_eq]
  have hlt : ((z + 719468) % 146097).toNat < 146097 := by omega
  exact (civilOfEraDoe_spec _ _ hlt).2

/-- **civil date → day number → civil date** is the identity on valid dates of every year -/
theorem civilOfDays_daysOfCivil (y : Int) (m d : Nat) (hm1 : 1 ≤ m) (hm : m ≤ 12) (hd1 : 1 ≤ d)
    (hd : d ≤ daysInMonth y m) : civilOfDays (daysOfCivil y m d) = (y, m, d) := by
  obtain ⟨hmd, hdoy366, hnl⟩ := dayMonth_spec m d hm1 hm hd1 (Nat.le_trans hd (daysInMonth_le_leap y m))
  simp only [daysOfCivil]
  generalize hy' : y - (if m ≤ 2 then 1 else 0) = y' at *
  generalize hyoe : (y' % 400).toNat = yoe
  have hyoe400 : yoe < 400 := by omega
  have hyy : (yoe : Int) + y' / 400 * 400 = y' := by omega
  have hlen : doyOfMonthDay m d < yearLenMarch yoe := by
    rcases yearLenMarch_le yoe with h | h
    · rw [h]
      apply hnl
      by_cases h2 : m = 2
      · subst h2
        have hnot : ¬ isLeap y = true := by
          intro hl
          have hyy1 : (yoe : Int) + y' / 400 * 400 + 1 = y := by simp at hy'; omega
          have := (yearLenMarch_leap yoe (y' / 400) hyoe400).mpr (by rw [hyy1]; exact hl)
          omega
        rw [daysInMonth_feb] at hd ⊢
        simp only [hnot] at hd
        exact hd
      · rw [daysInMonth_ne2 h2 1 y]; exact hd
    · omega
  obtain ⟨hdoe, hinv⟩ := yoeDoy_inv yoe (doyOfMonthDay m d) hyoe400 hlen
  simp only [civilOfDays]
  generalize hD : daysBeforeYoe yoe + doyOfMonthDay m d = doe at *
  have e1 : (y' / 400 * 146097 + (doe : Int) - 719468 + 719468) / 146097 = y' / 400 := by omega
  have e2 : ((y' / 400 * 146097 + (doe : Int) - 719468 + 719468) % 146097).toNat = doe := by omega
  rw [e1, e2, hinv]
  simp only [hmd]
  refine Prod.ext ?_ rfl
  simp only
  omega

/-! Non-vacuity: 2000-02-29 is day 11016, 1969-12-31 is day −1, 0000-03-01 is day −719468 -/
example : civilOfDays 11016 = (2000, 2, 29) ∧ daysOfCivil 2000 2 29 = 11016 := by decide +kernel
example : civilOfDays (-1) = (1969, 12, 31) ∧ daysOfCivil 0 3 1 = -719468 := by decide +kernel

/-! ### time of day, weekday -/

/-- **0 ≤ second of the day < 86400**, and day number and second of the day determine the instant -/
theorem secOfDay_lt (u : Int) : secOfDay u < 86400 ∧ u = u / 86400 * 86400 + (secOfDay u : Nat) := by
  unfold secOfDay; omega

theorem weekdayOfDays_lt (z : Int) : weekdayOfDays z < 7 := by
  unfold weekdayOfDays; omega

/-- a week later is the same weekday; the next day is the next weekday -/
theorem weekdayOfDays_succ (z : Int) : weekdayOfDays (z + 1) = (weekdayOfDays z + 1) % 7 := by
  unfold weekdayOfDays; omega

/-- the clock fields of a broken-down time are in range -/
theorem broken_clock (u : Int) :
    (broken u).hour < 24 ∧ (broken u).min < 60 ∧ (broken u).sec < 60 ∧ (broken u).wday < 7 ∧
    (u = (broken u).days * 86400 + ((broken u).hour * 3600 + (broken u).min * 60 + (broken u).sec : Nat)) := by
  have h := secOfDay_lt u
  simp only [broken]
  refine ⟨by omega, by omega, by omega, weekdayOfDays_lt _, ?_⟩
  omega

/-- the date fields of a broken-down time are the civil date of its day, in range -/
theorem broken_date (u : Int) :
    1 ≤ (broken u).month ∧ (broken u).month ≤ 12 ∧ 1 ≤ (broken u).day ∧
    (broken u).day ≤ daysInMonth (broken u).year (broken u).month ∧
    daysOfCivil (broken u).year (broken u).month (broken u).day = u / 86400 := by
  have h := civil_ranges (u / 86400)
  have h' := daysOfCivil_civilOfDays (u / 86400)
  simp only [broken]
  exact ⟨h.1, h.2.1, h.2.2.1, h.2.2.2, h'⟩

end Cal

/-! ## day of the year, ISO week -/

namespace Cal

/-- days from 0000-03-01 to March 1 of the (March-based) year `y`, for every integer year -/
def marchDays (y : Int) : Int := y / 400 * 146097 + (daysBeforeYoe (y % 400).toNat : Nat)

theorem daysOfCivil_eq (y : Int) (m d : Nat) :
    daysOfCivil y m d = marchDays (y - (if m ≤ 2 then 1 else 0)) + (doyOfMonthDay m d : Nat) - 719468 := by
  simp only [daysOfCivil, marchDays]
  omega

/-- consecutive March-based years are 365 or 366 days apart -/
theorem marchDays_succ (y : Int) : marchDays (y + 1) = marchDays y + (yearLenMarch (y % 400).toNat : Nat) := by
  simp only [marchDays]
  generalize hr : (y % 400).toNat = r
  have hr400 : r < 400 := by omega
  have hy : y = y / 400 * 400 + (r : Int) := by omega
  by_cases h399 : r = 399
  · have e1 : (y + 1) / 400 = y / 400 + 1 := by omega
    have e2 : ((y + 1) % 400).toNat = 0 := by omega
    rw [e1, e2, h399]
    have h1 : daysBeforeYoe 0 = 0 := by decide
    have h2 : daysBeforeYoe 399 = 145731 := by decide
    have h3 : yearLenMarch 399 = 366 := by decide
    rw [h1, h2, h3]
    omega
  · have e1 : (y + 1) / 400 = y / 400 := by omega
    have e2 : ((y + 1) % 400).toNat = r + 1 := by omega
    rw [e1, e2]
    simp only [daysBeforeYoe, yearLenMarch]
    split <;> omega


/-- 1970-01-01 … : January 1 of the year `y` -/
theorem daysOfCivil_jan1 (y : Int) : daysOfCivil y 1 1 = marchDays (y - 1) + 306 - 719468 := by
  rw [daysOfCivil_eq]
  have : doyOfMonthDay 1 1 = 306 := by decide
  simp [this]

/-- the day of the year of a valid date: between 1 and 365, or 366 in a leap year -/
theorem yday_bounds (y : Int) (m d : Nat) (hm1 : 1 ≤ m) (hm : m ≤ 12) (hd1 : 1 ≤ d) (hd : d ≤ daysInMonth y m) :
    0 ≤ daysOfCivil y m d - daysOfCivil y 1 1 ∧
    daysOfCivil y m d - daysOfCivil y 1 1 < (if isLeap y then 366 else 365) := by
  obtain ⟨_, hdoy366, hnl⟩ := dayMonth_spec m d hm1 hm hd1 (Nat.le_trans hd (daysInMonth_le_leap y m))
  rw [daysOfCivil_jan1, daysOfCivil_eq]
  have hlo := (monthDay_spec (doyOfMonthDay m d) hdoy366).2.2.2.2.2.2
  rw [(dayMonth_spec m d hm1 hm hd1 (Nat.le_trans hd (daysInMonth_le_leap y m))).1] at hlo
  simp only at hlo
  by_cases h2 : m ≤ 2
  · -- January, February: the same March-based year y − 1
    simp only [h2, if_true]
    have h306 := hlo.mp h2
    have hleap := yearLenMarch_leap ((y - 1) % 400).toNat ((y - 1) / 400) (by omega)
    have hyy : (((y - 1) % 400).toNat : Int) + (y - 1) / 400 * 400 + 1 = y := by omega
    rw [hyy] at hleap
    constructor
    · omega
    · split
      · omega
      · next hnl' =>
        have : doyOfMonthDay m d < 365 := by
          apply hnl
          by_cases hm2 : m = 2
          · subst hm2
            rw [daysInMonth_feb] at hd
            simp only [hnl'] at hd
            exact hd
          · rw [daysInMonth_ne2 hm2 1 y]; exact hd
        omega
  · -- March … December: the March-based year y, one year length after the year y − 1
    simp only [h2, if_false, Int.sub_zero]
    have h306 : doyOfMonthDay m d < 306 := by
      have : ¬ 306 ≤ doyOfMonthDay m d := fun h => h2 (hlo.mpr h)
      omega
    have hs := marchDays_succ (y - 1)
    have e : y - 1 + 1 = y := by omega
    rw [e] at hs
    have hleap := yearLenMarch_leap ((y - 1) % 400).toNat ((y - 1) / 400) (by omega)
    have hyy : (((y - 1) % 400).toNat : Int) + (y - 1) / 400 * 400 + 1 = y := by omega
    rw [hyy] at hleap
    rcases yearLenMarch_le ((y - 1) % 400).toNat with hl | hl
    · have : ¬ isLeap y = true := by intro h; have := hleap.mpr h; omega
      simp only [this]
      omega
    · have : isLeap y = true := hleap.mp hl
      simp only [this, if_true]
      omega


/-- **the day of the year** of a broken-down instant is between 1 and 365, 366 in a leap year -/
theorem broken_yday (u : Int) :
    1 ≤ (broken u).yday ∧ (broken u).yday ≤ (if isLeap (broken u).year then 366 else 365) := by
  obtain ⟨hm1, hm12, hd1, hdm, hdays⟩ := broken_date u
  have hb := yday_bounds (broken u).year (broken u).month (broken u).day hm1 hm12 hd1 hdm
  rw [hdays] at hb
  have hy : (broken u).yday = (u / 86400 - daysOfCivil (broken u).year 1 1).toNat + 1 := rfl
  rw [hy]
  cases hl : isLeap (broken u).year
  · simp only [hl, Bool.false_eq_true, if_false] at hb ⊢; omega
  · simp only [hl, if_true] at hb ⊢; omega

/-- **the ISO week number** is between 1 and 53 -/
theorem isoWeek_range (z : Int) : 1 ≤ (isoWeek z).2 ∧ (isoWeek z).2 ≤ 53 := by
  simp only [isoWeek]
  generalize hth : z + 3 - (((weekdayOfDays z + 6) % 7 : Nat) : Int) = th
  obtain ⟨hm1, hm12, hd1, hdm⟩ := civil_ranges th
  have hb := yday_bounds (civilOfDays th).1 (civilOfDays th).2.1 (civilOfDays th).2.2 hm1 hm12 hd1 hdm
  rw [daysOfCivil_civilOfDays] at hb
  split at hb <;> omega

end Cal

/-! ## `Strftime` returns a text (or leaves the model): it has no error result -/

namespace DateF

/-- a result that is a value or the `unmodelled` marker -/
def Total {α} (r : R α) : Prop := (∃ a, r = .ok a) ∨ (∃ w, r = .unmodelled w)

theorem total_ite {α} {c : Prop} [Decidable c] {a b : R α} (ha : Total a) (hb : Total b) : Total (if c then a else b) := by
  split <;> assumption

theorem total_ok {α} (a : α) : Total (.ok a : R α) := Or.inl ⟨a, rfl⟩
theorem total_unm {α} (w : String) : Total (.unmodelled w : R α) := Or.inr ⟨w, rfl⟩

theorem total_bind {α β} {x : R α} {f : α → R β} (hx : Total x) (hf : ∀ a, Total (f a)) : Total (x.bind f) := by
  rcases hx with ⟨a, rfl⟩ | ⟨w, rfl⟩
  · exact hf a
  · exact total_unm w

theorem numText_total (c : UInt8) (fl w : Bytes) (n : Int) : Total (numText c fl w n) := by
  unfold numText
  exact total_ite (total_unm _) (total_ok _)

theorem convertD_total (t : Cal.Broken) (c : UInt8) (fl w : Bytes) : Total (convertD t c fl w) := by
  unfold convertD
  repeat' apply total_ite
  all_goals first | exact total_ok _ | exact total_unm _

theorem directive_total (t : Cal.Broken) (d : Directive) : Total (directive t d) := by
  unfold directive
  refine total_bind (convertD_total _ _ _ _) (fun v => ?_)
  cases v with
  | str s => exact total_ok _
  | num n => exact total_bind (numText_total _ _ _ _) (fun _ => total_ok _)

theorem strftimeAux_total (t : Cal.Broken) : ∀ (n : Nat) (s : Bytes), Total (strftimeAux t n s)
  | 0, _ => by rw [strftimeAux]; exact total_ok _
  | _ + 1, [] => by rw [strftimeAux]; exact total_ok _
  | n + 1, b :: r => by
    rw [strftimeAux]
    split
    · split
      · exact total_bind (directive_total t _) (fun _ => total_bind (strftimeAux_total t n _) (fun _ => total_ok _))
      · exact total_bind (strftimeAux_total t n r) (fun _ => total_ok _)
    · exact total_bind (strftimeAux_total t n r) (fun _ => total_ok _)

theorem strftime_total (t : Cal.Broken) (f : Bytes) : Total (strftime t f) := strftimeAux_total t _ _

end DateF
