import Proofs.StdNoPanicLemmas
import Liquid.Filters.Date
/-!
# Helper lemmas about `Liquid/Time.lean` and `Liquid/Filters/Date.lean`

* no `.panic` is reachable in the model of `tuesday.Strftime` and in the body of `date`;
* the calendar: one 400-year era (`yoeDoy`, `monthDay`), the shift by whole eras, the round trips
  between day numbers and civil dates, the ranges of the fields of a broken-down time.
-/

/-! ## no panic -/

namespace DateF

theorem np_ite {ε α} {c : Prop} [Decidable c] {a b : Res ε α} (ha : NoPanicRes a) (hb : NoPanicRes b) :
    NoPanicRes (if c then a else b) := by
  split <;> assumption

theorem numText_noPanic (c : UInt8) (fl w : Bytes) (n : Int) : NoPanicRes (numText c fl w n) := by
  unfold numText
  exact np_ite trivial trivial

theorem convertD_noPanic (t : Cal.Broken) (c : UInt8) (fl w : Bytes) : NoPanicRes (convertD t c fl w) := by
  unfold convertD
  repeat' apply np_ite
  all_goals trivial

theorem directive_noPanic (t : Cal.Broken) (d : Directive) : NoPanicRes (directive t d) := by
  unfold directive
  refine NoPanicRes.bind (convertD_noPanic _ _ _ _) (fun v => ?_)
  cases v with
  | str s => trivial
  | num n => exact NoPanicRes.bind (numText_noPanic _ _ _ _) (fun _ => trivial)

theorem strftimeAux_noPanic (t : Cal.Broken) : ∀ (n : Nat) (s : Bytes), NoPanicRes (strftimeAux t n s)
  | 0, _ => by rw [strftimeAux]; trivial
  | _ + 1, [] => by rw [strftimeAux]; trivial
  | n + 1, b :: r => by
    rw [strftimeAux]
    split
    · split
      · exact NoPanicRes.bind (directive_noPanic t _) (fun _ =>
          NoPanicRes.bind (strftimeAux_noPanic t n _) (fun _ => trivial))
      · exact NoPanicRes.bind (strftimeAux_noPanic t n r) (fun _ => trivial)
    · exact NoPanicRes.bind (strftimeAux_noPanic t n r) (fun _ => trivial)

theorem strftime_noPanic (t : Cal.Broken) (f : Bytes) : NoPanicRes (strftime t f) :=
  strftimeAux_noPanic t _ _

theorem args_time_fnstr {args : List Arg} (h : ArgsOK [.val .time, .fn .str] args) :
    ∃ u a, args = [.val (.time u), a] ∧ ArgOK (.fn .str) a := by
  obtain ⟨x, xs, rfl, h1, h2⟩ := h.cons_inv
  obtain ⟨y, ys, rfl, h3, h4⟩ := h2.cons_inv
  cases h4.nil_inv
  obtain ⟨v, rfl, ⟨u, rfl⟩⟩ := h1.val_inv
  exact ⟨u, y, rfl, h3⟩

/-- the body of `date` on the arguments `values.Call` hands it: a time and a string default function -/
theorem date_noPanic (args : List Arg) (h : ArgsOK [.val .time, .fn .str] args) : NoPanicRes (date args) := by
  obtain ⟨u, a, rfl, ha⟩ := args_time_fnstr h
  simp only [date]
  obtain ⟨hnp, hty⟩ := ha.call (dflt := .str defaultFormat) ⟨_, rfl⟩
  refine NoPanicRes.bind' hnp (fun v hv => ?_)
  obtain ⟨f, rfl⟩ := hty v hv
  simp only []
  split
  · exact NoPanicRes.bind (strftime_noPanic _ _) (fun _ => trivial)
  · trivial

end DateF
