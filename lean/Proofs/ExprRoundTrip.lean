import Proofs.ExprShowParse
import Liquid.Eval
/-!
# Round trip between expression trees and their canonical text (helper statements for `Proofs/C08.lean`)

`Expr.toks e 0` is the canonical token list of `e`, `Expr.show e` its text (`Liquid/ExprShow.lean`).
Token level (proved for EVERY tree, no hypothesis): the parser returns `e` on `e.toks 0` (`parseTokensE_toks`,
`Proofs/ExprShowParse.lean`). Byte level: `parseExprSource e.show = .ok e` follows as soon as the scanner
reads `e.show` back as `e.toks 0` (`parse_show_of_lex`); that the scanner does so for every printable tree is
checked by the driver op `eshow` on every generated case and by the examples below, not proved in general.
-/

/-- the scanner reads the printed text back as the canonical tokens (decidable for a given tree) -/
def Expr.lexesBack (e : Expr) : Prop := lex e.show = (e.toks 0 ++ [.ch 59], none)

theorem parse_show_of_lex (e : Expr) (h : e.lexesBack) : parseExprSource e.show = .ok e := by
  unfold parseExprSource parseSource
  rw [h]
  simp only [parseTokensE_toks e]

/-- the canonical token list determines the tree -/
theorem toks_injective (e1 e2 : Expr) (h : e1.toks 0 = e2.toks 0) : e1 = e2 := by
  have h1 := parseTokensE_toks e1
  rw [h, parseTokensE_toks e2] at h1
  injection h1 with h1
  injection h1 with h1
  exact h1.symm

/-- the value of the re-parsed canonical tokens -/
def evalTokens (P : Prims) (env : Env) (ts : List ETok) : Option (Res Cause GoVal) :=
  match parseTokensE ts with
  | some (.expr e) => some (eval P env e)
  | _ => none

theorem evalTokens_toks (P : Prims) (env : Env) (e : Expr) :
    evalTokens P env (e.toks 0 ++ [.ch 59]) = some (eval P env e) := by
  unfold evalTokens; rw [parseTokensE_toks]

/-- the example tree: `a.b[1] | f: 'x"', -2 and (c or d.e contains "s")` -/
def rtExTree : Expr :=
  .and_ (.filter (.index (.prop (.var [97]) [98]) (.lit (.int .int 1))) [102] [.lit (.str [120, 34]), .lit (.int .int (-2))])
    (.or_ (.var [99]) (.rel .contains (.prop (.var [100]) [101]) (.lit (.str [115]))))

/-- its canonical text -/
def rtExText : Bytes :=
  [97, 46, 98, 91, 49, 93, 32, 124, 32, 102, 58, 32, 39, 120, 34, 39, 44, 32, 45, 50, 32, 97, 110, 100, 32, 40, 99, 32,
   111, 114, 32, 100, 46, 101, 32, 99, 111, 110, 116, 97, 105, 110, 115, 32, 34, 115, 34, 41]
