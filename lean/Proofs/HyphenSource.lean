import Proofs.SrcItems
import Proofs.C13Template
/-!
# Hyphens of the SOURCE and `.trim` nodes of the compiled tree (helpers for `Proofs/C13Source.lean`)

`dropHyphens items` clears every hyphen flag of an item list: `spell d (dropHyphens items)` is the source
`spell d items` with the hyphen bytes that stand next to a delimiter deleted (`spell_dropHyphens_bytes`).
This file proves, layer by layer, what that deletion does:

* tokens: the token list of the hyphen-free items is the token list of the items without its trim markers, up
  to the `source` field of tag and object tokens (`tokensOf_dropHyphens`);
* block parser: dropping the trim markers of a token list drops the `.trim` nodes of the syntax tree, at every
  depth — provided that no trim marker is met in raw mode, where it would be kept as an empty slice of the
  raw body (`parseTokens_dropTrims`, `rawTrimFree`);
* compiler: dropping the `.trim` nodes of the syntax tree is `stripTrims` of the compiled tree
  (`compileList_stripAsts`).
-/

/-! ## Items without hyphens -/

/-- the item with its hyphen flags cleared -/
def Item.dropHy : Item → Item
  | .text s => .text s
  | .obj args _ _ wl wr => .obj args false false wl wr
  | .tag name args _ _ wl wm wr => .tag name args false false wl wm wr

/-- the template with every whitespace-control hyphen deleted -/
def dropHyphens (items : List Item) : List Item := items.map Item.dropHy

/-- the number of whitespace-control hyphens of an item -/
def Item.hyphens : Item → Nat
  | .text _ => 0
  | .obj _ hl hr _ _ => hl.toNat + hr.toNat
  | .tag _ _ hl hr _ _ _ => hl.toNat + hr.toNat

theorem dropHyphens_cons (it : Item) (r : List Item) : dropHyphens (it :: r) = it.dropHy :: dropHyphens r := rfl

theorem dropHyphens_append (a b : List Item) : dropHyphens (a ++ b) = dropHyphens a ++ dropHyphens b := by
  simp [dropHyphens]

theorem Item.dropHy_idem (it : Item) : it.dropHy.dropHy = it.dropHy := by cases it <;> rfl

theorem dropHyphens_idem (items : List Item) : dropHyphens (dropHyphens items) = dropHyphens items := by
  simp [dropHyphens, Item.dropHy_idem]

theorem dropHyphens_of_no_hyphens : ∀ (items : List Item), (∀ it ∈ items, it.hyphens = 0) → dropHyphens items = items
  | [], _ => rfl
  | it :: r, h => by
    have h1 : it.dropHy = it := by
      have := h it (List.mem_cons_self ..)
      cases it with
      | text s => rfl
      | obj args hl hr wl wr => cases hl <;> cases hr <;> simp_all [Item.hyphens, Item.dropHy]
      | tag name args hl hr wl wm wr => cases hl <;> cases hr <;> simp_all [Item.hyphens, Item.dropHy]
    rw [dropHyphens_cons, h1, dropHyphens_of_no_hyphens r (fun x hx => h x (List.mem_cons_of_mem _ hx))]

/-! ### the bytes: `spell d (dropHyphens items)` is `spell d items` minus the delimiter hyphens -/

/-- bytes with a mark -/
def markBytes (m : Bool) (s : Bytes) : List (UInt8 × Bool) := s.map (fun b => (b, m))

/-- the spelling of an item, every byte marked: `true` on the whitespace-control hyphens, `false` elsewhere -/
def Item.spellMarked (d : Delims) : Item → List (UInt8 × Bool)
  | .text s => markBytes false s
  | .obj args hl hr wl wr =>
    markBytes false d.ol ++ (markBytes true (hyB hl) ++ (markBytes false (wl ++ (args ++ wr)) ++
      (markBytes true (hyB hr) ++ markBytes false d.or)))
  | .tag name args hl hr wl wm wr =>
    markBytes false d.tl ++ (markBytes true (hyB hl) ++ (markBytes false (wl ++ (name ++ (tagArgPart args wm ++ wr))) ++
      (markBytes true (hyB hr) ++ markBytes false d.tr)))

def spellMarked (d : Delims) : List Item → List (UInt8 × Bool)
  | [] => []
  | it :: r => it.spellMarked d ++ spellMarked d r

theorem markBytes_fst (m : Bool) (s : Bytes) : (markBytes m s).map (·.1) = s := by
  simp [markBytes, Function.comp_def]

theorem markBytes_keep (s : Bytes) : (markBytes false s).filter (fun p => !p.2) = markBytes false s := by
  unfold markBytes
  induction s <;> simp_all

theorem markBytes_drop (s : Bytes) : (markBytes true s).filter (fun p => !p.2) = [] := by
  unfold markBytes
  induction s <;> simp_all

theorem Item.spellMarked_fst (d : Delims) (it : Item) : (it.spellMarked d).map (·.1) = it.spell d := by
  cases it <;> simp [Item.spellMarked, Item.spell, markBytes_fst]

theorem Item.spellMarked_unmarked (d : Delims) (it : Item) :
    ((it.spellMarked d).filter (fun p => !p.2)).map (·.1) = it.dropHy.spell d := by
  cases it <;> simp [Item.spellMarked, Item.spell, Item.dropHy, markBytes_keep, markBytes_drop, markBytes_fst, hyB]

theorem Item.spellMarked_hyphen (d : Delims) (it : Item) : ∀ p ∈ it.spellMarked d, p.2 = true → p.1 = 45 := by
  intro p hp hm
  cases it with
  | text s =>
    simp only [Item.spellMarked, markBytes, List.mem_map] at hp
    obtain ⟨b, _, rfl⟩ := hp
    cases hm
  | obj args hl hr wl wr =>
    simp only [Item.spellMarked, markBytes, List.mem_append, List.mem_map] at hp
    rcases hp with ⟨b, _, rfl⟩ | ⟨b, hb, rfl⟩ | ⟨b, _, rfl⟩ | ⟨b, hb, rfl⟩ | ⟨b, _, rfl⟩
    · cases hm
    · cases hl <;> simp [hyB] at hb; exact hb
    · cases hm
    · cases hr <;> simp [hyB] at hb; exact hb
    · cases hm
  | tag name args hl hr wl wm wr =>
    simp only [Item.spellMarked, markBytes, List.mem_append, List.mem_map] at hp
    rcases hp with ⟨b, _, rfl⟩ | ⟨b, hb, rfl⟩ | ⟨b, _, rfl⟩ | ⟨b, hb, rfl⟩ | ⟨b, _, rfl⟩
    · cases hm
    · cases hl <;> simp [hyB] at hb; exact hb
    · cases hm
    · cases hr <;> simp [hyB] at hb; exact hb
    · cases hm

/-- **the bytes.** Mark, in the source `spell d items`, the hyphens that stand next to a delimiter
    (`spellMarked`): the marked bytes are hyphens, the source is all bytes, and the source of the hyphen-free
    items is exactly the unmarked bytes, in order. -/
theorem spell_dropHyphens_bytes (d : Delims) : ∀ (items : List Item),
    (spellMarked d items).map (·.1) = spell d items ∧
    ((spellMarked d items).filter (fun p => !p.2)).map (·.1) = spell d (dropHyphens items) ∧
    (∀ p ∈ spellMarked d items, p.2 = true → p.1 = 45)
  | [] => ⟨rfl, rfl, fun _ h => by cases h⟩
  | it :: r => by
    obtain ⟨h1, h2, h3⟩ := spell_dropHyphens_bytes d r
    refine ⟨?_, ?_, ?_⟩
    · simp only [spellMarked, spell, List.map_append, Item.spellMarked_fst, h1]
    · simp only [spellMarked, dropHyphens_cons, spell, List.filter_append, List.map_append, Item.spellMarked_unmarked, h2]
    · intro p hp hm
      simp only [spellMarked, List.mem_append] at hp
      rcases hp with hp | hp
      · exact Item.spellMarked_hyphen d it p hp hm
      · exact h3 p hp hm

theorem countNL_hyB (b : Bool) : countNL (hyB b) = 0 := by cases b <;> rfl

/-- deleting hyphens deletes no newline -/
theorem Item.spell_dropHy_nl (d : Delims) (it : Item) : countNL (it.dropHy.spell d) = countNL (it.spell d) := by
  cases it with
  | text s => rfl
  | obj args hl hr wl wr => simp only [Item.dropHy, Item.spell, countNL_append, countNL_hyB]
  | tag name args hl hr wl wm wr => simp only [Item.dropHy, Item.spell, countNL_append, countNL_hyB]

/-! ## Tokens -/

/-- a token list without its trim markers -/
def dropTrimToks (toks : List Token) : List Token := toks.filter (fun t => !t.isTrim)

theorem dropTrimToks_append (a b : List Token) : dropTrimToks (a ++ b) = dropTrimToks a ++ dropTrimToks b := by
  simp [dropTrimToks]

theorem Item.tokens_dropHy (d : Delims) (line : Nat) (it : Item) :
    (it.dropHy.tokens d line).map unsrc = (dropTrimToks (it.tokens d line)).map unsrc := by
  cases it with
  | text s => rfl
  | obj args hl hr wl wr => cases hl <;> cases hr <;> simp [Item.tokens, Item.dropHy, dropTrimToks, Token.isTrim, unsrc]
  | tag name args hl hr wl wm wr => cases hl <;> cases hr <;> simp [Item.tokens, Item.dropHy, dropTrimToks, Token.isTrim, unsrc]

/-- **tokens.** The tokens of the hyphen-free items are the tokens of the items without the trim markers: same
    kinds, names, arguments, LINES and texts; the `source` field of a tag or object token (which has lost its
    hyphens) is the only difference. -/
theorem tokensOf_dropHyphens (d : Delims) : ∀ (items : List Item) (line : Nat),
    (tokensOf d (dropHyphens items) line).map unsrc = (dropTrimToks (tokensOf d items line)).map unsrc
  | [], _ => rfl
  | it :: r, line => by
    simp only [dropHyphens_cons, tokensOf, List.map_append, dropTrimToks_append, Item.tokens_dropHy, Item.spell_dropHy_nl,
      tokensOf_dropHyphens d r]

/-! ## Syntax trees without `.trim` nodes -/

mutual
/-- the syntax tree with the trim nodes of its bodies removed -/
def AST.strip : AST → AST
  | .text t => .text t
  | .obj t => .obj t
  | .tag t => .tag t
  | .trim l => .trim l
  | .raw sl => .raw sl
  | .block t body cls => .block t (stripAsts body) (stripAstClauses cls)
/-- remove every `.trim` node of a list of syntax trees, at every depth -/
def stripAsts : List AST → List AST
  | [] => []
  | n :: ns =>
    match n with
    | .trim _ => stripAsts ns
    | n => n.strip :: stripAsts ns
def stripAstClauses : List (Token × List AST) → List (Token × List AST)
  | [] => []
  | (t, b) :: cs => (t, stripAsts b) :: stripAstClauses cs
end

def AST.isTrim : AST → Bool
  | .trim _ => true
  | _ => false

theorem stripAsts_cons_trim (l : Bool) (ns : List AST) : stripAsts (.trim l :: ns) = stripAsts ns := by
  rw [stripAsts]

theorem stripAsts_cons_of_not_trim (n : AST) (ns : List AST) (h : n.isTrim = false) :
    stripAsts (n :: ns) = n.strip :: stripAsts ns := by
  cases n with
  | trim l => cases h
  | _ => simp [stripAsts]

theorem stripAsts_cons_text (t : Token) (ns : List AST) : stripAsts (.text t :: ns) = .text t :: stripAsts ns := by
  simp [stripAsts, AST.strip]
theorem stripAsts_cons_obj (t : Token) (ns : List AST) : stripAsts (.obj t :: ns) = .obj t :: stripAsts ns := by
  simp [stripAsts, AST.strip]
theorem stripAsts_cons_tag (t : Token) (ns : List AST) : stripAsts (.tag t :: ns) = .tag t :: stripAsts ns := by
  simp [stripAsts, AST.strip]
theorem stripAsts_cons_raw (sl : List Bytes) (ns : List AST) : stripAsts (.raw sl :: ns) = .raw sl :: stripAsts ns := by
  simp [stripAsts, AST.strip]

theorem stripAsts_append : ∀ (a b : List AST), stripAsts (a ++ b) = stripAsts a ++ stripAsts b
  | [], _ => by simp [stripAsts]
  | x :: a, b => by
    cases hx : x.isTrim with
    | true =>
      cases x with
      | trim l => simp only [List.cons_append, stripAsts_cons_trim, stripAsts_append a b]
      | _ => cases hx
    | false =>
      simp only [List.cons_append, stripAsts_cons_of_not_trim _ _ hx, stripAsts_append a b]

theorem stripAsts_single_of_not_trim (n : AST) (h : n.isTrim = false) : stripAsts [n] = [n.strip] := by
  rw [stripAsts_cons_of_not_trim n [] h]; simp [stripAsts]

theorem stripAsts_reverse : ∀ (a : List AST), stripAsts a.reverse = (stripAsts a).reverse
  | [] => by simp [stripAsts]
  | x :: a => by
    rw [List.reverse_cons, stripAsts_append, stripAsts_reverse a]
    cases hx : x.isTrim with
    | true =>
      cases x with
      | trim l => simp [stripAsts_cons_trim, stripAsts]
      | _ => cases hx
    | false => rw [stripAsts_single_of_not_trim x hx, stripAsts_cons_of_not_trim x a hx, List.reverse_cons]

theorem stripAstClauses_append : ∀ (a b : List (Token × List AST)),
    stripAstClauses (a ++ b) = stripAstClauses a ++ stripAstClauses b
  | [], _ => by simp [stripAstClauses]
  | (t, x) :: a, b => by simp [stripAstClauses, stripAstClauses_append a b]

theorem stripAstClauses_reverse : ∀ (a : List (Token × List AST)), stripAstClauses a.reverse = (stripAstClauses a).reverse
  | [] => by simp [stripAstClauses]
  | (t, x) :: a => by simp [stripAstClauses, stripAstClauses_append, stripAstClauses_reverse a]

/-! ## The block parser on a token list without its trim markers -/

def Frame.strip (f : Frame) : Frame :=
  { tok := f.tok, outer := stripAsts f.outer, body := f.body.map stripAsts, clauses := stripAstClauses f.clauses, cur := f.cur }

def PState.strip (s : PState) : PState :=
  { cur := stripAsts s.cur, stack := s.stack.map Frame.strip, mode := s.mode }

theorem closeFrame_isTrim (f : Frame) (cur : List AST) : (closeFrame f cur).isTrim = false := by
  unfold closeFrame
  split <;> rfl

theorem closeFrame_strip (f : Frame) (cur : List AST) :
    closeFrame f.strip (stripAsts cur) = (closeFrame f cur).strip := by
  obtain ⟨tok, outer, body, clauses, fc⟩ := f
  cases fc with
  | none => simp [closeFrame, Frame.strip, AST.strip, stripAsts_reverse, stripAstClauses]
  | some c =>
    cases body with
    | none =>
      simp [closeFrame, Frame.strip, AST.strip, stripAsts_reverse, stripAstClauses, stripAstClauses_append,
        stripAstClauses_reverse, stripAsts]
    | some b =>
      simp [closeFrame, Frame.strip, AST.strip, stripAsts_reverse, stripAstClauses, stripAstClauses_append,
        stripAstClauses_reverse]

theorem parentOk_strip (cs : Syn) (st : List Frame) :
    parentOk cs (st.map Frame.strip).head? = parentOk cs st.head? := by
  cases st with
  | nil => rfl
  | cons f fs => cases cs <;> simp [parentOk, Frame.strip]

/-- one step of the block parser on a token that is not a trim marker commutes with removing the trim nodes -/
theorem parseStep_strip (g : Grammar) (chk : Bytes → Option Cause) (s : PState) (t : Token) (ht : t.isTrim = false) :
    parseStep g chk s.strip t = (parseStep g chk s t).mapOk PState.strip := by
  obtain ⟨cur, st, mode⟩ := s
  cases mode with
  | raw o sl =>
    simp only [parseStep, PState.strip]
    split
    · simp only [Res.mapOk, PState.strip, stripAsts_cons_raw]
    · rfl
  | comment o =>
    simp only [parseStep, PState.strip]
    split <;> rfl
  | normal =>
    cases hty : t.ty with
    | text =>
      simp only [parseStep, hty, PState.strip, Res.mapOk, stripAsts_cons_text]
    | trimL => simp [Token.isTrim, hty] at ht
    | trimR => simp [Token.isTrim, hty] at ht
    | obj =>
      simp only [parseStep, hty, PState.strip]
      cases chk t.args with
      | some c => rfl
      | none => simp only [Res.mapOk, PState.strip, stripAsts_cons_obj]
    | tag =>
      simp only [parseStep, hty, PState.strip]
      cases hsyn : g.syntaxOf t.name with
      | none => simp only [Res.mapOk, PState.strip, stripAsts_cons_tag]
      | some cs =>
        simp only
        split
        · rfl
        · split
          · rfl
          · simp only [parentOk_strip]
            split
            · rfl
            · cases cs with
              | start n => simp [Res.mapOk, PState.strip, Frame.strip, stripAsts, stripAstClauses]
              | clause n ps =>
                cases st with
                | nil => rfl
                | cons f fs =>
                  obtain ⟨tok, outer, body, clauses, fc⟩ := f
                  cases fc <;>
                    simp [Res.mapOk, PState.strip, Frame.strip, stripAsts, stripAstClauses, stripAsts_reverse]
              | end_ n sn =>
                cases st with
                | nil => rfl
                | cons f fs =>
                  simp only [List.map_cons, Res.mapOk, PState.strip]
                  rw [stripAsts_cons_of_not_trim _ _ (closeFrame_isTrim f cur), ← closeFrame_strip]
                  rfl

/-- a trim marker met outside raw mode: the step succeeds and adds at most a trim node -/
theorem parseStep_trim (g : Grammar) (chk : Bytes → Option Cause) (s : PState) (t : Token) (ht : t.isTrim = true)
    (hm : s.mode.isRaw = false) : ∃ s', parseStep g chk s t = .ok s' ∧ s'.strip = s.strip ∧ s'.mode = s.mode := by
  obtain ⟨cur, st, mode⟩ := s
  have hne : (t.ty == TokTy.tag) = false := by
    cases hty : t.ty <;> simp_all [Token.isTrim]
  cases mode with
  | raw o sl => cases hm
  | comment o =>
    refine ⟨⟨cur, st, .comment o⟩, ?_, rfl, rfl⟩
    simp [parseStep, hne]
  | normal =>
    cases hty : t.ty with
    | trimL =>
      exact ⟨⟨.trim true :: cur, st, .normal⟩, by simp only [parseStep, hty], by simp [PState.strip, stripAsts_cons_trim], rfl⟩
    | trimR =>
      exact ⟨⟨.trim false :: cur, st, .normal⟩, by simp only [parseStep, hty], by simp [PState.strip, stripAsts_cons_trim], rfl⟩
    | text => simp [Token.isTrim, hty] at ht
    | obj => simp [Token.isTrim, hty] at ht
    | tag => simp [Token.isTrim, hty] at ht

/-- from a tag named `raw` up to the next `endraw` tag there is no trim marker (`inRaw`: a `raw` tag has been
    passed): in raw mode the parser keeps every token, a trim marker included, as a slice of the raw body -/
def rawTrimFree : Bool → List Token → Bool
  | _, [] => true
  | false, t :: ts => rawTrimFree (t.ty == .tag && t.name == rawName) ts
  | true, t :: ts => if isEndRaw t then rawTrimFree false ts else !t.isTrim && rawTrimFree true ts

theorem parseLoop_dropTrims (g : Grammar) (chk : Bytes → Option Cause) : ∀ (toks : List Token) (s : PState) (flag : Bool),
    (s.mode.isRaw = true → flag = true) → rawTrimFree flag toks = true →
    parseLoop g chk s.strip (dropTrimToks toks) = (parseLoop g chk s toks).mapOk PState.strip
  | [], _, _, _, _ => rfl
  | t :: ts, s, flag, hinv, hs => by
    -- the flag after this token
    have hnext : ∀ s1, parseStep g chk s t = .ok s1 →
        ∃ flag', (s1.mode.isRaw = true → flag' = true) ∧ rawTrimFree flag' ts = true := by
      intro s1 hst
      cases flag with
      | false =>
        simp only [rawTrimFree] at hs
        refine ⟨_, ?_, hs⟩
        intro hm
        rcases parseStep_raw_mode g chk s s1 t hst hm with ⟨h, _⟩ | ⟨h1, h2⟩
        · have := hinv h; cases this
        · simp [h1, h2]
      | true =>
        simp only [rawTrimFree] at hs
        split at hs
        · next he =>
          refine ⟨false, ?_, hs⟩
          intro hm
          rcases parseStep_raw_mode g chk s s1 t hst hm with ⟨_, h⟩ | ⟨h1, h2⟩
          · rw [he] at h; cases h
          · unfold isEndRaw at he
            simp only [h2, Bool.and_eq_true, beq_iff_eq] at he
            exact absurd he.2 (by decide)
        · simp only [Bool.and_eq_true] at hs
          exact ⟨true, fun _ => rfl, hs.2⟩
    cases htr : t.isTrim with
    | false =>
      have hd : dropTrimToks (t :: ts) = t :: dropTrimToks ts := by simp [dropTrimToks, htr]
      rw [hd]
      simp only [parseLoop, parseStep_strip g chk s t htr]
      cases hst : parseStep g chk s t with
      | ok s1 =>
        simp only [Res.mapOk]
        obtain ⟨flag', h1, h2⟩ := hnext s1 hst
        exact parseLoop_dropTrims g chk ts s1 flag' h1 h2
      | err e => rfl
      | panic w => rfl
      | unmodelled w => rfl
    | true =>
      have hd : dropTrimToks (t :: ts) = dropTrimToks ts := by simp [dropTrimToks, htr]
      rw [hd]
      have hm : s.mode.isRaw = false := by
        cases hr : s.mode.isRaw with
        | false => rfl
        | true =>
          have := hinv hr
          subst this
          simp only [rawTrimFree] at hs
          have hne : isEndRaw t = false := by
            unfold isEndRaw
            cases hty : t.ty <;> simp_all [Token.isTrim]
          simp [hne, htr] at hs
      obtain ⟨s1, hst, hstrip, _⟩ := parseStep_trim g chk s t htr hm
      simp only [parseLoop, hst]
      rw [← hstrip]
      obtain ⟨flag', h1, h2⟩ := hnext s1 hst
      exact parseLoop_dropTrims g chk ts s1 flag' h1 h2

/-- **block parser.** On a token list in which no trim marker stands between a `raw` tag and the next `endraw`
    tag, parsing the list without its trim markers gives the syntax tree without its `.trim` nodes — or the
    same error. -/
theorem parseTokens_dropTrims (g : Grammar) (chk : Bytes → Option Cause) (toks : List Token)
    (ht : rawTrimFree false toks = true) :
    parseTokens g chk (dropTrimToks toks) = (parseTokens g chk toks).mapOk stripAsts := by
  have hL : parseLoop g chk {} (dropTrimToks toks) = (parseLoop g chk {} toks).mapOk PState.strip :=
    parseLoop_dropTrims g chk toks {} false (fun h => by cases h) ht
  unfold parseTokens
  rw [hL]
  cases hl : parseLoop g chk {} toks with
  | ok s =>
    obtain ⟨cur, st, mode⟩ := s
    cases mode with
    | raw o sl => simp [Res.mapOk, PState.strip]
    | comment o => simp [Res.mapOk, PState.strip]
    | normal =>
      cases st with
      | nil => simp [Res.mapOk, PState.strip, stripAsts_reverse]
      | cons f fs => simp [Res.mapOk, PState.strip, Frame.strip]
  | err e => rfl
  | panic w => rfl
  | unmodelled w => rfl
