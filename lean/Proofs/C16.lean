import Liquid.Filters.Str
import Proofs.Utf8Lemmas
/-! # C16 — string filters (theorems follow) -/

theorem append_spec (s x : Bytes) : StrF.append s x = s ++ x := rfl
