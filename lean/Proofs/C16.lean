import Proofs.StrLemmas
import Proofs.TrimLemmas
import Proofs.StrReplSplit
import Proofs.StrEscUrl
import Proofs.StrWords
import Proofs.StrValid
import Proofs.StrValidBasic
import Proofs.StrAscii
/-!
# C16 — string filters implement their documented functions on every string

Strings are `Bytes`; "characters" are the runes of `decodeRunes` (Go's `[]rune(s)`: every invalid
byte is one U+FFFD). `runeLen s = (decodeRunes s).length`, `ValidUtf8 s` = `s` is the UTF-8 encoding
of a list of scalar values. The models are those of `Liquid/Filters/Str.lean` (namespace `StrF`),
tied to `filters/standard_filters.go` by the `strf` stream. All theorems are for ALL byte strings
(no length bound), invalid UTF-8 included unless a hypothesis says otherwise.

Theorems named `…_partial` are about filters whose model is partial (`Option`): named HTML entities
outside `StrF.entityLookup` give `none` (the driver prints `unmodelled`); on those inputs nothing is
proved and only the run-time oracle checks the real code. The case filters are total: every rune is looked
up in the tables translator T6 regenerates from the toolchain (`upcase_total`, `downcase_total`,
`capitalize_total`); their `Option` type is historical.
-/

/-! ## append, prepend: concatenation -/

theorem append_spec (s x : Bytes) : StrF.append s x = s ++ x := rfl
theorem prepend_spec (s x : Bytes) : StrF.prepend s x = x ++ s := rfl

example : StrF.append [97] [195, 169] = [97, 195, 169] := by decide
example : StrF.prepend [97] [195, 169] = [195, 169, 97] := by decide

/-! ## upcase, downcase, capitalize: every string

The rune mapping is `unicode.ToUpper` / `unicode.ToLower` of the toolchain, as range tables regenerated on every run
(translator T6, `Liquid/Generated/CaseTables.lean`); what is used of the tables is computed over the ranges in
`Proofs/CaseTables.lean` (obligations `case_tables_wellformed`, `case_tables_idempotent`, `case_tables_round_trip`). -/

/-- the case filters answer on every byte string: there is no rune outside the model -/
theorem upcase_total (s : Bytes) : StrF.upcase s = some (StrF.upcaseT s) := upcase_eq s
theorem downcase_total (s : Bytes) : StrF.downcase s = some (StrF.downcaseT s) := downcase_eq s

/-- `capitalize` answers on every byte string: the upper-cased first rune, then the rest of the bytes -/
theorem capitalize_total (s : Bytes) (hs : s ≠ []) :
    StrF.capitalize s = some (encodeRune (toUpperRune (decodeRune s).1) ++ s.drop (decodeRune s).2) := by
  cases s with
  | nil => exact absurd rfl hs
  | cons b rest => rfl

/-- upper-casing twice is upper-casing once, for every byte string (Greek, Cyrillic, the runes whose image has another
    UTF-8 length, invalid bytes: all of them) -/
theorem upcase_idem (s : Bytes) : StrF.upcaseT (StrF.upcaseT s) = StrF.upcaseT s := by
  have h := mapFilter_idem (fun _ _ => upperRune_idem) (fun _ _ => upperRune_scalar) s _ (upcase_eq s)
  have h2 := upcase_eq (StrF.upcaseT s)
  unfold StrF.upcase at h2
  rw [h] at h2
  exact (Option.some.inj h2).symm

theorem downcase_idem (s : Bytes) : StrF.downcaseT (StrF.downcaseT s) = StrF.downcaseT s := by
  have h := mapFilter_idem (fun _ _ => lowerRune_idem) (fun _ _ => lowerRune_scalar) s _ (downcase_eq s)
  have h2 := downcase_eq (StrF.downcaseT s)
  unfold StrF.downcase at h2
  rw [h] at h2
  exact (Option.some.inj h2).symm

/-- the same in the `Option` form the filter models are written in (formerly `upcase_idem_partial`, when the hypothesis
    could fail: it holds for every `s` now, `upcase_total`) -/
theorem upcase_idem_opt (s t : Bytes) (h : StrF.upcase s = some t) : StrF.upcase t = some t :=
  mapFilter_idem (fun _ _ => upperRune_idem) (fun _ _ => upperRune_scalar) s t h

theorem downcase_idem_opt (s t : Bytes) (h : StrF.downcase s = some t) : StrF.downcase t = some t :=
  mapFilter_idem (fun _ _ => lowerRune_idem) (fun _ _ => lowerRune_scalar) s t h

/-- changing case keeps the number of characters (Go maps rune to rune), for every byte string -/
theorem case_len (s : Bytes) : runeLen (StrF.upcaseT s) = runeLen s ∧ runeLen (StrF.downcaseT s) = runeLen s :=
  ⟨mapFilter_runeLen s _ (upcase_eq s), mapFilter_runeLen s _ (downcase_eq s)⟩

theorem case_len_opt (s t : Bytes) (h : StrF.upcase s = some t ∨ StrF.downcase s = some t) :
    runeLen t = runeLen s := by
  rcases h with h | h <;> exact mapFilter_runeLen s t h

/-- … but not the number of bytes: Ⱥ (U+023A, two bytes) lower-cases to ⱥ (U+2C65, three bytes) and back; the dotless ı
    (two bytes) upper-cases to the ASCII letter I, the Kelvin sign K (three bytes) lower-cases to the ASCII letter k -/
theorem case_changes_byte_length :
    StrF.downcase [0xC8, 0xBA] = some [0xE2, 0xB1, 0xA5] ∧ StrF.upcase [0xE2, 0xB1, 0xA5] = some [0xC8, 0xBA] ∧
    StrF.upcase [0xC4, 0xB1] = some [0x49] ∧ StrF.downcase [0xE2, 0x84, 0xAA] = some [0x6B] := by decide +kernel

/-- the runes of the result are the images of the runes of the input, one by one -/
theorem upcase_runes (s : Bytes) : decodeRunes (StrF.upcaseT s) = (decodeRunes s).map toUpperRune ∧
    decodeRunes (StrF.downcaseT s) = (decodeRunes s).map toLowerRune := by
  constructor
  · exact decode_encode _ (fun u hu => by
      obtain ⟨r, hr, rfl⟩ := List.mem_map.mp hu
      exact toUpperRune_scalar (decodeRunes_all_scalar s r hr))
  · exact decode_encode _ (fun u hu => by
      obtain ⟨r, hr, rfl⟩ := List.mem_map.mp hu
      exact toLowerRune_scalar (decodeRunes_all_scalar s r hr))

theorem upcase_runes_opt (s t : Bytes) (h : StrF.upcase s = some t) :
    StrF.mapRunesM upperRune (decodeRunes s) = some (decodeRunes t) := by
  rw [upcase_eq] at h
  rw [← Option.some.inj h, (upcase_runes s).1]
  exact mapRunesM_total toUpperRune _

/-- `upcase ∘ downcase ∘ upcase = upcase` rune-wise — for every rune but the six upper-case runes of
    `upperLowerUpperExceptions` (U+0130 İ, U+03F4 ϴ, U+1E9E ẞ, U+2126 Ω, U+212A K, U+212B Å), whose lower-case partner
    (i, θ, ß, ω, k, å) upper-cases to another rune (I, Θ, ß, Ω, K, Å). The list is regenerated with the tables and
    checked to be exact (`case_tables_round_trip`). Formerly `upper_lower_upper_partial`, on a table that held none
    of the six. -/
theorem upper_lower_upper_except {r u l : Nat} (h : upperRune r = some u) (hl : lowerRune u = some l)
    (hx : u ∉ upperLowerUpperExceptions) : upperRune l = some u := upper_lower_upper h hl hx

/-- … and on each of the six the law fails -/
theorem upper_lower_upper_fails : ∀ u ∈ upperLowerUpperExceptions,
    upperRune u = some u ∧ ∃ l, lowerRune u = some l ∧ upperRune l ≠ some u := by
  intro u hu
  have h := List.all_eq_true.mp case_tables_round_trip.2 u hu
  simp only [Bool.and_eq_true, Nat.beq_eq, Bool.not_eq_true'] at h
  refine ⟨by rw [upperRune_total, h.1], toLowerRune u, rfl, ?_⟩
  rw [upperRune_total]
  intro e
  have h2 := h.2
  rw [Option.some.inj e] at h2
  simp at h2

/-- `capitalize` upper-cases the first character and leaves the rest of the bytes alone (the pinned code upper-cased
    the first *byte*, D16), for every non-empty byte string. Upper case, not title case: ǆ (U+01C6) becomes Ǆ (U+01C4),
    not ǅ (U+01C5) — that is `strings.ToUpper` on the first rune, what the code does. -/
theorem capitalize_spec (s t : Bytes) (hs : s ≠ []) (h : StrF.capitalize s = some t) :
    ∃ u, upperRune (decodeRune s).1 = some u ∧ t = encodeRune u ++ s.drop (decodeRune s).2 ∧
      decodeRunes s = (decodeRune s).1 :: decodeRunes (s.drop (decodeRune s).2) ∧
      decodeRunes t = u :: decodeRunes (s.drop (decodeRune s).2) := by
  obtain ⟨u, hu, ht⟩ := capitalize_some hs h
  refine ⟨u, hu, ht, ?_, ?_⟩
  · have hw := decodeRune_width_pos s hs
    have := decodeRunes_cons s hs
    rwa [Nat.max_eq_left hw] at this
  · rw [ht, decodeRunes_encodeRune_append u (upperRune_scalar (decodeRune_isScalar s) hu)]

theorem capitalize_nil : StrF.capitalize [] = some [] := rfl

/-- on ASCII strings the case filters are total and act byte by byte (full strength) -/
theorem upcase_ascii (s : Bytes) (h : ∀ b ∈ s, b < 0x80) : StrF.upcase s = some (s.map asciiUpper) :=
  upcase_ascii_eq s h
theorem downcase_ascii (s : Bytes) (h : ∀ b ∈ s, b < 0x80) : StrF.downcase s = some (s.map asciiLower) :=
  downcase_ascii_eq s h
theorem capitalize_ascii (b : UInt8) (t : Bytes) (hb : b < 0x80) :
    StrF.capitalize (b :: t) = some (asciiUpper b :: t) := capitalize_ascii_eq b t hb

example : StrF.upcase [97, 195, 169, 240, 159, 152, 128] = some [65, 195, 137, 240, 159, 152, 128] := by decide +kernel
example : StrF.capitalize [195, 169, 108] = some [195, 137, 108] := by decide +kernel   -- "él" ⇒ "Él"
example : StrF.upcase [195, 159] = some [195, 159] := by decide +kernel            -- ß has no simple upper-case form: it stays
example : StrF.upcase [0xCE, 0xB1, 0xCF, 0x82] = some [0xCE, 0x91, 0xCE, 0xA3] := by decide +kernel   -- "ας" ⇒ "ΑΣ"
example : StrF.downcase [0xD0, 0x96, 0xE1, 0xBA, 0x9E] = some [0xD0, 0xB6, 0xC3, 0x9F] := by decide +kernel   -- "Жẞ" ⇒ "жß"
example : StrF.capitalize [0xC7, 0x86, 97] = some [0xC7, 0x84, 97] := by decide +kernel   -- "ǆa" ⇒ "Ǆa" (upper, not title case)
example : StrF.capitalize [0xFF, 97] = some [0xEF, 0xBF, 0xBD, 97] := by decide +kernel   -- an invalid first byte ⇒ U+FFFD
example : (0x130 : Nat) ∈ upperLowerUpperExceptions ∧ upperRune 0x130 = some 0x130 ∧ lowerRune 0x130 = some 0x69 ∧
    upperRune 0x69 = some 0x49 := by decide +kernel
example : StrF.downcase [255, 65] = some [239, 191, 189, 97] := by decide +kernel   -- invalid byte ⇒ U+FFFD

/-! ## strip, lstrip, rstrip -/

/-- `strip` removes exactly a prefix and a suffix made of white-space characters
    (`unicode.IsSpace`) and leaves no white space at either end -/
theorem strip_spec (s : Bytes) : ∃ l r, AllSpace l ∧ AllSpace r ∧ s = l ++ StrF.strip s ++ r ∧
    isSpaceRune (decodeRune (StrF.strip s)).1 = false ∧
    isSpaceRune (decodeLastRuneRev (StrF.strip s).reverse).1 = false := trimSpace_spec s

theorem lstrip_spec (s : Bytes) : ∃ l, AllSpace l ∧ s = l ++ StrF.lstrip s ∧
    isSpaceRune (decodeRune (StrF.lstrip s)).1 = false := trimLeftSpace_spec s

theorem rstrip_spec (s : Bytes) : ∃ r, AllSpace r ∧ s = StrF.rstrip s ++ r ∧
    isSpaceRune (decodeLastRuneRev (StrF.rstrip s).reverse).1 = false := trimRightSpace_spec s

/-- the decomposition determines the result: `strip` is the only function with `strip_spec` -/
theorem strip_unique (s m : Bytes) : StrF.strip s = m ↔
    ∃ l r, AllSpace l ∧ AllSpace r ∧ s = l ++ m ++ r ∧ isSpaceRune (decodeRune m).1 = false ∧
      isSpaceRune (decodeLastRuneRev m.reverse).1 = false := trimSpace_eq_iff s m

theorem strip_idem (s : Bytes) : StrF.strip (StrF.strip s) = StrF.strip s := trimSpace_idem s
theorem strip_len_le (s : Bytes) : (StrF.strip s).length ≤ s.length := trimSpace_length_le s

example : StrF.strip [32, 194, 160, 97, 32, 98, 10, 227, 128, 128] = [97, 32, 98] := by decide
example : AllSpace [32, 194, 160] := ⟨[0x20, 0xA0], by decide, by decide⟩

/-! ## replace, replace_first, remove, remove_first -/

theorem replace_self (s p : Bytes) : StrF.replace s p p = s := replace_self_lemma s p
theorem replace_first_self (s p : Bytes) : StrF.replaceFirst s p p = s := replaceFirst_self s p

/-- `remove` is `replace` with the empty string -/
theorem remove_spec (s p : Bytes) : StrF.remove s p = StrF.replace s p [] ∧
    StrF.removeFirst s p = StrF.replaceFirst s p [] := ⟨rfl, rfl⟩

theorem remove_no_growth (s p : Bytes) : (StrF.remove s p).length ≤ s.length ∧
    (StrF.removeFirst s p).length ≤ s.length := ⟨remove_length_le s p, removeFirst_length_le s p⟩

/-- left-to-right, non-overlapping: nothing to replace ⇒ unchanged; otherwise the text before the
    first occurrence, the replacement, and the replacement of what follows the occurrence -/
theorem replace_spec (s old new : Bytes) (hold : old ≠ []) (hne : old ≠ new) :
    (StrF.indexOf old s = none → StrF.replace s old new = s) ∧
    (∀ i, StrF.indexOf old s = some i →
      s = s.take i ++ old ++ s.drop (i + old.length) ∧ (∀ j, j < i → ¬ old <+: s.drop j) ∧
      StrF.replace s old new = s.take i ++ new ++ StrF.replace (s.drop (i + old.length)) old new) := by
  refine ⟨replace_absent s old new, ?_⟩
  intro i hi
  obtain ⟨hlen, hs, hfirst⟩ := indexOf_some old s i hi
  refine ⟨hs, hfirst, ?_⟩
  have hi' : StrF.indexOf old (s.take i ++ old ++ s.drop (i + old.length)) = some (s.take i).length := by
    rw [← hs, hi, List.length_take, Nat.min_eq_left (by omega)]
  have := replace_step (s.take i) (s.drop (i + old.length)) old new hold hne hi'
  rwa [← hs] at this

/-- Go's empty-pattern rule: the replacement goes before every UTF-8 sequence and at the end -/
theorem replace_empty_spec (s new : Bytes) (hne : new ≠ []) :
    StrF.replace s [] new = new ++ ((StrF.runeChunks s).map (· ++ new)).flatten :=
  replace_empty_old s new hne

theorem replace_first_spec (s old new : Bytes) (hne : old ≠ new) :
    (StrF.indexOf old s = none → StrF.replaceFirst s old new = s) ∧
    (∀ i, StrF.indexOf old s = some i →
      StrF.replaceFirst s old new = s.take i ++ new ++ s.drop (i + old.length)) := by
  constructor
  · intro h; simp [StrF.replaceFirst, hne, h]
  · intro i h; simp [StrF.replaceFirst, hne, h]

example : StrF.replace [97, 97, 97] [97, 97] [98] = [98, 97] := by decide          -- non-overlapping
example : StrF.replace [195, 169, 98] [] [45] = [45, 195, 169, 45, 98, 45] := by decide
example : StrF.remove [97, 98, 97] [97] = [98] := by decide

/-! ## split, join -/

/-- `split` inverts `join` on non-empty pieces that share no byte with the separator -/
theorem split_join (sep : Bytes) (ps : List Bytes) (hsep : sep ≠ []) (hsp : sep ≠ [32])
    (hps : ∀ p ∈ ps, p ≠ [] ∧ ∀ b ∈ p, b ∉ sep) (hne : ps ≠ []) :
    StrF.split (StrF.join sep ps) sep = ps := split_join_lemma sep ps hsep hsp hps hne

/-- the separator `" "` splits on runs of `[ \t\n\v\f\r]`: pieces must be free of all of them -/
theorem split_join_space (ps : List Bytes)
    (hps : ∀ p ∈ ps, p ≠ [] ∧ ∀ b ∈ p, StrF.isAsciiSpace b = false) (hne : ps ≠ []) :
    StrF.split (StrF.join [32] ps) [32] = ps := split_join_ws ps hps hne

/-- `join` inverts `split` when the text does not end in the separator (the filter drops
    trailing empty pieces) and the separator is not the white-space special case -/
theorem join_split (s sep : Bytes) (hsp : sep ≠ [32]) (hend : sep = [] ∨ ¬ sep <:+ s) :
    StrF.join sep (StrF.split s sep) = s := join_split_lemma s sep hsp hend

theorem split_drops_trailing_empty (s sep : Bytes) : (StrF.split s sep).getLast? ≠ some [] :=
  split_no_trailing_empty s sep

example : StrF.split [97, 44, 98, 44, 44] [44] = [[97], [98]] := by decide
example : StrF.split [32, 97, 9, 10, 98, 32] [32] = [[], [97], [98]] := by decide
example : StrF.join [44] (StrF.split [44, 97, 44, 44, 98] [44]) = [44, 97, 44, 44, 98] :=
  join_split _ _ (by decide) (Or.inr (by decide))

/-! ## size, slice, truncate, truncatewords count characters -/

theorem size_runes (s : Bytes) : StrF.size s = runeLen s := size_eq_runeLen s

/-- `slice` selects characters: a negative start counts from the end (`sliceStart`), a start
    outside the string or a negative length ⇒ `""`, the length clamped to what is left -/
theorem slice_spec (s : Bytes) (start n : Int) :
    StrF.slice s start n =
      if sliceStart (runeLen s) start < 0 ∨ sliceStart (runeLen s) start > runeLen s ∨ n < 0 then []
      else encodeRunes (((decodeRunes s).drop (sliceStart (runeLen s) start).toNat).take n.toNat) :=
  slice_eq s start n

/-- the result has at most `n` characters and at most as many as `s` -/
theorem slice_len_le (s : Bytes) (start n : Int) :
    (runeLen (StrF.slice s start n) : Int) ≤ max n 0 ∧ runeLen (StrF.slice s start n) ≤ runeLen s := by
  rw [slice_eq]
  split
  · simp only [runeLen_nil]; omega
  · rw [runeLen_encodeRunes]
    simp only [List.length_take, List.length_drop, runeLen]
    omega

/-- on valid UTF-8 the result is no longer than the input in bytes either -/
theorem slice_bytes_le (s : Bytes) (start n : Int) (h : ValidUtf8 s) :
    (StrF.slice s start n).length ≤ s.length := by
  rw [slice_eq]
  split
  · simp
  · conv => rhs; rw [← encodeRunes_decodeRunes_of_valid s h]
    exact encodeRunes_length_take_drop _ _ _

/-- a string that fits is returned unchanged -/
theorem truncate_fits (s : Bytes) (n : Int) (el : Bytes) (h : (runeLen s : Int) ≤ n) :
    StrF.truncate s n el = s := by
  unfold StrF.truncate
  simp only [runeLen] at h
  simp [h]

/-- a longer string is cut to exactly `n` characters, the ellipsis included -/
theorem truncate_len (s : Bytes) (n : Int) (el : Bytes) (h : n < (runeLen s : Int)) (hel : (runeLen el : Int) ≤ n) :
    runeLen (StrF.truncate s n el) = n.toNat ∧ el <:+ StrF.truncate s n el ∧
    ∃ k, StrF.truncate s n el = encodeRunes ((decodeRunes s).take k) ++ el ∧ k + runeLen el = n.toNat := by
  unfold StrF.truncate
  simp only [runeLen] at h hel
  have hlt : ¬ ((decodeRunes s).length : Int) ≤ n := by omega
  simp only [hlt, if_false]
  refine ⟨?_, List.suffix_append _ _, _, rfl, ?_⟩
  · rw [runeLen_encodeRunes_append, List.length_take]
    simp only [runeLen]
    split <;> omega
  · simp only [runeLen]
    split <;> omega

/-- when even the ellipsis does not fit the result is the ellipsis alone (as in Shopify Liquid) -/
theorem truncate_short (s : Bytes) (n : Int) (el : Bytes) (h : n < (runeLen s : Int)) (hel : n ≤ (runeLen el : Int)) :
    StrF.truncate s n el = el := by
  unfold StrF.truncate
  simp only [runeLen] at h hel
  have hlt : ¬ ((decodeRunes s).length : Int) ≤ n := by omega
  have hk : ¬ n > ((decodeRunes el).length : Int) := by omega
  simp [hlt, hk, encodeRunes]

/-- on valid UTF-8 the kept part is a prefix of the input -/
theorem truncate_prefix (s : Bytes) (n : Int) (el : Bytes) (hv : ValidUtf8 s) (h : n < (runeLen s : Int)) :
    ∃ k, k <+: s ∧ StrF.truncate s n el = k ++ el := by
  unfold StrF.truncate
  simp only [runeLen] at h
  have hlt : ¬ ((decodeRunes s).length : Int) ≤ n := by omega
  simp only [hlt, if_false]
  refine ⟨_, ?_, rfl⟩
  conv => rhs; rw [← encodeRunes_decodeRunes_of_valid s hv]
  exact encodeRunes_take_prefix _ _

/-- a text of at most `n` words (`n < 1` counts as 1) is returned unchanged -/
theorem truncatewords_fits (s : Bytes) (n : Int) (el : Bytes) (h : wordCount s ≤ twLimit n) :
    StrF.truncatewords s n el = s := truncatewords_fits_lemma s n el h

/-- otherwise: the original text up to the end of the `n`-th word, then the ellipsis -/
theorem truncatewords_spec (s : Bytes) (n : Int) (el : Bytes) (h : twLimit n < wordCount s) :
    ∃ k, StrF.truncatewords s n el = k ++ el ∧ k <+: s ∧ wordCount k = twLimit n ∧
      (∀ b, k.getLast? = some b → StrF.isWordSpace b = false) := truncatewords_cut s n el h

example : StrF.size [195, 169, 255, 97] = 3 := by decide
example : StrF.slice [97, 195, 169, 98] 1 2 = [195, 169, 98] := by decide
example : StrF.slice [97, 98, 99] 5 1 = [] := by decide            -- D2: was a panic
example : StrF.slice [97, 98, 99] (-2) 9223372036854775807 = [98, 99] := by decide
example : StrF.truncate [97, 98, 99, 100, 101, 102] 4 [195, 169] = [97, 98, 99, 195, 169] := by decide
example : StrF.truncatewords [97, 32, 98, 32, 99] 2 [46] = [97, 32, 98, 46] := by decide
example : StrF.truncatewords [97, 32, 98, 32, 99] 3 [46] = [97, 32, 98, 32, 99] := by decide   -- exactly n words
example : wordCount [97, 32, 98, 32, 99] = 3 ∧ twLimit 3 = 3 ∧ twLimit (-5) = 1 := by decide

/-! ## escape, escape_once -/

/-- `escape` leaves no raw `<`, `>`, `'`, `"`, and every `&` of its output starts one of the five
    entities it produces -/
theorem escape_clean (s : Bytes) :
    (∀ b ∈ StrF.escape s, b ≠ 60 ∧ b ≠ 62 ∧ b ≠ 39 ∧ b ≠ 34) ∧
    (∀ pre post, StrF.escape s = pre ++ 38 :: post → EscEntityPrefix (38 :: post)) :=
  ⟨escape_no_raw s, fun pre post h => escape_amp_entity s pre post h⟩

/-- `html.UnescapeString(html.EscapeString(s)) == s`: never outside the modelled entity table -/
theorem unescape_escape (s : Bytes) : StrF.unescape (StrF.escape s) = some s := unescape_escape_lemma s

/-- FULL statement wanted: `escape_once (escape_once s) = escape_once s` for every `s`. Proved:
    whenever `escape_once s` is modelled (no named entity outside `amp lt gt quot apos`).
    Missing: Go's 2231-entry entity table. -/
theorem escape_once_idem_partial (s t : Bytes) (h : StrF.escapeOnce s = some t) : StrF.escapeOnce t = some t :=
  escapeOnce_idem s t h

/-- already escaped text passes through `escape_once` unchanged (full strength) -/
theorem escape_once_escape (s : Bytes) : StrF.escapeOnce (StrF.escape s) = some (StrF.escape s) :=
  escapeOnce_escape s

theorem escape_once_clean_partial (s t : Bytes) (h : StrF.escapeOnce s = some t) :
    ∀ b ∈ t, b ≠ 60 ∧ b ≠ 62 ∧ b ≠ 39 ∧ b ≠ 34 := escapeOnce_no_raw s t h

example : StrF.escape [60, 38, 39] = [38, 108, 116, 59, 38, 97, 109, 112, 59, 38, 35, 51, 57, 59] := by decide
example : StrF.escapeOnce [38, 108, 116, 59, 60] = some [38, 108, 116, 59, 38, 108, 116, 59] := by decide
example : StrF.escapeOnce [38, 99, 111, 112, 121, 59] = none := by decide       -- &copy; is outside the table

/-! ## url_encode, url_decode -/

theorem url_roundtrip (s : Bytes) : StrF.urlDecode (StrF.urlEncode s) = some s := urlDecode_urlEncode s

theorem url_encode_alphabet (s : Bytes) : ∀ b ∈ StrF.urlEncode s,
    StrF.urlUnreserved b = true ∨ b = 43 ∨ b = 37 ∨ (48 ≤ b ∧ b ≤ 57) ∨ (65 ≤ b ∧ b ≤ 70) :=
  urlEncode_alphabet s

example : StrF.urlEncode [32, 233, 97] = [43, 37, 69, 57, 97] := by decide
example : StrF.urlDecode [37, 122, 122] = none := by decide                      -- bad escape ⇒ error

/-! ## strip_html, strip_newlines, newline_to_br -/

theorem strip_html_spec (s : Bytes) :
    List.Sublist (StrF.stripHtml s) s ∧
    (∀ pre mid post, StrF.stripHtml s = pre ++ 60 :: mid ++ 62 :: post → 10 ∈ mid) ∧
    (60 ∉ s → StrF.stripHtml s = s) :=
  ⟨stripHtml_sublist s, stripHtml_no_tag s, stripHtml_of_no_lt s⟩

theorem strip_newlines_spec (s : Bytes) : StrF.stripNewlines s = s.filter (· != 10) ∧ 10 ∉ StrF.stripNewlines s :=
  ⟨rfl, stripNewlines_no_nl s⟩

theorem newline_to_br_spec (s : Bytes) :
    StrF.newlineToBr s = s.flatMap (fun b => if b == 10 then [60, 98, 114, 32, 47, 62] else [b]) ∧
    10 ∉ StrF.newlineToBr s := ⟨newlineToBr_eq_flatMap s, newlineToBr_no_nl s⟩

example : StrF.stripHtml [97, 60, 98, 62, 99, 60, 10, 62] = [97, 99, 60, 10, 62] := by decide

/-! ## receivers that are not strings are first converted to the text they print as -/

/-- nil ⇒ `""`, booleans ⇒ `true` / `false`, integers of every width ⇒ their decimal digits (the
    conversion the `strfv` driver op applies before the filter; floats are outside the model) -/
theorem recv_to_string :
    StrF.recvToString .nil = some [] ∧
    StrF.recvToString (.bool true) = some [116, 114, 117, 101] ∧
    StrF.recvToString (.bool false) = some [102, 97, 108, 115, 101] ∧
    (∀ k n, StrF.recvToString (.int k n) = some (StrF.intToBytes n)) ∧
    (∀ s, StrF.recvToString (.str s) = some s) := ⟨rfl, rfl, rfl, fun _ _ => rfl, fun _ => rfl⟩

example : StrF.intToBytes (-120) = [45, 49, 50, 48] := by decide

/-! ## valid UTF-8 in ⇒ valid UTF-8 out (every string filter except `url_decode`) -/

theorem utf8_preserved_append (s x : Bytes) (hs : ValidUtf8 s) (hx : ValidUtf8 x) :
    ValidUtf8 (StrF.append s x) ∧ ValidUtf8 (StrF.prepend s x) :=
  ⟨validUtf8_append hs hx, validUtf8_append hx hs⟩

/-- the case filters even repair invalid input (every invalid byte becomes U+FFFD) -/
theorem utf8_preserved_case (s t : Bytes) (h : StrF.upcase s = some t ∨ StrF.downcase s = some t) : ValidUtf8 t := by
  rcases h with h | h <;> exact mapFilter_valid s t h

/-- … for every byte string, in the total form: the result of `upcase` / `downcase` is valid UTF-8 whatever the input -/
theorem utf8_case_all (s : Bytes) : ValidUtf8 (StrF.upcaseT s) ∧ ValidUtf8 (StrF.downcaseT s) :=
  ⟨validUtf8_encodeRunes _, validUtf8_encodeRunes _⟩

/-- every image under the case tables is a scalar value (never a surrogate, never above U+10FFFF): the encoder never has
    to substitute U+FFFD for an image, so the bytes written are the images themselves -/
theorem case_images_scalar (r : Rune) (h : isScalar r = true) :
    isScalar (toUpperRune r) = true ∧ isScalar (toLowerRune r) = true :=
  ⟨toUpperRune_scalar h, toLowerRune_scalar h⟩

theorem utf8_preserved_capitalize (s t : Bytes) (hs : ValidUtf8 s) (h : StrF.capitalize s = some t) : ValidUtf8 t :=
  capitalize_valid s t hs h

theorem utf8_preserved_strip (s : Bytes) (hs : ValidUtf8 s) :
    ValidUtf8 (StrF.strip s) ∧ ValidUtf8 (StrF.lstrip s) ∧ ValidUtf8 (StrF.rstrip s) :=
  ⟨strip_valid s hs, trimLeftSpace_valid s hs, trimRightSpace_valid s hs⟩

theorem utf8_preserved_replace (s old new : Bytes) (hs : ValidUtf8 s) (ho : ValidUtf8 old) (hn : ValidUtf8 new) :
    ValidUtf8 (StrF.replace s old new) ∧ ValidUtf8 (StrF.replaceFirst s old new) ∧
    ValidUtf8 (StrF.remove s old) ∧ ValidUtf8 (StrF.removeFirst s old) :=
  ⟨replace_valid s old new hs ho hn, replaceFirst_valid s old new hs ho hn, remove_valid s old hs ho,
    removeFirst_valid s old hs ho⟩

theorem utf8_preserved_split (s sep : Bytes) (hs : ValidUtf8 s) (hsep : ValidUtf8 sep) :
    (∀ p ∈ StrF.split s sep, ValidUtf8 p) ∧ ValidUtf8 (StrF.join sep (StrF.split s sep)) :=
  ⟨split_valid s sep hs hsep, join_valid sep _ hsep (split_valid s sep hs hsep)⟩

/-- `slice` output is valid for every input, valid or not -/
theorem utf8_preserved_slice (s : Bytes) (start n : Int) : ValidUtf8 (StrF.slice s start n) :=
  slice_valid s start n

theorem utf8_preserved_truncate (s : Bytes) (n : Int) (el : Bytes) (hs : ValidUtf8 s) (he : ValidUtf8 el) :
    ValidUtf8 (StrF.truncate s n el) ∧ ValidUtf8 (StrF.truncatewords s n el) :=
  ⟨truncate_valid s n el hs he, truncatewords_valid s n el hs he⟩

theorem utf8_preserved_escape (s : Bytes) (hs : ValidUtf8 s) :
    ValidUtf8 (StrF.escape s) ∧ (∀ t, StrF.escapeOnce s = some t → ValidUtf8 t) :=
  ⟨escape_valid s hs, fun t h => escapeOnce_valid s t hs h⟩

theorem utf8_preserved_html (s : Bytes) (hs : ValidUtf8 s) :
    ValidUtf8 (StrF.stripHtml s) ∧ ValidUtf8 (StrF.stripNewlines s) ∧ ValidUtf8 (StrF.newlineToBr s) :=
  ⟨stripHtml_valid s hs, stripNewlines_valid s hs, newlineToBr_valid s hs⟩

/-- `url_encode` output is ASCII for every input -/
theorem utf8_preserved_url_encode (s : Bytes) : ValidUtf8 (StrF.urlEncode s) := urlEncode_valid s

/-- the exception: `url_decode` can produce invalid UTF-8 from valid (ASCII) input -/
theorem url_decode_not_preserving :
    ValidUtf8 [37, 70, 70] ∧ StrF.urlDecode [37, 70, 70] = some [255] ∧ ¬ ValidUtf8 [255] := by
  refine ⟨by decide, by decide, by decide⟩

example : ValidUtf8 [195, 169, 32, 240, 159, 152, 128] := by decide
example : ¬ ValidUtf8 [195] := by decide
