import Proofs.SrcCompileLines
/-!
# From the token list to the tree, for token lists that may contain `include` tags

`epost_compileNode` … (Proofs/SrcCompileLines.lean) assume a token list without a tag named `include` and also
conclude that the tree has no include node. Here the same induction without that hypothesis and without that
conclusion: the lines of the compiled nodes other than texts, raw blocks and trim markers (`elinesList`, which
counts an include node at its tag's line) are lines of the tree's tag, object and block tokens, and a
compile-time error carries such a line and the template's path.
-/

theorem epostI_ifClauseTests (L : List Nat) :
    ∀ cs : List (Token × List Node), (∀ x, x ∈ elinesCClauses cs → x ∈ L) →
      CPost (ELoc L) (fun r => ∀ x, x ∈ elinesBranches r → x ∈ L) (compileIfClauseTests cs)
  | [], _ => by simp [compileIfClauseTests, CPost, elinesBranches]
  | (t, body) :: cs, hL => by
    unfold compileIfClauseTests
    refine CPost.bind (R := fun test => ∀ x, x ∈ test.lines → x ∈ L) ?_ (fun test htest =>
      CPost.bind (epostI_ifClauseTests L cs (fun x hx => hL x (by simp [elinesCClauses, hx]))) (fun rest hrest => ?_))
    · split
      · refine CPost.bind (epost_liftParse L t.line true _ (hL _ (by simp [elinesCClauses]))) (fun e _ => ?_)
        exact CPost.pure _ (fun x hx => by
          simp only [CondT.lines, List.mem_singleton] at hx; subst hx; exact hL _ (by simp [elinesCClauses]))
      · exact CPost.pure _ (fun x hx => by simp [CondT.lines] at hx)
    · refine CPost.pure _ (fun x hx => ?_)
      simp only [elinesBranches, List.mem_append] at hx
      rcases hx with (hx | hx) | hx
      · exact htest x hx
      · exact hL x (by simp [elinesCClauses, hx])
      · exact hrest x hx

theorem epostI_caseClauses (L : List Nat) :
    ∀ cs : List (Token × List Node), (∀ x, x ∈ elinesCClauses cs → x ∈ L) →
      CPost (ELoc L) (fun r => ∀ x, x ∈ elinesCases r → x ∈ L) (compileCaseClauses cs)
  | [], _ => by simp [compileCaseClauses, CPost, elinesCases]
  | (t, body) :: cs, hL => by
    unfold compileCaseClauses
    have ht : t.line ∈ L := hL _ (by simp [elinesCClauses])
    refine CPost.bind (R := fun c => ∀ l es, c = some (l, es) → l ∈ L) ?_ (fun c hc =>
      CPost.bind (epostI_caseClauses L cs (fun x hx => hL x (by simp [elinesCClauses, hx]))) (fun rest hrest => ?_))
    · split
      · refine CPost.bind (epost_liftParse L t.line true _ ht) (fun st _ => ?_)
        split
        · exact CPost.pure _ (fun l es h => by cases h; exact ht)
        · exact ⟨ht, rfl⟩
      · exact CPost.pure _ (fun l es h => by cases h)
    · refine CPost.pure _ (fun x hx => ?_)
      cases c with
      | none =>
        simp only [elinesCases, List.mem_append] at hx
        rcases hx with hx | hx
        · exact hL x (by simp [elinesCClauses, hx])
        · exact hrest x hx
      | some p =>
        obtain ⟨l, es⟩ := p
        simp only [elinesCases, List.mem_cons, List.mem_append] at hx
        rcases hx with hx | hx | hx
        · subst hx; exact hc _ _ rfl
        · exact hL x (by simp [elinesCClauses, hx])
        · exact hrest x hx

/-- the post-condition of compiling a subtree: lines inside `L` -/
def CLines (L : List Nat) (ns : List Node) : Prop := ∀ x, x ∈ elinesList ns → x ∈ L

mutual
theorem epostI_compileNode (L : List Nat) :
    ∀ a : AST, (∀ x, x ∈ a.etokLines → x ∈ L) → CPost (ELoc L) (CLines L) (compileNode a)
  | .text t, _ => by
    simp [compileNode, CPost, CLines, elinesList, Node.elines]
  | .obj t, hL => by
    have ht : t.line ∈ L := hL _ (by simp [AST.etokLines])
    unfold compileNode
    split
    · simp only [CPost, CLines, elinesList, Node.elines, List.append_nil, List.mem_singleton]
      intro x hx; subst hx; exact ht
    · exact ⟨ht, rfl⟩
    · exact True.intro
    · exact True.intro
  | .trim l, _ => by simp [compileNode, CPost, CLines, elinesList, Node.elines]
  | .raw sl, _ => by simp [compileNode, CPost, CLines, elinesList, Node.elines]
  | .tag t, hL => by
    have ht : t.line ∈ L := hL _ (by simp [AST.etokLines])
    have one : ∀ n : Node, n.elines = [t.line] → CLines L [n] := by
      intro n hn x hx
      simp only [elinesList, hn, List.append_nil, List.mem_singleton] at hx; subst hx; exact ht
    unfold compileNode
    split
    · refine CPost.bind (epost_liftParse L t.line false _ ht) (fun st _ => ?_)
      split
      · exact CPost.pure _ (one _ rfl)
      · exact ⟨ht, rfl⟩
    · split
      · exact one _ rfl
      · split
        · exact one _ rfl
        · split
          · exact one _ rfl
          · split
            · refine CPost.bind (epost_liftParse L t.line false _ ht) (fun st _ => ?_)
              split
              · exact CPost.pure _ (one _ rfl)
              · exact ⟨ht, rfl⟩
            · exact ⟨ht, rfl⟩
  | .block t body clauses, hL => by
    have ht : t.line ∈ L := hL _ (by simp [AST.etokLines])
    unfold compileNode
    refine CPost.bind (epostI_compileList L body (fun x hx => hL x (by simp [AST.etokLines, hx]))) (fun b hb =>
      CPost.bind (epostI_compileClauses L clauses (fun x hx => hL x (by simp [AST.etokLines, hx]))) (fun cs hcs => ?_))
    split
    · refine CPost.bind (epost_liftParse L t.line true _ ht) (fun e _ =>
        CPost.bind (epostI_ifClauseTests L cs hcs) (fun rest hrest => CPost.pure _ (fun x hx => ?_)))
      simp only [elinesList, Node.elines, elinesBranches, List.append_nil, List.mem_cons, List.mem_append] at hx
      rcases hx with hx | (hx | hx) | hx
      · subst hx; exact ht
      · split at hx <;> (simp only [CondT.lines, List.mem_singleton] at hx; subst hx; exact ht)
      · exact hb x hx
      · exact hrest x hx
    · split
      · refine CPost.bind (epost_liftParse L t.line true _ ht) (fun e _ =>
          CPost.bind (epostI_caseClauses L cs hcs) (fun cases hcases => CPost.pure _ (fun x hx => ?_)))
        simp only [elinesList, Node.elines, List.append_nil, List.mem_cons] at hx
        rcases hx with hx | hx
        · subst hx; exact ht
        · exact hcases x hx
      · split
        · refine CPost.bind (epost_liftParse L t.line true _ ht) (fun st _ => ?_)
          split
          · refine CPost.pure _ (fun x hx => ?_)
            simp only [elinesList, Node.elines, List.append_nil, List.mem_cons, List.mem_append] at hx
            rcases hx with hx | hx | hx
            · subst hx; exact ht
            · exact hb x hx
            · exact elinesClauses_map_snd L cs hcs x hx
          · exact ⟨ht, rfl⟩
        · split
          · refine CPost.pure _ (fun x hx => ?_)
            simp only [elinesList, Node.elines, List.append_nil, List.mem_cons] at hx
            rcases hx with hx | hx
            · subst hx; exact ht
            · exact hb x hx
          · exact True.intro
theorem epostI_compileList (L : List Nat) :
    ∀ as : List AST, (∀ x, x ∈ etokLinesList as → x ∈ L) → CPost (ELoc L) (CLines L) (compileList as)
  | [], _ => by simp [compileList, CPost, CLines, elinesList]
  | a :: as, hL => by
    unfold compileList
    refine CPost.bind (epostI_compileNode L a (fun x hx => hL x (by simp [etokLinesList, hx]))) (fun na hna =>
      CPost.bind (epostI_compileList L as (fun x hx => hL x (by simp [etokLinesList, hx]))) (fun nb hnb =>
        CPost.pure _ (fun x hx => ?_)))
    rw [elinesList_append, List.mem_append] at hx
    exact hx.elim (hna x) (hnb x)
theorem epostI_compileClauses (L : List Nat) :
    ∀ cs : List (Token × List AST), (∀ x, x ∈ etokLinesClauses cs → x ∈ L) →
      CPost (ELoc L) (fun r => ∀ x, x ∈ elinesCClauses r → x ∈ L) (compileClauses cs)
  | [], _ => by simp [compileClauses, CPost, elinesCClauses]
  | (t, body) :: cs, hL => by
    unfold compileClauses
    refine CPost.bind (epostI_compileList L body (fun x hx => hL x (by simp [etokLinesClauses, hx]))) (fun b hb =>
      CPost.bind (epostI_compileClauses L cs (fun x hx => hL x (by simp [etokLinesClauses, hx]))) (fun rest hrest =>
        CPost.pure _ (fun x hx => ?_)))
    simp only [elinesCClauses, List.mem_cons, List.mem_append] at hx
    rcases hx with hx | hx | hx
    · subst hx; exact hL _ (by simp [etokLinesClauses])
    · exact hb x hx
    · exact hrest x hx
end
