import Proofs.CompareLemmas
/-!
# Property C09 — comparison, `contains` and boolean operators follow the documented value rules

The theorems are about the model `Liquid/Compare.lean` of `values.Equal`, `values.Less`, the
`Value` wrappers and the grammar actions (after the repairs `fixes/C09-1..3`); the `cmp`
correspondence stream ties that model to the real parser and evaluator on every run.

Vocabulary (all defined in `Proofs/CompareLemmas.lean`):
* `opEq a b`, `opNe`, `opLt`, `opGt`, `opLe`, `opGe`, `opContains`, `opAnd`, `opOr`, `truthy a`:
  the grammar actions applied to the variables bound to the Go values `a`, `b`; results are
  `Res.ok bool`, and `Res.panic` where the Go code would panic.
* `strip a`: what the operator sees of an operand (`ctx.Get`'s `ToLiquid`, `ValueOf`'s pointer
  dereference, the `dropWrapper`'s `Resolve`, `Interface()`).
* `kindOf`: nil / bool / number / string / array / map / other.
* `WF a`: the operand is inside the model (no pointer below the top level, no harness struct, no
  drop yielding a drop, `[]byte`/`IterationKeyedMap` rewritten by the driver) and every map in it
  has pairwise distinct scalar keys, as every Go map has. There are no NaNs in the model.
-/

open Cmp

/-! ## Coherence of the operators, by construction of the grammar actions -/

/-- `a != b` is the negation of `a == b` -/
theorem ne_not_eq (a b : GoVal) : opNe a b = (opEq a b).bind fun r => .ok (!r) := rfl

example : opEq (.int .u8 1) (.int .int 1) = .ok true ∧ opNe (.int .u8 1) (.int .int 1) = .ok false := by
  decide +kernel

/-- `a > b` is `b < a` -/
theorem gt_swap (a b : GoVal) : opGt a b = opLt b a := rfl

example : opGt (.str [98]) (.str [97]) = .ok true := by decide +kernel

/-- `a <= b` is `a < b || a == b` (Go's short-circuit `||`) -/
theorem le_def (a b : GoVal) :
    opLe a b = (opLt a b).bind fun l => if l then .ok true else opEq a b := rfl

/-- `a >= b` is `a > b || a == b` -/
theorem ge_def (a b : GoVal) :
    opGe a b = (opGt a b).bind fun l => if l then .ok true else opEq a b := rfl

/-- the same two facts on Boolean results -/
theorem le_ge_bool (a b : GoVal) {l g e : Bool} (hl : opLt a b = .ok l) (hg : opGt a b = .ok g)
    (he : opEq a b = .ok e) : opLe a b = .ok (l || e) ∧ opGe a b = .ok (g || e) := by
  rw [le_def, ge_def, hl, hg, he]
  cases l <;> cases g <;> simp

example : opLe (.int .int 1) (.flt .f64 1) = .ok true ∧ opGe (.int .int 1) (.flt .f64 2) = .ok false := by
  decide +kernel

/-! ## Equality -/

/-- equality is reflexive -/
theorem equal_refl (a : GoVal) (h : WF a) : opEq a a = .ok true := by
  rw [opEq_eq]
  have := equal_refl_wf h
  rwa [equal_eq, toLiq_strip] at this

example : WF (.map .str .any [(.str [97], .slice .any [.int .int 1, .nil])]) := by decide +kernel
example : WF (.drop (.slice .any [.drop (.int .i8 1), .mapSlice [(.str [97], .flt .f64 2)]])) := by decide +kernel

/-- equality is symmetric -/
theorem equal_symm (a b : GoVal) (ha : WF a) (hb : WF b) : opEq a b = opEq b a := by
  rw [opEq_eq, opEq_eq]
  obtain ⟨r, h1, h2⟩ := equal_totSym ha hb
  rw [equal_eq, toLiq_strip, toLiq_strip] at h1 h2
  rw [h1, h2]

example : opEq (.map .str .any [(.str [97], .int .int 1), (.str [98], .int .int 2)])
    (.drop (.map .str (.flt .f64) [(.str [97], .flt .f64 1), (.str [98], .flt .f64 2)])) = .ok true := by
  decide +kernel

/-- on well-formed operands `==` always yields a Boolean -/
theorem equal_total (a b : GoVal) (ha : WF a) (hb : WF b) : ∃ r, opEq a b = .ok r := by
  rw [opEq_eq]
  obtain ⟨r, h1, _⟩ := equal_totSym ha hb
  rw [equal_eq, toLiq_strip, toLiq_strip] at h1
  exact ⟨r, h1⟩

/-- nil equals only nil -/
theorem equal_nil (a : GoVal) :
    opEq a .nil = .ok (strip a).isNil ∧ opEq .nil a = .ok (strip a).isNil := by
  rw [opEq_eq, opEq_eq]
  exact ⟨equalTL_nil_right _, equalTL_nil_left _⟩

example : opEq (.ptr .nil) .nil = .ok true ∧ opEq (.drop .nil) .nil = .ok true ∧ opEq .nilPtr .nil = .ok true ∧
    opEq (.bool false) .nil = .ok false ∧ opEq (.slice .any []) .nil = .ok false := by decide +kernel

/-- a value of one kind never equals a value of another kind -/
theorem equal_kind (a b : GoVal) (hk : kindOf (strip a) ≠ kindOf (strip b))
    (ha : kindOf (strip a) ≠ .other) (hb : kindOf (strip b) ≠ .other) : opEq a b = .ok false := by
  rw [opEq_eq]; exact equalTL_kind hk ha hb

example : opEq (.int .int 1) (.str [49]) = .ok false ∧ opEq (.bool true) (.int .int 1) = .ok false ∧
    opEq (.slice .any []) (.map .str .any []) = .ok false := by decide +kernel
example : opEq (.int .int 1) (.drop (.str [49])) = .ok false :=
  equal_kind _ _ (by decide +kernel) (by decide +kernel) (by decide +kernel)

/-- arrays are equal exactly when they have the same length and are element-wise equal -/
theorem equal_array (a b : GoVal) (xs ys : List GoVal) (ha : seqElems (strip a) = some xs)
    (hb : seqElems (strip b) = some ys) :
    opEq a b = .ok true ↔ xs.length = ys.length ∧
      ∀ i (h : i < xs.length) (h' : i < ys.length), equal xs[i] ys[i] = .ok true := by
  rw [opEq_eq, equalTL_seq ha hb]
  by_cases hl : xs.length = ys.length
  · simp [hl, equalList_true_iff xs ys hl]
  · simp [hl]

example : (seqElems (strip (.drop (.array (.int .int) [.int .int 1, .int .int 2])))).isSome = true ∧
    opEq (.drop (.array (.int .int) [.int .int 1, .int .int 2])) (.slice .any [.flt .f64 1, .int .u8 2]) = .ok true ∧
    opEq (.slice .any [.int .int 1]) (.slice .any [.int .int 1, .int .int 2]) = .ok false ∧
    opEq (.slice .any [.slice .any [.int .int 1]]) (.slice .any [.slice .any [.int .int 2]]) = .ok false := by
  decide +kernel
example : ([GoVal.int .int 1, .int .int 2].length = [GoVal.flt .f64 1, .int .u8 2].length) ∧
    ∀ i (h : i < 2) (h' : i < 2), equal [GoVal.int .int 1, .int .int 2][i] [GoVal.flt .f64 1, .int .u8 2][i] = .ok true :=
  (equal_array (.drop (.array (.int .int) [.int .int 1, .int .int 2])) (.slice .any [.flt .f64 1, .int .u8 2])
    _ _ (by rfl) (by rfl)).1 (by decide +kernel)

/-- numbers compare by numeric value: integers of all ten widths exactly, an integer with a float
when it is in the range `float64` represents exactly -/
theorem equal_num (a b : GoVal) (x y : Rat) (hx : numVal (strip a) = some x)
    (hy : numVal (strip b) = some y) (oa : numOK (strip a)) (ob : numOK (strip b))
    (ea : numExact (strip a) (strip b)) (eb : numExact (strip b) (strip a)) :
    opEq a b = .ok (decide (x = y)) := by
  rw [opEq_eq]
  exact equalTL_num (joinVal_exact hx (by simp [hy]) ea) (joinVal_exact hy (by simp [hx]) eb) oa ob

/-- the general form: each number is converted to the join type of the two (`float64` as soon as
one of them is a float) and the converted values are compared -/
theorem equal_num_join (a b : GoVal) (p q : Rat) (hp : joinVal (strip a) (strip b) = some p)
    (hq : joinVal (strip b) (strip a) = some q) (oa : numOK (strip a)) (ob : numOK (strip b)) :
    opEq a b = .ok (decide (p = q)) := by
  rw [opEq_eq]; exact equalTL_num hp hq oa ob

example : opEq (.int .u64 18446744073709551615) (.int .int (-1)) = .ok false ∧
    opEq (.int .u8 200) (.int .i64 200) = .ok true ∧ opEq (.int .u16 2) (.flt .f32 2) = .ok true ∧
    -- beyond 2^53 the join type decides: 2^53+1 converts to 2^53
    opEq (.int .i64 9007199254740993) (.flt .f64 9007199254740992) = .ok true := by decide +kernel
example : opEq (.int .u8 200) (.ptr (.flt .f64 200)) = .ok (decide ((200 : Rat) = 200)) :=
  equal_num _ _ 200 200 (by decide +kernel) (by decide +kernel) (by decide +kernel) (by decide +kernel)
    (by decide +kernel) (by decide +kernel)
example : opEq (.int .i64 9007199254740993) (.flt .f64 9007199254740992) =
    .ok (decide ((9007199254740992 : Rat) = 9007199254740992)) :=
  equal_num_join _ _ _ _ (by decide +kernel) (by decide +kernel) (by decide +kernel) (by decide +kernel)

/-! ## Ordering -/

/-- numbers are ordered by numeric value (same guard as `equal_num`) -/
theorem less_num (a b : GoVal) (x y : Rat) (hx : numVal (strip a) = some x)
    (hy : numVal (strip b) = some y) (oa : numOK (strip a)) (ob : numOK (strip b))
    (ea : numExact (strip a) (strip b)) (eb : numExact (strip b) (strip a)) :
    opLt a b = .ok (decide (x < y)) := by
  rw [opLt_eq]
  exact lessTL_num (joinVal_exact hx (by simp [hy]) ea) (joinVal_exact hy (by simp [hx]) eb) oa ob

theorem less_num_join (a b : GoVal) (p q : Rat) (hp : joinVal (strip a) (strip b) = some p)
    (hq : joinVal (strip b) (strip a) = some q) (oa : numOK (strip a)) (ob : numOK (strip b)) :
    opLt a b = .ok (decide (p < q)) := by
  rw [opLt_eq]; exact lessTL_num hp hq oa ob

example : opLt (.int .int (-1)) (.int .u64 18446744073709551615) = .ok true ∧
    opLt (.int .u64 9223372036854775808) (.int .i64 9223372036854775807) = .ok false ∧
    opLt (.int .u8 1) (.flt .f64 (3/2)) = .ok true := by decide +kernel
example : opLt (.int .i64 (-5)) (.int .u64 18446744073709551615) =
    .ok (decide ((-5 : Rat) < 18446744073709551615)) :=
  less_num _ _ _ _ (by decide +kernel) (by decide +kernel) (by decide +kernel) (by decide +kernel)
    (by decide +kernel) (by decide +kernel)
example : opLt (.int .u64 18446744073709551615) (.flt .f64 18446744073709551616) =
    .ok (decide ((18446744073709551616 : Rat) < 18446744073709551616)) :=
  less_num_join _ _ _ _ (by decide +kernel) (by decide +kernel) (by decide +kernel) (by decide +kernel)

/-- strings are ordered lexicographically on their bytes (`List`'s `<`) -/
theorem less_str (a b : GoVal) (s t : Bytes) (ha : strip a = .str s) (hb : strip b = .str t) :
    opLt a b = .ok (decide (s < t)) := by
  rw [opLt_eq, ha, hb]; exact lessTL_str s t

example : opLt (.str [49, 48]) (.str [57]) = .ok true ∧ opLt (.str [97]) (.str [97, 98]) = .ok true ∧
    opLt (.str [98]) (.str [97, 98]) = .ok false := by decide +kernel
example : opLt (.drop (.str [49, 48])) (.str [57]) = .ok (decide (([49, 48] : Bytes) < [57])) :=
  less_str _ _ _ _ (by rfl) (by rfl)

/-- an ordering between unlike kinds is false -/
theorem less_unlike (a b : GoVal) (hk : kindOf (strip a) ≠ kindOf (strip b))
    (ha : kindOf (strip a) ≠ .other) (hb : kindOf (strip b) ≠ .other) : opLt a b = .ok false := by
  rw [opLt_eq]; exact lessTL_kind hk ha hb

example : opLt (.int .int 1) (.str [50]) = .ok false ∧ opGt (.int .int 1) (.str [50]) = .ok false := by
  decide +kernel
example : opLt (.slice .any []) (.drop (.int .u8 3)) = .ok false :=
  less_unlike _ _ (by decide +kernel) (by decide +kernel) (by decide +kernel)

/-- an ordering with nil is false -/
theorem less_nil (a b : GoVal) (h : (strip a).isNil = true ∨ (strip b).isNil = true) :
    opLt a b = .ok false := by
  rw [opLt_eq]; exact lessTL_nil h

example : opLt .nil (.int .int 1) = .ok false ∧ opLt (.int .int 1) .nil = .ok false ∧
    opLe .nil .nil = .ok true := by decide +kernel
example : opLt (.ptr .nil) (.int .int 1) = .ok false := less_nil _ _ (Or.inl (by decide +kernel))

/-! ## `contains` -/

/-- string `contains` string is the substring test -/
theorem contains_str (a b : GoVal) (s t : Bytes) (ha : strip a = .str s) (hb : strip b = .str t) :
    opContains a b = .ok (containsB s t) ∧ (containsB s t = true ↔ t <:+: s) := by
  rw [opContains_eq, ha, hb]
  exact ⟨by simp [wrapOf, valueOf, containsW], containsB_iff s t⟩

example : opContains (.str [97, 98, 99]) (.str [98, 99]) = .ok true ∧
    opContains (.str [97, 98, 99]) (.str [99, 98]) = .ok false := by decide +kernel
example : opContains (.str [97, 98, 99]) (.drop (.str [98, 99])) = .ok (containsB [97, 98, 99] [98, 99]) :=
  (contains_str _ _ _ _ (by rfl) (by rfl)).1

/-- array `contains` is membership by `==` (`values.Equal`, the function behind `opEq`) -/
theorem contains_arr (a b : GoVal) (xs : List GoVal) (ha : seqElems (strip a) = some xs) :
    opContains a b = containsList xs (strip b) ∧
    ((∀ x ∈ xs, (equal x (strip b)).isOk = true) →
      (opContains a b = .ok true ↔ ∃ x ∈ xs, equal x (strip b) = .ok true)) := by
  have h : opContains a b = containsList xs (strip b) := by
    rw [opContains_eq]
    generalize strip a = x at *
    cases x <;> simp [seqElems] at ha <;> subst ha <;> simp [wrapOf, valueOf, containsW, seqView]
  exact ⟨h, fun hok => by rw [h]; exact containsList_true_iff xs _ hok⟩

example : opContains (.slice .any [.int .int 1, .str [97]]) (.flt .f64 1) = .ok true ∧
    opContains (.slice .any [.int .int 1, .str [97]]) (.str [98]) = .ok false := by decide +kernel
example : opContains (.slice .any [.int .int 1, .str [97]]) (.flt .f64 1) =
    containsList [.int .int 1, .str [97]] (.flt .f64 1) :=
  (contains_arr _ _ _ (by rfl)).1

/-- map `contains` is key membership, by the same lookup as `m[k]` (`GoVal.indexValue`): the needle is
converted to the map's key type as far as Go allows (an integer never becomes a string key), and the map
contains it exactly when that key has an entry -/
theorem contains_map (a b : GoVal) (kt vt : Ty) (kvs : List (GoVal × GoVal))
    (ha : strip a = .map kt vt kvs) :
    opContains a b =
      (if (strip b).isNil then .ok false
       else match GoVal.convertKey kt (strip b) with
         | none => .unmodelled "map key conversion"
         | some none => .ok false
         | some (some k) => .ok (GoVal.mapFind kvs k).isSome) := by
  rw [opContains_eq, ha]
  simp only [wrapOf, valueOf, containsW, mapView, bind, Res.bind]
  by_cases hn : (strip b).isNil = true
  · simp [hn]
  · simp only [hn, if_false, Bool.false_eq_true]
    cases GoVal.convertKey kt (strip b) with
    | none => rfl
    | some o => cases o <;> rfl

/-- `contains` agrees with indexing: when the needle converts to a key, the map contains it iff
`m[k]` finds an entry (the value `indexValue` returns is that entry) -/
theorem contains_map_agrees_with_lookup (a b : GoVal) (kt vt : Ty) (kvs : List (GoVal × GoVal)) (k : GoVal)
    (ha : strip a = .map kt vt kvs) (hb : (strip b).isNil = false)
    (hk : GoVal.convertKey kt (strip b) = some (some k)) :
    opContains a b = .ok (GoVal.mapFind kvs k).isSome := by
  rw [contains_map a b kt vt kvs ha, hb, hk]; rfl

theorem mapFind_str_isSome_iff (kvs : List (GoVal × GoVal)) (s : Bytes) :
    (GoVal.mapFind kvs (.str s)).isSome = true ↔ some (Key.str s) ∈ keyList kvs := by
  have key : ∀ g : GoVal, (GoVal.ifaceEq g (.str s) == some true) = true ↔ toKey g = some (Key.str s) := by
    intro g; cases g <;> simp [GoVal.ifaceEq, toKey]
  induction kvs with
  | nil => simp [GoVal.mapFind, keyList]
  | cons e rest ih =>
    by_cases h : (GoVal.ifaceEq e.1 (.str s) == some true) = true
    · have : toKey e.1 = some (Key.str s) := (key e.1).1 h
      simp [GoVal.mapFind, List.find?, h, keyList, this]
    · have hne : toKey e.1 ≠ some (Key.str s) := fun hh => h ((key e.1).2 hh)
      have h' : (GoVal.ifaceEq e.1 (.str s) == some true) = false := by simpa using h
      have hstep : GoVal.mapFind (e :: rest) (.str s) = GoVal.mapFind rest (.str s) := by
        simp [GoVal.mapFind, List.find?, h']
      rw [hstep]
      constructor
      · intro hm
        simp only [keyList, List.map_cons, List.mem_cons]
        exact Or.inr (ih.1 hm)
      · intro hm
        simp only [keyList, List.map_cons, List.mem_cons] at hm
        rcases hm with hm | hm
        · exact absurd hm.symm hne
        · exact ih.2 hm

/-- for the usual string-keyed map and a string needle -/
theorem contains_map_str (a b : GoVal) (vt : Ty) (kvs : List (GoVal × GoVal)) (s : Bytes)
    (ha : strip a = .map .str vt kvs) (hb : strip b = .str s) :
    ∃ r, opContains a b = .ok r ∧ (r = true ↔ some (Key.str s) ∈ keyList kvs) := by
  rw [contains_map a b .str vt kvs ha, hb]
  exact ⟨(GoVal.mapFind kvs (.str s)).isSome, by simp [GoVal.isNil, GoVal.convertKey], mapFind_str_isSome_iff kvs s⟩

/-- an integer needle is never a key of a string-keyed map (no code-point conversion) -/
theorem contains_map_str_int (a b : GoVal) (vt : Ty) (kvs : List (GoVal × GoVal)) (k : IntKind) (n : Int)
    (ha : strip a = .map .str vt kvs) (hb : strip b = .int k n) : opContains a b = .ok false := by
  rw [contains_map a b .str vt kvs ha, hb]; simp [GoVal.isNil, GoVal.convertKey]

example : opContains (.map .str .any [(.str [97], .int .int 1)]) (.str [97]) = .ok true ∧
    opContains (.map .str .any [(.str [97], .int .int 1)]) (.str [98]) = .ok false ∧
    opContains (.map .str .any [(.str [97], .int .int 1)]) (.int .int 1) = .ok false := by decide +kernel
/-- a map with keys of type `any` (what a YAML document unmarshals to) contains its string key;
    an `int64`-keyed map contains the `int` 2 -/
example : opContains (.map .any .any [(.str [97], .int .int 1)]) (.str [97]) = .ok true ∧
    opContains (.map (.int .i64) .any [(.int .i64 2, .str [120])]) (.int .int 2) = .ok true ∧
    opContains (.map (.int .i64) .any [(.int .i64 2, .str [120])]) (.int .int 3) = .ok false := by decide +kernel
example : ∃ r, opContains (.map .str .any [(.str [97], .int .int 1)]) (.drop (.str [97])) = .ok r ∧
    (r = true ↔ some (Key.str [97]) ∈ keyList [(.str [97], .int .int 1)]) :=
  contains_map_str _ _ _ _ _ (by rfl) (by rfl)

/-! ## `and` / `or` -/

/-- exactly nil and false are falsy -/
theorem truthy_iff (a : GoVal) :
    ∃ r, truthy a = .ok r ∧ (r = true ↔ strip a ≠ .nil ∧ strip a ≠ .bool false) := by
  refine ⟨_, truthy_eq a, ?_⟩
  generalize strip a = x
  cases x <;> simp [GoVal.isNil, isFalseV]
  rename_i b; cases b <;> simp

/-- `and` / `or` are the Boolean connectives of the operands' truthiness -/
theorem and_or_truthy (a b : GoVal) {x y : Bool} (hx : truthy a = .ok x) (hy : truthy b = .ok y) :
    opAnd a b = .ok (x && y) ∧ opOr a b = .ok (x || y) := by
  have hx' : (operand a).test = .ok x := hx
  have hy' : (operand b).test = .ok y := hy
  simp only [opAnd, opOr, andW, orW, Res.bind_eq, hx', Res.bind_ok, hy']
  cases x <;> simp

example : truthy (.int .int 0) = .ok true ∧ truthy (.str []) = .ok true ∧ truthy (.slice .any []) = .ok true ∧
    truthy .nil = .ok false ∧ truthy (.bool false) = .ok false ∧ truthy (.drop (.bool false)) = .ok false ∧
    opAnd (.int .int 0) .nil = .ok false ∧ opOr .nil (.str []) = .ok true := by decide +kernel

/-! ## No operator ever fails -/

/-- no relational operator or `contains` panics, whatever the two values are -/
theorem rel_no_panic (o : Op) (a b : GoVal) : (relW o (operand a) (operand b)).isPanic = false :=
  relW_noPanic o _ _ (operand_ok a) (operand_ok b)

/-- spelled out for the seven operators, truthiness, `and` and `or` -/
theorem ops_no_panic (a b : GoVal) :
    (opEq a b).isPanic = false ∧ (opNe a b).isPanic = false ∧ (opLt a b).isPanic = false ∧
    (opGt a b).isPanic = false ∧ (opLe a b).isPanic = false ∧ (opGe a b).isPanic = false ∧
    (opContains a b).isPanic = false ∧ (truthy a).isPanic = false ∧
    (opAnd a b).isPanic = false ∧ (opOr a b).isPanic = false := by
  refine ⟨rel_no_panic .eq a b, rel_no_panic .ne a b, rel_no_panic .lt a b, rel_no_panic .gt a b,
    rel_no_panic .le a b, rel_no_panic .ge a b, rel_no_panic .contains a b, (operand a).test_noPanic, ?_, ?_⟩
  · obtain ⟨x, hx⟩ := (operand a).test_ok
    obtain ⟨y, hy⟩ := (operand b).test_ok
    simp only [opAnd, andW, Res.bind_eq, hx, Res.bind_ok]
    cases x <;> simp [hy]
  · obtain ⟨x, hx⟩ := (operand a).test_ok
    obtain ⟨y, hy⟩ := (operand b).test_ok
    simp only [opOr, orW, Res.bind_eq, hx, Res.bind_ok]
    cases x <;> simp [hy]

/-- a whole condition (relational operators, `and`, `or`, parentheses, variables and array
elements) never panics -/
theorem cond_no_panic (c : CE) (env : List GoVal) : (c.eval env).isPanic = false :=
  (CE.eval_noPanic env c).1

-- the inputs that panicked before the repairs (D5; uncomparable needle of an ordered map)
example : opEq (.map .str .any [(.str [97], .int .int 1)]) (.map .str .any [(.str [97], .int .int 1)]) = .ok true ∧
    opContains (.mapSlice [(.slice .any [.int .int 1], .int .int 1)]) (.slice .any [.int .int 1]) = .ok false := by
  decide +kernel
