import Proofs.HyphenSourceCompile
/-!
# `run` on a source and on its hyphen-free version (helpers for `Proofs/C13Source.lean`)
-/

/-- the hypotheses under which deleting the hyphens of the SOURCE deletes the `.trim` nodes of the compiled TREE
    (all decidable): good delimiters; the items and the hyphen-free items are what the tokenizer reads back from
    their spellings (`Clean`; the second does not follow from the first: `{{--1}}`, `{{ x}-}}`); raw blocks are
    closed (`RawClosed`: otherwise the raw body is the token sources as spelled, hyphens included) and carry no
    hyphen on the inner side of their tags (`RawPlain`: such a hyphen is kept as an empty slice of the body). -/
def HyphenClean (d : Delims) (items : List Item) : Prop :=
  GoodDelims d ∧ Clean d items ∧ Clean d (dropHyphens items) ∧ RawClosed items ∧ RawPlain items

instance (d : Delims) (items : List Item) : Decidable (HyphenClean d items) := by unfold HyphenClean; infer_instance

/-- no hyphen inside a `capture` body of the template a source compiles to (nothing is asked of a source that
    does not compile) -/
def SrcCapTrimFree (delims : List Bytes) (src : Bytes) (line : Nat) : Prop :=
  ∀ nodes, compileSource delims src line = .ok nodes → capTrimFree nodes = true

instance (delims : List Bytes) (src : Bytes) (line : Nat) : Decidable (SrcCapTrimFree delims src line) := by
  unfold SrcCapTrimFree
  cases h : compileSource delims src line with
  | ok nodes =>
    by_cases hc : capTrimFree nodes = true
    · exact isTrue (fun n hn => by cases hn; exact hc)
    · exact isFalse (fun hall => hc (hall nodes rfl))
  | err e => exact isTrue (fun n hn => by cases hn)
  | panic w => exact isTrue (fun n hn => by cases hn)
  | unmodelled w => exact isTrue (fun n hn => by cases hn)

/-- the `Write` calls that the fault-free render of a source makes on its writer, in order (none when the source
    does not compile) -/
def runCalls (P : Prims) (O : OutPrims) (cfg : Cfg) (fs : FS) (fuel : Nat) (src : Bytes) (line : Nat) (env : Env) : List Bytes :=
  match compileSource cfg.delims src line with
  | .ok root => (renderRoot (mkCtx P O cfg fs fuel) root env).calls
  | _ => []

/-- what `Render` returns, read off the run of `renderRoot` -/
def resOfRoot : Bytes × Prog.Outcome Status → RunResult
  | (out, .ok .done) => .ok out
  | (_, .ok (.brk e)) => .err e
  | (_, .ok (.cont e)) => .err e
  | (_, .err (.located e)) => .err e
  | (_, .err (.plain c)) => .err ⟨0, false, c, .byCause⟩
  | (_, .panic w) => .panic w
  | (_, .unmodelled w) => .unmodelled w

theorem runRoot_eq_resOfRoot (P : Prims) (O : OutPrims) (cfg : Cfg) (fs : FS) (fuel : Nat) (root : List Node) (env : Env) :
    runRoot P O cfg fs fuel root env = resOfRoot (renderRoot (mkCtx P O cfg fs fuel) root env).runPure := by
  unfold runRoot frender
  rw [Prog.runPure_bind]
  rcases (renderRoot (mkCtx P O cfg fs fuel) root env).runPure with ⟨o, r⟩
  cases r with
  | ok st => cases st <;> simp [statusToProg, Prog.runPure, resOfRoot]
  | err e => cases e <;> simp [resOfRoot]
  | panic w => simp [resOfRoot]
  | unmodelled w => simp [resOfRoot]

theorem resOfRoot_ok_iff (x : Bytes × Prog.Outcome Status) (out : Bytes) : resOfRoot x = .ok out ↔ x = (out, .ok .done) := by
  obtain ⟨o, r⟩ := x
  cases r with
  | ok st => cases st <;> simp [resOfRoot]
  | err e => cases e <;> simp [resOfRoot]
  | panic w => simp [resOfRoot]
  | unmodelled w => simp [resOfRoot]

/-- the result is determined by the outcome alone, unless the render ends normally -/
theorem resOfRoot_of_snd (x y : Bytes × Prog.Outcome Status) (h : x.2 = y.2) (hn : x.2 ≠ .ok .done) : resOfRoot x = resOfRoot y := by
  obtain ⟨o, r⟩ := x
  obtain ⟨o', r'⟩ := y
  simp only at h hn
  subst h
  cases r with
  | ok st => cases st <;> first | exact absurd rfl hn | rfl
  | err e => cases e <;> rfl
  | panic w => rfl
  | unmodelled w => rfl

theorem rootResult_ok_done (ops : List WOp) (env' : Env) : rootResult ops (.ok .done env') = (runOps ops, .ok .done) := rfl

theorem rootResult_snd_done (ops : List WOp) (o : EOut Status) (h : (rootResult ops o).2 = .ok .done) : ∃ env', o = .ok .done env' := by
  cases o with
  | ok st env =>
    cases st with
    | done => exact ⟨env, rfl⟩
    | brk e => simp [rootResult] at h
    | cont e => simp [rootResult] at h
  | err e => simp [rootResult] at h
  | panic w => simp [rootResult] at h
  | unmodelled w => simp [rootResult] at h

/-! ## the tree compiled from a hyphen-free source has no `.trim` node -/

mutual
theorem hasTrimNode_stripNode : ∀ n : Node, (∀ b, n ≠ .trim b) → hasTrimNode (stripNode n) = false
  | .text _ _, _ => by simp [stripNode, hasTrimNode]
  | .obj _ _, _ => by simp [stripNode, hasTrimNode]
  | .raw _, _ => by simp [stripNode, hasTrimNode]
  | .trim b, h => absurd rfl (h b)
  | .assign _ _ _, _ => by simp [stripNode, hasTrimNode]
  | .capture _ _ body, _ => by simp only [stripNode, hasTrimNode]; exact hasTrim_stripTrims body
  | .ifB _ bs, _ => by simp only [stripNode, hasTrimNode]; exact hasTrimBranches_strip bs
  | .caseB _ _ cs, _ => by simp only [stripNode, hasTrimNode]; exact hasTrimCases_strip cs
  | .loop _ _ _ _ _ body cls, _ => by
    simp only [stripNode, hasTrimNode, hasTrim_stripTrims body, hasTrimClauses_strip cls, Bool.or_self]
  | .cycle _ _ _ _, _ => by simp [stripNode, hasTrimNode]
  | .brk _, _ => by simp [stripNode, hasTrimNode]
  | .cont _, _ => by simp [stripNode, hasTrimNode]
  | .incl _ _, _ => by simp [stripNode, hasTrimNode]
theorem hasTrim_stripTrims : ∀ ns : List Node, hasTrim (stripTrims ns) = false
  | [] => by simp [stripTrims, hasTrim]
  | n :: ns => by
    cases n with
    | trim b => rw [stripTrims]; exact hasTrim_stripTrims ns
    | _ =>
      rw [stripTrims_cons_of_ne _ _ (by intro b h; cases h), hasTrim,
        hasTrimNode_stripNode _ (by intro b h; cases h), hasTrim_stripTrims ns]
      rfl
theorem hasTrimBranches_strip : ∀ bs : List (CondT × List Node), hasTrimBranches (stripBranches bs) = false
  | [] => by simp [stripBranches, hasTrimBranches]
  | (t, body) :: rest => by
    simp only [stripBranches, hasTrimBranches, hasTrim_stripTrims body, hasTrimBranches_strip rest, Bool.or_self]
theorem hasTrimCases_strip : ∀ cs : List (Option (Nat × List Expr) × List Node), hasTrimCases (stripCases cs) = false
  | [] => by simp [stripCases, hasTrimCases]
  | (w, body) :: rest => by
    simp only [stripCases, hasTrimCases, hasTrim_stripTrims body, hasTrimCases_strip rest, Bool.or_self]
theorem hasTrimClauses_strip : ∀ cls : List (List Node), hasTrimClauses (stripClauses cls) = false
  | [] => by simp [stripClauses, hasTrimClauses]
  | body :: rest => by
    simp only [stripClauses, hasTrimClauses, hasTrim_stripTrims body, hasTrimClauses_strip rest, Bool.or_self]
end

/-! ## the two runs, from the two trees -/

theorem compileSource_dropHyphens (delims : List Bytes) (items : List Item) (line : Nat)
    (h : HyphenClean (Delims.ofList delims) items) :
    compileSource delims (spell (Delims.ofList delims) (dropHyphens items)) line =
      (compileSource delims (spell (Delims.ofList delims) items) line).mapOk stripTrims := by
  obtain ⟨hg, hc, hc0, hrc, hrp⟩ := h
  rw [compileSource_spell delims _ line hg hc0, compileSource_spell delims _ line hg hc]
  exact compileTokens_dropHyphens _ items line hrc hrp

/-- the two runs of a template and of its hyphen-free version: a common compile-time failure, or the renders of a
    tree and of `stripTrims` of it -/
theorem run_pair_dropHyphens (P : Prims) (O : OutPrims) (cfg : Cfg) (fs : FS) (fuel : Nat) (items : List Item) (line : Nat)
    (env : Env) (h : HyphenClean (Delims.ofList cfg.delims) items) :
    (∃ nodes, compileSource cfg.delims (spell (Delims.ofList cfg.delims) items) line = .ok nodes ∧
      compileSource cfg.delims (spell (Delims.ofList cfg.delims) (dropHyphens items)) line = .ok (stripTrims nodes) ∧
      run P O cfg fs fuel (spell (Delims.ofList cfg.delims) items) line env =
        resOfRoot (renderRoot (mkCtx P O cfg fs fuel) nodes env).runPure ∧
      run P O cfg fs fuel (spell (Delims.ofList cfg.delims) (dropHyphens items)) line env =
        resOfRoot (renderRoot (mkCtx P O cfg fs fuel) (stripTrims nodes) env).runPure) ∨
    ((∀ out, run P O cfg fs fuel (spell (Delims.ofList cfg.delims) items) line env ≠ .ok out) ∧
      (∀ nodes, compileSource cfg.delims (spell (Delims.ofList cfg.delims) items) line ≠ .ok nodes) ∧
      (∀ nodes, compileSource cfg.delims (spell (Delims.ofList cfg.delims) (dropHyphens items)) line ≠ .ok nodes) ∧
      run P O cfg fs fuel (spell (Delims.ofList cfg.delims) items) line env =
        run P O cfg fs fuel (spell (Delims.ofList cfg.delims) (dropHyphens items)) line env) := by
  have hcomp := compileSource_dropHyphens cfg.delims items line h
  rw [run_eq_runCompiled, run_eq_runCompiled]
  cases hc : compileSource cfg.delims (spell (Delims.ofList cfg.delims) items) line with
  | ok nodes =>
    left
    rw [hc] at hcomp
    have hcomp' : compileSource cfg.delims (spell (Delims.ofList cfg.delims) (dropHyphens items)) line = .ok (stripTrims nodes) :=
      hcomp
    rw [hcomp']
    exact ⟨nodes, rfl, rfl, runRoot_eq_resOfRoot .., runRoot_eq_resOfRoot ..⟩
  | err e =>
    right
    rw [hc] at hcomp
    have hcomp' : compileSource cfg.delims (spell (Delims.ofList cfg.delims) (dropHyphens items)) line = .err e := hcomp
    rw [hcomp']
    exact ⟨(fun out h => by cases h), (fun n h => by cases h), (fun n h => by cases h), rfl⟩
  | panic w =>
    right
    rw [hc] at hcomp
    have hcomp' : compileSource cfg.delims (spell (Delims.ofList cfg.delims) (dropHyphens items)) line = .panic w := hcomp
    rw [hcomp']
    exact ⟨(fun out h => by cases h), (fun n h => by cases h), (fun n h => by cases h), rfl⟩
  | unmodelled w =>
    right
    rw [hc] at hcomp
    have hcomp' : compileSource cfg.delims (spell (Delims.ofList cfg.delims) (dropHyphens items)) line = .unmodelled w := hcomp
    rw [hcomp']
    exact ⟨(fun out h => by cases h), (fun n h => by cases h), (fun n h => by cases h), rfl⟩
