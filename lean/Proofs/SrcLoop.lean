import Proofs.SrcWrites
import Proofs.C11
import Proofs.C08Source
/-!
# Source-level helpers for C11: the arguments `i in (a..b)` of a `for` tag, and a loop whose body prints the item
-/

/-! ## Parsing -/

theorem parseTokens_ident (x : Bytes) : parseTokensE [.ident x, .ch 59] = some (.expr (.var x)) := rfl

/-- an identifier, as a whole source, is the variable of that name -/
theorem parseExprSource_ident (l : Bytes) (hl : Lexeme .rIdent l) : parseExprSource l = .ok (.var l) := by
  unfold parseExprSource
  rw [parseSource_eq, lexRun_single .rIdent l hl]
  simp only [mkTok, consTok, parseOfLex, parseTokens_ident]

theorem lexeme_intDec (n : Int) : Lexeme .rInt (intDec n) := by
  unfold intDec
  split
  · exact Lexeme.int [45] (natDec n.natAbs) (Or.inr rfl) (natDec_ne_nil _) (natDec_all_digits _)
  · exact Lexeme.int [] (natDec n.natAbs) (Or.inl rfl) (natDec_ne_nil _) (natDec_all_digits _)

theorem mkTok_intDec (n : Int) (h : IntKind.i64.inRange n = true) : mkTok .rInt (intDec n) = .ok (some (.lit (.int .int n))) := by
  unfold intDec
  by_cases hn : n < 0
  · have hv : -(n.natAbs : Int) = n := by omega
    simp only [hn, if_true, mkTok, intLitValue_neg, decVal_natDec, hv, h]
  · have hv : (n.natAbs : Int) = n := by omega
    simp only [hn, if_false, mkTok, intLitValue_pos _ (natDec_ne_nil _) (natDec_all_digits _), decVal_natDec, hv, h, if_true]

/-- the text `i in (a..b)` -/
def rangeArgs (ivar : Bytes) (a b : Int) : Bytes :=
  ivar ++ ([32, 105, 110, 32, 40] ++ (intDec a ++ ([46, 46] ++ (intDec b ++ [41]))))

def rangePieces (ivar : Bytes) (a b : Int) : List Piece :=
  [⟨[], .rLoop, kwLoop⟩, ⟨[], .rIdent, ivar⟩, ⟨[32], .rIn, [105, 110]⟩, ⟨[32], .rAny, [40]⟩, ⟨[], .rInt, intDec a⟩,
   ⟨[], .rDotdot, [46, 46]⟩, ⟨[], .rInt, intDec b⟩, ⟨[], .rAny, [41]⟩]

theorem rangePieces_src (ivar : Bytes) (a b : Int) : Piece.src (rangePieces ivar a b) ++ [] = kwLoop ++ rangeArgs ivar a b := by
  simp [rangePieces, Piece.src, rangeArgs]

theorem rangePieces_ok (ivar : Bytes) (a b : Int) (hiv : Lexeme .rIdent ivar) :
    WellSpaced (rangePieces ivar a b ++ [semiPiece []]) := by
  refine ⟨rfl, Lexeme.selLoop, rfl, rfl, hiv, ?_, rfl, ?_, ?_, rfl, Lexeme.punct 40 (by decide), ?_, rfl, lexeme_intDec a, ?_,
    rfl, Lexeme.dotdot, rfl, rfl, lexeme_intDec b, ?_, rfl, Lexeme.punct 41 (by decide), ?_, rfl, lexeme_semi, ?_, trivial⟩
  · exact fits_break _ _ 32 _ hiv (by decide)
  · exact Lexeme.word 105 [110] [] (by decide) (by decide) (Or.inl rfl)
  · exact fits_break _ _ 32 _ (Lexeme.word 105 [110] [] (by decide) (by decide) (Or.inl rfl)) (by decide)
  · rfl
  · rfl
  · rfl
  · rfl
  · rfl

/-- **the arguments `i in (a..b)` of a `for` tag**: the loop variable, the range of the two literals, no modifiers -/
theorem parse_rangeArgs (ivar : Bytes) (a b : Int) (hiv : Lexeme .rIdent ivar)
    (ha : IntKind.i64.inRange a = true) (hb : IntKind.i64.inRange b = true) :
    parseStatement kwLoop (rangeArgs ivar a b) = .ok (.loop ivar (.range (.lit (.int .int a)) (.lit (.int .int b))) {}) := by
  unfold parseStatement
  rw [← rangePieces_src, parseSource_pieces _ [] (rangePieces_ok ivar a b hiv)]
  simp only [rangePieces, List.map_cons, List.map_nil, Piece.lexeme, List.cons_append, List.nil_append, lexemeToks,
    mkTok_intDec a ha, mkTok_intDec b hb]
  simp only [mkTok, consTok, parseOfLex]
  rfl

/-! ## Rendering -/

/-- the decimal numeral of an integer item -/
def decOf : GoVal → Bytes
  | .int _ n => intDec n
  | _ => []

theorem stdOut_int (n : Int) : stdOut.chunks (.int .int n) = .ok [intDec n] := by
  simp [stdOut, stdChunks, GoVal.toLiquid, writeChunksL, writeObjectL, sprint, Res.bind]

/-- printing a variable bound to an integer is one verbatim write of its numeral -/
theorem writesAt_obj_int (c : RCtx) (hO : ∀ n, c.O.chunks (.int .int n) = .ok [intDec n]) (l : Nat) (i : Bytes) (env : Env) (k : Int)
    (hk : env.get i = .int .int k) : WritesAt c (.obj l (.var i)) env (intDec k) := by
  intro B
  have hev : evaluate c.P env (.var i) = .ok (.int .int k) := by
    simp only [evaluate, eval, hk]; rfl
  refine ⟨B ++ intDec k, [], ?_, by simp⟩
  simp only [renderNode, wrapFailAt, M.mapFail, bind, M.bind, M.getEnv, Prog.bind, hev, M.ofRes, pure, M.pure]
  split
  · next h => simp [GoVal.isNil] at h
  simp only [hO, M.bind, M.pure, Prog.bind, writeAllM, bind, pure, Prog.bind_assoc]
  rw [Prog.runPure_mapFail]
  simp only [Prog.runPure_bind, writeVerbatim_runPure, Prog.runPure, List.append_nil, M.pure]

/-- the fold of the iterations of a loop whose body is `{{ i }}` over integer items -/
theorem fold_print_ints (c : RCtx) (hO : ∀ n, c.O.chunks (.int .int n) = .ok [intDec n]) (l : Nat) (i : Bytes)
    (hi : i ≠ nmForloop) (n : Nat) : ∀ (xs : List GoVal), (∀ x ∈ xs, ∃ k, x = .int .int k) →
    ∀ (pre : Bytes) (idx : Nat) (cyc : List (GoVal × GoVal)) (env : Env),
    ∃ cyc' env', xs.foldl (iterStep i none (renderBlockBody c [.obj l (.var i)]) n) ⟨pre, idx, cyc, .running ⟨env, ⟨[], false⟩⟩⟩ =
      ⟨pre ++ (xs.map decOf).flatten, idx + xs.length, cyc', .running ⟨env', ⟨[], false⟩⟩⟩
  | [], _, pre, idx, cyc, env => ⟨cyc, env, by simp⟩
  | x :: xs, h, pre, idx, cyc, env => by
    obtain ⟨k, rfl⟩ := h x (List.mem_cons_self ..)
    have hget : (iterStart i ⟨env, ⟨[], false⟩⟩ (.int .int k) idx n cyc).env.get i = .int .int k :=
      iterStart_var i _ _ idx n cyc hi
    have hbody := renderBlockBody_writes c (iterStart i ⟨env, ⟨[], false⟩⟩ (.int .int k) idx n cyc).env
      [(.obj l (.var i), intDec k)] [] (by
        intro p hp
        simp only [List.mem_singleton] at hp
        subst hp
        exact writesAt_obj_int c hO l i _ k hget)
    simp only [List.map_cons, List.map_nil, List.flatten_cons, List.flatten_nil, List.append_nil, List.nil_append] at hbody
    have hs : iterStart i ⟨env, ⟨[], false⟩⟩ (.int .int k) idx n cyc =
        ⟨(iterStart i ⟨env, ⟨[], false⟩⟩ (.int .int k) idx n cyc).env, ⟨[], false⟩⟩ := rfl
    rw [List.foldl_cons]
    have hstep : iterStep i none (renderBlockBody c [.obj l (.var i)]) n ⟨pre, idx, cyc, .running ⟨env, ⟨[], false⟩⟩⟩ (.int .int k) =
        ⟨pre ++ intDec k, idx + 1, nextCyc cyc ⟨(iterStart i ⟨env, ⟨[], false⟩⟩ (.int .int k) idx n cyc).env, ⟨[], false⟩⟩,
          .running ⟨(iterStart i ⟨env, ⟨[], false⟩⟩ (.int .int k) idx n cyc).env, ⟨[], false⟩⟩⟩ := by
      simp only [iterStep]
      rw [iterBody_for, hs, hbody]
    rw [hstep]
    obtain ⟨cyc', env', hfold⟩ := fold_print_ints c hO l i hi n xs (fun y hy => h y (List.mem_cons_of_mem _ hy))
      (pre ++ intDec k) (idx + 1) _ _
    refine ⟨cyc', env', ?_⟩
    rw [hfold]
    simp [decOf, List.append_assoc, Nat.add_assoc, Nat.add_comm 1]

theorem rangeItems_ints (a b : Int) : ∀ x ∈ rangeItems a b, ∃ k, x = .int .int k := by
  intro x hx
  unfold rangeItems at hx
  split at hx
  · cases hx
  · simp only [List.mem_map] at hx
    obtain ⟨j, _, rfl⟩ := hx
    exact ⟨_, rfl⟩

theorem selectItems_mem (r : Bool) (off lim : Option Int) (xs : List GoVal) : ∀ x ∈ selectItems r off lim xs, x ∈ xs := by
  intro x hx
  unfold selectItems at hx
  simp only at hx
  have h1 : ∀ y, y ∈ (if r then xs.reverse else xs) → y ∈ xs := by
    intro y hy; split at hy
    · exact List.mem_reverse.mp hy
    · exact hy
  have h2 : ∀ y, y ∈ (match off with
      | some o => if o > 0 then (if r then xs.reverse else xs).drop o.toNat else (if r then xs.reverse else xs)
      | none => (if r then xs.reverse else xs)) → y ∈ xs := by
    intro y hy
    split at hy
    · split at hy
      · exact h1 y (List.mem_of_mem_drop hy)
      · exact h1 y hy
    · exact h1 y hy
  split at hx
  · split at hx
    · exact h2 x (List.mem_of_mem_take hx)
    · exact h2 x hx
  · exact h2 x hx

/-- **a `for` loop over a literal range whose body prints the loop variable**, as a whole template -/
theorem runRoot_for_range (P : Prims) (O : OutPrims) (cfg : Cfg) (fs : FS) (fuel : Nat) (hO : ∀ n, O.chunks (.int .int n) = .ok [intDec n])
    (line l2 : Nat) (i : Bytes) (hi : i ≠ nmForloop) (a b : Int) (mods : LoopMods) (off lim : Option Int) (env : Env)
    (hoff : intModifier P mods.offset ⟨line, true⟩ ⟨env, {}⟩ = .ret (off, ⟨env, {}⟩))
    (hlim : intModifier P mods.limit ⟨line, true⟩ ⟨env, {}⟩ = .ret (lim, ⟨env, {}⟩))
    (hsmall : b - a ≤ cfg.budget) :
    runRoot P O cfg fs fuel [.loop line false i (.range (.lit (.int .int a)) (.lit (.int .int b))) mods [.obj l2 (.var i)] []] env =
      .ok ((selectItems mods.reversed off lim (rangeItems a b)).map decOf).flatten := by
  have hv : evaluate (mkCtx P O cfg fs fuel).P (⟨env, {}⟩ : RS).env (.range (.lit (.int .int a)) (.lit (.int .int b))) =
      .ok (.range a b) := by
    simp [evaluate, eval, GoVal.intOf, bind, Res.bind, GoVal.unwrap]
  have hitems : loopItems (mkCtx P O cfg fs fuel).cfg.budget (.range a b) = .ok (rangeItems a b) := by
    show loopItems cfg.budget (.range a b) = _
    simp only [loopItems]
    rw [if_neg (by omega)]
  have hden := for_denotation (mkCtx P O cfg fs fuel) line i _ mods [.obj l2 (.var i)] [] ⟨env, {}⟩ (.range a b) (rangeItems a b)
    off lim (by simp) hv hitems hoff hlim
  obtain ⟨cyc', env', hfold⟩ := fold_print_ints (mkCtx P O cfg fs fuel) hO l2 i hi
    (selectItems mods.reversed off lim (rangeItems a b)).length (selectItems mods.reversed off lim (rangeItems a b))
    (fun x hx => rangeItems_ints a b x (selectItems_mem _ _ _ _ x hx)) [] 0 [] env
  have hrun : (renderNode (mkCtx P O cfg fs fuel) (.loop line false i (.range (.lit (.int .int a)) (.lit (.int .int b))) mods
      [.obj l2 (.var i)] []) ⟨env, {}⟩).runPure =
      (((selectItems mods.reversed off lim (rangeItems a b)).map decOf).flatten,
        .ok (.done, restoreFrom i ⟨env, {}⟩ ⟨env', ⟨[], false⟩⟩)) := by
    rw [hden]
    have hst : LoopAcc.start (⟨env, {}⟩ : RS) = ⟨[], 0, [], .running ⟨env, ⟨[], false⟩⟩⟩ := rfl
    cases hsel : selectItems mods.reversed off lim (rangeItems a b) with
    | nil =>
      rw [hsel] at hfold
      simp only [hst, loopResult]
      simp only [List.foldl_nil, List.map_nil, List.flatten_nil] at hfold ⊢
      simp only [LoopAcc.mk.injEq, LoopSt.running.injEq, RS.mk.injEq] at hfold
      obtain ⟨-, -, -, rfl, -⟩ := hfold
      rfl
    | cons x xs =>
      rw [hsel] at hfold
      simp only [hst, hfold, loopResult, List.nil_append]
  unfold runRoot
  rw [frender_single, Prog.runPure_bind, hrun]
  simp [restoreFrom, wrapFailAt, M.mapFail, flushM, Prog.mapFail, Prog.bind, Prog.runPure]

/-! ## The modifiers ` reversed`, ` offset: o`, ` limit: l` with integer literals -/

def kwOffsetC : Bytes := kwOffset ++ [58]
def kwLimitC : Bytes := kwLimit ++ [58]

/-- the pieces of ` reversed offset: o limit: l` (in this order, each optional) -/
def modsPieces (rev : Bool) (off lim : Option Int) : List Piece :=
  (if rev then [⟨[32], .rIdent, kwReversed⟩] else []) ++
  ((match off with | some o => [⟨[32], .rKeyword, kwOffsetC⟩, ⟨[32], .rInt, intDec o⟩] | none => []) ++
   (match lim with | some l => [⟨[32], .rKeyword, kwLimitC⟩, ⟨[32], .rInt, intDec l⟩] | none => []))

/-- the text ` reversed offset: o limit: l` -/
def modsText (rev : Bool) (off lim : Option Int) : Bytes := Piece.src (modsPieces rev off lim)

theorem lexeme_reversed : Lexeme .rIdent kwReversed :=
  Lexeme.word 114 [101, 118, 101, 114, 115, 101, 100] [] (by decide) (by decide) (Or.inl rfl)
theorem lexeme_offsetC : Lexeme .rKeyword kwOffsetC :=
  Lexeme.keyword 111 [102, 102, 115, 101, 116] [] (by decide) (by decide) (Or.inl rfl)
theorem lexeme_limitC : Lexeme .rKeyword kwLimitC :=
  Lexeme.keyword 108 [105, 109, 105, 116] [] (by decide) (by decide) (Or.inl rfl)

/-- pieces that each start with one blank are well spaced in front of the closing `;` -/
theorem wellSpaced_spaceLed : ∀ (ps : List Piece), (∀ p ∈ ps, p.ws = [32] ∧ Lexeme p.rule p.text) →
    WellSpaced (ps ++ [semiPiece []])
  | [], _ => ⟨rfl, lexeme_semi, rfl, trivial⟩
  | p :: ps, h => by
    obtain ⟨hw, hl⟩ := h p (List.mem_cons_self ..)
    refine ⟨by rw [hw]; rfl, hl, ?_, wellSpaced_spaceLed ps (fun q hq => h q (List.mem_cons_of_mem _ hq))⟩
    cases ps with
    | nil => exact fits_break _ _ 59 [] hl (by decide)
    | cons q qs =>
      have hq := (h q (by simp)).1
      show fits p.rule p.text (q.ws ++ q.text ++ Piece.src (qs ++ [semiPiece []])) = true
      rw [hq]
      exact fits_break _ _ 32 _ hl (by decide)

theorem modsPieces_spaceLed (rev : Bool) (off lim : Option Int) :
    ∀ p ∈ modsPieces rev off lim, p.ws = [32] ∧ Lexeme p.rule p.text := by
  intro p hp
  unfold modsPieces at hp
  simp only [List.mem_append] at hp
  rcases hp with hp | hp | hp
  · split at hp
    · simp only [List.mem_singleton] at hp; subst hp; exact ⟨rfl, lexeme_reversed⟩
    · cases hp
  · cases off with
    | none => cases hp
    | some o =>
      simp only [List.mem_cons, List.mem_nil_iff, or_false] at hp
      rcases hp with rfl | rfl
      · exact ⟨rfl, lexeme_offsetC⟩
      · exact ⟨rfl, lexeme_intDec o⟩
  · cases lim with
    | none => cases hp
    | some l =>
      simp only [List.mem_cons, List.mem_nil_iff, or_false] at hp
      rcases hp with rfl | rfl
      · exact ⟨rfl, lexeme_limitC⟩
      · exact ⟨rfl, lexeme_intDec l⟩

/-- the range pieces in front of any well-spaced tail -/
theorem rangePieces_tail_ok (ivar : Bytes) (a b : Int) (hiv : Lexeme .rIdent ivar) (tail : List Piece) (ht : WellSpaced tail) :
    WellSpaced (rangePieces ivar a b ++ tail) := by
  refine ⟨rfl, Lexeme.selLoop, rfl, rfl, hiv, ?_, rfl, ?_, ?_, rfl, Lexeme.punct 40 (by decide), ?_, rfl, lexeme_intDec a, ?_,
    rfl, Lexeme.dotdot, rfl, rfl, lexeme_intDec b, ?_, rfl, Lexeme.punct 41 (by decide), ?_, ht⟩
  · exact fits_break _ _ 32 _ hiv (by decide)
  · exact Lexeme.word 105 [110] [] (by decide) (by decide) (Or.inl rfl)
  · exact fits_break _ _ 32 _ (Lexeme.word 105 [110] [] (by decide) (by decide) (Or.inl rfl)) (by decide)
  · rfl
  · rfl
  · rfl
  · rfl

/-- **the arguments `i in (a..b) reversed offset: o limit: l`** (each modifier optional) -/
theorem parse_rangeArgs_mods (ivar : Bytes) (a b : Int) (rev : Bool) (off lim : Option Int) (hiv : Lexeme .rIdent ivar)
    (ha : IntKind.i64.inRange a = true) (hb : IntKind.i64.inRange b = true)
    (hoff : ∀ o, off = some o → IntKind.i64.inRange o = true) (hlim : ∀ l, lim = some l → IntKind.i64.inRange l = true) :
    parseStatement kwLoop (rangeArgs ivar a b ++ modsText rev off lim) =
      .ok (.loop ivar (.range (.lit (.int .int a)) (.lit (.int .int b)))
        { reversed := rev, offset := off.map (fun o => .lit (.int .int o)), limit := lim.map (fun o => .lit (.int .int o)) }) := by
  unfold parseStatement
  have hsrc : kwLoop ++ (rangeArgs ivar a b ++ modsText rev off lim) =
      Piece.src (rangePieces ivar a b ++ modsPieces rev off lim) ++ [] := by
    rw [src_append, List.append_nil, ← List.append_assoc, ← rangePieces_src, List.append_nil]
    rfl
  have hws : WellSpaced ((rangePieces ivar a b ++ modsPieces rev off lim) ++ [semiPiece []]) := by
    rw [List.append_assoc]
    exact rangePieces_tail_ok ivar a b hiv _ (wellSpaced_spaceLed _ (modsPieces_spaceLed rev off lim))
  rw [hsrc, parseSource_pieces _ [] hws]
  cases off with
  | none =>
    cases lim with
    | none =>
      cases rev <;> simp only [rangePieces, modsPieces, List.map_cons, List.map_nil, Piece.lexeme, List.cons_append, List.nil_append,
      List.append_nil, lexemeToks, mkTok_intDec a ha, mkTok_intDec b hb, Bool.false_eq_true, if_false, if_true] <;> simp only [mkTok, consTok, parseOfLex] <;> rfl
    | some l =>
      have hl := hlim l rfl
      cases rev <;> simp only [rangePieces, modsPieces, List.map_cons, List.map_nil, Piece.lexeme, List.cons_append, List.nil_append,
      List.append_nil, lexemeToks, mkTok_intDec a ha, mkTok_intDec b hb, Bool.false_eq_true, if_false, if_true, mkTok_intDec l hl] <;> simp only [mkTok, consTok, parseOfLex] <;> rfl
  | some o =>
    have ho := hoff o rfl
    cases lim with
    | none =>
      cases rev <;> simp only [rangePieces, modsPieces, List.map_cons, List.map_nil, Piece.lexeme, List.cons_append, List.nil_append,
      List.append_nil, lexemeToks, mkTok_intDec a ha, mkTok_intDec b hb, Bool.false_eq_true, if_false, if_true, mkTok_intDec o ho] <;> simp only [mkTok, consTok, parseOfLex] <;> rfl
    | some l =>
      have hl := hlim l rfl
      cases rev <;> simp only [rangePieces, modsPieces, List.map_cons, List.map_nil, Piece.lexeme, List.cons_append, List.nil_append,
      List.append_nil, lexemeToks, mkTok_intDec a ha, mkTok_intDec b hb, Bool.false_eq_true, if_false, if_true, mkTok_intDec o ho, mkTok_intDec l hl] <;>
        simp only [mkTok, consTok, parseOfLex] <;> rfl
