import Proofs.F64Mono
/-!
# `roundFloat` returns a nearest value of the format (helper lemmas for `Proofs/C17.lean`)

`roundHalfEven` returns a nearest integer (`rhe_near_up`, `rhe_near_down`); every value of the format at or above a
positive `q` is an integer multiple of the unit `2^E` in which `q` is rounded (`rep_multiple_above`), and no value of
the format lies strictly between `⌊q/2^E⌋ · 2^E` and `q` (`no_rep_below`). Hence `|r - q| ≤ |r' - q|` for the
rounding `r` of `q` and every value `r'` of the format (`roundF64_nearest`).
-/

def rabs (x : Rat) : Rat := if x < 0 then -x else x

theorem rhe_near_up (z : Rat) (K : Int) (h : z ≤ (K : Rat)) :
    (roundHalfEven z : Rat) ≤ (K : Rat) ∧ z - (roundHalfEven z : Rat) ≤ (K : Rat) - z := by
  refine ⟨Rat.intCast_le_intCast.2 (roundHalfEven_le_of_le z K h), ?_⟩
  have f1 := Rat.floor_le z
  have f2 := Rat.lt_floor_add_one z
  rw [Rat.intCast_add] at f2
  have one : ((1 : Int) : Rat) = 1 := rfl
  rw [one] at f2
  by_cases hz : z = (z.floor : Rat)
  · rw [hz, roundHalfEven_intCast]
    rw [hz] at h
    grind
  · have hK : z.floor + 1 ≤ K := by
      have : (z.floor : Rat) < (K : Rat) := by grind
      have := Rat.intCast_lt_intCast.1 this
      omega
    have hK' : ((z.floor + 1 : Int) : Rat) ≤ (K : Rat) := Rat.intCast_le_intCast.2 hK
    rw [Rat.intCast_add, one] at hK'
    unfold roundHalfEven
    simp only
    split
    · grind
    · split
      · rw [Rat.intCast_add, one]; grind
      · split
        · grind
        · rw [Rat.intCast_add, one]; grind

theorem rhe_near_down (z : Rat) (K : Int) (h : (K : Rat) ≤ z) :
    (K : Rat) ≤ (roundHalfEven z : Rat) ∧ (roundHalfEven z : Rat) - z ≤ z - (K : Rat) := by
  refine ⟨Rat.intCast_le_intCast.2 (roundHalfEven_ge z K h), ?_⟩
  have f1 := Rat.floor_le z
  have f2 := Rat.lt_floor_add_one z
  rw [Rat.intCast_add] at f2
  have one : ((1 : Int) : Rat) = 1 := rfl
  rw [one] at f2
  have hK : K ≤ z.floor := Rat.le_floor_iff.2 h
  have hK' : (K : Rat) ≤ (z.floor : Rat) := Rat.intCast_le_intCast.2 hK
  unfold roundHalfEven
  simp only
  split
  · grind
  · split
    · rw [Rat.intCast_add, one]; grind
    · split
      · grind
      · rw [Rat.intCast_add, one]; grind

theorem fexp1_mono (p : Nat) (hp : 1 ≤ p) (a b : Rat) (ha : 0 < a) (hab : a ≤ b) : fexp1 p a ≤ fexp1 p b := by
  obtain ⟨a1, _⟩ := fexp1_spec p hp a ha
  obtain ⟨_, b2⟩ := fexp1_spec p hp b (Std.lt_of_lt_of_le ha hab)
  have c1 := mul_pow2_le_of_le_div a1
  rw [← pow2_add] at c1
  have c2 := lt_mul_pow2_of_div_lt b2
  rw [← pow2_add] at c2
  have := pow2_lt_iff.1 (Std.lt_of_le_of_lt (Rat.le_trans c1 hab) c2)
  omega

theorem fexpC_mono (p : Nat) (hp : 1 ≤ p) (emin : Int) (a b : Rat) (ha : 0 < a) (hab : a ≤ b) :
    fexpC p emin a ≤ fexpC p emin b := by
  have := fexp1_mono p hp a b ha hab
  unfold fexpC
  split <;> split <;> omega

/-- a positive value of the format is an integer multiple of its own unit -/
theorem rep_multiple (p : Nat) (emin emax : Int) (r' : Rat) (hr : 0 < r')
    (h : roundFloat p emin emax r' = some r') : ∃ K : Int, r' = (K : Rat) * pow2 (fexpC p emin r') := by
  rw [roundFloat_pos' p emin emax r' hr] at h
  split at h
  · cases h
  · simp only [Option.some.injEq] at h
    exact ⟨_, h.symm⟩

/-- … hence of every smaller unit -/
theorem rep_multiple_of_le (p : Nat) (emin emax : Int) (r' : Rat) (hr : 0 < r')
    (h : roundFloat p emin emax r' = some r') (E : Int) (hE : E ≤ fexpC p emin r') :
    ∃ K : Int, r' = (K : Rat) * pow2 E := by
  obtain ⟨K, hK⟩ := rep_multiple p emin emax r' hr h
  generalize fexpC p emin r' = E' at *
  have hn : E' = ((E' - E).toNat : Int) + E := by omega
  refine ⟨K * ((2 ^ (E' - E).toNat : Nat) : Int), ?_⟩
  rw [hK]
  conv => lhs; rw [hn, pow2_add, pow2_natCast_int]
  rw [Rat.intCast_mul, Rat.mul_assoc]

theorem lt_of_mul_lt_mul_right {a b u : Rat} (hu : 0 < u) (h : a * u < b * u) : a < b := by
  apply Rat.not_le.1
  intro hle
  exact absurd h (Rat.not_lt.2 (Rat.mul_le_mul_of_nonneg_right hle (Rat.le_of_lt hu)))

theorem le_of_mul_le_mul_right {a b u : Rat} (hu : 0 < u) (h : a * u ≤ b * u) : a ≤ b := by
  apply Rat.not_lt.1
  intro hlt
  exact absurd h (Rat.not_le.2 (Rat.mul_lt_mul_of_pos_right hlt hu))

/-- the rounding of a positive `q` is at least as near to `q` as any positive value of the format -/
theorem roundFloat_nearest_pos (p : Nat) (hp : 1 ≤ p) (emin emax : Int) (q r r' : Rat) (hq : 0 < q)
    (h : roundFloat p emin emax q = some r) (hr' : 0 < r') (h' : roundFloat p emin emax r' = some r') :
    rabs (r - q) ≤ rabs (r' - q) := by
  have hrq := h
  rw [roundFloat_pos' p emin emax q hq] at h
  split at h
  · cases h
  simp only [Option.some.injEq] at h
  obtain ⟨s1, s2⟩ := fexp1_spec p hp q hq
  obtain ⟨g1, g2, g3⟩ := fexpC_ge p emin q
  have s3 := div_fexpC_lt p hp emin q hq
  generalize hE : fexpC p emin q = E at *
  have hu := pow2_pos E
  have hz : q = (q / pow2 E) * pow2 E := (Rat.div_mul_cancel (pow2_ne_zero E)).symm
  generalize hzz : q / pow2 E = z at *
  rcases Rat.le_total (a := q) (b := r') with hle | hle
  · have hE' : E ≤ fexpC p emin r' := by
      have := fexpC_mono p hp emin q r' hq hle; rw [hE] at this; exact this
    obtain ⟨K, hK⟩ := rep_multiple_of_le p emin emax r' hr' h' E hE'
    have hzK : z ≤ (K : Rat) := le_of_mul_le_mul_right hu (by rw [← hz, ← hK]; exact hle)
    obtain ⟨n1, n2⟩ := rhe_near_up z K hzK
    have m1 := Rat.mul_le_mul_of_nonneg_right n1 (Rat.le_of_lt hu)
    have m2 := Rat.mul_le_mul_of_nonneg_right n2 (Rat.le_of_lt hu)
    unfold rabs
    split <;> split <;> grind
  · by_cases hMz : (roundHalfEven z : Rat) ≤ z
    · have hrep : ∃ m e, IsFloatRep p emin emax r' m e := by
        rcases roundFloat_rep p hp emin emax r' r' hr' h' with h0 | h0
        · exact absurd h0 (Rat.ne_of_gt hr')
        · exact h0
      obtain ⟨m, e, hrep⟩ := hrep
      have hge := roundFloat_ge_of_rep p hp emin emax q r' r m e hq hle hrep hrq
      have m1 := Rat.mul_le_mul_of_nonneg_right hMz (Rat.le_of_lt hu)
      unfold rabs
      split <;> split <;> grind
    · have hM : z < (roundHalfEven z : Rat) := Rat.not_le.1 hMz
      have f1 := Rat.floor_le z
      have hfl : roundHalfEven z = z.floor + 1 := by
        have a1 := (roundHalfEven_floor z).2
        have a2 : z.floor < roundHalfEven z := Rat.intCast_lt_intCast.1 (Std.lt_of_le_of_lt f1 hM)
        omega
      obtain ⟨_, near⟩ := rhe_near_down z z.floor f1
      have claim : r' ≤ (z.floor : Rat) * pow2 E := by
        apply Rat.not_lt.1
        intro hgt
        have hE'le : fexpC p emin r' ≤ E := by
          have := fexpC_mono p hp emin r' q hr' hle; rw [hE] at this; exact this
        have hE'eq : fexpC p emin r' = E := by
          rcases g3 with g | g
          · have := (fexpC_ge p emin r').1; omega
          · rw [← g, hzz] at s1
            have hfz : ((2 ^ (p - 1) : Nat) : Int) ≤ z.floor :=
              Rat.le_floor_iff.2 (by rw [← pow2_pred_int p hp]; exact s1)
            have hfz' : pow2 ((p : Int) - 1) ≤ (z.floor : Rat) := by
              rw [pow2_pred_int p hp]; exact Rat.intCast_le_intCast.2 hfz
            have lo : pow2 ((p : Int) - 1) ≤ r' / pow2 E :=
              le_div_pow2 (Rat.le_trans (Rat.mul_le_mul_of_nonneg_right hfz' (Rat.le_of_lt hu)) (Rat.le_of_lt hgt))
            have hi : r' / pow2 E < pow2 (p : Int) :=
              div_pow2_lt (Std.lt_of_le_of_lt hle (by rw [hz]; exact Rat.mul_lt_mul_of_pos_right s3 hu))
            obtain ⟨t1, t2⟩ := fexp1_spec p hp r' hr'
            have := fexp_unique p r' (fexp1 p r') E t1 t2 lo hi
            unfold fexpC
            rw [this]
            split
            · omega
            · rfl
        obtain ⟨K, hK⟩ := rep_multiple p emin emax r' hr' h'
        rw [hE'eq] at hK
        have k1 : (z.floor : Rat) < (K : Rat) := lt_of_mul_lt_mul_right hu (by rw [← hK]; exact hgt)
        have k2 : (K : Rat) ≤ z := le_of_mul_le_mul_right hu (by rw [← hK, ← hz]; exact hle)
        have := Rat.le_floor_iff.2 k2
        have := Rat.intCast_lt_intCast.1 k1
        omega
      have m1 := Rat.mul_le_mul_of_nonneg_right near (Rat.le_of_lt hu)
      have m2 := Rat.mul_lt_mul_of_pos_right hM hu
      unfold rabs
      split <;> split <;> grind

/-- rounding a positive rational at most doubles it -/
theorem roundFloat_le_double (p : Nat) (emin emax : Int) (q r : Rat) (hq : 0 < q)
    (h : roundFloat p emin emax q = some r) : r - q ≤ q := by
  rw [roundFloat_pos' p emin emax q hq] at h
  split at h
  · cases h
  simp only [Option.some.injEq] at h
  generalize fexpC p emin q = E at *
  have hu := pow2_pos E
  have hz : q = (q / pow2 E) * pow2 E := (Rat.div_mul_cancel (pow2_ne_zero E)).symm
  have hz0 : ((0 : Int) : Rat) ≤ q / pow2 E := by
    have := Rat.mul_pos hq (Rat.inv_pos.2 hu)
    rw [← Rat.div_def] at this
    exact Rat.le_of_lt this
  generalize q / pow2 E = z at *
  obtain ⟨_, near⟩ := rhe_near_down z 0 hz0
  have m1 := Rat.mul_le_mul_of_nonneg_right near (Rat.le_of_lt hu)
  have : ((0 : Int) : Rat) = 0 := rfl
  grind

theorem rabs_neg (x : Rat) : rabs (-x) = rabs x := by
  unfold rabs; split <;> split <;> grind

theorem rabs_nonneg (x : Rat) : 0 ≤ rabs x := by
  unfold rabs; split <;> grind

/-- `roundF64` is round-to-nearest: no float64 is nearer to `q` than the rounding of `q` -/
theorem roundF64_nearest (q r r' : Rat) (h : roundF64 q = some r) (hr' : roundF64 r' = some r') :
    rabs (r - q) ≤ rabs (r' - q) := by
  have pos : ∀ q r r' : Rat, 0 < q → roundF64 q = some r → roundF64 r' = some r' → rabs (r - q) ≤ rabs (r' - q) := by
    intro q r r' hq h hr'
    by_cases hp : 0 < r'
    · exact roundFloat_nearest_pos 53 (by decide) (-1074) 1024 q r r' hq h hp hr'
    · have h1 := roundFloat_le_double 53 (-1074) 1024 q r hq h
      have h2 := roundF64_nonneg q r (Rat.le_of_lt hq) h
      have h3 := Rat.not_lt.1 hp
      unfold rabs
      split <;> split <;> grind
  rcases rat_trichotomy q 0 with hq | hq | hq
  · have := pos (-q) (-r) (-r') (by grind) (roundF64_neg_some q r h) (roundF64_neg_some r' r' hr')
    have e1 : -r - -q = -(r - q) := by grind
    have e2 : -r' - -q = -(r' - q) := by grind
    rwa [e1, e2, rabs_neg, rabs_neg] at this
  · subst hq
    rw [roundF64_zero'] at h; cases h
    have := rabs_nonneg (r' - 0)
    unfold rabs at *
    split <;> grind
  · exact pos q r r' hq h hr'
