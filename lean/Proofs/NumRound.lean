import Proofs.NumLemmas
import Proofs.F64Mono
/-!
# Helper lemmas for C17: `round` without an argument rounds half up (toward +∞) on every float64 below 2^52
-/

/-- an integer multiple `k · 2^e` of a power of two with `0 < k < 2^p`, `emin ≤ e` (not necessarily normalised)
    is a value of the format -/
theorem roundFloat_of_int_mul (p : Nat) (hp : 1 ≤ p) (emin emax : Int) (k e : Int) (hk : 0 < k)
    (hk2 : (k : Rat) < pow2 (p : Int)) (he : emin ≤ e) (hlt : (k : Rat) * pow2 e < pow2 emax) :
    roundFloat p emin emax ((k : Rat) * pow2 e) = some ((k : Rat) * pow2 e) := by
  have hq : 0 < (k : Rat) * pow2 e := Rat.mul_pos (Rat.intCast_pos.2 hk) (pow2_pos e)
  rw [roundFloat_pos' p emin emax _ hq]
  obtain ⟨s1, _⟩ := fexp1_spec p hp _ hq
  obtain ⟨g1, g2, g3⟩ := fexpC_ge p emin ((k : Rat) * pow2 e)
  have hF : fexp1 p ((k : Rat) * pow2 e) ≤ e := by
    have b1 := mul_pow2_le_of_le_div s1
    rw [← pow2_add] at b1
    have b2 := Rat.mul_lt_mul_of_pos_right hk2 (pow2_pos e)
    rw [← pow2_add] at b2
    have := pow2_lt_iff.1 (Std.lt_of_le_of_lt b1 b2)
    omega
  generalize fexpC p emin ((k : Rat) * pow2 e) = E at *
  have hEe : E ≤ e := by omega
  have hn : e = ((e - E).toNat : Int) + E := by omega
  have hpe : pow2 e = (((2 ^ (e - E).toNat : Nat) : Int) : Rat) * pow2 E := by
    conv => lhs; rw [hn, pow2_add, pow2_natCast_int]
  have hdiv : (k : Rat) * pow2 e / pow2 E = ((k * ((2 ^ (e - E).toNat : Nat) : Int) : Int) : Rat) := by
    rw [hpe, ← Rat.mul_assoc, Rat.mul_div_cancel (pow2_ne_zero E), Rat.intCast_mul]
  rw [hdiv, roundHalfEven_intCast, ← hdiv, Rat.div_mul_cancel (pow2_ne_zero E)]
  have : ¬ ((k : Rat) * pow2 e ≥ pow2 emax) := Rat.not_le.2 hlt
  simp only [this, if_false]

/-- `k · 2^e` with `|k| < 2^53` and `-1074 ≤ e ≤ 970` is a float64 -/
theorem representable_int_mul (k e : Int) (hk1 : -(2 ^ 53) < k) (hk2 : k < 2 ^ 53) (he : -1074 ≤ e) (he2 : e ≤ 970) :
    roundF64 ((k : Rat) * pow2 e) = some ((k : Rat) * pow2 e) := by
  have pos : ∀ k : Int, 0 < k → k < 2 ^ 53 → roundF64 ((k : Rat) * pow2 e) = some ((k : Rat) * pow2 e) := by
    intro k h1 h2
    have hk : (k : Rat) < pow2 ((53 : Nat) : Int) := by
      rw [pow2_natCast_int]; exact Rat.intCast_lt_intCast.2 (by simpa using h2)
    apply roundFloat_of_int_mul 53 (by decide) (-1074) 1024 k e h1 hk he
    have b2 := Rat.mul_lt_mul_of_pos_right hk (pow2_pos e)
    rw [← pow2_add] at b2
    exact Std.lt_of_lt_of_le b2 (pow2_le (by omega))
  rcases Int.lt_trichotomy k 0 with h | h | h
  · have := roundF64_neg_some _ _ (pos (-k) (by omega) (by omega))
    rw [Rat.intCast_neg, Rat.neg_mul, Rat.neg_neg] at this
    exact this
  · subst h; simpa using roundF64_zero'
  · exact pos k h hk2

theorem pow2_neg_one : pow2 (-1) = 1 / 2 := by decide +kernel

theorem grid_step (u : Rat) (hu : 0 < u) (a b : Int) (h : (a : Rat) * u < (b : Rat) * u) :
    a < b ∧ (a : Rat) * u + u ≤ (b : Rat) * u := by
  have hab : a < b := by
    apply Classical.byContradiction
    intro hn
    have : (b : Rat) ≤ (a : Rat) := Rat.intCast_le_intCast.2 (by omega)
    have := Rat.mul_le_mul_of_nonneg_right this (Rat.le_of_lt hu)
    exact absurd h (Rat.not_lt.2 this)
  refine ⟨hab, ?_⟩
  have : ((a + 1 : Int) : Rat) ≤ (b : Rat) := Rat.intCast_le_intCast.2 (by omega)
  have := Rat.mul_le_mul_of_nonneg_right this (Rat.le_of_lt hu)
  rw [Rat.intCast_add, Rat.add_mul] at this
  simpa using this

/-- the grid argument: `x = s · 2^e` lies strictly between the integer `n` and `n + 1/2`; then `n + 1 - 2^e` is a
    float64 between `x + 1/2` and `n + 1` -/
theorem half_up_witness (x : Rat) (s e n : Int) (hx : x = (s : Rat) * pow2 e) (hs : -(2 ^ 53) < s) (he : -1074 ≤ e)
    (hnx : (n : Rat) < x) (hn2 : x + 1 / 2 < ((n + 1 : Int) : Rat))
    (hb : e < 0 → (n + 1) * ((2 ^ (-e).toNat : Nat) : Int) ≤ 2 ^ 53) :
    ∃ w, roundF64 w = some w ∧ x + 1 / 2 ≤ w ∧ w < ((n + 1 : Int) : Rat) := by
  have hu := pow2_pos e
  have hneg : e < 0 := by
    apply Classical.byContradiction
    intro hge
    have hee : e = ((e.toNat : Nat) : Int) := by omega
    have hpe : pow2 e = (((2 ^ e.toNat : Nat) : Int) : Rat) := by
      conv => lhs; rw [hee]
      exact pow2_natCast_int _
    have hX : x = ((s * ((2 ^ e.toNat : Nat) : Int) : Int) : Rat) := by
      rw [hx, hpe, Rat.intCast_mul]
    rw [hX] at hnx hn2
    have h1 := Rat.intCast_lt_intCast.1 hnx
    have h2 : ((n + 1 : Int) : Rat) ≤ ((s * ((2 ^ e.toNat : Nat) : Int) : Int) : Rat) :=
      Rat.intCast_le_intCast.2 (by omega)
    grind
  have hb := hb hneg
  generalize hd : (-e).toNat = d at hb
  have hd1 : 1 ≤ d := by omega
  have hD : (((2 ^ d : Nat) : Int) : Rat) * pow2 e = 1 := by
    rw [← pow2_natCast_int, ← pow2_add, show (d : Int) + e = 0 by omega, pow2_zero]
  have hH : (((2 ^ (d - 1) : Nat) : Int) : Rat) * pow2 e = 1 / 2 := by
    rw [← pow2_natCast_int, ← pow2_add, show ((d - 1 : Nat) : Int) + e = -1 by omega, pow2_neg_one]
  have hHpos : 0 < ((2 ^ (d - 1) : Nat) : Int) := by
    have := @Nat.pow_pos 2 (d - 1) (by decide); omega
  have e1 : x + 1 / 2 = ((s + ((2 ^ (d - 1) : Nat) : Int) : Int) : Rat) * pow2 e := by
    rw [Rat.intCast_add, Rat.add_mul, hH, hx]
  have e2 : ((n + 1 : Int) : Rat) = (((n + 1) * ((2 ^ d : Nat) : Int) : Int) : Rat) * pow2 e := by
    rw [Rat.intCast_mul, Rat.mul_assoc, hD, Rat.mul_one]
  rw [e1, e2] at hn2
  obtain ⟨g1, g2⟩ := grid_step (pow2 e) hu _ _ hn2
  have hw : (((n + 1) * ((2 ^ d : Nat) : Int) - 1 : Int) : Rat) * pow2 e
      = (((n + 1) * ((2 ^ d : Nat) : Int) : Int) : Rat) * pow2 e - pow2 e := by
    rw [Rat.intCast_sub]
    have : ((1 : Int) : Rat) = 1 := rfl
    rw [this]
    grind
  refine ⟨(((n + 1) * ((2 ^ d : Nat) : Int) - 1 : Int) : Rat) * pow2 e,
    representable_int_mul _ e (by omega) (by omega) he (by omega), ?_, ?_⟩
  · rw [e1, hw]; grind
  · rw [e2, hw]; grind

/-- rounding `x + 1/2` to a float64 does not change its floor, for every float64 `x` with `-2^52 ≤ x ≤ 2^52 - 1` except the
    one just below one half (`1/2 - 2^-54`, where `x + 1/2` rounds up to `1`) -/
theorem half_up_floor (x y : Rat) (hx : roundF64 x = some x) (h1 : ((-(2 ^ 52) : Int) : Rat) ≤ x)
    (h2 : x ≤ ((2 ^ 52 - 1 : Int) : Rat)) (hex : x ≤ 1 / 2 - pow2 (-53) ∨ 1 / 2 ≤ x)
    (hy : roundF64 (x + 1 / 2) = some y) :
    y.floor = (x + 1 / 2).floor ∧ roundF64 ((x + 1 / 2).floor : Rat) = some ((x + 1 / 2).floor : Rat) := by
  generalize hn : (x + 1 / 2).floor = n
  have hn1 : (n : Rat) ≤ x + 1 / 2 := hn ▸ Rat.floor_le _
  have hn2 : x + 1 / 2 < ((n + 1 : Int) : Rat) := hn ▸ Rat.lt_floor_add_one _
  have hnlo : -(2 ^ 52) ≤ n := by
    rw [← hn]; apply Rat.le_floor_iff.2; grind
  have hnhi : n ≤ 2 ^ 52 - 1 := by
    have : (n : Rat) < ((2 ^ 52 - 1 + 1 : Int) : Rat) := by
      have : ((2 ^ 52 - 1 + 1 : Int) : Rat) = ((2 ^ 52 - 1 : Int) : Rat) + 1 := by rw [Rat.intCast_add]; rfl
      grind
    have := Rat.intCast_lt_intCast.1 this
    omega
  have hnrep : roundF64 (n : Rat) = some (n : Rat) := by
    have := representable_int_mul n 0 (by omega) (by omega) (by decide) (by decide)
    rwa [pow2_zero, Rat.mul_one] at this
  have lo : (n : Rat) ≤ y := roundF64_ge_of_representable _ y n hy hnrep hn1
  suffices hw : ∃ w, roundF64 w = some w ∧ x + 1 / 2 ≤ w ∧ w < ((n + 1 : Int) : Rat) by
    obtain ⟨w, hw, hw1, hw2⟩ := hw
    have hi := roundF64_le_of_representable _ y w hy hw hw1
    have : y < ((n + 1 : Int) : Rat) := Std.lt_of_le_of_lt hi hw2
    have f1 : n ≤ y.floor := Rat.le_floor_iff.2 lo
    have f2 : y.floor < n + 1 := Rat.floor_lt_iff.2 this
    exact ⟨by omega, hnrep⟩
  have hn1' : ((n + 1 : Int) : Rat) = (n : Rat) + 1 := by rw [Rat.intCast_add]; rfl
  by_cases hxn : x ≤ (n : Rat)
  · have hwv : ((2 * n + 1 : Int) : Rat) * pow2 (-1) = (n : Rat) + 1 / 2 := by
      rw [pow2_neg_one, Rat.intCast_add, Rat.intCast_mul]
      have : ((1 : Int) : Rat) = 1 := rfl
      have : ((2 : Int) : Rat) = 2 := rfl
      grind
    have k1 : -(2 ^ 53) < 2 * n + 1 := by omega
    have k2 : 2 * n + 1 < 2 ^ 53 := by omega
    refine ⟨((2 * n + 1 : Int) : Rat) * pow2 (-1),
      representable_int_mul (2 * n + 1) (-1) k1 k2 (by decide) (by decide), ?_, ?_⟩
    · rw [hwv]; grind
    · rw [hwv, hn1']; grind
  · have hnx : (n : Rat) < x := Rat.not_le.1 hxn
    rcases representable_cases x hx with h0 | ⟨m, e, hp⟩ | ⟨m, e, hp⟩
    · -- x = 0 is not strictly above n = 0
      exfalso
      subst h0
      have : n < 0 := Rat.intCast_lt_intCast.1 (by simpa using hnx)
      have : ((n + 1 : Int) : Rat) ≤ ((0 : Int) : Rat) := Rat.intCast_le_intCast.2 (by omega)
      have : ((0 : Int) : Rat) = 0 := rfl
      grind
    · -- x = m · 2^e > 0
      have hmlt : m < 2 ^ 53 := by
        have := hp.mlt
        rw [pow2_natCast_int] at this
        simpa using Rat.intCast_lt_intCast.1 this
      have hxpos := isFloatRep_pos hp
      have hn0 : 0 ≤ n := by
        have : ((0 : Int) : Rat) < ((n + 1 : Int) : Rat) := by
          have : ((0 : Int) : Rat) = 0 := rfl
          grind
        have := Rat.intCast_lt_intCast.1 this
        omega
      by_cases hd : -53 ≤ e
      · apply half_up_witness x m e n hp.eq (by have := hp.mpos; omega) hp.he hnx hn2
        intro hneg
        -- n < x < 2^53 · 2^e = 2^(53 + e), an integer
        have hlt : x < pow2 (53 + e) := by
          rw [hp.eq, pow2_add]
          have := hp.mlt
          exact Rat.mul_lt_mul_of_pos_right this (pow2_pos e)
        have hee : 53 + e = (((53 + e).toNat : Nat) : Int) := by omega
        have hpe : pow2 (53 + e) = (((2 ^ (53 + e).toNat : Nat) : Int) : Rat) := by
          conv => lhs; rw [hee]
          exact pow2_natCast_int _
        rw [hpe] at hlt
        have hnlt := Rat.intCast_lt_intCast.1 (Std.lt_trans hnx hlt)
        have hpow : ((2 ^ (53 + e).toNat : Nat) : Int) * ((2 ^ (-e).toNat : Nat) : Int) = 2 ^ 53 := by
          rw [← Int.natCast_mul, ← Nat.pow_add, show (53 + e).toNat + (-e).toNat = 53 by omega]; rfl
        have hDpos : (0 : Int) ≤ ((2 ^ (-e).toNat : Nat) : Int) := Int.natCast_nonneg _
        have := Int.mul_le_mul_of_nonneg_right (show n + 1 ≤ ((2 ^ (53 + e).toNat : Nat) : Int) by omega) hDpos
        rw [hpow] at this
        exact this
      · -- x < 2^53 · 2^-54 = 1/2: the hypothesis gives room below one
        have hlt : x < 1 / 2 := by
          have h3 : x < pow2 (53 + e) := by
            rw [hp.eq, pow2_add]
            exact Rat.mul_lt_mul_of_pos_right hp.mlt (pow2_pos e)
          have h4 : pow2 (53 + e) ≤ pow2 (-1) := pow2_le (by omega)
          rw [pow2_neg_one] at h4
          exact Std.lt_of_lt_of_le h3 h4
        have hx53 : x ≤ 1 / 2 - pow2 (-53) := by
          rcases hex with h | h
          · exact h
          · exact absurd hlt (Rat.not_lt.2 h)
        have hn00 : n = 0 := by
          have : (n : Rat) < ((1 : Int) : Rat) := by
            have : ((1 : Int) : Rat) = 1 := rfl
            grind
          have := Rat.intCast_lt_intCast.1 this
          omega
        subst hn00
        have hwv : ((2 ^ 53 - 1 : Int) : Rat) * pow2 (-53) = 1 - pow2 (-53) := by decide +kernel
        refine ⟨((2 ^ 53 - 1 : Int) : Rat) * pow2 (-53),
          representable_int_mul (2 ^ 53 - 1) (-53) (by decide) (by decide) (by decide) (by decide), ?_, ?_⟩
        · rw [hwv]; grind
        · rw [hwv, hn1']
          have := pow2_pos (-53)
          have : ((0 : Int) : Rat) = 0 := rfl
          grind
    · -- x = -(m · 2^e) < 0
      have hmlt : m < 2 ^ 53 := by
        have := hp.mlt
        rw [pow2_natCast_int] at this
        simpa using Rat.intCast_lt_intCast.1 this
      have hxneg := isFloatRep_pos hp
      have hxe : x = ((-m : Int) : Rat) * pow2 e := by
        rw [Rat.intCast_neg, Rat.neg_mul, ← hp.eq, Rat.neg_neg]
      apply half_up_witness x (-m) e n hxe (by omega) hp.he hnx hn2
      intro _
      have hnneg : n + 1 ≤ 0 := by
        have : (n : Rat) < ((0 : Int) : Rat) := by
          have : ((0 : Int) : Rat) = 0 := rfl
          grind
        have := Rat.intCast_lt_intCast.1 this
        omega
      have hDpos : (0 : Int) ≤ ((2 ^ (-e).toNat : Nat) : Int) := Int.natCast_nonneg _
      have := Int.mul_le_mul_of_nonneg_right hnneg hDpos
      omega

/-- the only float64 strictly between `1/2 - 2^-53` and `1/2` is `1/2 - 2^-54` (0.49999999999999994) -/
theorem below_half_gap (x : Rat) (hx : roundF64 x = some x) (h1 : 1 / 2 - pow2 (-53) < x) (h2 : x < 1 / 2) :
    x = 1 / 2 - pow2 (-54) := by
  have hq : pow2 (-2) < x := Std.lt_of_le_of_lt (by decide +kernel : pow2 (-2) ≤ 1 / 2 - pow2 (-53)) h1
  have hxpos : 0 < x := Std.lt_trans (pow2_pos (-2)) hq
  rcases representable_cases x hx with h0 | ⟨m, e, hp⟩ | ⟨m, e, hp⟩
  · grind
  · have hlt : x < pow2 (53 + e) := by
      rw [hp.eq, pow2_add]
      exact Rat.mul_lt_mul_of_pos_right hp.mlt (pow2_pos e)
    have he1 : -54 ≤ e := by
      have := pow2_lt_iff.1 (Std.lt_trans hq hlt)
      omega
    have hnorm : pow2 ((53 : Nat) - 1 : Int) ≤ (m : Rat) := by
      rcases hp.norm with h | h
      · exact h
      · omega
    have he2 : e ≤ -54 := by
      have := Rat.mul_le_mul_of_nonneg_right hnorm (Rat.le_of_lt (pow2_pos e))
      rw [← pow2_add, ← hp.eq] at this
      have h3 := Std.lt_of_le_of_lt this h2
      rw [← pow2_neg_one] at h3
      have := pow2_lt_iff.1 h3
      omega
    have he : e = -54 := by omega
    subst he
    have c1 : (1 : Rat) / 2 - pow2 (-53) = ((2 ^ 53 - 2 : Int) : Rat) * pow2 (-54) := by decide +kernel
    have c2 : (1 : Rat) / 2 = ((2 ^ 53 : Int) : Rat) * pow2 (-54) := by decide +kernel
    rw [c1, hp.eq] at h1
    rw [c2, hp.eq] at h2
    have m1 := (grid_step _ (pow2_pos (-54)) _ _ h1).1
    have m2 := (grid_step _ (pow2_pos (-54)) _ _ h2).1
    have hm : m = 2 ^ 53 - 1 := by omega
    rw [hp.eq, hm]
    decide +kernel
  · have := isFloatRep_pos hp
    grind

/-- every float64 other than 0.49999999999999994 is at most `1/2 - 2^-53` or at least `1/2` -/
theorem not_below_half (x : Rat) (hx : roundF64 x = some x) (hne : x ≠ 1 / 2 - pow2 (-54)) :
    x ≤ 1 / 2 - pow2 (-53) ∨ 1 / 2 ≤ x := by
  by_cases h1 : x ≤ 1 / 2 - pow2 (-53)
  · exact Or.inl h1
  · by_cases h2 : 1 / 2 ≤ x
    · exact Or.inr h2
    · exact absurd (below_half_gap x hx (Rat.not_le.1 h1) (Rat.not_le.1 h2)) hne

/-- `round` without an argument on a float64 `x`, `-2^52 ≤ x ≤ 2^52 - 1`, other than 0.49999999999999994:
    `⌊x + 1/2⌋`, although `x + 1/2` itself may be rounded -/
theorem roundTo_half_up (x : Rat) (hx : Representable x) (h1 : ((-(2 ^ 52) : Int) : Rat) ≤ x)
    (h2 : x ≤ ((2 ^ 52 - 1 : Int) : Rat)) (hne : x ≠ 1 / 2 - pow2 (-54)) :
    Num.roundTo x 0 = ret (.flt .f64 ((x + 1 / 2).floor : Rat)) := by
  have hhalf : mkRat 1 2 = 1 / 2 := by decide +kernel
  have hp : Num.pow10Go 0 = .ok 1 := by
    have := pow10Go_small 0 (by omega)
    simpa [p10] using this
  have e1 : f64Round x (decide (x < 0)) = .ok x := by
    apply f64Round_of_representable hx
    intro h0; simp [h0, Rat.lt_irrefl]
  obtain ⟨y, hy, _, _⟩ := roundF64_some_of_abs_le (x + 1 / 2) _ _ _ two63_rep
    (by
      have : ((-(2 ^ 52) : Int) : Rat) = -((2 ^ 52 : Int) : Rat) := by rw [Rat.intCast_neg]
      have : ((2 ^ 52 : Int) : Rat) ≤ (((2 ^ 63 : Nat) : Int) : Rat) := by decide +kernel
      grind)
    (by
      have : ((2 ^ 52 - 1 : Int) : Rat) + 1 / 2 ≤ (((2 ^ 63 : Nat) : Int) : Rat) := by decide +kernel
      grind)
  have e2 : f64Round (x + 1 / 2) false = .ok y := f64Round_of_round hy false (fun _ => rfl)
  obtain ⟨hfl, hrep⟩ := half_up_floor x y hx h1 h2 (not_below_half x hx hne) hy
  have e3 : f64Round (((x + 1 / 2).floor : Rat) / 1) false = .ok ((x + 1 / 2).floor : Rat) := by
    have hd : ∀ q : Rat, q / 1 = q := by intro q; grind
    rw [hd]
    exact f64Round_of_representable hrep false (fun _ => rfl)
  simp [Num.roundTo, hp, hhalf, Num.fltResult, ret]
  simp [e1, Res.bind, e2, hfl, e3]

/-- projections used to evaluate the model in `example`s (`Res`/`GoVal` have no decidable equality) -/
def okFlt : Res Cause (Except Cause GoVal) → Option Rat
  | .ok (.ok (.flt .f64 r)) => some r
  | _ => none

def isUnmodelled : Res Cause (Except Cause GoVal) → Bool
  | .unmodelled _ => true
  | _ => false

/-- `round: p` step by step, for any `p` whose scale `math.Pow10(p)` is a non-zero float64 `e`: each of the three
    operations is correctly rounded -/
theorem roundTo_steps (x : Rat) (p : Int) (e a b c : Rat) (hpow : Num.pow10Go p = .ok e) (he : e ≠ 0)
    (h1 : roundF64 (x * e) = some a) (hz : a = 0 → ¬ x < 0) (h2 : roundF64 (a + 1 / 2) = some b)
    (h3 : roundF64 ((b.floor : Rat) / e) = some c) :
    Num.roundTo x p = ret (.flt .f64 c) := by
  have hhalf : mkRat 1 2 = 1 / 2 := by decide +kernel
  have e1 : f64Round (x * e) (decide (x < 0)) = .ok a :=
    f64Round_of_round h1 _ (fun h0 => by simpa using hz h0)
  have e2 : f64Round (a + 1 / 2) false = .ok b := f64Round_of_round h2 false (fun _ => rfl)
  have e3 : f64Round ((b.floor : Rat) / e) false = .ok c := f64Round_of_round h3 false (fun _ => rfl)
  simp [Num.roundTo, hpow, he, e1, hhalf, e2, Num.fltResult, e3, ret, Res.bind]

theorem pow10Go_out_of_range (p : Int) (hp : p < -323 ∨ 308 < p) :
    Num.pow10Go p = .unmodelled "math.Pow10: +Inf or 0 scale (the filter yields NaN)" := by
  unfold Num.pow10Go
  have c1 : (decide (0 ≤ p) && decide (p ≤ 22)) = false := by
    rcases hp with h | h <;> simp <;> omega
  have c2 : (decide (0 ≤ p) && decide (p ≤ 308)) = false := by
    rcases hp with h | h <;> simp <;> omega
  have c3 : (decide (-323 ≤ p) && decide (p < 0)) = false := by
    rcases hp with h | h <;> simp <;> omega
  simp only [c1, c2, c3, Bool.false_eq_true, if_false]
