import Proofs.SrcChain
import Proofs.SrcCase
/-!
# Source-level helpers: a block with any number of clauses (`if`/`unless` chains, `case`)

`blockSrcK kw nm args w0 B rest wE` is the source `{% nm args %}B clauses… {% endnm %}`; a clause (`Clause`,
Proofs/SrcChain.lean) with `cond = some t` is spelled `{% kw t %}body`, one with `cond = none` is spelled
`{% else %}body`. Unlike `BrsOf` (a relation), the compiled pieces are given here as FUNCTIONS of the source
(`nodesOf`, `clausePairs`, `ifBrs`, `caseCls`), so that the source-level theorems can name them.
-/

/-- the node list of a piece placed at `line` (`[]` when it does not compile) -/
def nodesOf (d : Delims) (items : List Item) (line : Nat) : List Node :=
  match compileTokens (tokensOf d items line) with
  | .ok ns => ns
  | _ => []

theorem nodesOf_spec {d : Delims} {items : List Item} (h : Compiles d items 0) (line : Nat) :
    compileTokens (tokensOf d items line) = .ok (nodesOf d items line) := by
  obtain ⟨ns, hns⟩ := (h.any_line line).nodes
  unfold nodesOf
  rw [hns]

/-- the tag of a clause whose keyword (for `cond = some t`) is `kw`: `elsif` in an `if` block, `when` in a `case` -/
def Clause.tagK (kw : Bytes) (c : Clause) : Item :=
  match c.cond with
  | some t => tg kw t c.w
  | none => tg nmElse [] c.w

/-- its token, at line `l` -/
def Clause.tokK (d : Delims) (kw : Bytes) (c : Clause) (l : Nat) : Token :=
  match c.cond with
  | some t => tgTok d kw t c.w l
  | none => tgTok d nmElse [] c.w l

def clauseItemsK (kw : Bytes) : List Clause → List Item
  | [] => []
  | c :: r => c.tagK kw :: (c.body ++ clauseItemsK kw r)

theorem Clause.tagK_elsif (c : Clause) : c.tagK nmElsif = c.tag := by
  unfold Clause.tagK Clause.tag
  cases c.cond <;> rfl

theorem clauseItemsK_elsif : ∀ cs : List Clause, clauseItemsK nmElsif cs = clauseItems cs
  | [] => rfl
  | c :: r => by simp only [clauseItemsK, clauseItems, Clause.tagK_elsif, clauseItemsK_elsif r]

theorem clauseItemsK_append (kw : Bytes) : ∀ (a b : List Clause), clauseItemsK kw (a ++ b) = clauseItemsK kw a ++ clauseItemsK kw b
  | [], _ => rfl
  | c :: r, b => by simp [clauseItemsK, clauseItemsK_append kw r b]

theorem Clause.tokK_ty (d : Delims) (kw : Bytes) (c : Clause) (l : Nat) : (c.tokK d kw l).ty = .tag := by
  unfold Clause.tokK
  cases c.cond <;> rfl

theorem Clause.tokK_line (d : Delims) (kw : Bytes) (c : Clause) (l : Nat) : (c.tokK d kw l).line = l := by
  unfold Clause.tokK
  cases c.cond <;> rfl

theorem tokensOf_tagK (d : Delims) (kw : Bytes) (c : Clause) (r : List Item) (l : Nat) :
    tokensOf d (c.tagK kw :: r) l = c.tokK d kw l :: tokensOf d r (l + countNL ((c.tagK kw).spell d)) := by
  unfold Clause.tagK Clause.tokK
  cases c.cond <;> exact tokensOf_tg ..

/-- the compiled clause list (clause token, nodes of its body) of a clause sequence whose first tag stands at line `l` -/
def clausePairs (d : Delims) (kw : Bytes) : List Clause → Nat → List (Token × List Node)
  | [], _ => []
  | c :: r, l => (c.tokK d kw l, nodesOf d c.body (l + countNL ((c.tagK kw).spell d))) ::
      clausePairs d kw r (l + countNL ((c.tagK kw).spell d) + countNL (spell d c.body))

/-- the clause sequence of a block opened by `o`: tokens, derivation, compiled bodies -/
theorem clausesK_compile (d : Delims) (kw : Bytes) (o : Token) : ∀ (rest : List Clause) (l : Nat) (post : List Item),
    (∀ c ∈ rest, Compiles d c.body 0) →
    (∀ c ∈ rest, ∀ l, stdGrammar.isClauseOf o (c.tokK d kw l) = true) →
    ∃ segs,
      tokensOf d (clauseItemsK kw rest ++ post) l = segToks segs ++ tokensOf d post (l + countNL (spell d (clauseItemsK kw rest))) ∧
      (∀ sg ∈ segs, stdGrammar.isClauseOf o sg.1 = true) ∧ (∀ sg, sg ∈ segs → Derives stdGrammar objChk sg.2.1 sg.2.2) ∧
      firstUnmodelledObj (segToks segs) = none ∧
      compileClauses (segASTs segs) = .ok (clausePairs d kw rest l)
  | [], l, post, _, _ => ⟨[], by simp [clauseItemsK, segToks, spell, countNL], by simp, by simp, rfl, rfl⟩
  | c :: r, l, post, h, hadm => by
    have hns := nodesOf_spec (h c (List.mem_cons_self ..)) (l + countNL ((c.tagK kw).spell d))
    obtain ⟨hUb, ast, hd, hcl⟩ := compileTokens_ok hns
    obtain ⟨segs, h1, h2, h3, h4, h5⟩ := clausesK_compile d kw o r
      (l + countNL ((c.tagK kw).spell d) + countNL (spell d c.body)) post (fun x hx => h x (List.mem_cons_of_mem _ hx))
      (fun x hx => hadm x (List.mem_cons_of_mem _ hx))
    refine ⟨(c.tokK d kw l, tokensOf d c.body (l + countNL ((c.tagK kw).spell d)), ast) :: segs, ?_, ?_, ?_, ?_, ?_⟩
    · simp only [clauseItemsK, List.cons_append, List.append_assoc]
      rw [tokensOf_tagK, tokensOf_append, h1]
      simp only [segToks, spell_cons, spell_append, countNL_append, Nat.add_assoc]
      simp
    · intro sg hsg
      rcases List.mem_cons.mp hsg with rfl | hsg
      · exact hadm c (List.mem_cons_self ..) l
      · exact h2 sg hsg
    · intro sg hsg
      rcases List.mem_cons.mp hsg with rfl | hsg
      · exact hd
      · exact h3 sg hsg
    · simp only [segToks]
      rw [firstUnmodelledObj_tag _ _ (Clause.tokK_ty d kw c l), firstUnmodelledObj_append, hUb]
      exact h4
    · simp only [segASTs, compileClauses, hcl, h5, bind, Res.bind, pure, clausePairs]

/-- `{% nm args %}B clauses… {% endnm %}` -/
def blockSrcK (kw nm args : Bytes) (w0 : Ws) (B : List Item) (rest : List Clause) (wE : Ws) : List Item :=
  tg nm args w0 :: (B ++ (clauseItemsK kw rest ++ [tg (endPrefix ++ nm) [] wE]))

/-- the block parser and the first stage of the compiler on such a source: one block node whose body and clause
    bodies compile to the nodes of the pieces where they stand -/
theorem blockK_compile (d : Delims) (kw nm args : Bytes) (w0 : Ws) (B : List Item) (rest : List Clause) (wE : Ws) (line : Nat)
    (hb : stdGrammar.isBlock nm = true) (h1 : nm ≠ commentName) (h2 : nm ≠ rawName)
    (hB : Compiles d B 0) (hrest : ∀ c ∈ rest, Compiles d c.body 0)
    (hadm : ∀ c ∈ rest, ∀ l, stdGrammar.isClauseOf (tgTok d nm args w0 line) (c.tokK d kw l) = true) :
    ∃ ast cast, compileList ast = .ok (nodesOf d B (line + countNL ((tg nm args w0).spell d))) ∧
      compileClauses cast = .ok (clausePairs d kw rest (line + countNL ((tg nm args w0).spell d) + countNL (spell d B))) ∧
      compileTokens (tokensOf d (blockSrcK kw nm args w0 B rest wE) line) = compileNode (.block (tgTok d nm args w0 line) ast cast) := by
  have hn0 := nodesOf_spec hB (line + countNL ((tg nm args w0).spell d))
  obtain ⟨hUb, ast, hd, hcl⟩ := compileTokens_ok hn0
  have ho : stdGrammar.isOpen (tgTok d nm args w0 line) = true := isOpen_tgTok _ _ _ _ _ hb h1 h2
  obtain ⟨segs, s1, s2, s3, s4, s5⟩ := clausesK_compile d kw (tgTok d nm args w0 line) rest
    (line + countNL ((tg nm args w0).spell d) + countNL (spell d B)) [tg (endPrefix ++ nm) [] wE] hrest hadm
  refine ⟨ast, segASTs segs, hcl, s5, ?_⟩
  have htoks : tokensOf d (blockSrcK kw nm args w0 B rest wE) line =
      tgTok d nm args w0 line :: (tokensOf d B (line + countNL ((tg nm args w0).spell d)) ++
        (segToks segs ++ tgTok d (endPrefix ++ nm) [] wE
          (line + countNL ((tg nm args w0).spell d) + countNL (spell d B) + countNL (spell d (clauseItemsK kw rest))) :: [])) := by
    unfold blockSrcK
    rw [tokensOf_tg, tokensOf_append, s1, tokensOf_tg, tokensOf_nil]
  have hU : firstUnmodelledObj (tokensOf d (blockSrcK kw nm args w0 B rest wE) line) = none := by
    rw [htoks, firstUnmodelledObj_tag _ _ rfl, firstUnmodelledObj_append, hUb]
    simp only
    rw [firstUnmodelledObj_append, s4]
    rfl
  have hder := Derives.block (g := stdGrammar) (chk := objChk) (tgTok d nm args w0 line)
    (tgTok d (endPrefix ++ nm) [] wE
      (line + countNL ((tg nm args w0).spell d) + countNL (spell d B) + countNL (spell d (clauseItemsK kw rest))))
    _ ast segs [] [] ho hd s2 s3 (isEndOf_of_name rfl rfl) .nil
  rw [← htoks] at hder
  rw [compileTokens_of_derives hU hder, compileList_single]

/-! ## `if` / `unless`: the tests of the clauses -/

/-- the test of a clause whose tag stands at line `l` (`always` for `else`; for a condition that is not an
    expression the value is immaterial: such a clause does not compile) -/
def Clause.testAt (c : Clause) (l : Nat) : CondT :=
  match c.cond with
  | none => .always
  | some t =>
    match parseExprSource t with
    | .ok e => .expr l e
    | _ => .always

/-- the compiled branches of a clause list whose first tag stands at line `l` -/
def ifBrs (d : Delims) : List Clause → Nat → List (CondT × List Node)
  | [], _ => []
  | c :: r, l => (c.testAt l, nodesOf d c.body (l + countNL ((c.tagK nmElsif).spell d))) ::
      ifBrs d r (l + countNL ((c.tagK nmElsif).spell d) + countNL (spell d c.body))

theorem ifTests_pairs (d : Delims) : ∀ (rest : List Clause) (l : Nat), (∀ c ∈ rest, (c.test 0).isSome = true) →
    compileIfClauseTests (clausePairs d nmElsif rest l) = .ok (ifBrs d rest l)
  | [], _, _ => rfl
  | c :: r, l, h => by
    have ih := ifTests_pairs d r (l + countNL ((c.tagK nmElsif).spell d) + countNL (spell d c.body))
      (fun x hx => h x (List.mem_cons_of_mem _ hx))
    have hc := h c (List.mem_cons_self ..)
    simp only [clausePairs, compileIfClauseTests, ih, ifBrs, bind, Res.bind, pure]
    unfold Clause.test at hc
    unfold Clause.tokK Clause.testAt
    cases hcc : c.cond with
    | none => rfl
    | some t =>
      rw [hcc] at hc
      simp only at hc ⊢
      have hn : ((tgTok d nmElsif t c.w l).name == nmElsif) = true := by
        show (nmElsif == nmElsif) = true
        decide
      have ha : (tgTok d nmElsif t c.w l).args = t := rfl
      have hl : (tgTok d nmElsif t c.w l).line = l := rfl
      cases hp : parseExprSource t with
      | ok e => simp only [hn, if_true, ha, hl, hp, liftParse]
      | err e => rw [hp] at hc; cases hc
      | panic w => rw [hp] at hc; cases hc
      | unmodelled w => rw [hp] at hc; cases hc

theorem ifBrs_append (d : Delims) : ∀ (a b : List Clause) (l : Nat),
    ifBrs d (a ++ b) l = ifBrs d a l ++ ifBrs d b (l + countNL (spell d (clauseItemsK nmElsif a)))
  | [], b, l => by simp [ifBrs, clauseItemsK, spell, countNL]
  | c :: r, b, l => by
    simp only [List.cons_append, ifBrs, ifBrs_append d r b, clauseItemsK, spell_cons, spell_append, countNL_append, Nat.add_assoc]

theorem ifBrs_falsy (d : Delims) (P : Prims) (env : Env) : ∀ (pre : List Clause) (l : Nat),
    (∀ c ∈ pre, c.Falsy P env) → ∀ b ∈ ifBrs d pre l, condRes P env b.1 = .ok false
  | [], _, _, b, hb => by cases hb
  | c :: r, l, hf, b, hb => by
    simp only [ifBrs] at hb
    rcases List.mem_cons.mp hb with rfl | hb
    · obtain ⟨tt, e, v, hc, hp, hv, hvt⟩ := hf c (List.mem_cons_self ..)
      simp only [Clause.testAt, hc, hp, condRes, hv, hvt]
    · exact ifBrs_falsy d P env r _ (fun x hx => hf x (List.mem_cons_of_mem _ hx)) b hb

/-- the compiled node of an `if` / `unless` block with any number of clauses -/
theorem compileNode_ifK (o : Token) (ast : List AST) (cast : List (Token × List AST)) (nb : List Node)
    (cs : List (Token × List Node)) (brs : List (CondT × List Node)) (hn : o.name = nmIf ∨ o.name = nmUnless)
    (hb : compileList ast = .ok nb) (hc : compileClauses cast = .ok cs) (ht : compileIfClauseTests cs = .ok brs) :
    compileNode (.block o ast cast) =
      (liftParse o.line true (parseExprSource o.args)).bind fun ex =>
        .ok [.ifB o.line ((if o.name == nmIf then .expr o.line ex else .notExpr o.line ex, nb) :: brs)] := by
  have hh : (o.name == nmIf || o.name == nmUnless) = true := by rcases hn with h | h <;> simp [h]
  simp only [compileNode, hb, hc, bind, Res.bind, hh, if_true]
  cases liftParse o.line true (parseExprSource o.args) <;> simp [ht, pure]

/-- an `if` block admits `elsif` and `else` clauses; an `unless` block `else` clauses only -/
theorem ifK_admits (d : Delims) (nm args : Bytes) (w0 : Ws) (line : Nat) (hn : nm = nmIf ∨ nm = nmUnless) (c : Clause)
    (hadm : nm = nmUnless → c.cond = none) (l : Nat) :
    stdGrammar.isClauseOf (tgTok d nm args w0 line) (c.tokK d nmElsif l) = true := by
  unfold Clause.tokK
  cases hc : c.cond with
  | none => rcases hn with rfl | rfl <;> simp only [Grammar.isClauseOf, tgTok] <;> decide
  | some t =>
    rcases hn with rfl | rfl
    · simp only [Grammar.isClauseOf, tgTok]; decide
    · rw [hadm rfl] at hc; cases hc

/-- the compiled tree of an `if` / `unless` chain whose pieces compile: one `ifB` node -/
theorem chainK_compile (d : Delims) (line : Nat) (nm : Bytes) (hn : nm = nmIf ∨ nm = nmUnless)
    (c0 : Bytes) (w0 : Ws) (A0 : List Item) (rest : List Clause) (wE : Ws) (e0 : Expr)
    (hp : parseExprSource c0 = .ok e0) (hA : Compiles d A0 0)
    (hrest : ∀ c ∈ rest, c.Good d) (hadm : nm = nmUnless → ∀ c ∈ rest, c.cond = none) :
    compileTokens (tokensOf d (blockSrcK nmElsif nm c0 w0 A0 rest wE) line) =
      .ok [.ifB line ((if nm == nmIf then .expr line e0 else .notExpr line e0,
          nodesOf d A0 (line + countNL ((tg nm c0 w0).spell d))) ::
        ifBrs d rest (line + countNL ((tg nm c0 w0).spell d) + countNL (spell d A0)))] := by
  obtain ⟨ast, cast, h1, h2, h3⟩ := blockK_compile d nmElsif nm c0 w0 A0 rest wE line
    (by rcases hn with rfl | rfl <;> decide) (by rcases hn with rfl | rfl <;> decide) (by rcases hn with rfl | rfl <;> decide)
    hA (fun c hc => (hrest c hc).2)
    (fun c hc l => ifK_admits _ nm c0 w0 line hn c (fun h => hadm h c hc) l)
  rw [h3, compileNode_ifK _ ast cast _ _ _ hn h1 h2 (ifTests_pairs _ rest _ (fun c hc => (hrest c hc).1))]
  have hargs : (tgTok d nm c0 w0 line).args = c0 := rfl
  rw [hargs, hp]
  rfl

/-- what `run` returns on the source of an `if` / `unless` chain whose pieces compile: the render of one `ifB` node -/
theorem run_chainK_shape (P : Prims) (O : OutPrims) (cfg : Cfg) (fs : FS) (fuel : Nat) (line : Nat) (env : Env)
    (nm : Bytes) (hn : nm = nmIf ∨ nm = nmUnless)
    (c0 : Bytes) (w0 : Ws) (A0 : List Item) (rest : List Clause) (wE : Ws) (e0 : Expr)
    (hg : GoodDelims (Delims.ofList cfg.delims)) (hc : Clean (Delims.ofList cfg.delims) (blockSrcK nmElsif nm c0 w0 A0 rest wE))
    (hp : parseExprSource c0 = .ok e0) (hA : Compiles (Delims.ofList cfg.delims) A0 0)
    (hrest : ∀ c ∈ rest, c.Good (Delims.ofList cfg.delims)) (hadm : nm = nmUnless → ∀ c ∈ rest, c.cond = none) :
    run P O cfg fs fuel (spell (Delims.ofList cfg.delims) (blockSrcK nmElsif nm c0 w0 A0 rest wE)) line env =
      runRoot P O cfg fs fuel [.ifB line ((if nm == nmIf then .expr line e0 else .notExpr line e0,
          nodesOf (Delims.ofList cfg.delims) A0 (line + countNL ((tg nm c0 w0).spell (Delims.ofList cfg.delims)))) ::
        ifBrs (Delims.ofList cfg.delims) rest
          (line + countNL ((tg nm c0 w0).spell (Delims.ofList cfg.delims)) + countNL (spell (Delims.ofList cfg.delims) A0)))] env := by
  rw [run_spell P O cfg fs fuel _ line env hg hc, chainK_compile _ line nm hn c0 w0 A0 rest wE e0 hp hA hrest hadm]
  rfl

/-! ## `case`: the value lists of the clauses -/

/-- the arguments of a `when` clause parse to a list of values (an `else` clause: nothing to parse) -/
def Clause.whenOk (c : Clause) : Bool :=
  match c.cond with
  | none => true
  | some t =>
    match parseStatement kwWhen t with
    | .ok (.when _) => true
    | _ => false

/-- the value list of a clause whose tag stands at line `l` (`none` for `else`) -/
def Clause.whenAt (c : Clause) (l : Nat) : Option (Nat × List Expr) :=
  match c.cond with
  | none => none
  | some t =>
    match parseStatement kwWhen t with
    | .ok (.when es) => some (l, es)
    | _ => none

/-- the clause of a `case` block can be compiled: its values parse, its body is a self-contained template -/
def Clause.GoodWhen (d : Delims) (c : Clause) : Prop := c.whenOk = true ∧ Compiles d c.body 0

instance (d : Delims) (c : Clause) : Decidable (c.GoodWhen d) := by unfold Clause.GoodWhen; infer_instance

/-- the compiled clauses of a `case` whose first clause tag stands at line `l` -/
def caseCls (d : Delims) : List Clause → Nat → List (Option (Nat × List Expr) × List Node)
  | [], _ => []
  | c :: r, l => (c.whenAt l, nodesOf d c.body (l + countNL ((c.tagK nmWhen).spell d))) ::
      caseCls d r (l + countNL ((c.tagK nmWhen).spell d) + countNL (spell d c.body))

theorem caseClauses_pairs (d : Delims) : ∀ (rest : List Clause) (l : Nat), (∀ c ∈ rest, c.whenOk = true) →
    compileCaseClauses (clausePairs d nmWhen rest l) = .ok (caseCls d rest l)
  | [], _, _ => rfl
  | c :: r, l, h => by
    have ih := caseClauses_pairs d r (l + countNL ((c.tagK nmWhen).spell d) + countNL (spell d c.body))
      (fun x hx => h x (List.mem_cons_of_mem _ hx))
    have hc := h c (List.mem_cons_self ..)
    simp only [clausePairs, compileCaseClauses, ih, caseCls, bind, Res.bind, pure]
    unfold Clause.whenOk at hc
    unfold Clause.tokK Clause.whenAt
    cases hcc : c.cond with
    | none => rfl
    | some t =>
      rw [hcc] at hc
      simp only at hc ⊢
      have hn : ((tgTok d nmWhen t c.w l).name == nmWhen) = true := by
        show (nmWhen == nmWhen) = true
        decide
      have ha : (tgTok d nmWhen t c.w l).args = t := rfl
      have hl : (tgTok d nmWhen t c.w l).line = l := rfl
      cases hp : parseStatement kwWhen t with
      | ok st =>
        rw [hp] at hc
        cases st with
        | when es => simp only [hn, if_true, ha, hl, hp, liftParse]
        | expr e => cases hc
        | assign x e => cases hc
        | cycle g f r => cases hc
        | loop x e m => cases hc
      | err e => rw [hp] at hc; cases hc
      | panic w => rw [hp] at hc; cases hc
      | unmodelled w => rw [hp] at hc; cases hc

theorem caseCls_append (d : Delims) : ∀ (a b : List Clause) (l : Nat),
    caseCls d (a ++ b) l = caseCls d a l ++ caseCls d b (l + countNL (spell d (clauseItemsK nmWhen a)))
  | [], b, l => by simp [caseCls, clauseItemsK, spell, countNL]
  | c :: r, b, l => by
    simp only [List.cons_append, caseCls, caseCls_append d r b, clauseItemsK, spell_cons, spell_append, countNL_append, Nat.add_assoc]

/-- a `when` clause none of whose values equals the subject `sel` (all of them evaluating and comparing without error) -/
def Clause.Miss (P : Prims) (env : Env) (sel : GoVal) (c : Clause) : Prop :=
  ∃ t es, c.cond = some t ∧ parseStatement kwWhen t = .ok (.when es) ∧ whenRes P env sel es = .ok false

/-- the clauses that miss are `when` clauses of the compiled list, with their lines -/
theorem caseCls_miss (d : Delims) (P : Prims) (env : Env) (sel : GoVal) : ∀ (pre : List Clause) (l : Nat),
    (∀ c ∈ pre, c.Miss P env sel) →
    ∃ ws : List ((Nat × List Expr) × List Node), caseCls d pre l = ws.map (fun b => (some b.1, b.2)) ∧
      ∀ b ∈ ws, whenRes P env sel b.1.2 = .ok false
  | [], _, _ => ⟨[], rfl, fun _ h => by cases h⟩
  | c :: r, l, hm => by
    obtain ⟨ws, h1, h2⟩ := caseCls_miss d P env sel r (l + countNL ((c.tagK nmWhen).spell d) + countNL (spell d c.body))
      (fun x hx => hm x (List.mem_cons_of_mem _ hx))
    obtain ⟨t, es, hc, hp, hw⟩ := hm c (List.mem_cons_self ..)
    refine ⟨((l, es), nodesOf d c.body (l + countNL ((c.tagK nmWhen).spell d))) :: ws, ?_, ?_⟩
    · simp only [caseCls, h1, List.map_cons, Clause.whenAt, hc, hp]
    · intro b hb
      rcases List.mem_cons.mp hb with rfl | hb
      · exact hw
      · exact h2 b hb

theorem compileNode_caseK (o : Token) (ast : List AST) (cast : List (Token × List AST)) (nb : List Node)
    (cs : List (Token × List Node)) (cases : List (Option (Nat × List Expr) × List Node)) (hn : o.name = nmCase)
    (hb : compileList ast = .ok nb) (hc : compileClauses cast = .ok cs) (ht : compileCaseClauses cs = .ok cases) :
    compileNode (.block o ast cast) =
      (liftParse o.line true (parseExprSource o.args)).bind fun ex => .ok [.caseB o.line ex cases] := by
  have h1 : (o.name == nmIf || o.name == nmUnless) = false := by rw [hn]; decide
  have h2 : (o.name == nmCase) = true := by rw [hn]; decide
  simp only [compileNode, hb, hc, bind, Res.bind, h1, h2, Bool.false_eq_true, if_false, if_true]
  cases liftParse o.line true (parseExprSource o.args) <;> simp [ht, pure]

/-- a `case` block admits `when` and `else` clauses -/
theorem caseK_admits (d : Delims) (args : Bytes) (w0 : Ws) (line : Nat) (c : Clause) (l : Nat) :
    stdGrammar.isClauseOf (tgTok d nmCase args w0 line) (c.tokK d nmWhen l) = true := by
  unfold Clause.tokK
  cases c.cond <;> simp only [Grammar.isClauseOf, tgTok] <;> decide

/-- `{% case s %}J clauses… {% endcase %}`; a clause with `cond = some vs` is `{% when vs %}body`. `J` is whatever stands
    between the `case` tag and the first clause: it is compiled and never rendered. -/
def caseChainSrc (s : Bytes) (w0 : Ws) (J : List Item) (rest : List Clause) (wE : Ws) : List Item :=
  blockSrcK nmWhen nmCase s w0 J rest wE

/-- the compiled tree of a `case` block whose pieces compile: one `caseB` node -/
theorem caseK_compile (d : Delims) (line : Nat) (s : Bytes) (w0 : Ws) (J : List Item) (rest : List Clause) (wE : Ws) (subj : Expr)
    (hp : parseExprSource s = .ok subj) (hJ : Compiles d J 0) (hrest : ∀ c ∈ rest, c.GoodWhen d) :
    compileTokens (tokensOf d (caseChainSrc s w0 J rest wE) line) =
      .ok [.caseB line subj (caseCls d rest (line + countNL ((tg nmCase s w0).spell d) + countNL (spell d J)))] := by
  obtain ⟨ast, cast, h1, h2, h3⟩ := blockK_compile d nmWhen nmCase s w0 J rest wE line
    (by decide) (by decide) (by decide) hJ (fun c hc => (hrest c hc).2) (fun c _ l => caseK_admits _ s w0 line c l)
  unfold caseChainSrc
  rw [h3, compileNode_caseK _ ast cast _ _ _ rfl h1 h2 (caseClauses_pairs _ rest _ (fun c hc => (hrest c hc).1))]
  have hargs : (tgTok d nmCase s w0 line).args = s := rfl
  rw [hargs, hp]
  rfl

theorem run_caseK_shape (P : Prims) (O : OutPrims) (cfg : Cfg) (fs : FS) (fuel : Nat) (line : Nat) (env : Env)
    (s : Bytes) (w0 : Ws) (J : List Item) (rest : List Clause) (wE : Ws) (subj : Expr)
    (hg : GoodDelims (Delims.ofList cfg.delims)) (hc : Clean (Delims.ofList cfg.delims) (caseChainSrc s w0 J rest wE))
    (hp : parseExprSource s = .ok subj) (hJ : Compiles (Delims.ofList cfg.delims) J 0)
    (hrest : ∀ c ∈ rest, c.GoodWhen (Delims.ofList cfg.delims)) :
    run P O cfg fs fuel (spell (Delims.ofList cfg.delims) (caseChainSrc s w0 J rest wE)) line env =
      runRoot P O cfg fs fuel [.caseB line subj (caseCls (Delims.ofList cfg.delims) rest
          (line + countNL ((tg nmCase s w0).spell (Delims.ofList cfg.delims)) + countNL (spell (Delims.ofList cfg.delims) J)))] env := by
  rw [run_spell P O cfg fs fuel _ line env hg hc, caseK_compile _ line s w0 J rest wE subj hp hJ hrest]
  rfl

/-! ## A `when` clause whose arguments are not a value list -/

theorem caseClause_head (d : Delims) (c : Clause) (l : Nat) (hc : c.whenOk = true) (ns : List Node) (cs : List (Token × List Node)) :
    compileCaseClauses ((c.tokK d nmWhen l, ns) :: cs) =
      (compileCaseClauses cs).bind (fun rest => .ok ((c.whenAt l, ns) :: rest)) := by
  simp only [compileCaseClauses, bind, pure]
  unfold Clause.whenOk at hc
  unfold Clause.tokK Clause.whenAt
  cases hcc : c.cond with
  | none => rfl
  | some t =>
    rw [hcc] at hc
    simp only at hc ⊢
    have hn : ((tgTok d nmWhen t c.w l).name == nmWhen) = true := by
      show (nmWhen == nmWhen) = true
      decide
    have ha : (tgTok d nmWhen t c.w l).args = t := rfl
    have hl : (tgTok d nmWhen t c.w l).line = l := rfl
    cases hp : parseStatement kwWhen t with
    | ok st =>
      rw [hp] at hc
      cases st with
      | when es => simp only [hn, if_true, ha, hl, hp, liftParse, Res.bind]
      | expr e => cases hc
      | assign x e => cases hc
      | cycle g f r => cases hc
      | loop x e m => cases hc
    | err e => rw [hp] at hc; cases hc
    | panic w => rw [hp] at hc; cases hc
    | unmodelled w => rw [hp] at hc; cases hc

/-- the clause arguments are compiled in order: the first `when` whose arguments do not parse is the error, at its line -/
theorem caseClauses_pairs_bad (d : Delims) (sel : Clause) (post : List Clause) (t : Bytes) (x : ParseErr)
    (hsel : sel.cond = some t) (hbad : parseStatement kwWhen t = .err x) : ∀ (pre : List Clause) (l : Nat),
    (∀ c ∈ pre, c.whenOk = true) →
    compileCaseClauses (clausePairs d nmWhen (pre ++ sel :: post) l) =
      .err ⟨l + countNL (spell d (clauseItemsK nmWhen pre)), true, .syntax, .byCause⟩
  | [], l, _ => by
    have hn : ((tgTok d nmWhen t sel.w l).name == nmWhen) = true := by
      show (nmWhen == nmWhen) = true
      decide
    have ha : (tgTok d nmWhen t sel.w l).args = t := rfl
    have hl : (tgTok d nmWhen t sel.w l).line = l := rfl
    simp only [List.nil_append, clausePairs, compileCaseClauses, Clause.tokK, hsel, hn, if_true, ha, hl, hbad, liftParse, bind,
      Res.bind, clauseItemsK, spell, countNL, List.foldl_nil, Nat.add_zero]
    rfl
  | c :: r, l, h => by
    simp only [List.cons_append, clausePairs]
    rw [caseClause_head d c l (h c (List.mem_cons_self ..)),
      caseClauses_pairs_bad d sel post t x hsel hbad r _ (fun y hy => h y (List.mem_cons_of_mem _ hy))]
    simp only [Res.bind, clauseItemsK, spell_cons, spell_append, countNL_append, Nat.add_assoc]

theorem compileNode_caseK_err (o : Token) (ast : List AST) (cast : List (Token × List AST)) (nb : List Node)
    (cs : List (Token × List Node)) (subj : Expr) (e : SErr) (hn : o.name = nmCase)
    (hb : compileList ast = .ok nb) (hc : compileClauses cast = .ok cs) (hs : parseExprSource o.args = .ok subj)
    (ht : compileCaseClauses cs = .err e) :
    compileNode (.block o ast cast) = .err e := by
  have h1 : (o.name == nmIf || o.name == nmUnless) = false := by rw [hn]; decide
  have h2 : (o.name == nmCase) = true := by rw [hn]; decide
  simp only [compileNode, hb, hc, bind, Res.bind, h1, h2, Bool.false_eq_true, if_false, if_true, hs, liftParse, ht]

theorem caseK_compile_bad (d : Delims) (line : Nat) (s : Bytes) (w0 : Ws) (J : List Item) (pre : List Clause) (sel : Clause)
    (post : List Clause) (wE : Ws) (subj : Expr) (t : Bytes) (x : ParseErr)
    (hp : parseExprSource s = .ok subj) (hJ : Compiles d J 0) (hbodies : ∀ c ∈ pre ++ sel :: post, Compiles d c.body 0)
    (hpre : ∀ c ∈ pre, c.whenOk = true) (hsel : sel.cond = some t) (hbad : parseStatement kwWhen t = .err x) :
    compileTokens (tokensOf d (caseChainSrc s w0 J (pre ++ sel :: post) wE) line) =
      .err ⟨line + countNL ((tg nmCase s w0).spell d) + countNL (spell d J) + countNL (spell d (clauseItemsK nmWhen pre)),
        true, .syntax, .byCause⟩ := by
  obtain ⟨ast, cast, h1, h2, h3⟩ := blockK_compile d nmWhen nmCase s w0 J (pre ++ sel :: post) wE line
    (by decide) (by decide) (by decide) hJ hbodies (fun c _ l => caseK_admits _ s w0 line c l)
  unfold caseChainSrc
  rw [h3, compileNode_caseK_err _ ast cast _ _ subj _ rfl h1 h2 hp
    (caseClauses_pairs_bad d sel post t x hsel hbad pre _ hpre)]
