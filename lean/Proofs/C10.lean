import Liquid.Render
/-!
# C10 — conditional tags render exactly the first branch whose condition is truthy

Statements about the compiled tree (`Node.ifB`, `Node.caseB`), for every `Prims`, every state and
every branch list. `condRes` is the value the model's `evalCond` computes (it reads the
variables and never changes the state).
-/

/-- the outcome of evaluating a branch test in an environment -/
def condRes (P : Prims) (env : Env) : CondT → Res Cause Bool
  | .always => .ok true
  | .expr _ e => match evaluate P env e with
    | .ok v => .ok v.test
    | .err c => .err c
    | .panic w => .panic w
    | .unmodelled w => .unmodelled w
  | .notExpr _ e => match evaluate P env e with
    | .ok v => .ok !v.test
    | .err c => .err c
    | .panic w => .panic w
    | .unmodelled w => .unmodelled w

/-- the line of the tag a test belongs to: its evaluation errors are located there -/
def CondT.line : CondT → Nat
  | .always => 0
  | .expr l _ => l
  | .notExpr l _ => l

/-- an evaluation error of a branch test, located at the branch's own tag -/
def condErr (path : Bytes) (t : CondT) (c : Cause) : RawErr := .located (wrapError path (.plain c) ⟨t.line, true⟩)

theorem evalCond_eq (P : Prims) (path : Bytes) (t : CondT) (s : RS) :
    evalCond P path t s = match condRes P s.env t with
      | .ok b => .ret (b, s)
      | .err c => .fail (condErr path t c)
      | .panic w => .panic w
      | .unmodelled w => .unmodelled w := by
  cases t with
  | always => rfl
  | expr l e =>
    simp only [evalCond, condRes, bind, M.bind, M.getEnv, Prog.bind, wrapFailAt, M.mapFail]
    cases evaluate P s.env e <;> rfl
  | notExpr l e =>
    simp only [evalCond, condRes, bind, M.bind, M.getEnv, Prog.bind, wrapFailAt, M.mapFail]
    cases evaluate P s.env e <;> rfl

theorem renderBranches_cons (c : RCtx) (t : CondT) (body : List Node) (rest : List (CondT × List Node)) (s : RS) :
    renderBranches c ((t, body) :: rest) s = match condRes c.P s.env t with
      | .ok true => renderBlockBody c body s
      | .ok false => renderBranches c rest s
      | .err e => .fail (condErr c.cfg.path t e)
      | .panic w => .panic w
      | .unmodelled w => .unmodelled w := by
  rw [renderBranches]
  simp only [bind, M.bind, evalCond_eq]
  cases condRes c.P s.env t with
  | ok b => cases b <;> rfl
  | err e => rfl
  | panic w => rfl
  | unmodelled w => rfl

/-- **C10 (truthiness).** A value is truthy exactly when it is neither nil nor false — so 0, the
    empty string and empty collections are truthy. -/
theorem test_truthy_iff (v : GoVal) :
    v.test = true ↔ (∀ h : v.unwrap = .nil, False) ∧ (∀ h : v.unwrap = .bool false, False) := by
  unfold GoVal.test
  split
  · next h => simp [h]
  · next h => simp [h]
  · next h1 h2 =>
    constructor
    · intro _; exact ⟨fun h => h1 h, fun h => h2 h⟩
    · intro _; rfl

/-- **C10 (first truthy branch).** If the tests of the branches before `b` are all falsy and
    `b`'s test is truthy, the conditional renders exactly `b`'s body — whatever follows. -/
theorem if_first_truthy (c : RCtx) (s : RS) (pre : List (CondT × List Node)) (t : CondT) (body : List Node)
    (later : List (CondT × List Node))
    (hpre : ∀ b ∈ pre, condRes c.P s.env b.1 = .ok false) (ht : condRes c.P s.env t = .ok true) :
    renderBranches c (pre ++ (t, body) :: later) s = renderBlockBody c body s := by
  induction pre with
  | nil => rw [List.nil_append, renderBranches_cons, ht]
  | cons b pre ih =>
    obtain ⟨bt, bb⟩ := b
    rw [List.cons_append, renderBranches_cons, hpre (bt, bb) (by simp)]
    exact ih (fun x hx => hpre x (by simp [hx]))

/-- **C10 (lazy).** Conditions after the selected branch are not evaluated: the result does not
    depend on the later branches at all (they may be erroring, or anything else). -/
theorem if_lazy (c : RCtx) (s : RS) (pre : List (CondT × List Node)) (t : CondT) (body : List Node)
    (later later' : List (CondT × List Node))
    (hpre : ∀ b ∈ pre, condRes c.P s.env b.1 = .ok false) (ht : condRes c.P s.env t = .ok true) :
    renderBranches c (pre ++ (t, body) :: later) s = renderBranches c (pre ++ (t, body) :: later') s := by
  rw [if_first_truthy c s pre t body later hpre ht, if_first_truthy c s pre t body later' hpre ht]

/-- **C10 (no branch).** If every test is falsy nothing is rendered and the state is unchanged. -/
theorem if_none (c : RCtx) (s : RS) (bs : List (CondT × List Node))
    (h : ∀ b ∈ bs, condRes c.P s.env b.1 = .ok false) :
    renderBranches c bs s = .ret (.done, s) := by
  induction bs with
  | nil => rw [renderBranches]; rfl
  | cons b bs ih =>
    obtain ⟨bt, bb⟩ := b
    rw [renderBranches_cons, h (bt, bb) (by simp)]
    exact ih (fun x hx => h x (by simp [hx]))

/-- **C10 (erroring condition).** If the first test that is not falsy fails, the conditional fails
    with that error and renders nothing. -/
theorem if_cond_err (c : RCtx) (s : RS) (pre : List (CondT × List Node)) (t : CondT) (body : List Node)
    (later : List (CondT × List Node)) (e : Cause)
    (hpre : ∀ b ∈ pre, condRes c.P s.env b.1 = .ok false) (ht : condRes c.P s.env t = .err e) :
    renderBranches c (pre ++ (t, body) :: later) s = .fail (condErr c.cfg.path t e) := by
  induction pre with
  | nil => rw [List.nil_append, renderBranches_cons, ht]
  | cons b pre ih =>
    obtain ⟨bt, bb⟩ := b
    rw [List.cons_append, renderBranches_cons, hpre (bt, bb) (by simp)]
    exact ih (fun x hx => hpre x (by simp [hx]))

/-- **C10 (unless is the dual of if).** For every condition `e` (erroring ones included), bodies
    `A`, `B` and state: `{% if e %}A{% else %}B{% endif %}` and
    `{% unless e %}B{% else %}A{% endunless %}` render identically. -/
theorem unless_dual (c : RCtx) (line : Nat) (e : Expr) (A B : List Node) (s : RS) :
    renderNode c (.ifB line [(.expr line e, A), (.always, B)]) s =
    renderNode c (.ifB line [(.notExpr line e, B), (.always, A)]) s := by
  have h : renderBranches c [(.expr line e, A), (.always, B)] s = renderBranches c [(.notExpr line e, B), (.always, A)] s := by
    rw [renderBranches_cons, renderBranches_cons, renderBranches_cons, renderBranches_cons]
    simp only [condRes, condErr, CondT.line]
    cases evaluate c.P s.env e with
    | ok v =>
      simp only
      cases hvt : v.test
      · simp
      · simp
    | err x => rfl
    | panic w => rfl
    | unmodelled w => rfl
  simp only [renderNode, wrapAt, h]

/-! ### case / when -/

/-- does a `when` clause list a value equal to the subject? (`none` = its evaluation fails) -/
def whenRes (P : Prims) (env : Env) (sel : GoVal) : List Expr → Res Cause Bool
  | [] => .ok false
  | e :: es =>
    match evaluate P env e with
    | .ok v =>
      (match P.equalFn sel v with
       | .ok true => .ok true
       | .ok false => whenRes P env sel es
       | .err c => .err c
       | .panic w => .panic w
       | .unmodelled w => .unmodelled w)
    | .err c => .err c
    | .panic w => .panic w
    | .unmodelled w => .unmodelled w

theorem whenMatches_eq (c : RCtx) (sel : GoVal) (es : List Expr) (s : RS) :
    whenMatches c sel es s = match whenRes c.P s.env sel es with
      | .ok b => .ret (b, s)
      | .err x => .fail (.plain x)
      | .panic w => .panic w
      | .unmodelled w => .unmodelled w := by
  induction es with
  | nil => rfl
  | cons e es ih =>
    rw [whenMatches]
    simp only [bind, M.bind, M.getEnv, Prog.bind, whenRes]
    cases evaluate c.P s.env e with
    | ok v =>
      simp only [M.ofRes, pure, M.pure, Prog.bind]
      cases c.P.equalFn sel v with
      | ok b =>
        cases b
        · simp only [M.ofRes, pure, M.pure, Prog.bind, Bool.false_eq_true, if_false]
          exact ih
        · rfl
      | err x => rfl
      | panic w => rfl
      | unmodelled w => rfl
    | err x => rfl
    | panic w => rfl
    | unmodelled w => rfl

theorem renderCases_when (c : RCtx) (sel : GoVal) (line : Nat) (es : List Expr) (body : List Node)
    (rest : List (Option (Nat × List Expr) × List Node)) (s : RS) :
    renderCases c sel ((some (line, es), body) :: rest) s = match whenRes c.P s.env sel es with
      | .ok true => renderBlockBody c body s
      | .ok false => renderCases c sel rest s
      | .err x => .fail (.located (wrapError c.cfg.path (.plain x) ⟨line, true⟩))
      | .panic w => .panic w
      | .unmodelled w => .unmodelled w := by
  rw [renderCases]
  simp only [bind, M.bind, wrapFailAt, M.mapFail, whenMatches_eq]
  cases whenRes c.P s.env sel es with
  | ok b => cases b <;> rfl
  | err x => rfl
  | panic w => rfl
  | unmodelled w => rfl

/-- **C10 (case).** `case` renders the first `when` clause one of whose values equals the
    subject (earlier clauses matching nothing)… -/
theorem case_first_equal (c : RCtx) (sel : GoVal) (s : RS) (pre : List ((Nat × List Expr) × List Node)) (line : Nat) (es : List Expr)
    (body : List Node) (later : List (Option (Nat × List Expr) × List Node))
    (hpre : ∀ b ∈ pre, whenRes c.P s.env sel b.1.2 = .ok false) (ht : whenRes c.P s.env sel es = .ok true) :
    renderCases c sel (pre.map (fun b => (some b.1, b.2)) ++ (some (line, es), body) :: later) s = renderBlockBody c body s := by
  induction pre with
  | nil => rw [List.map_nil, List.nil_append, renderCases_when, ht]
  | cons b pre ih =>
    rw [List.map_cons, List.cons_append, renderCases_when, hpre b (by simp)]
    exact ih (fun x hx => hpre x (by simp [hx]))

/-- …otherwise the `else` clause… -/
theorem case_else (c : RCtx) (sel : GoVal) (s : RS) (pre : List ((Nat × List Expr) × List Node)) (body : List Node)
    (later : List (Option (Nat × List Expr) × List Node))
    (hpre : ∀ b ∈ pre, whenRes c.P s.env sel b.1.2 = .ok false) :
    renderCases c sel (pre.map (fun b => (some b.1, b.2)) ++ (none, body) :: later) s = renderBlockBody c body s := by
  induction pre with
  | nil => rw [List.map_nil, List.nil_append, renderCases]
  | cons b pre ih =>
    rw [List.map_cons, List.cons_append, renderCases_when, hpre b (by simp)]
    exact ih (fun x hx => hpre x (by simp [hx]))

/-- …otherwise nothing. -/
theorem case_none (c : RCtx) (sel : GoVal) (s : RS) (pre : List ((Nat × List Expr) × List Node))
    (hpre : ∀ b ∈ pre, whenRes c.P s.env sel b.1.2 = .ok false) :
    renderCases c sel (pre.map (fun b => (some b.1, b.2))) s = .ret (.done, s) := by
  induction pre with
  | nil => rw [List.map_nil, renderCases]; rfl
  | cons b pre ih =>
    rw [List.map_cons, renderCases_when, hpre b (by simp)]
    exact ih (fun x hx => hpre x (by simp [hx]))

/-! ### Closed forms: the whole chain in one equation -/

/-- a branch *fires* when its test is not falsy: it is truthy, or its evaluation fails -/
def branchFires (P : Prims) (env : Env) (b : CondT × List Node) : Bool :=
  match condRes P env b.1 with
  | .ok false => false
  | _ => true

/-- **C10 (if_denotation).** Rendering an `if`/`elsif`/`else` (or `unless`) chain is, for every
    branch list and state, rendering what `List.find?` selects: the first branch whose test is
    not falsy. If that test is truthy the result is exactly the rendering of that branch's body;
    if its evaluation fails the chain fails with that error, located at the branch's own tag
    (tests of earlier branches were falsy, tests of later branches are never evaluated); if no
    branch fires nothing is rendered and the state is unchanged. Composes `if_first_truthy`,
    `if_none` and `if_cond_err`. -/
theorem if_denotation (c : RCtx) (bs : List (CondT × List Node)) (s : RS) :
    renderBranches c bs s =
      match bs.find? (branchFires c.P s.env) with
      | none => .ret (.done, s)
      | some (t, body) =>
        match condRes c.P s.env t with
        | .ok _ => renderBlockBody c body s
        | .err e => .fail (condErr c.cfg.path t e)
        | .panic w => .panic w
        | .unmodelled w => .unmodelled w := by
  induction bs with
  | nil => rw [renderBranches]; rfl
  | cons b bs ih =>
    obtain ⟨t, body⟩ := b
    rw [renderBranches_cons, List.find?_cons]
    cases h : condRes c.P s.env t with
    | ok v =>
      cases v with
      | true => simp only [branchFires, h]
      | false => simp only [branchFires, h]; exact ih
    | err e => simp only [branchFires, h]
    | panic w => simp only [branchFires, h]
    | unmodelled w => simp only [branchFires, h]

/-- the selected branch of `if_denotation` is the first that fires: every branch before it has a
    falsy test (so `find?` here says exactly "first truthy, errors of earlier tests propagated") -/
theorem if_denotation_selects (P : Prims) (env : Env) (bs : List (CondT × List Node)) (b : CondT × List Node)
    (h : bs.find? (branchFires P env) = some b) :
    ∃ pre later, bs = pre ++ b :: later ∧ (∀ x ∈ pre, condRes P env x.1 = .ok false) ∧
      condRes P env b.1 ≠ .ok false := by
  obtain ⟨hb, pre, later, hbs, hpre⟩ := List.find?_eq_some_iff_append.mp h
  refine ⟨pre, later, hbs, ?_, ?_⟩
  · intro x hx
    have := hpre x hx
    simp only [branchFires] at this
    split at this
    · assumption
    · simp at this
  · intro hf
    simp [branchFires, hf] at hb

/-- the `if` node itself: the chain, with failures and loop sentinels re-wrapped at the tag -/
theorem if_node_denotation (c : RCtx) (line : Nat) (bs : List (CondT × List Node)) (s : RS) :
    renderNode c (.ifB line bs) s =
      wrapAt c.cfg.path ⟨line, true⟩ (fun s =>
        match bs.find? (branchFires c.P s.env) with
        | none => .ret (.done, s)
        | some (t, body) =>
          match condRes c.P s.env t with
          | .ok _ => renderBlockBody c body s
          | .err e => .fail (condErr c.cfg.path t e)
          | .panic w => .panic w
          | .unmodelled w => .unmodelled w) s := by
  rw [renderNode]
  simp only [wrapAt, if_denotation]

/-- a `case` clause fires when it is the `else` clause or its `when` values are not all unequal
    to the subject (one is equal, or the evaluation / comparison fails) -/
def clauseFires (P : Prims) (env : Env) (sel : GoVal) (cl : Option (Nat × List Expr) × List Node) : Bool :=
  match cl.1 with
  | none => true
  | some (_, es) =>
    match whenRes P env sel es with
    | .ok false => false
    | _ => true

/-- **C10 (case_denotation).** Rendering the clauses of a `case` with subject value `sel` is
    rendering what `List.find?` selects: the first clause that is an `else` or whose `when` list
    is not entirely unequal to the subject. A matching `when` (or the `else`) renders exactly its
    body; a `when` whose evaluation fails makes the `case` fail with that error at the `when` tag;
    no clause: nothing is rendered. Composes `case_first_equal`, `case_else`, `case_none`. -/
theorem case_denotation (c : RCtx) (sel : GoVal) (cs : List (Option (Nat × List Expr) × List Node)) (s : RS) :
    renderCases c sel cs s =
      match cs.find? (clauseFires c.P s.env sel) with
      | none => .ret (.done, s)
      | some (none, body) => renderBlockBody c body s
      | some (some (line, es), body) =>
        match whenRes c.P s.env sel es with
        | .ok _ => renderBlockBody c body s
        | .err x => .fail (.located (wrapError c.cfg.path (.plain x) ⟨line, true⟩))
        | .panic w => .panic w
        | .unmodelled w => .unmodelled w := by
  induction cs with
  | nil => rw [renderCases]; rfl
  | cons cl cs ih =>
    obtain ⟨w, body⟩ := cl
    cases w with
    | none => rw [renderCases, List.find?_cons]; simp only [clauseFires]
    | some le =>
      obtain ⟨line, es⟩ := le
      rw [renderCases_when, List.find?_cons]
      cases h : whenRes c.P s.env sel es with
      | ok v =>
        cases v with
        | true => simp only [clauseFires, h]
        | false => simp only [clauseFires, h]; exact ih
      | err e => simp only [clauseFires, h]
      | panic w => simp only [clauseFires, h]
      | unmodelled w => simp only [clauseFires, h]

/-- the `case` node: the subject is evaluated once, first; its failure is the node's failure -/
theorem case_node_denotation (c : RCtx) (line : Nat) (subject : Expr) (cs : List (Option (Nat × List Expr) × List Node))
    (s : RS) (sel : GoVal) (hsel : evaluate c.P s.env subject = .ok sel) :
    renderNode c (.caseB line subject cs) s = wrapAt c.cfg.path ⟨line, true⟩ (renderCases c sel cs) s := by
  rw [renderNode]
  simp only [wrapAt, bind, M.bind, M.getEnv, Prog.bind, hsel, M.ofRes, pure, M.pure]

theorem case_subject_err (c : RCtx) (line : Nat) (subject : Expr) (cs : List (Option (Nat × List Expr) × List Node))
    (s : RS) (e : Cause) (hsel : evaluate c.P s.env subject = .err e) :
    renderNode c (.caseB line subject cs) s = .fail (.located (wrapError c.cfg.path (.plain e) ⟨line, true⟩)) := by
  rw [renderNode]
  simp only [wrapAt, bind, M.bind, M.getEnv, Prog.bind, hsel, M.ofRes, M.fail, Prog.mapFail]

/-! Non-vacuity: literal conditions `false`, `nil`, `0` — the third is truthy. -/
example (P : Prims) (env : Env) : condRes P env (.expr 1 (.lit (.bool false))) = .ok false := rfl
example (P : Prims) (env : Env) : condRes P env (.expr 1 (.lit .nil)) = .ok false := rfl
example (P : Prims) (env : Env) : condRes P env (.expr 1 (.lit (.int .int 0))) = .ok true := rfl
example (P : Prims) (env : Env) : condRes P env (.expr 1 (.lit (.str []))) = .ok true := rfl
example (P : Prims) (env : Env) : condRes P env (.expr 1 (.lit (.slice .any []))) = .ok true := rfl

/-! Non-vacuity of the closed forms: `{% if false %}A{% elsif 0 %}B{% else %}C{% endif %}` selects B
    (0 is truthy); a `case` on 1 with `when 2`, `else` selects the else clause. -/
example (P : Prims) (env : Env) (A B C : List Node) :
    [(CondT.expr 1 (.lit (.bool false)), A), (CondT.expr 2 (.lit (.int .int 0)), B), (CondT.always, C)].find?
      (branchFires P env) = some (CondT.expr 2 (.lit (.int .int 0)), B) := rfl
example (P : Prims) (env : Env) (A : List Node) :
    [(CondT.expr 1 (.lit .nil), A)].find? (branchFires P env) = none := rfl
/-- with a comparison that never holds, a `case` with one `when` and an `else` selects the `else` clause -/
example (env : Env) (sel : GoVal) (A B : List Node) :
    [(some (1, [Expr.lit (.int .int 2)]), A), (none, B)].find?
      (clauseFires { equal := fun _ _ => .ok false, less := fun _ _ => .ok false, contains := fun _ _ => .ok false,
                     equalFn := fun _ _ => .ok false, applyFilter := fun _ v _ => .ok v, hasFilter := fun _ => false }
        env sel) = some (none, B) := rfl
