import Proofs.E2EToken
/-!
# The end-tag expression of raw and comment blocks: `TL -? \s* NAME \s* -? TR`

`EndTagAt d n s` (the declarative shape) is what the expression `endTagRe d n` matches at the head of `s`,
independently of the matcher's fuel (when there is enough of it) and of the absolute offset; so the
search for the first end tag is the search for the first position of that shape.
-/

/-! ## Leftmost search -/

theorem search_at (mf : Nat) (re : Re) (e : Nat) (c : Caps) : ∀ (n : Nat) (s : Bytes) (p sk : Nat), n < s.length →
    (∀ i, i < n → re.matchAt mf (s.drop i) (p + i) = none) → re.matchAt mf (s.drop n) (p + n) = some (e, c) →
    re.search mf s p sk = some (sk + n, e, c) := by
  intro n
  induction n with
  | zero =>
    intro s p sk hlt _ hm
    cases s with
    | nil => simp at hlt
    | cons x xs =>
      simp only [List.drop_zero, Nat.add_zero] at hm
      simp only [Re.search, hm, Nat.add_zero]
  | succ n ih =>
    intro s p sk hlt hnone hm
    cases s with
    | nil => simp at hlt
    | cons x xs =>
      have h0 := hnone 0 (Nat.succ_pos n)
      simp only [List.drop_zero, Nat.add_zero] at h0
      simp only [Re.search, h0]
      have := ih xs (p + 1) (sk + 1) (by simpa using hlt)
        (fun i hi => by have := hnone (i + 1) (by omega); simpa [Nat.add_assoc, Nat.add_comm 1] using this)
        (by simpa [Nat.add_assoc, Nat.add_comm 1] using hm)
      rw [this]
      congr 2; omega

theorem search_none_of (mf : Nat) (re : Re) : ∀ (s : Bytes) (p sk : Nat),
    (∀ i, i < s.length → re.matchAt mf (s.drop i) (p + i) = none) → re.search mf s p sk = none
  | [], _, _, _ => rfl
  | x :: xs, p, sk, h => by
    have h0 := h 0 (by simp)
    simp only [List.drop_zero, Nat.add_zero] at h0
    simp only [Re.search, h0]
    exact search_none_of mf re xs (p + 1) (sk + 1)
      (fun i hi => by have := h (i + 1) (by simpa using hi); simpa [Nat.add_assoc, Nat.add_comm 1] using this)

theorem endTagRe_eq (d : Delims) (n : Bytes) :
    endTagRe d n = Re.seq (Re.lit d.tl) (.seq hy (.seq sp (.seq (Re.lit n) (closer d.tr)))) := rfl

/-- soundness: what the expression matches has the shape -/
theorem endTagRe_sound {R} (d : Delims) (n : Bytes) (fuel : Nat) (s : Bytes) (p : Nat) (c : Caps) (k : K R) (r : R)
    (h : (endTagRe d n).m fuel s p c k = some r) : EndTagAt d n s := by
  rw [endTagRe_eq, seq_m] at h
  obtain ⟨t1, h1, h⟩ := lit_m fuel d.tl s p c _ r h
  rw [seq_m] at h
  have key : ∀ (t2 : Bytes) (q : Nat), (Re.seq sp (.seq (Re.lit n) (closer d.tr))).m fuel t2 q c k = some r →
      ∃ (b2 : Bool) (ws1 ws2 t : Bytes), t2 = ws1 ++ (n ++ (ws2 ++ (hyB b2 ++ (d.tr ++ t)))) ∧ AllP .space ws1 ∧ AllP .space ws2 := by
    intro t2 q h
    rw [seq_m] at h
    obtain ⟨ws1, t3, h3, hws1, h⟩ := sp_m_sound fuel t2 q c _ r h
    rw [seq_m] at h
    obtain ⟨t4, h4, h⟩ := lit_m fuel n t3 _ c _ r h
    obtain ⟨ws2, b2, t, h5, hws2⟩ := closer_sound fuel d.tr t4 _ c k r h
    exact ⟨b2, ws1, ws2, t, by rw [h3, h4, h5], hws1, hws2⟩
  rcases hy_m_sound fuel t1 _ c _ r h with h | ⟨t2, h2, h⟩
  · obtain ⟨b2, ws1, ws2, t, e, hw1, hw2⟩ := key t1 _ h
    exact ⟨false, b2, ws1, ws2, t, by rw [h1, e]; rfl, hw1, hw2⟩
  · obtain ⟨b2, ws1, ws2, t, e, hw1, hw2⟩ := key t2 _ h
    exact ⟨true, b2, ws1, ws2, t, by rw [h1, h2, e]; rfl, hw1, hw2⟩

/-- a name the end-tag expression is built with: non-empty, beginning with neither white space nor a hyphen -/
def GoodName (n : Bytes) : Prop := n ≠ [] ∧ HeadNot .space n ∧ HeadNot (.eq 45) n

theorem goodName_end (n : Bytes) : GoodName (nameEnd ++ n) :=
  ⟨by simp [nameEnd], headNot_cons (by decide), headNot_cons (by decide)⟩

/-- completeness: the shape is matched, with any fuel that covers the input -/
theorem endTagRe_complete (d : Delims) (hg : GoodDelims d) (n : Bytes) (hn : GoodName n) (fuel : Nat) (s : Bytes) (p : Nat)
    (h : EndTagAt d n s) (hf : s.length ≤ fuel) : ∃ r, (endTagRe d n).matchAt fuel s p = some r := by
  obtain ⟨b1, b2, ws1, ws2, t, rfl, hw1, hw2⟩ := h
  obtain ⟨_, _, _, htrne, _, _, _, htr, _, _⟩ := hg
  obtain ⟨htr1, _, htr3⟩ := delim_head htr
  obtain ⟨hnne, hn1, hn2⟩ := hn
  simp only [List.length_append] at hf
  rw [matchAt_eq, endTagRe_eq, seq_m, lit_m_ok, seq_m]
  have hafter : ∀ q, ∃ r, (Re.seq sp (.seq (Re.lit n) (closer d.tr))).m fuel
      (ws1 ++ (n ++ (ws2 ++ (hyB b2 ++ (d.tr ++ t))))) q [] kfin = some r := by
    intro q
    refine ⟨(q + ws1.length + n.length + (ws2.length + ((hyB b2).length + d.tr.length)), []), ?_⟩
    rw [seq_m]
    refine sp_m_all fuel ws1 _ q [] _ _ hw1 (headNot_append_of_ne hnne hn1) (by omega) ?_
    rw [seq_m, lit_m_ok]
    exact closer_ok fuel d.tr ws2 t b2 _ [] kfin _ hw2 (by omega) htr1 htr3 htrne rfl
  cases b1 with
  | true =>
    obtain ⟨r, hr⟩ := hafter (p + d.tl.length + 1)
    exact ⟨r, hy_m_take fuel _ _ [] _ r hr⟩
  | false =>
    obtain ⟨r, hr⟩ := hafter (p + d.tl.length)
    refine ⟨r, ?_⟩
    rw [show hyB false = [] from rfl, List.nil_append, hy_m_skip, hr]
    cases ws1 with
    | nil => rw [List.nil_append]; exact headNot_append_of_ne hnne hn2
    | cons w ws => exact headNot_cons (space_not_hyphen (hw1 w (List.mem_cons_self ..)))

theorem endTagAtB_iff (d : Delims) (hg : GoodDelims d) (n : Bytes) (hn : GoodName n) (s : Bytes) :
    endTagAtB d n s = true ↔ EndTagAt d n s := by
  unfold endTagAtB
  constructor
  · intro h
    cases hm : (endTagRe d n).matchAt s.length s 0 with
    | none => rw [hm] at h; cases h
    | some r => exact endTagRe_sound d n _ s 0 [] kfin r hm
  · intro h
    obtain ⟨r, hr⟩ := endTagRe_complete d hg n hn s.length s 0 h (Nat.le_refl _)
    rw [hr]; rfl

/-- with enough fuel and at any offset, the expression matches exactly where the decided shape holds -/
theorem endTagRe_matchAt (d : Delims) (hg : GoodDelims d) (n : Bytes) (hn : GoodName n) (fuel : Nat) (s : Bytes) (p : Nat)
    (hf : s.length ≤ fuel) :
    (endTagAtB d n s = true → ∃ r, (endTagRe d n).matchAt fuel s p = some r) ∧
    (endTagAtB d n s = false → (endTagRe d n).matchAt fuel s p = none) := by
  constructor
  · intro h
    exact endTagRe_complete d hg n hn fuel s p ((endTagAtB_iff d hg n hn s).mp h) hf
  · intro h
    cases hm : (endTagRe d n).matchAt fuel s p with
    | none => rfl
    | some r =>
      have := (endTagAtB_iff d hg n hn s).mpr (endTagRe_sound d n fuel s p [] kfin r hm)
      rw [h] at this; cases this

/-! ## The search for the first end tag -/

theorem search_noEnd (d : Delims) (hg : GoodDelims d) (n : Bytes) (hn : GoodName n) (fuel : Nat) (s : Bytes) (p : Nat)
    (hf : s.length ≤ fuel) (h : NoEnd d n s) : (endTagRe d n).search fuel s p 0 = none := by
  refine search_none_of fuel _ s p 0 ?_
  intro i hi
  exact (endTagRe_matchAt d hg n hn fuel _ _ (by simp; omega)).2 (h i hi)

theorem endTagAt_ne_nil (d : Delims) (hg : GoodDelims d) (n s : Bytes) (h : EndTagAt d n s) : s ≠ [] := by
  obtain ⟨b1, b2, ws1, ws2, t, rfl, _, _⟩ := h
  intro e
  have := congrArg List.length e
  have hpos : 0 < d.tl.length := List.length_pos_iff.mpr hg.2.2.1
  simp only [List.length_append, List.length_nil] at this
  omega

theorem search_firstEnd (d : Delims) (hg : GoodDelims d) (n : Bytes) (hn : GoodName n) (fuel : Nat) (s : Bytes) (p a : Nat)
    (hf : s.length ≤ fuel) (h : FirstEnd d n s a) : ∃ e c, (endTagRe d n).search fuel s p 0 = some (a, e, c) := by
  obtain ⟨h1, h2⟩ := h
  have hne := endTagAt_ne_nil d hg n _ ((endTagAtB_iff d hg n hn _).mp h2)
  have ha : a < s.length := by
    cases Nat.lt_or_ge a s.length with
    | inl h => exact h
    | inr h => exact absurd (List.drop_eq_nil_of_le h) hne
  obtain ⟨⟨e, c⟩, hr⟩ := (endTagRe_matchAt d hg n hn fuel (s.drop a) (p + a) (by simp; omega)).1 h2
  refine ⟨e, c, ?_⟩
  have := search_at fuel (endTagRe d n) e c a s p 0 ha
    (fun i hi => (endTagRe_matchAt d hg n hn fuel _ _ (by simp; omega)).2 (h1 i hi)) hr
  simpa using this

/-! ## `lexSkip` -/

theorem lexSkip_none (mf : Nat) (d : Delims) (name : Option Bytes) (rest : Bytes) (p : Nat) (h : lexEndOf name = none) :
    lexSkip mf d name rest p = 0 := by
  cases name with
  | none => rfl
  | some n =>
    simp only [lexEndOf] at h
    split at h
    · cases h
    · next hc => simp only [lexSkip, hc]; rfl

theorem lexEndOf_some {name : Option Bytes} {e : Bytes} (h : lexEndOf name = some e) :
    ∃ n, name = some n ∧ (n == nameRaw || n == nameComment) = true ∧ e = nameEnd ++ n := by
  cases name with
  | none => cases h
  | some n =>
    simp only [lexEndOf] at h
    split at h
    · next hc => cases h; exact ⟨n, rfl, hc, rfl⟩
    · cases h

theorem lexSkip_noEnd (mf : Nat) (d : Delims) (hg : GoodDelims d) (name : Option Bytes) (e rest : Bytes) (p : Nat)
    (h : lexEndOf name = some e) (hf : rest.length ≤ mf) (hno : NoEnd d e rest) : lexSkip mf d name rest p = 0 := by
  obtain ⟨n, rfl, hc, rfl⟩ := lexEndOf_some h
  simp only [lexSkip, hc, if_true, search_noEnd d hg _ (goodName_end n) mf rest p hf hno]

theorem lexSkip_first (mf : Nat) (d : Delims) (hg : GoodDelims d) (name : Option Bytes) (e rest : Bytes) (p a : Nat)
    (h : lexEndOf name = some e) (hf : rest.length ≤ mf) (hfe : FirstEnd d e rest a) : lexSkip mf d name rest p = a := by
  obtain ⟨n, rfl, hc, rfl⟩ := lexEndOf_some h
  obtain ⟨e', c, hs⟩ := search_firstEnd d hg _ (goodName_end n) mf rest p a hf hfe
  simp only [lexSkip, hc, if_true, hs]
