import Proofs.MapPerm
import Proofs.RepEqOps
/-!
# Lookups, truth tests and loop items do not see the order of map entries (helper lemmas for C02)
-/

open GoVal MapOrder

/-! ## Finding the entry of a key -/

/-- Go's `==` of a boolean, number or string key with any value: true exactly for the same key -/
theorem ifaceEq_goodKey {g : GoVal} (hg : GoodKey g) (k : GoVal) : (ifaceEq g k == some true) = true ↔ g = k := by
  cases g <;> simp [GoodKey, goodKey] at hg <;> cases k <;> simp [ifaceEq]

theorem find?_unique_perm {α : Type} {p : α → Bool} {l l' : List α} (h : l.Perm l')
    (hu : ∀ x ∈ l, ∀ y ∈ l, p x = true → p y = true → x = y) : l.find? p = l'.find? p := by
  cases h1 : l.find? p with
  | none =>
    symm
    rw [List.find?_eq_none] at h1 ⊢
    intro x hx
    exact h1 x (h.symm.subset hx)
  | some x =>
    have hx := List.find?_some h1
    have hxm := List.mem_of_find?_eq_some h1
    cases h2 : l'.find? p with
    | none =>
      rw [List.find?_eq_none] at h2
      exact absurd hx (h2 x (h.subset hxm))
    | some y =>
      have hy := List.find?_some h2
      have hym := h.symm.subset (List.mem_of_find?_eq_some h2)
      rw [hu x hxm y hym hx hy]

theorem keysOK_of_keys_eq {kvs mid : List (GoVal × GoVal)} (he : kvs.map (·.1) = mid.map (·.1)) (hk : KeysOK kvs) : KeysOK mid := by
  constructor
  · intro kv hkv
    have : kv.1 ∈ mid.map (·.1) := List.mem_map_of_mem hkv
    rw [← he] at this
    obtain ⟨kv', hkv', e⟩ := List.mem_map.mp this
    rw [← e]
    exact hk.1 kv' hkv'
  · have h2 := hk.2
    have : (kvs.map (·.1)).Pairwise (· ≠ ·) := by
      rw [List.pairwise_map]; exact h2
    rw [he, List.pairwise_map] at this
    exact this

/-- option results related by `MP` -/
def OptMP : Option GoVal → Option GoVal → Prop
  | some a, some b => MP a b
  | none, none => True
  | _, _ => False

theorem mapFind_mpv : ∀ {kvs mid : List (GoVal × GoVal)}, MPV kvs mid → ∀ k, OptMP (mapFind kvs k) (mapFind mid k)
  | _, _, .nil, _ => trivial
  | _, _, .cons k0 hv h, k => by
    have ih := mapFind_mpv h k
    unfold mapFind at ih ⊢
    simp only [List.find?_cons]
    cases ifaceEq k0 k == some true with
    | true => exact hv
    | false => exact ih

theorem mapFind_perm {mid kvs' : List (GoVal × GoVal)} (hp : mid.Perm kvs') (hk : KeysOK mid) (k : GoVal) :
    mapFind mid k = mapFind kvs' k := by
  unfold mapFind
  rw [find?_unique_perm hp]
  intro x hx y hy px py
  apply hk.entry_unique hx hy
  rw [(ifaceEq_goodKey (hk.1 x hx) k).mp px, (ifaceEq_goodKey (hk.1 y hy) k).mp py]

theorem OptMP.getD {a b : Option GoVal} (h : OptMP a b) : MP (a.getD .nil) (b.getD .nil) := by
  cases a <;> cases b <;> simp [OptMP] at h ⊢ <;> first | exact h | exact .refl _

theorem OptMP.isSome_eq {a b : Option GoVal} (h : OptMP a b) : a.isSome = b.isSome := by
  cases a <;> cases b <;> simp [OptMP] at h ⊢

/-- the entry found for a key in two related maps -/
theorem mapFind_mp {kt vt kt' vt' : Ty} {kvs kvs' : List (GoVal × GoVal)} (h : MP (.map kt vt kvs) (.map kt' vt' kvs')) (k : GoVal) :
    kt' = kt ∧ vt' = vt ∧ kvs.length = kvs'.length ∧ OptMP (mapFind kvs k) (mapFind kvs' k) := by
  cases h with
  | refl =>
    refine ⟨rfl, rfl, rfl, ?_⟩
    cases mapFind kvs k <;> simp [OptMP, MP.refl]
  | map _ _ hv hk hn hm hp ht =>
    refine ⟨rfl, rfl, by rw [hm.length_eq, hp.length_eq], ?_⟩
    rw [← mapFind_perm hp (keysOK_of_keys_eq hm.keys_eq hk) k]
    exact mapFind_mpv hm k
  | mapVals _ _ hv hn hm => exact ⟨rfl, rfl, hm.length_eq, mapFind_mpv hm k⟩

theorem lookupFields_mpf : ∀ {fs fs' : List (Bytes × GoVal)}, MPF fs fs' → ∀ name, OptMP (lookupFields fs name) (lookupFields fs' name)
  | _, _, .nil, _ => trivial
  | _, _, .cons k0 hv h, name => by
    have ih := lookupFields_mpf h name
    unfold lookupFields at ih ⊢
    simp only [List.find?_cons]
    cases k0 == name with
    | true => exact hv
    | false => exact ih

/-! ## Results of lookups -/

def LRelM : LRes → LRes → Prop
  | .val a, .val b => MP a b
  | .unmodelled w, .unmodelled w' => w = w'
  | _, _ => False

theorem LRelM.refl (r : LRes) : LRelM r r := by cases r <;> simp [LRelM, MP.refl]

theorem mapSliceFind_mpv : ∀ {kvs kvs' : List (GoVal × GoVal)}, MPV kvs kvs' → ∀ e, LRelM (mapSliceFind kvs e) (mapSliceFind kvs' e)
  | _, _, .nil, _ => LRelM.refl _
  | _, _, .cons k hv h, e => by
    unfold mapSliceFind
    split
    · exact hv
    · exact mapSliceFind_mpv h e
    · exact mapSliceFind_mpv h e

theorem propList_mp {xs ys : List GoVal} (h : MPL xs ys) (name : Bytes) :
    LRelM (propertyValue.propList name xs) (propertyValue.propList name ys) := by
  unfold propertyValue.propList
  split
  · exact h.head
  · split
    · exact h.getLast
    · split
      · simp [LRelM, h.length_eq, MP.refl]
      · simp [LRelM, MP.refl]

/-- property lookup on values that are already unwrapped -/
theorem propertyValue_unw_mp {u u' : GoVal} (hu : Unw u) (hu' : Unw u') (h : MP u u') (name : Bytes) :
    LRelM (propertyValue u name) (propertyValue u' name) := by
  unfold propertyValue
  rw [hu, hu']
  cases h with
  | refl => exact LRelM.refl _
  | slice t hl => exact propList_mp hl name
  | array t hl => exact propList_mp hl name
  | map kt vt hv hk hn hm hp ht =>
    obtain ⟨_, _, hlen, hf⟩ := mapFind_mp (MP.map kt vt hv hk hn hm hp ht) (.str name)
    simp only
    cases kt <;> simp only <;> first
      | (cases h1 : mapFind _ (.str name) <;> cases h2 : mapFind _ (.str name) <;> rw [h1, h2] at hf <;> simp only [OptMP] at hf <;>
          first | exact hf | (simp only [hlen]; exact LRelM.refl _) | exact hf.elim)
      | (simp only [hlen]; exact LRelM.refl _)
  | mapVals kt vt hv hn hm =>
    obtain ⟨_, _, hlen, hf⟩ := mapFind_mp (MP.mapVals kt vt hv hn hm) (.str name)
    simp only
    cases kt <;> simp only <;> first
      | (cases h1 : mapFind _ (.str name) <;> cases h2 : mapFind _ (.str name) <;> rw [h1, h2] at hf <;> simp only [OptMP] at hf <;>
          first | exact hf | (simp only [hlen]; exact LRelM.refl _) | exact hf.elim)
      | (simp only [hlen]; exact LRelM.refl _)
  | mapSlice hm =>
    simp only
    have := mapSliceFind_mpv hm (.str name)
    cases h1 : mapSliceFind _ (.str name) <;> cases h2 : mapSliceFind _ (.str name) <;> rw [h1, h2] at this <;>
      simp only [LRelM] at this
    · next v v' =>
      have hr := this.rigid_eq
      have hc := this.cases_rigid
      simp only [hm.length_eq]
      rcases hc with rfl | ⟨r1, r2⟩
      · split <;> exact LRelM.refl _
      · cases v <;> simp [rigidM] at r1 <;> cases v' <;> simp [rigidM] at r2 <;> simpa [LRelM] using this
    · simpa [LRelM] using this
  | keyedMap _ hf =>
    simp only
    have := lookupFields_mpf hf name
    cases h1 : lookupFields _ name <;> cases h2 : lookupFields _ name <;> rw [h1, h2] at this <;> simp only [OptMP] at this
    · simp only [hf.length_eq]; exact LRelM.refl _
    · exact this
  | struct hf => exact (lookupFields_mpf hf name).getD
  | ptr h' =>
    cases h' with
    | refl => exact LRelM.refl _
    | struct hf => exact (lookupFields_mpf hf name).getD
    | _ => exact LRelM.refl _
  | drop h' => exact absurd hu.noDrop (by simp [noDrop])

theorem propertyValue_mp {a b : GoVal} (h : MP a b) (name : Bytes) :
    LRelM (propertyValue a name) (propertyValue b name) := by
  rw [propertyValue_eq_unwrap a, propertyValue_eq_unwrap b]
  exact propertyValue_unw_mp (Unw.unwrap a) (Unw.unwrap b) h.unwrap name

/-! ## Index lookup -/

theorem indexList_mp {xs ys : List GoVal} (h : MPL xs ys) (i : GoVal) :
    LRelM (indexValue.indexList xs i) (indexValue.indexList ys i) := by
  unfold indexValue.indexList
  simp only [h.length_eq]
  repeat' split
  all_goals first | exact LRelM.refl _ | exact h.getD _

/-- related receivers (unwrapped), the same index -/
theorem indexValue_recv_mp {u u' : GoVal} (hu : Unw u) (hu' : Unw u') (h : MP u u') (i : GoVal) :
    LRelM (indexValue u i) (indexValue u' i) := by
  unfold indexValue
  rw [hu, hu']
  cases h with
  | refl => exact LRelM.refl _
  | slice t hl => exact indexList_mp hl _
  | array t hl => exact indexList_mp hl _
  | map kt vt hv hk hn hm hp ht =>
    simp only
    split
    · exact LRelM.refl _
    · split
      · exact LRelM.refl _
      · exact LRelM.refl _
      · next k _ => exact (mapFind_mp (MP.map kt vt hv hk hn hm hp ht) k).2.2.2.getD
  | mapVals kt vt hv hn hm =>
    simp only
    split
    · exact LRelM.refl _
    · split
      · exact LRelM.refl _
      · exact LRelM.refl _
      · next k _ => exact (mapFind_mp (MP.mapVals kt vt hv hn hm) k).2.2.2.getD
  | mapSlice hm => exact mapSliceFind_mpv hm _
  | keyedMap _ hf =>
    simp only
    split
    · exact (lookupFields_mpf hf _).getD
    · exact LRelM.refl _
  | struct hf =>
    simp only
    split
    · exact (lookupFields_mpf hf _).getD
    · exact LRelM.refl _
  | ptr h' =>
    cases h' with
    | refl => exact LRelM.refl _
    | struct hf =>
      simp only
      split
      · exact (lookupFields_mpf hf _).getD
      · exact LRelM.refl _
    | _ => exact LRelM.refl _
  | drop h' => exact absurd hu.noDrop (by simp [noDrop])

theorem ifaceEq_container {i : GoVal} (hi : rigidM i = false) (k : GoVal) : ifaceEq i k ≠ some true := by
  cases i <;> simp [rigidM] at hi <;> cases k <;> simp [ifaceEq]

theorem mapSliceFind_container {i : GoVal} (hi : rigidM i = false) :
    ∀ kvs : List (GoVal × GoVal), mapSliceFind kvs i = .val .nil
  | [] => rfl
  | (k, v) :: r => by
    have := ifaceEq_container hi k
    unfold mapSliceFind
    split
    · next h => exact absurd h this
    · exact mapSliceFind_container hi r
    · exact mapSliceFind_container hi r

/-- a container used as an index selects nothing, whatever it holds -/
theorem indexValue_container {u i : GoVal} (hi : rigidM i = false) (hd : Unw i) :
    indexValue u i = indexValue u canonIdx := by
  unfold indexValue
  rw [hd, show canonIdx.unwrap = canonIdx from rfl]
  have hl : ∀ xs, indexValue.indexList xs i = indexValue.indexList xs canonIdx := by
    intro xs
    cases i <;> simp [rigidM] at hi <;> simp [indexValue.indexList, canonIdx]
  have hk : ∀ kt, convertKey kt i = some none ∧ convertKey kt canonIdx = some none := by
    intro kt
    cases i <;> simp [rigidM] at hi <;> cases kt <;> simp [convertKey, canonIdx]
  split
  · exact hl _
  · exact hl _
  · exact hl _
  · next kt vt kvs _ =>
    have h1 := (hk kt).1
    have h2 := (hk kt).2
    cases i <;> simp [rigidM] at hi <;> simp only [h1, h2] <;> rfl
  · cases i <;> simp [rigidM] at hi <;> simp [canonIdx]
  · rw [mapSliceFind_container hi, mapSliceFind_container (i := canonIdx) rfl]
  · cases i <;> simp [rigidM] at hi <;> simp [canonIdx]
  · cases i <;> simp [rigidM] at hi <;> simp [canonIdx]
  · cases i <;> simp [rigidM] at hi <;> simp [methodOnly, canonIdx]
  · cases i <;> simp [rigidM] at hi <;> simp [methodOnly, canonIdx]
  · cases i <;> simp [rigidM] at hi <;> simp [methodOnly, canonIdx]
  · cases i <;> simp [rigidM] at hi <;> simp [methodOnly, canonIdx]
  · rfl

theorem indexValue_idx_mp {u i i' : GoVal} (hi : Unw i) (hi' : Unw i') (h : MP i i') :
    indexValue u i = indexValue u i' := by
  rcases h.cases_rigid with rfl | ⟨r1, r2⟩
  · rfl
  · rw [indexValue_container r1 hi, indexValue_container r2 hi']

theorem indexValue_mp {r r' i i' : GoVal} (hr : MP r r') (hi : MP i i') :
    LRelM (indexValue r i) (indexValue r' i') := by
  rw [indexValue_eq_unwrap r i, indexValue_eq_unwrap r' i',
    indexValue_idx_mp (Unw.unwrap i) (Unw.unwrap i') hi.unwrap]
  exact indexValue_recv_mp (Unw.unwrap r) (Unw.unwrap r') hr.unwrap _

/-! ## Integer use, truth, nil test -/

theorem intOf_mp {a b : GoVal} (h : MP a b) : a.intOf = b.intOf := by
  unfold intOf
  rcases h.unwrap.cases_rigid with e | ⟨r1, r2⟩
  · rw [e]
  · revert r1 r2
    cases a.unwrap <;> cases b.unwrap <;> simp [rigidM]

theorem test_mp {a b : GoVal} (h : MP a b) : a.test = b.test := by
  unfold test
  rcases h.unwrap.cases_rigid with e | ⟨r1, r2⟩
  · rw [e]
  · revert r1 r2
    cases a.unwrap <;> cases b.unwrap <;> simp [rigidM]

theorem isNil_mp {a b : GoVal} (h : MP a b) : a.isNil = b.isNil := by
  rcases h.cases_rigid with e | ⟨r1, r2⟩
  · rw [e]
  · revert r1 r2
    cases a <;> cases b <;> simp [rigidM, isNil]

/-! ## Loop items -/

theorem insertRev_mpv (k : GoVal) {v w : GoVal} (hv : MP v w) :
    ∀ {rev rev' : List (GoVal × GoVal)}, MPV rev rev' → MPV (insertRev entryLess (k, v) rev) (insertRev entryLess (k, w) rev')
  | _, _, .nil => .cons k hv .nil
  | _, _, .cons k0 hx h => by
    simp only [insertRev, entryLess]
    by_cases hc : keyLess k k0 = true
    · simp only [hc, if_true]
      exact .cons k0 hx (insertRev_mpv k hv h)
    · simp only [hc]
      exact .cons k hv (.cons k0 hx h)

theorem insertionLoop_mpv : ∀ {rest rest' : List (GoVal × GoVal)}, MPV rest rest' → ∀ {rev rev' : List (GoVal × GoVal)}, MPV rev rev' →
    MPV (insertionLoop entryLess rev rest) (insertionLoop entryLess rev' rest')
  | _, _, .nil, _, _, hr => by simp only [insertionLoop]; exact hr.reverse
  | _, _, .cons k hv h, _, _, hr => by
    simp only [insertionLoop]
    exact insertionLoop_mpv h (insertRev_mpv k hv hr)

/-- the order of `SortedMapKeys` looks at the keys only -/
theorem sortedEntries_mpv {kvs kvs' : List (GoVal × GoVal)} (h : MPV kvs kvs') : MPV (sortedEntries kvs) (sortedEntries kvs') :=
  insertionLoop_mpv h .nil

theorem manyClass4_keys {kvs kvs' : List (GoVal × GoVal)} (he : kvs.map (·.1) = kvs'.map (·.1)) : manyClass4 kvs = manyClass4 kvs' := by
  have : ∀ l : List (GoVal × GoVal), (l.filter fun kv => keyClass kv.1 == 4).length = ((l.map (·.1)).filter fun k => keyClass k == 4).length := by
    intro l
    rw [List.filter_map, List.length_map]
    rfl
  unfold manyClass4
  rw [this, this, he]

/-- what an iteration site sees of two related maps -/
theorem sortedMapEntries_mp {kt vt kt' vt' : Ty} {kvs kvs' : List (GoVal × GoVal)} (h : MP (.map kt vt kvs) (.map kt' vt' kvs')) :
    (∃ es es', (sortedMapEntries kvs : Res Cause _) = .ok es ∧ (sortedMapEntries kvs' : Res Cause _) = .ok es' ∧ MPV es es') ∨
    (∃ w, (sortedMapEntries kvs : Res Cause _) = .unmodelled w ∧ (sortedMapEntries kvs' : Res Cause _) = .unmodelled w) := by
  have key : ∀ {a b : List (GoVal × GoVal)}, MPV a b →
      (∃ es es', (sortedMapEntries a : Res Cause _) = .ok es ∧ (sortedMapEntries b : Res Cause _) = .ok es' ∧ MPV es es') ∨
      (∃ w, (sortedMapEntries a : Res Cause _) = .unmodelled w ∧ (sortedMapEntries b : Res Cause _) = .unmodelled w) := by
    intro a b hm
    unfold sortedMapEntries
    rw [manyClass4_keys hm.keys_eq]
    split
    · exact .inr ⟨_, rfl, rfl⟩
    · exact .inl ⟨_, _, rfl, rfl, sortedEntries_mpv hm⟩
  cases h with
  | refl => exact key (MPV.refl _)
  | map _ _ hv hk hn hm hp ht =>
    have hk' := keysOK_of_keys_eq hm.keys_eq hk
    rcases key hm with ⟨es, es', h1, h2, hs⟩ | ⟨w, h1, h2⟩
    · exact .inl ⟨es, es', h1, by rw [sortedMapEntries_perm hp.symm hk']; exact h2, hs⟩
    · rw [sortedMapEntries_of_noClass4 hk.noClass4] at h1; cases h1
  | mapVals _ _ hv hn hm => exact key hm

theorem mkPairs_mpl : ∀ {es es' : List (GoVal × GoVal)}, MPV es es' →
    MPL (es.map fun kv => mkPair kv.1 kv.2) (es'.map fun kv => mkPair kv.1 kv.2)
  | _, _, .nil => .nil
  | _, _, .cons k hv h => .cons (MP.slice _ (.cons (.refl k) (.cons hv .nil))) (mkPairs_mpl h)

theorem sortedFields_names {fs fs' : List (Bytes × GoVal)} (he : fs.map (·.1) = fs'.map (·.1)) :
    (sortedFields fs).map (·.1) = (sortedFields fs').map (·.1) := by
  unfold sortedFields
  have h1 := insertionSort_map (Prod.fst : Bytes × GoVal → Bytes) (fun a b => decide (a < b)) fs
  have h2 := insertionSort_map (Prod.fst : Bytes × GoVal → Bytes) (fun a b => decide (a < b)) fs'
  rw [h1, h2, he]

/-- the items a loop visits, for two related collections: related item by item, or the same
    `unmodelled` on both sides -/
theorem loopItems_mp_cases {budget : Int} {v v' : GoVal} (h : MP v v') :
    (∃ xs xs', loopItems budget v = .ok xs ∧ loopItems budget v' = .ok xs' ∧ MPL xs xs') ∨
    (loopItems budget v = loopItems budget v' ∧ ∀ xs, loopItems budget v ≠ .ok xs) := by
  cases h with
  | refl =>
    cases hl : loopItems budget v with
    | ok xs => exact .inl ⟨xs, xs, rfl, rfl, MPL.refl xs⟩
    | _ => exact .inr ⟨rfl, by simp⟩
  | slice t hl => exact .inl ⟨_, _, rfl, rfl, hl⟩
  | array t hl => exact .inl ⟨_, _, rfl, rfl, hl⟩
  | map kt vt hv hk hn hm hp ht =>
    simp only [loopItems]
    rcases sortedMapEntries_mp (MP.map kt vt hv hk hn hm hp ht) with ⟨es, es', h1, h2, hs⟩ | ⟨w, h1, h2⟩
    · rw [h1, h2]; exact .inl ⟨_, _, rfl, rfl, mkPairs_mpl hs⟩
    · rw [h1, h2]; exact .inr ⟨rfl, by simp⟩
  | mapVals kt vt hv hn hm =>
    simp only [loopItems]
    rcases sortedMapEntries_mp (MP.mapVals kt vt hv hn hm) with ⟨es, es', h1, h2, hs⟩ | ⟨w, h1, h2⟩
    · rw [h1, h2]; exact .inl ⟨_, _, rfl, rfl, mkPairs_mpl hs⟩
    · rw [h1, h2]; exact .inr ⟨rfl, by simp⟩
  | mapSlice hm => exact .inl ⟨_, _, rfl, rfl, mkPairs_mpl hm⟩
  | keyedMap _ hf =>
    refine .inl ⟨_, _, rfl, rfl, ?_⟩
    have := sortedFields_names hf.names_eq
    have e : ∀ l : List (Bytes × GoVal), l.map (fun kv => GoVal.str kv.1) = (l.map (·.1)).map GoVal.str := by
      intro l; simp
    rw [e, e, this]
    exact MPL.refl _
  | struct hf => exact .inl ⟨_, _, rfl, rfl, .nil⟩
  | ptr h' => exact .inl ⟨_, _, rfl, rfl, .nil⟩
  | drop h' => exact .inl ⟨_, _, rfl, rfl, .nil⟩

theorem selectItems_mp {xs ys : List GoVal} (h : MPL xs ys) (rev : Bool) (off lim : Option Int) :
    MPL (selectItems rev off lim xs) (selectItems rev off lim ys) := by
  unfold selectItems
  cases rev <;> cases off <;> cases lim <;> simp only [Bool.false_eq_true, if_false, if_true] <;>
    repeat' split
  all_goals first
    | exact h
    | exact h.reverse
    | exact MPL.drop _ h
    | exact MPL.drop _ h.reverse
    | exact MPL.take _ h
    | exact MPL.take _ h.reverse
    | exact MPL.take _ (MPL.drop _ h)
    | exact MPL.take _ (MPL.drop _ h.reverse)
