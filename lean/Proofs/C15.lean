import Proofs.ArrLemmas
/-!
# C15 — array filters compute their documented function and never modify their input

The bodies are `ArrF.compactF`, `ArrF.sortF`, … of `Liquid/Filters/Arr.lean` (tied to
`filters/standard_filters.go`, `filters/sort_filters.go`, `values/sort.go`, `values/convert.go`
by the `arrf`, `filter` and `render` streams). Every statement is for an arbitrary list (no
bound on length or contents).

Vocabulary: `ArrF.lessB` is `values.Less`; `ArrF.homog xs` says `xs` is homogeneous (all integers /
all numbers with the integers inside ±2⁵³ / all strings / all booleans / all nil / all unordered
values) — the arrays on which `Less` is a strict weak order; `ArrF.IntWF x` says an unsigned
integer is not negative (true of every Go value, the protocol cannot spell anything else).
-/

open ArrF

/-! ## sort -/

/-- `sort` returns a permutation of its input — on every array, homogeneous or not. -/
theorem sort_perm (xs : List GoVal) : (sortF xs).Perm xs := List.mergeSort_perm xs sortLe

/-- On a homogeneous array the result is in ascending order: no element is `Less` than an earlier one. -/
theorem sort_sorted (xs : List GoVal) (h : homog xs = true) (hw : ∀ x ∈ xs, IntWF x) :
    (sortF xs).Pairwise (fun a b => lessB b a = false) := sortF_sorted xs h hw

/-- the hypotheses hold for `[2, 1.5, int8(-1), uint8(3)]` and for `["b", "B", "a"]` -/
example : homog [.int .int 2, .flt .f64 (3/2), .int .i8 (-1), .int .u8 3] = true ∧
    (∀ x ∈ [GoVal.int .int 2, .flt .f64 (3/2), .int .i8 (-1), .int .u8 3], IntWF x) ∧
    homog [.str [98], .str [66], .str [97]] = true ∧ (∀ x ∈ [GoVal.str [98], .str [66], .str [97]], IntWF x) := by
  refine ⟨by decide +kernel, ?_, by decide +kernel, ?_⟩ <;>
    (intro x hx; simp at hx; rcases hx with rfl | rfl | rfl | rfl <;> simp [IntWF, Cmp.toLiq, Cmp.intOK, IntKind.isSigned])
/-- a mixed array is *not* homogeneous (the model then answers `unmodelled`; only `sort_perm` is claimed) -/
example : homog [.int .int 1, .str [97], .nil] = false := by decide +kernel

/-- Why the `arrf` stream may compare sort results in canonical form (key sequence + multiset): any two
sorted permutations of a homogeneous array — Go's, whatever its unstable sort does with ties, and the
model's — have the same sequence of canonical sort keys, and the same elements up to order. -/
theorem sort_canonical (xs ys zs : List GoVal) (h : homog xs = true) (hw : ∀ x ∈ xs, IntWF x)
    (py : ys.Perm xs) (pz : zs.Perm xs)
    (sy : ys.Pairwise (fun a b => lessB b a = false)) (sz : zs.Pairwise (fun a b => lessB b a = false)) :
    ys.map canonKey = zs.map canonKey ∧ (ys.map GoVal.enc).Perm (zs.map GoVal.enc) := by
  refine ⟨?_, (py.trans pz.symm).map _⟩
  obtain ⟨κ, key, kle, shw, _, _, anti, spec, hshow⟩ := homog_keyOrder xs h hw
  have sorted : ∀ ws : List GoVal, ws.Perm xs → ws.Pairwise (fun a b => lessB b a = false) →
      (ws.map key).Pairwise kle := by
    intro ws pw sw
    rw [List.pairwise_map]
    refine sw.imp_of_mem ?_
    intro a b ha hb hab
    have := spec b (pw.subset hb) a (pw.subset ha)
    apply Classical.byContradiction
    intro hk
    rw [this.mpr hk] at hab
    exact absurd hab (by simp)
  have hkeys : ys.map key = zs.map key :=
    List.Perm.eq_of_pairwise (le := kle) (fun a b _ _ => anti a b) (sorted ys py sy) (sorted zs pz sz)
      ((py.trans pz.symm).map key)
  have canon : ∀ ws : List GoVal, ws.Perm xs → ws.map canonKey = (ws.map key).map shw := by
    intro ws pw
    rw [List.map_map]
    exact List.map_congr_left (fun a ha => hshow a (pw.subset ha))
  rw [canon ys py, canon zs pz, hkeys]

/-- `sort: key` returns a permutation of its input. -/
theorem sort_key_perm (key : Bytes) (xs : List GoVal) : (sortByF key xs).Perm xs :=
  List.mergeSort_perm xs (sortByLe key)

/-- `sort: key` on an array whose non-nil keys are homogeneous: ascending in the key order
(`lessByKey`: an entry without the key, or holding nil there, is below every entry that has one). -/
theorem sort_key_sorted (key : Bytes) (xs : List GoVal) (h : homogBy key xs = true)
    (hw : ∀ x ∈ xs, IntWF (keyIndex key x)) :
    (sortByF key xs).Pairwise (fun a b => lessByKey key b a = false) := sortByF_sorted key xs h hw

/-- … in particular the entries lacking the key (or holding nil) come first: whatever precedes such
an entry lacks the key too. -/
theorem sort_key_nil_first (key : Bytes) (xs : List GoVal) (h : homogBy key xs = true)
    (hw : ∀ x ∈ xs, IntWF (keyIndex key x)) :
    (sortByF key xs).Pairwise (fun a b => (keyIndex key b).isNil = true → (keyIndex key a).isNil = true) := by
  refine (sort_key_sorted key xs h hw).imp ?_
  intro a b hab hb
  cases ha : (keyIndex key a).isNil
  · simp [lessByKey, ha, hb] at hab
  · rfl

/-- the hypotheses hold for `[{k: 2}, {}, {k: 1}, {k: nil}, 5]` sorted by `k` -/
example : homogBy [107] [.map .str .any [(.str [107], .int .int 2)], .map .str .any [], .map .str .any [(.str [107], .int .int 1)],
      .map .str .any [(.str [107], .nil)], .int .int 5] = true ∧
    (∀ x ∈ [GoVal.map .str .any [(.str [107], .int .int 2)], .map .str .any [], .map .str .any [(.str [107], .int .int 1)],
      .map .str .any [(.str [107], .nil)], .int .int 5], IntWF (keyIndex [107] x)) := by
  refine ⟨by decide +kernel, ?_⟩
  intro x hx; simp at hx
  rcases hx with rfl | rfl | rfl | rfl | rfl <;>
    simp [IntWF, Cmp.toLiq, Cmp.intOK, IntKind.isSigned, keyIndex, GoVal.toLiquid, GoVal.mapFind, GoVal.ifaceEq]

/-! ## sort_natural (repaired): a permutation in ascending order of the sort texts, on every array -/

theorem sort_natural_perm (ds : List (Bytes × GoVal)) : (sortTexts ds).Perm ds :=
  List.mergeSort_perm ds textLe

theorem sort_natural_sorted (ds : List (Bytes × GoVal)) :
    (sortTexts ds).Pairwise (fun p q => p.1 ≤ q.1) := by
  have h := List.pairwise_mergeSort (le := textLe)
    (fun a b c hab hbc => by
      simp only [textLe, Cmp.bytesLt, Bool.not_eq_true', decide_eq_false_iff_not] at *
      exact bytes_le_trans _ _ _ hab hbc)
    (fun a b => by
      simp only [textLe, Cmp.bytesLt, Bool.or_eq_true, Bool.not_eq_true', decide_eq_false_iff_not]
      exact bytes_le_total _ _) ds
  refine h.imp ?_
  intro p q hpq
  simpa [textLe, Cmp.bytesLt] using hpq

example : sortTexts [([98], .str [98]), ([], .nil), ([65], .str [97])] ≠ [] := by
  intro h
  have := (sort_natural_perm [([98], .str [98]), ([], .nil), ([65], GoVal.str [97])]).length_eq
  simp [h] at this

/-! ## reverse, compact, concat -/

theorem reverse_spec (xs : List GoVal) : reverseF xs = xs.reverse := reverseF_eq xs

/-- `compact` removes exactly the nils -/
theorem compact_spec (xs : List GoVal) :
    compactF xs = xs.filter (fun x => !x.isNil) ∧ (∀ x, x ∈ compactF xs ↔ x ∈ xs ∧ x ≠ .nil) := by
  refine ⟨compactF_eq_filter xs, fun x => ?_⟩
  rw [compactF_eq_filter, List.mem_filter]
  have := isNil_iff x
  cases h : x.isNil <;> simp_all

theorem concat_spec (xs ys : List GoVal) : concatF xs ys = xs ++ ys := rfl

example : compactF [.nil, .int .int 1, .nil, .str []] = [.int .int 1, .str []] := by rfl
example : reverseF [.int .int 1, .nil, .str [97]] = [.str [97], .nil, .int .int 1] := by rfl

/-! ## uniq -/

/-- `uniq` keeps the first occurrence of each class of equal elements, in order. Equality is Go's
(`ArrF.same`: same dynamic type and contents, i.e. same encoding — `1` and `1.0` differ):
the result is a sublist of the input, no two kept elements are equal, every input element is equal
to a kept one, and an element appended to the input is kept exactly when nothing equal precedes it. -/
theorem uniq_spec (xs : List GoVal) :
    (uniqF xs).Sublist xs ∧
    (uniqF xs).Pairwise (fun a b => same a b = false) ∧
    (∀ x ∈ xs, ∃ y ∈ uniqF xs, same y x = true) ∧
    (∀ x, uniqF (xs ++ [x]) = uniqF xs ++ (if xs.any (same x ·) then [] else [x])) := by
  refine ⟨uniqOn_sublist _ _ _, ?_, ?_, ?_⟩
  · exact (uniqOn_pairwise GoVal.enc [] xs).imp (by intro a b h; simpa [same] using h)
  · intro x hx
    rcases uniqOn_support GoVal.enc [] xs x hx with h | ⟨y, hy, hk⟩
    · simp at h
    · exact ⟨y, hy, by simpa [same] using hk⟩
  · intro x
    have hc : (xs.map GoVal.enc).contains x.enc = xs.any (same x ·) := by
      induction xs with
      | nil => rfl
      | cons z zs ih =>
        show ((z :: zs).map GoVal.enc).contains x.enc = ((same x z) || zs.any (same x ·))
        rw [List.map_cons, List.contains_cons, ih]; rfl
    have h := uniqOn_append_singleton GoVal.enc [] xs x
    rw [List.contains_nil, Bool.false_or, hc] at h
    exact h

/-- `1`, `1.0` and `int8(1)` are three different elements; the second `1` and the second nil go -/
example : (uniqF [.int .int 1, .flt .f64 1, .int .int 1, .nil, .str [97], .nil, .int .i8 1]).map GoVal.enc
    = ([.int .int 1, .flt .f64 1, .nil, .str [97], .int .i8 1] : List GoVal).map GoVal.enc := by decide +kernel

/-! ## first, last, size -/

/-- `first` is the element at index 0 (nil for an empty array) and agrees with `a[0]` and `a.first` -/
theorem first_spec (xs : List GoVal) :
    firstF xs = xs[0]?.getD .nil ∧
    GoVal.indexValue (.slice .any xs) (.int .int 0) = .val (firstF xs) ∧
    GoVal.propertyValue (.slice .any xs) GoVal.firstKey = .val (firstF xs) := by
  refine ⟨firstF_eq xs, ?_, ?_⟩
  · cases xs <;> simp [GoVal.indexValue, GoVal.indexValue.indexList, GoVal.unwrap, firstF]
  · cases xs <;> simp [GoVal.propertyValue, GoVal.propertyValue.propList, GoVal.unwrap, firstF]

/-- `last` is the final element (nil for an empty array) and agrees with `a[-1]` and `a.last` -/
theorem last_spec (xs : List GoVal) :
    lastF xs = xs.getLast?.getD .nil ∧
    GoVal.indexValue (.slice .any xs) (.int .int (-1)) = .val (lastF xs) ∧
    GoVal.propertyValue (.slice .any xs) GoVal.lastKey = .val (lastF xs) := by
  refine ⟨lastF_eq xs, ?_, ?_⟩
  · cases xs with
    | nil => simp [GoVal.indexValue, GoVal.indexValue.indexList, GoVal.unwrap, lastF]
    | cons x r =>
      have hl := lastF_eq_getD (x :: r)
      simp only [GoVal.indexValue, GoVal.indexValue.indexList, GoVal.unwrap]
      have h1 : ((-1 : Int) < 0) := by decide
      simp only [h1, if_true, List.length_cons]
      have h2 : (0 : Int) ≤ -1 + ((r.length + 1 : Nat) : Int) ∧ -1 + ((r.length + 1 : Nat) : Int) < ((r.length + 1 : Nat) : Int) := by omega
      rw [if_pos h2]
      have h3 : (-1 + ((r.length + 1 : Nat) : Int)).toNat = (x :: r).length - 1 := by simp; omega
      rw [h3, ← hl]
  · have hne : (GoVal.lastKey == GoVal.firstKey) = false := by decide
    simp [GoVal.propertyValue, GoVal.propertyValue.propList, GoVal.unwrap, hne, lastF_eq]

/-- `size` of an array is its element count; of a range (repaired) the number of its items -/
theorem size_spec (t : Ty) (xs : List GoVal) (a b : Int) :
    Num.size [.val (.slice t xs)] = ret (.int .int xs.length) ∧
    Num.size [.val (.array t xs)] = ret (.int .int xs.length) ∧
    (a ≤ b → b - a < maxInt64 → Num.size [.val (.range a b)] = ret (.int .int ((rangeInts a b).length))) := by
  refine ⟨by simp [Num.size, GoVal.toLiquid], by simp [Num.size, GoVal.toLiquid], ?_⟩
  intro hab hlt
  have h1 : ¬ b < a := by omega
  have h2 : ¬ b - a ≥ maxInt64 := by omega
  simp only [Num.size, GoVal.toLiquid, Num.rangeLen, h1, h2, if_false, rangeInts, List.length_map, List.length_range]
  congr 3
  omega

example : firstF [.int .int 7, .nil] = .int .int 7 ∧ lastF [.int .int 7, .nil] = .nil ∧ firstF [] = .nil := ⟨rfl, rfl, rfl⟩

/-! ## join, map -/

/-- `join`: the printed forms (`fmt.Sprint`) of the non-nil elements with the separator between them -/
theorem join_spec (xs : List GoVal) (sep : Bytes) (ss : List Bytes)
    (h : sprintAll (xs.filter (fun x => !x.isNil)) = .ok ss) :
    joinF xs sep = .ok (.str (sep.intercalate ss)) := by
  simp [joinF, sprintNonNil_eq, h, Res.bind, joinBytes_eq_intercalate]

example : sprintAll ([GoVal.int .int 1, .nil, .str [97]].filter (fun x => !x.isNil)) = .ok [[49], [97]] := by
  simp [sprintAll, sprint, GoVal.isNil, intDec, natDec, decDigitsAux, Res.bind]

/-- `map: key` is the per-element property lookup (`obj.key`, as `Lookup.lean` defines it) -/
theorem map_spec (xs : List GoVal) (k : Bytes) (h : ∀ x ∈ xs, ∃ v, GoVal.propertyValue x k = .val v) :
    mapF k xs = .ok (xs.map (propOfD · k)) := mapF_eq_map k xs h

example : ∀ x ∈ [GoVal.map .str .any [(.str [107], .int .int 1)], .nil, .map .str .any []], ∃ v, GoVal.propertyValue x [107] = .val v := by
  intro x hx; simp at hx
  rcases hx with rfl | rfl | rfl <;> simp [GoVal.propertyValue, GoVal.unwrap, GoVal.mapFind, GoVal.ifaceEq, GoVal.sizeKey]

/-! ## receivers: typed slices, fixed arrays, ranges, ordered maps and maps are generic slices -/

/-- The receiver conversion (`values.Convert(·, []any)` after `fixes/array-nil-element` and
`fixes/drops-in-arrays`): whatever the representation, the filter body sees the `[]any` of the
elements' Liquid values. -/
theorem as_array (t t' : Ty) (xs : List GoVal) (kvs : List (GoVal × GoVal)) (kt vt : Ty) (a b : Int) :
    convert (.slice t xs) .anys = .ok (.slice .any (xs.map GoVal.toLiquid)) ∧
    convert (.array t' xs) .anys = convert (.slice t xs) .anys ∧
    convert (.mapSlice kvs) .anys = convert (.slice .any (kvs.map (·.2))) .anys ∧
    convert (.map kt vt kvs) .anys = convert (.slice .any (kvs.map (·.2))) .anys ∧
    (b - a ≤ 1000000 → convert (.range a b) .anys = .ok (.slice .any (rangeInts a b))) := by
  refine ⟨by simp [convert, GoVal.toLiquid, convElems], by simp [convert, GoVal.toLiquid, convElems],
    by simp [convert, GoVal.toLiquid, convElems], by simp [convert, GoVal.toLiquid, convElems], ?_⟩
  intro h
  have h1 : ¬ b - a + 1 > 10000000 := by omega
  have h2 : ¬ b - a > 1000000 := by omega
  simp [convert, GoVal.toLiquid, h1, h2]

/-- a range converts to its items `a, a+1, …, b` (none when `b < a`) -/
theorem range_items (a b : Int) :
    (rangeInts a b).length = (b + 1 - a).toNat ∧
    ∀ i (h : i < (rangeInts a b).length), (rangeInts a b)[i] = .int .int (a + i) := by
  refine ⟨by simp [rangeInts], ?_⟩
  intro i h
  simp [rangeInts]

/-- without drops among the elements the `[]any` is the element list itself -/
theorem as_array_plain (t : Ty) (xs : List GoVal) (h : ∀ x ∈ xs, x.toLiquid = x) :
    convert (.slice t xs) .anys = .ok (.slice .any xs) := by
  rw [(as_array t t xs [] .any .any 0 0).1, map_toLiquid_of_noDrop xs h]

example : convert (.slice (.int .int) [.int .int 2, .int .int 1]) .anys = .ok (.slice .any [.int .int 2, .int .int 1]) ∧
    convert (.array .any [.nil, .drop (.str [120])]) .anys = .ok (.slice .any [.nil, .str [120]]) := by
  simp [convert, GoVal.toLiquid, convElems]
example : (rangeInts 1 3).length = 3 ∧ (rangeInts 5 1).length = 0 := by simp [rangeInts]

/-! ## through the call layer (`expressions.ApplyFilter` + `values.Call`) with the standard table -/

/-- `{{ a | compact }}`, `{{ a | reverse }}`, `{{ a | uniq }}`, `{{ a | first }}`, `{{ a | last }}` for
any receiver that converts to an array with elements `ys` -/
theorem unary_filters (recv : GoVal) (ys : List GoVal) (hn : recv ≠ .nil)
    (hc : convert recv .anys = .ok (.slice .any ys)) :
    applyFilter (lookupImpl stdFilterImpls) (bn "compact") recv [] = .ok (.slice .any (ys.filter (fun x => !x.isNil))) ∧
    applyFilter (lookupImpl stdFilterImpls) (bn "reverse") recv [] = .ok (.slice .any ys.reverse) ∧
    applyFilter (lookupImpl stdFilterImpls) (bn "first") recv [] = .ok (bytesToString (firstF ys)) ∧
    applyFilter (lookupImpl stdFilterImpls) (bn "last") recv [] = .ok (bytesToString (lastF ys)) ∧
    (ys.any hasPtr = false → applyFilter (lookupImpl stdFilterImpls) (bn "uniq") recv [] = .ok (.slice .any (uniqF ys))) := by
  have hu := unary_sig
  refine ⟨?_, ?_, ?_, ?_, ?_⟩
  · rw [← compactF_eq_filter]
    exact applyFilter_unary (hu _ (by simp [unaryNames])) impl_compact hn hc rfl
  · rw [← reverseF_eq]
    exact applyFilter_unary (hu _ (by simp [unaryNames])) impl_reverse hn hc rfl
  · exact applyFilter_unary (hu _ (by simp [unaryNames])) impl_first hn hc rfl
  · exact applyFilter_unary (hu _ (by simp [unaryNames])) impl_last hn hc rfl
  · intro hp
    have hf : uniq [.slice .any ys] = .ok (.slice .any (uniqF ys)) := by simp [uniq, hp]
    exact applyFilter_unary (hu _ (by simp [unaryNames])) impl_uniq hn hc hf

/-- `{{ a | sort }}` through the call layer, for a receiver of up to 12 elements (where Go's sort is an
insertion sort, so that the verbatim result is determined): the sorted permutation of `sort_perm` /
`sort_sorted`. `{{ a | concat: b }}` appends. -/
theorem sort_concat_filters (recv arg : GoVal) (xs ys : List GoVal) (hn : recv ≠ .nil) (hn' : arg ≠ .nil)
    (hc : convert recv .anys = .ok (.slice .any xs)) (hc' : convert arg .anys = .ok (.slice .any ys)) :
    (homog xs = true → xs.length ≤ 12 →
      applyFilter (lookupImpl stdFilterImpls) (bn "sort") recv [] = .ok (.slice .any (sortF xs))) ∧
    applyFilter (lookupImpl stdFilterImpls) (bn "concat") recv [arg] = .ok (.slice .any (xs ++ ys)) :=
  ⟨fun hh hl => applyFilter_sort hn hc hh hl, applyFilter_concat hn hn' hc hc'⟩

example : convert (.range 3 1) .anys = .ok (.slice .any []) ∧ convert (.array .str [.str [98], .str [97]]) .anys
    = .ok (.slice .any [.str [98], .str [97]]) ∧ homog [.str [98], .str [97]] = true := by
  refine ⟨by simp [convert, GoVal.toLiquid, rangeInts], by simp [convert, GoVal.toLiquid, convElems], by decide +kernel⟩

/-- a nil receiver is the empty array -/
theorem nil_receiver :
    applyFilter (lookupImpl stdFilterImpls) (bn "compact") .nil [] = .ok (.slice .any []) ∧
    applyFilter (lookupImpl stdFilterImpls) (bn "reverse") .nil [] = .ok (.slice .any []) ∧
    applyFilter (lookupImpl stdFilterImpls) (bn "first") .nil [] = .ok .nil ∧
    applyFilter (lookupImpl stdFilterImpls) (bn "uniq") .nil [] = .ok (.slice .any []) := by
  have hu := unary_sig
  exact ⟨applyFilter_unary_nil (hu _ (by simp [unaryNames])) impl_compact rfl,
    applyFilter_unary_nil (hu _ (by simp [unaryNames])) impl_reverse rfl,
    applyFilter_unary_nil (hu _ (by simp [unaryNames])) impl_first rfl,
    applyFilter_unary_nil (hu _ (by simp [unaryNames])) impl_uniq rfl⟩

/-- a receiver that is not an array (a string, a number, a boolean) is a `TypeError`, not a panic -/
theorem non_array_receiver (recv : GoVal)
    (h : (∃ s, recv = .str s) ∨ (∃ k n, recv = .int k n) ∨ (∃ k q, recv = .flt k q) ∨ (∃ b, recv = .bool b)) :
    convert recv .anys = .err .typeErr := by
  rcases h with ⟨s, rfl⟩ | ⟨k, n, rfl⟩ | ⟨k, q, rfl⟩ | ⟨b, rfl⟩ <;> simp [convert, GoVal.toLiquid]

/-! ## the input is not modified -/

/-- The caller's array next to the result: Go passes the `[]any` by reference, and no body assigns
to it (`sortFilter`/`sortNaturalFilter` sort a copy, the others build a fresh `result`). -/
def runKeeping (f : List GoVal → ArrF.R GoVal) (xs : List GoVal) (args : List GoVal) :
    ArrF.R (List GoVal × GoVal) :=
  (f (.slice .any xs :: args)).bind fun v => .ok (xs, v)

/- Full statement: "after `{{ a | f }}` the Go array bound to `a` holds the same elements at the same
addresses, spare capacity included". A Lean function cannot write to its argument, so in THIS (value) model the
theorem below only records that the value bound to the receiver after the call is the value before it. The
clause itself is proved on the slice-memory model of `Liquid/Heap.lean` — a store of backing arrays, Go's
`append`/`copy`/element assignment with a write log, `Convert` passing a `[]any` through uncopied, every body
line by line — in `Proofs/C15Heap.lean` (`array_filters_do_not_write_inputs`, `pipeline_no_write`,
`heap_refines_pure`: the memory-level filters return what the bodies of this file compute), tied to the code by
the `alias` stream; the `arrf` stream keeps comparing the caller's Go value with an untouched second realisation
(`reflect.DeepEqual`) and rendering `{{ a | f | join }}␞{{ a | join }}` after every case. -/
theorem filters_pure_partial (f : List GoVal → ArrF.R GoVal) (xs args : List GoVal) (xs' : List GoVal) (v : GoVal)
    (h : runKeeping f xs args = .ok (xs', v)) : xs' = xs ∧ f (.slice .any xs :: args) = .ok v := by
  unfold runKeeping at h
  cases hf : f (.slice .any xs :: args) <;> simp [hf, Res.bind] at h
  exact ⟨h.1.symm, by rw [h.2]⟩

example : runKeeping ArrF.reverse [.int .int 2, .int .int 1] []
    = .ok ([.int .int 2, .int .int 1], .slice .any [.int .int 1, .int .int 2]) := by rfl
