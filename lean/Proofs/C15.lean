import Proofs.ArrLemmas
import Proofs.Budget
/-!
# C15 — array filters compute their documented function and never modify their input

The bodies are `ArrF.compactF`, `ArrF.sortF`, … of `Liquid/Filters/Arr.lean` (tied to
`filters/standard_filters.go`, `filters/sort_filters.go`, `values/sort.go`, `values/convert.go`
by the `arrf`, `filter` and `render` streams). Every statement is for an arbitrary list (no
bound on length or contents).

Vocabulary: `insertionSort` is Go's (`sort/zsortinterface.go`) — all of `sort.Sort` up to 12 elements;
`ArrF.lessB` is `values.Less`; `ArrF.homog xs` says `xs` is homogeneous (all integers /
all numbers with the integers inside ±2⁵³ / all strings / all booleans / all nil / all unordered
values) — the arrays on which `Less` is a strict weak order; `ArrF.IntWF x` says an unsigned
integer is not negative (true of every Go value, the protocol cannot spell anything else).
-/

open ArrF

/-! ## Go's insertion sort — all of `sort.Sort` on at most 12 elements (`Liquid/InsertionSort.lean`)

`lt` is the comparator (`data.Less`); nothing is assumed about it unless stated. -/

/-- The insertion sort returns a permutation of its input — for every comparator. -/
theorem insertionSort_perm {α : Type} (lt : α → α → Bool) (xs : List α) : (insertionSort lt xs).Perm xs :=
  insertionSort_perm' lt xs

/-- It sorts (no element is less than an earlier one) whenever the comparator is a strict weak order on
the elements of the list: asymmetric, and `¬ a<b`, `¬ b<c` imply `¬ a<c`. -/
theorem insertionSort_sorted {α : Type} (lt : α → α → Bool) (l : List α)
    (asym : ∀ a ∈ l, ∀ b ∈ l, lt a b = true → lt b a = false)
    (ntrans : ∀ a ∈ l, ∀ b ∈ l, ∀ c ∈ l, lt a b = false → lt b c = false → lt a c = false) :
    (insertionSort lt l).Pairwise (fun a b => lt b a = false) :=
  insertionSort_sorted_of_mem lt l asym ntrans

/-- It is stable — for every comparator: a subsequence of the input in which no element is less than
an earlier one is a subsequence of the result (for a pair `[a, b]`: if `a` precedes `b` and `¬ b<a`,
then `a` still precedes `b`; in particular tied elements keep their order). -/
theorem insertionSort_stable {α : Type} (lt : α → α → Bool) (l ys : List α)
    (hp : ys.Pairwise (fun a b => lt b a = false)) (hs : ys.Sublist l) :
    ys.Sublist (insertionSort lt l) :=
  insertionSort_stable' lt hp hs

/-- When "not greater" (`¬ b<a`) is transitive and total on the elements of the list, the insertion
sort returns the same list as `List.mergeSort` — so everything known about `mergeSort` transfers. -/
theorem insertionSort_eq_mergeSort {α : Type} (lt : α → α → Bool) (l : List α)
    (trans : ∀ a ∈ l, ∀ b ∈ l, ∀ c ∈ l, lt b a = false → lt c b = false → lt c a = false)
    (total : ∀ a ∈ l, ∀ b ∈ l, lt b a = false ∨ lt a b = false) :
    insertionSort lt l = l.mergeSort (fun a b => !lt b a) :=
  insertionSort_eq_mergeSort_of_mem lt l trans total

/-- The version the filters run, over a comparator that may panic or be outside the model
(`insertionSortM`): whenever it answers, the answer is a permutation of the input; and where the
comparator answers on the elements of the list, it is the insertion sort by those answers. -/
theorem insertionSort_partial {α ε : Type} (ltM : α → α → Res ε Bool) (xs : List α) :
    (∀ ys, insertionSortM ltM xs = .ok ys → ys.Perm xs) ∧
    (∀ lt : α → α → Bool, (∀ a ∈ xs, ∀ b ∈ xs, ltM a b = .ok (lt a b)) →
      insertionSortM ltM xs = .ok (insertionSort lt xs)) :=
  ⟨fun _ h => insertionSortM_perm h, fun _ h => insertionSortM_eq h⟩

/-- `<` on `[3, 1, 2]`: a strict order; the hypotheses of the four theorems hold and the result is `[1, 2, 3]` -/
example : insertionSort (fun a b : Nat => decide (a < b)) [3, 1, 2] = [1, 2, 3] ∧
    (∀ a ∈ [3, 1, 2], ∀ b ∈ [3, 1, 2], decide (a < b) = true → decide (b < a) = false) ∧
    (∀ a ∈ [3, 1, 2], ∀ b ∈ [3, 1, 2], ∀ c ∈ [3, 1, 2],
      decide (b < a) = false → decide (c < b) = false → decide (c < a) = false) ∧
    (∀ a ∈ [3, 1, 2], ∀ b ∈ [3, 1, 2], decide (b < a) = false ∨ decide (a < b) = false) ∧
    [1, 2].Pairwise (fun a b => decide (b < a) = false) ∧ [1, 2].Sublist [3, 1, 2] := by
  refine ⟨by decide, by decide, by decide, by decide, by decide, by decide⟩
/-- a comparator that is not an order (`a "<" b` iff `b = a + 1`; not transitive): `[3, 1, 2]` stays as
it is although `1 "<" 2 "<" 3` — still a permutation, and the partial version agrees -/
example : insertionSort (fun a b : Nat => b == a + 1) [3, 1, 2] = [3, 1, 2] ∧
    insertionSortM (ε := Unit) (fun a b : Nat => .ok (b == a + 1)) [3, 1, 2] = .ok [3, 1, 2] := by
  exact ⟨by decide, by decide⟩
/-- a comparison that does not answer ends the sort only if it is made: `[5]` needs none -/
example : insertionSortM (ε := Unit) (fun _ _ : Nat => .unmodelled "?") [5] = .ok [5] ∧
    insertionSortM (ε := Unit) (fun _ _ : Nat => .unmodelled "?") [5, 6] = .unmodelled "?" := ⟨rfl, rfl⟩

/-! ## sort

`sortF` is what `values.Sort` computes: `insertionSort` by `values.Less` up to 12 elements, a
`Less`-sorted permutation beyond (`mergeSort`). `sortM` is the filter's model: the same insertion sort
over `Cmp.less` as the partial function it is in the model, and `unmodelled` beyond 12 elements unless
the array is homogeneous. -/

/-- `sort` returns a permutation of its input — on every array, homogeneous or not, of every length. -/
theorem sort_perm (xs : List GoVal) : (sortF xs).Perm xs := sortF_perm xs

/-- On a homogeneous array the result is in ascending order: no element is `Less` than an earlier one. -/
theorem sort_sorted (xs : List GoVal) (h : homog xs = true) (hw : ∀ x ∈ xs, IntWF x) :
    (sortF xs).Pairwise (fun a b => lessB b a = false) := sortF_sorted xs h hw

/-- the hypotheses hold for `[2, 1.5, int8(-1), uint8(3)]` and for `["b", "B", "a"]` -/
example : homog [.int .int 2, .flt .f64 (3/2), .int .i8 (-1), .int .u8 3] = true ∧
    (∀ x ∈ [GoVal.int .int 2, .flt .f64 (3/2), .int .i8 (-1), .int .u8 3], IntWF x) ∧
    homog [.str [98], .str [66], .str [97]] = true ∧ (∀ x ∈ [GoVal.str [98], .str [66], .str [97]], IntWF x) := by
  refine ⟨by decide +kernel, ?_, by decide +kernel, ?_⟩ <;>
    (intro x hx; simp at hx; rcases hx with rfl | rfl | rfl | rfl <;> simp [IntWF, Cmp.toLiq, Cmp.intOK, IntKind.isSigned])
/-- a mixed array is *not* homogeneous: only `sort_perm`, `sort_model` and `sort_stable` are claimed -/
example : homog [.int .int 1, .str [97], .nil] = false := by decide +kernel

/-- The filter's model and `sortF`: whenever the model answers, it answers `sortF xs`; it answers on
every array of at most 12 elements (mixed kinds included: there the list is Go's insertion sort,
comparison by comparison) and on every homogeneous array; `values.Less` itself always answers. -/
theorem sort_model (xs : List GoVal) :
    (∀ ys, sortM xs = .ok ys → ys = sortF xs) ∧
    (xs.length ≤ 12 ∨ homog xs = true → sortM xs = .ok (sortF xs)) ∧
    (xs.length ≤ 12 → sortF xs = insertionSort lessB xs) ∧
    (∀ a b, Cmp.less a b = .ok (lessB a b)) := by
  refine ⟨(sortM_eq xs).1, (sortM_eq xs).2, ?_, less_eq_lessB⟩
  intro h
  simp [sortF, maxInsertion, h]

/-- Up to 12 elements `sort` is stable, on every array: a subsequence of the input in which no
element is `Less` than an earlier one is a subsequence of the result. -/
theorem sort_stable (xs ys : List GoVal) (hl : xs.length ≤ 12)
    (hp : ys.Pairwise (fun a b => lessB b a = false)) (hs : ys.Sublist xs) : ys.Sublist (sortF xs) := by
  rw [(sort_model xs).2.2.1 hl]
  exact insertionSort_stable lessB xs ys hp hs

/-- `[2, 1, "a", 0]`: `Less` answers false across kinds, so `"a"` stops the `0` — Go's result, and the
model's, is `[1, 2, "a", 0]` -/
example : sortM [.int .int 2, .int .int 1, .str [97], .int .int 0]
      = .ok (sortF [.int .int 2, .int .int 1, .str [97], .int .int 0]) ∧
    (sortF [.int .int 2, .int .int 1, .str [97], .int .int 0]).map GoVal.enc
      = ([.int .int 1, .int .int 2, .str [97], .int .int 0] : List GoVal).map GoVal.enc :=
  ⟨(sort_model _).2.1 (Or.inl (by decide)), by decide +kernel⟩

/-- On a homogeneous array the insertion sort and `mergeSort` agree: `sortF` is `mergeSort` by
`¬ Less(b, a)` for every length. -/
theorem sort_eq_mergeSort (xs : List GoVal) (h : homog xs = true) (hw : ∀ x ∈ xs, IntWF x) :
    sortF xs = xs.mergeSort sortLe := sortF_eq_mergeSort xs h hw

/-- Why the `arrf` stream may compare sort results of more than 12 elements in canonical form (key
sequence + multiset): any two sorted permutations of a homogeneous array — Go's, whatever its
unstable sort does with ties, and the model's — have the same sequence of canonical sort keys, and
the same elements up to order. -/
theorem sort_canonical (xs ys zs : List GoVal) (h : homog xs = true) (hw : ∀ x ∈ xs, IntWF x)
    (py : ys.Perm xs) (pz : zs.Perm xs)
    (sy : ys.Pairwise (fun a b => lessB b a = false)) (sz : zs.Pairwise (fun a b => lessB b a = false)) :
    ys.map canonKey = zs.map canonKey ∧ (ys.map GoVal.enc).Perm (zs.map GoVal.enc) := by
  refine ⟨?_, (py.trans pz.symm).map _⟩
  obtain ⟨κ, key, kle, shw, _, _, anti, spec, hshow⟩ := homog_keyOrder xs h hw
  have sorted : ∀ ws : List GoVal, ws.Perm xs → ws.Pairwise (fun a b => lessB b a = false) →
      (ws.map key).Pairwise kle := by
    intro ws pw sw
    rw [List.pairwise_map]
    refine sw.imp_of_mem ?_
    intro a b ha hb hab
    have := spec b (pw.subset hb) a (pw.subset ha)
    apply Classical.byContradiction
    intro hk
    rw [this.mpr hk] at hab
    exact absurd hab (by simp)
  have hkeys : ys.map key = zs.map key :=
    List.Perm.eq_of_pairwise (le := kle) (fun a b _ _ => anti a b) (sorted ys py sy) (sorted zs pz sz)
      ((py.trans pz.symm).map key)
  have canon : ∀ ws : List GoVal, ws.Perm xs → ws.map canonKey = (ws.map key).map shw := by
    intro ws pw
    rw [List.map_map]
    exact List.map_congr_left (fun a ha => hshow a (pw.subset ha))
  rw [canon ys py, canon zs pz, hkeys]

/-- `sort: key` returns a permutation of its input. -/
theorem sort_key_perm (key : Bytes) (xs : List GoVal) : (sortByF key xs).Perm xs := sortByF_perm key xs

/-- `sort: key` on an array whose non-nil keys are homogeneous: ascending in the key order
(`lessByKey`: an entry without the key, or holding nil there, is below every entry that has one). -/
theorem sort_key_sorted (key : Bytes) (xs : List GoVal) (h : homogBy key xs = true)
    (hw : ∀ x ∈ xs, IntWF (keyIndex key x)) :
    (sortByF key xs).Pairwise (fun a b => lessByKey key b a = false) := sortByF_sorted key xs h hw

/-- … in particular the entries lacking the key (or holding nil) come first: whatever precedes such
an entry lacks the key too. -/
theorem sort_key_nil_first (key : Bytes) (xs : List GoVal) (h : homogBy key xs = true)
    (hw : ∀ x ∈ xs, IntWF (keyIndex key x)) :
    (sortByF key xs).Pairwise (fun a b => (keyIndex key b).isNil = true → (keyIndex key a).isNil = true) := by
  refine (sort_key_sorted key xs h hw).imp ?_
  intro a b hab hb
  cases ha : (keyIndex key a).isNil
  · simp [lessByKey, ha, hb] at hab
  · rfl

/-- the hypotheses hold for `[{k: 2}, {}, {k: 1}, {k: nil}, 5]` sorted by `k` -/
example : homogBy [107] [.map .str .any [(.str [107], .int .int 2)], .map .str .any [], .map .str .any [(.str [107], .int .int 1)],
      .map .str .any [(.str [107], .nil)], .int .int 5] = true ∧
    (∀ x ∈ [GoVal.map .str .any [(.str [107], .int .int 2)], .map .str .any [], .map .str .any [(.str [107], .int .int 1)],
      .map .str .any [(.str [107], .nil)], .int .int 5], IntWF (keyIndex [107] x)) := by
  refine ⟨by decide +kernel, ?_⟩
  intro x hx; simp at hx
  rcases hx with rfl | rfl | rfl | rfl | rfl <;>
    simp [IntWF, Cmp.toLiq, Cmp.intOK, IntKind.isSigned, keyIndex, GoVal.toLiquid, GoVal.mapFind, GoVal.ifaceEq]

/-- The filter's model of `sort: key` and `sortByF` (as `sort_model`): up to 12 elements it answers on
every array, whatever the keys hold, with Go's insertion sort by `sortableByProperty.Less`. -/
theorem sort_key_model (key : Bytes) (xs : List GoVal) :
    (∀ ys, sortByM key xs = .ok ys → ys = sortByF key xs) ∧
    (xs.length ≤ 12 ∨ homogBy key xs = true → sortByM key xs = .ok (sortByF key xs)) ∧
    (xs.length ≤ 12 → sortByF key xs = insertionSort (lessByKey key) xs) ∧
    (∀ a b, lessByKeyM key a b = .ok (lessByKey key a b)) := by
  refine ⟨(sortByM_eq key xs).1, (sortByM_eq key xs).2, ?_, lessByKeyM_eq key⟩
  intro h
  simp [sortByF, maxInsertion, h]

/-- Up to 12 elements `sort: key` is stable, on every array (entries with tied keys, and entries
without the key among themselves, keep their order). -/
theorem sort_key_stable (key : Bytes) (xs ys : List GoVal) (hl : xs.length ≤ 12)
    (hp : ys.Pairwise (fun a b => lessByKey key b a = false)) (hs : ys.Sublist xs) :
    ys.Sublist (sortByF key xs) := by
  rw [(sort_key_model key xs).2.2.1 hl]
  exact insertionSort_stable (lessByKey key) xs ys hp hs

/-- On an array whose non-nil keys are homogeneous `sortByF` is `mergeSort` for every length. -/
theorem sort_key_eq_mergeSort (key : Bytes) (xs : List GoVal) (h : homogBy key xs = true)
    (hw : ∀ x ∈ xs, IntWF (keyIndex key x)) : sortByF key xs = xs.mergeSort (sortByLe key) :=
  sortByF_eq_mergeSort key xs h hw

example : ([.int .int 5, .nil] : List GoVal).Pairwise (fun a b => lessByKey [107] b a = false) ∧
    ([.int .int 5, .nil] : List GoVal).Sublist [.map .str .any [], .int .int 5, .nil] := by
  refine ⟨by decide +kernel, ?_⟩
  exact (List.Sublist.refl _).cons _

/-! ## sort_natural (repaired): a permutation in ascending order of the sort texts, on every array

`sortNatF k` is what `sort.Sort(keySortable{…})` computes when the sort text of every element `x` is
`k x`: the insertion sort up to 12 elements, a sorted permutation beyond. `sortNatM` is the model. -/

/-- `sort_natural` returns a permutation of its input — on every array, of every length. -/
theorem sort_natural_perm (k : GoVal → Bytes) (xs : List GoVal) : (sortNatF k xs).Perm xs := sortNatF_perm k xs

/-- … in ascending order of the sort texts (a total preorder on every array: no hypothesis). -/
theorem sort_natural_sorted (k : GoVal → Bytes) (xs : List GoVal) :
    (sortNatF k xs).Pairwise (fun a b => k a ≤ k b) := sortNatF_sorted k xs

/-- Up to 12 elements `sort_natural` is stable: elements with equal sort texts keep their order. -/
theorem sort_natural_stable (k : GoVal → Bytes) (xs ys : List GoVal) (hl : xs.length ≤ 12)
    (hp : ys.Pairwise (fun a b => k a ≤ k b)) (hs : ys.Sublist xs) : ys.Sublist (sortNatF k xs) := by
  have : sortNatF k xs = insertionSort (fun a b => Cmp.bytesLt (k a) (k b)) xs := by
    simp [sortNatF, maxInsertion, hl]
  rw [this]
  refine insertionSort_stable _ xs ys (hp.imp ?_) hs
  intro a b hab
  simpa [Cmp.bytesLt] using hab

/-- The model and `sortNatF`: whenever the model answers, the answer is a permutation of the input
(whatever the key function does — an array of one element is returned without its sort text being
computed, as in Go); and when the key function answers `k x` on every element `x`, the model
answers `sortNatF k xs` — always in canonical mode, and up to 12 elements in every mode. -/
theorem sort_natural_model (f : GoVal → ArrF.R Bytes) (xs : List GoVal) :
    (∀ strict ys, sortNatM strict f xs = .ok ys → ys.Perm xs) ∧
    (∀ k : GoVal → Bytes, (∀ x ∈ xs, f x = .ok (k x)) →
      (∀ strict ys, sortNatM strict f xs = .ok ys → ys = sortNatF k xs) ∧
      sortNatM false f xs = .ok (sortNatF k xs) ∧
      (xs.length ≤ 12 → sortNatM true f xs = .ok (sortNatF k xs))) :=
  ⟨fun _ _ h => sortNatM_perm h, fun _ hf => sortNatM_eq hf⟩

/-- `["b", nil, "a"]` with the texts `natKey` gives them (`"B"`, `""`, `"A"`): the key function answers -/
example : ∀ x ∈ [GoVal.str [98], .nil, .str [97]], natKey x = .ok ((fun v => match v with
    | .str [98] => [66] | .str [97] => [65] | _ => []) x) := by
  intro x hx; simp at hx
  rcases hx with rfl | rfl | rfl <;> rfl
example : (sortNatF (fun v => match v with | .str [98] => [66] | .str [97] => [65] | _ => [])
    [.str [98], .nil, .str [97]]).map GoVal.enc = ([.nil, .str [97], .str [98]] : List GoVal).map GoVal.enc := by
  decide +kernel

/-! ## reverse, compact, concat -/

theorem reverse_spec (xs : List GoVal) : reverseF xs = xs.reverse := reverseF_eq xs

/-- `compact` removes exactly the nils -/
theorem compact_spec (xs : List GoVal) :
    compactF xs = xs.filter (fun x => !x.isNil) ∧ (∀ x, x ∈ compactF xs ↔ x ∈ xs ∧ x ≠ .nil) := by
  refine ⟨compactF_eq_filter xs, fun x => ?_⟩
  rw [compactF_eq_filter, List.mem_filter]
  have := isNil_iff x
  cases h : x.isNil <;> simp_all

theorem concat_spec (xs ys : List GoVal) : concatF xs ys = xs ++ ys := rfl

example : compactF [.nil, .int .int 1, .nil, .str []] = [.int .int 1, .str []] := by rfl
example : reverseF [.int .int 1, .nil, .str [97]] = [.str [97], .nil, .int .int 1] := by rfl

/-! ## uniq -/

/-- `uniq` keeps the first occurrence of each class of equal elements, in order. Equality is Go's
(`ArrF.same`: scalars by dynamic type and contents — `1` and `1.0` differ —, arrays and maps by what they hold
whatever the Go type that holds it, a drop in them standing for its value: the same canonical encoding of
`uniqForm`; two maps with the same entries in different orders are the same element, and so are `[]int{1}`,
`[]any{1}` and `[]any{Drop(1)}`):
the result is a sublist of the input, no two kept elements are equal, every input element is equal
to a kept one, and an element appended to the input is kept exactly when nothing equal precedes it. -/
theorem uniq_spec (xs : List GoVal) :
    (uniqF xs).Sublist xs ∧
    (uniqF xs).Pairwise (fun a b => same a b = false) ∧
    (∀ x ∈ xs, ∃ y ∈ uniqF xs, same y x = true) ∧
    (∀ x, uniqF (xs ++ [x]) = uniqF xs ++ (if xs.any (same x ·) then [] else [x])) := by
  refine ⟨uniqOn_sublist _ _ _, ?_, ?_, ?_⟩
  · exact (uniqOn_pairwise uniqKey [] xs).imp (by intro a b h; simpa [same] using h)
  · intro x hx
    rcases uniqOn_support uniqKey [] xs x hx with h | ⟨y, hy, hk⟩
    · simp at h
    · exact ⟨y, hy, by simpa [same] using hk⟩
  · intro x
    have hc : (xs.map uniqKey).contains (uniqKey x) = xs.any (same x ·) := by
      induction xs with
      | nil => rfl
      | cons z zs ih =>
        show ((z :: zs).map uniqKey).contains (uniqKey x) = ((same x z) || zs.any (same x ·))
        rw [List.map_cons, List.contains_cons, ih]; rfl
    have h := uniqOn_append_singleton uniqKey [] xs x
    rw [List.contains_nil, Bool.false_or, hc] at h
    exact h

/-- `1`, `1.0` and `int8(1)` are three different elements; the second `1` and the second nil go -/
example : (uniqF [.int .int 1, .flt .f64 1, .int .int 1, .nil, .str [97], .nil, .int .i8 1]).map GoVal.enc
    = ([.int .int 1, .flt .f64 1, .nil, .str [97], .int .i8 1] : List GoVal).map GoVal.enc := by decide +kernel

/-- a typed slice, its generic twin, a fixed array and a slice holding a drop of a drop are one element
    (`fixes/nested-drops-resolved`; they were four) -/
example : (uniqF [.slice (.int .int) [.int .int 1], .slice .any [.int .int 1], .array (.int .int) [.int .int 1],
      .slice .any [.drop (.drop (.int .int 1))], .slice .any [.flt .f64 1]]).map GoVal.enc
    = ([.slice (.int .int) [.int .int 1], .slice .any [.flt .f64 1]] : List GoVal).map GoVal.enc := by decide +kernel

/-! ## first, last, size -/

/-- `first` is the element at index 0 (nil for an empty array) and agrees with `a[0]` and `a.first` -/
theorem first_spec (xs : List GoVal) :
    firstF xs = xs[0]?.getD .nil ∧
    GoVal.indexValue (.slice .any xs) (.int .int 0) = .val (firstF xs) ∧
    GoVal.propertyValue (.slice .any xs) GoVal.firstKey = .val (firstF xs) := by
  refine ⟨firstF_eq xs, ?_, ?_⟩
  · cases xs <;> simp [GoVal.indexValue, GoVal.indexValue.indexList, GoVal.unwrap, firstF]
  · cases xs <;> simp [GoVal.propertyValue, GoVal.propertyValue.propList, GoVal.unwrap, firstF]

/-- `last` is the final element (nil for an empty array) and agrees with `a[-1]` and `a.last` -/
theorem last_spec (xs : List GoVal) :
    lastF xs = xs.getLast?.getD .nil ∧
    GoVal.indexValue (.slice .any xs) (.int .int (-1)) = .val (lastF xs) ∧
    GoVal.propertyValue (.slice .any xs) GoVal.lastKey = .val (lastF xs) := by
  refine ⟨lastF_eq xs, ?_, ?_⟩
  · cases xs with
    | nil => simp [GoVal.indexValue, GoVal.indexValue.indexList, GoVal.unwrap, lastF]
    | cons x r =>
      have hl := lastF_eq_getD (x :: r)
      simp only [GoVal.indexValue, GoVal.indexValue.indexList, GoVal.unwrap]
      have h1 : ((-1 : Int) < 0) := by decide
      simp only [h1, if_true, List.length_cons]
      have h2 : (0 : Int) ≤ -1 + ((r.length + 1 : Nat) : Int) ∧ -1 + ((r.length + 1 : Nat) : Int) < ((r.length + 1 : Nat) : Int) := by omega
      rw [if_pos h2]
      have h3 : (-1 + ((r.length + 1 : Nat) : Int)).toNat = (x :: r).length - 1 := by simp; omega
      rw [h3, ← hl]
  · have hne : (GoVal.lastKey == GoVal.firstKey) = false := by decide
    simp [GoVal.propertyValue, GoVal.propertyValue.propList, GoVal.unwrap, hne, lastF_eq]

/-- `size` of an array is its element count; of a range (repaired) the number of its items -/
theorem size_spec (t : Ty) (xs : List GoVal) (a b : Int) :
    Num.size [.val (.slice t xs)] = ret (.int .int xs.length) ∧
    Num.size [.val (.array t xs)] = ret (.int .int xs.length) ∧
    (a ≤ b → b - a < maxInt64 → Num.size [.val (.range a b)] = ret (.int .int ((rangeInts a b).length))) := by
  refine ⟨by simp [Num.size, GoVal.toLiquid], by simp [Num.size, GoVal.toLiquid], ?_⟩
  intro hab hlt
  have h1 : ¬ b < a := by omega
  have h2 : ¬ b - a ≥ maxInt64 := by omega
  simp only [Num.size, GoVal.toLiquid, Num.rangeLen, h1, h2, if_false, rangeInts, List.length_map, List.length_range]
  congr 3
  omega

example : firstF [.int .int 7, .nil] = .int .int 7 ∧ lastF [.int .int 7, .nil] = .nil ∧ firstF [] = .nil := ⟨rfl, rfl, rfl⟩

/-! ## join, map -/

/-- `join`: the printed forms (`fmt.Sprint`, the drops nested in an element resolved first:
    `values.ResolveDrops`) of the non-nil elements with the separator between them -/
theorem join_spec (xs : List GoVal) (sep : Bytes) (ss : List Bytes)
    (h : sprintAll ((xs.filter (fun x => !x.isNil)).map GoVal.resolveDrops) = .ok ss) :
    joinF xs sep = .ok (.str (sep.intercalate ss)) := by
  simp [joinF, sprintNonNil_eq, h, Res.bind, joinBytes_eq_intercalate]

example : sprintAll (([GoVal.int .int 1, .nil, .str [97]].filter (fun x => !x.isNil)).map GoVal.resolveDrops) = .ok [[49], [97]] := by
  simp [sprintAll, sprint, GoVal.isNil, intDec, natDec, decDigitsAux, Res.bind]

/-- `map: key` is the per-element property lookup (`obj.key`, as `Lookup.lean` defines it) -/
theorem map_spec (xs : List GoVal) (k : Bytes) (h : ∀ x ∈ xs, ∃ v, GoVal.propertyValue x k = .val v) :
    mapF k xs = .ok (xs.map (propOfD · k)) := mapF_eq_map k xs h

example : ∀ x ∈ [GoVal.map .str .any [(.str [107], .int .int 1)], .nil, .map .str .any []], ∃ v, GoVal.propertyValue x [107] = .val v := by
  intro x hx; simp at hx
  rcases hx with rfl | rfl | rfl <;> simp [GoVal.propertyValue, GoVal.unwrap, GoVal.mapFind, GoVal.ifaceEq, GoVal.sizeKey]

/-! ## receivers: typed slices, fixed arrays, ranges, ordered maps and maps are generic slices -/

/-- The receiver conversion (`values.Convert(·, []any)` after `fixes/array-nil-element` and
`fixes/drops-in-arrays`): whatever the representation, the filter body sees the `[]any` of the
elements' Liquid values. -/
theorem as_array (t t' : Ty) (xs : List GoVal) (kvs : List (GoVal × GoVal)) (kt vt : Ty) (a b : Int) :
    convert (.slice t xs) .anys = .ok (.slice .any (xs.map GoVal.toLiquid)) ∧
    convert (.array t' xs) .anys = convert (.slice t xs) .anys ∧
    convert (.mapSlice kvs) .anys = convert (.slice .any (kvs.map (·.2))) .anys ∧
    (MapOrder.manyClass4 kvs = false →       -- a map: its values in the order of `SortedMapKeys`, whatever the order of `kvs`
      convert (.map kt vt kvs) .anys = convert (.slice .any ((MapOrder.sortedEntries kvs).map (·.2))) .anys) ∧
    -- a range: its integers, up to the code's limit `maxRangeArrayLen` — under EVERY budget of the executable model
    -- that is at least `b - a` (the driver's is 1000000; `range_to_array_any_size`, `budget_monotone_convert`)
    (∀ budget : Int, b - a ≤ budget → b - a + 1 ≤ 10000000 →
      convert (.range a b) .anys budget = .ok (.slice .any (rangeInts a b))) := by
  refine ⟨by simp [convert, GoVal.toLiquid, convElems], by simp [convert, GoVal.toLiquid, convElems],
    by simp [convert, GoVal.toLiquid, convElems],
    fun hm => by simp [convert, GoVal.toLiquid, convElems, MapOrder.sortedMapEntries, hm], ?_⟩
  intro budget h h0
  have h1 : ¬ b - a + 1 > 10000000 := by omega
  have h2 : ¬ b - a > budget := by omega
  simp [convert, GoVal.toLiquid, h1, h2]

/-- **C15 (a range of any size the code accepts becomes an array).** `values.Convert` rejects a range of more than
    `maxRangeArrayLen` = 10 000 000 items (`TypeError`) and converts every other one. The budget of the executable
    model is no further limit: for every such range there is a budget (any `budget ≥ b - a`) under which the array is
    exactly its integers `a, …, b` (`range_items`), and beyond the code's limit the answer is the `TypeError` under
    every budget. -/
theorem range_to_array_any_size (a b : Int) :
    (∃ budget : Int, b - a ≤ budget) ∧
    (∀ budget : Int, b - a ≤ budget → b - a + 1 ≤ 10000000 →
      convert (.range a b) .anys budget = .ok (.slice .any (rangeInts a b))) ∧
    (∀ budget : Int, b - a + 1 > 10000000 → convert (.range a b) .anys budget = .err .typeErr) := by
  refine ⟨⟨b - a, Int.le_refl _⟩, (as_array .any .any [] [] .any .any a b).2.2.2.2, ?_⟩
  intro budget h
  simp [convert, GoVal.toLiquid, h]

/-- **C15 (the budget is not part of the semantics: conversion).** Raising the budget never changes a conversion that
    gave an answer: a value, the `TypeError`, whatever it was — for every value and every target type. -/
theorem budget_monotone_convert (n m : Int) (h : n ≤ m) (v : GoVal) (t : ParamTy)
    (hn : ∀ w, convert v t n ≠ .unmodelled w) : convert v t m = convert v t n :=
  (convert_le h v t).eq hn

/-- **C15 (the budget is not part of the semantics: a filter application).** `ApplyFilter` — conversion of the receiver
    and of the arguments, the call of the body, the conversion of the result — and the evaluation of `x | name: args`
    (`evalFilter`), with ANY table of filter bodies: what they answer under one budget they answer under every larger
    one. So every theorem of this file about a filter applied under the driver's budget holds under every larger budget
    (`stdPrims = stdPrimsB 1000000`). -/
theorem budget_monotone_filter (impls : Bytes → Option FilterImpl) (name : Bytes) (recv : GoVal) (args : List GoVal)
    (n m : Int) (h : n ≤ m) :
    ((∀ w, applyFilter impls name recv args n ≠ .unmodelled w) →
      applyFilter impls name recv args m = applyFilter impls name recv args n) ∧
    ((∀ w, evalFilter impls name recv args n ≠ .unmodelled w) →
      evalFilter impls name recv args m = evalFilter impls name recv args n) :=
  ⟨(applyFilter_le impls name recv args h).eq, (evalFilter_le impls name recv args h).eq⟩

/-- a range of two million items: no answer under the driver's budget, its array under a budget of two million, and
    then under every larger one; eleven million items: the code's `TypeError`, under every budget -/
example : convert (.range 1 2000001) .anys = .unmodelled "range of more than a million items" := by
  simp [convert, GoVal.toLiquid]
example (m : Int) (h : 2000000 ≤ m) : convert (.range 1 2000001) .anys m = .ok (.slice .any (rangeInts 1 2000001)) :=
  (range_to_array_any_size 1 2000001).2.1 m (by omega) (by omega)
example (m : Int) : convert (.range 1 11000000) .anys m = .err .typeErr :=
  (range_to_array_any_size 1 11000000).2.2 m (by omega)
/-- `(1..3) | last` with a body that returns its (converted) receiver: answered under the budget 2, hence under every larger one -/
example : applyFilter (fun _ => some fun | [.val v] => ret v | _ => ret .nil) (ArrF.bn "last") (.range 1 3) [] 2 =
      .ok (.slice .any (rangeInts 1 3)) ∧
    ∀ m : Int, 2 ≤ m → applyFilter (fun _ => some fun | [.val v] => ret v | _ => ret .nil) (ArrF.bn "last") (.range 1 3) [] m =
      .ok (.slice .any (rangeInts 1 3)) := by
  have hs : lookupSig (ArrF.bn "last") = some ⟨ArrF.bn "last", [.val .anys], false⟩ := by decide +kernel
  have h0 : applyFilter (fun _ => some fun | [.val v] => ret v | _ => ret .nil) (ArrF.bn "last") (.range 1 3) [] 2 =
      .ok (.slice .any (rangeInts 1 3)) := by
    simp [applyFilter, hs, convertArgs, convert, GoVal.toLiquid, ret, bytesToString, Res.bind]
  exact ⟨h0, fun m hm => by
    rw [(budget_monotone_filter _ _ _ _ 2 m hm).1 (by rw [h0]; intro w hw; cases hw), h0]⟩

/-- a range converts to its items `a, a+1, …, b` (none when `b < a`) -/
theorem range_items (a b : Int) :
    (rangeInts a b).length = (b + 1 - a).toNat ∧
    ∀ i (h : i < (rangeInts a b).length), (rangeInts a b)[i] = .int .int (a + i) := by
  refine ⟨by simp [rangeInts], ?_⟩
  intro i h
  simp [rangeInts]

/-- without drops among the elements the `[]any` is the element list itself -/
theorem as_array_plain (t : Ty) (xs : List GoVal) (h : ∀ x ∈ xs, x.toLiquid = x) :
    convert (.slice t xs) .anys = .ok (.slice .any xs) := by
  rw [(as_array t t xs [] .any .any 0 0).1, map_toLiquid_of_noDrop xs h]

example : convert (.slice (.int .int) [.int .int 2, .int .int 1]) .anys = .ok (.slice .any [.int .int 2, .int .int 1]) ∧
    convert (.array .any [.nil, .drop (.str [120])]) .anys = .ok (.slice .any [.nil, .str [120]]) := by
  simp [convert, GoVal.toLiquid, convElems]
example : (rangeInts 1 3).length = 3 ∧ (rangeInts 5 1).length = 0 := by simp [rangeInts]

/-! ## through the call layer (`expressions.ApplyFilter` + `values.Call`) with the standard table -/

/-- `{{ a | compact }}`, `{{ a | reverse }}`, `{{ a | uniq }}`, `{{ a | first }}`, `{{ a | last }}` for
any receiver that converts to an array with elements `ys` -/
theorem unary_filters (recv : GoVal) (ys : List GoVal) (hn : recv ≠ .nil)
    (hc : convert recv .anys = .ok (.slice .any ys)) :
    applyFilter (lookupImpl stdFilterImpls) (bn "compact") recv [] = .ok (.slice .any (ys.filter (fun x => !x.isNil))) ∧
    applyFilter (lookupImpl stdFilterImpls) (bn "reverse") recv [] = .ok (.slice .any ys.reverse) ∧
    applyFilter (lookupImpl stdFilterImpls) (bn "first") recv [] = .ok (bytesToString (firstF ys)) ∧
    applyFilter (lookupImpl stdFilterImpls) (bn "last") recv [] = .ok (bytesToString (lastF ys)) ∧
    (ys.any hasPtr = false → applyFilter (lookupImpl stdFilterImpls) (bn "uniq") recv [] = .ok (.slice .any (uniqF ys))) := by
  have hu := unary_sig
  refine ⟨?_, ?_, ?_, ?_, ?_⟩
  · rw [← compactF_eq_filter]
    exact applyFilter_unary (hu _ (by simp [unaryNames])) impl_compact hn hc rfl
  · rw [← reverseF_eq]
    exact applyFilter_unary (hu _ (by simp [unaryNames])) impl_reverse hn hc rfl
  · exact applyFilter_unary (hu _ (by simp [unaryNames])) impl_first hn hc rfl
  · exact applyFilter_unary (hu _ (by simp [unaryNames])) impl_last hn hc rfl
  · intro hp
    have hf : uniq [.slice .any ys] = .ok (.slice .any (uniqF ys)) := by simp [uniq, hp]
    exact applyFilter_unary (hu _ (by simp [unaryNames])) impl_uniq hn hc hf

/-- `{{ a | sort }}` through the call layer, for a receiver of up to 12 elements of any kinds (where
Go's sort is an insertion sort, so that the verbatim result is determined): the permutation `sortF`
of `sort_perm` / `sort_model`, sorted when the array is homogeneous (`sort_sorted`).
`{{ a | concat: b }}` appends. -/
theorem sort_concat_filters (recv arg : GoVal) (xs ys : List GoVal) (hn : recv ≠ .nil) (hn' : arg ≠ .nil)
    (hc : convert recv .anys = .ok (.slice .any xs)) (hc' : convert arg .anys = .ok (.slice .any ys)) :
    (xs.length ≤ 12 →
      applyFilter (lookupImpl stdFilterImpls) (bn "sort") recv [] = .ok (.slice .any (sortF xs))) ∧
    applyFilter (lookupImpl stdFilterImpls) (bn "concat") recv [arg] = .ok (.slice .any (xs ++ ys)) :=
  ⟨fun hl => applyFilter_sort hn hc hl, applyFilter_concat hn hn' hc hc'⟩

example : convert (.range 3 1) .anys = .ok (.slice .any []) ∧ convert (.array .str [.str [98], .str [97]]) .anys
    = .ok (.slice .any [.str [98], .str [97]]) ∧ homog [.str [98], .str [97]] = true := by
  refine ⟨by simp [convert, GoVal.toLiquid, rangeInts], by simp [convert, GoVal.toLiquid, convElems], by decide +kernel⟩

/-- a nil receiver is the empty array -/
theorem nil_receiver :
    applyFilter (lookupImpl stdFilterImpls) (bn "compact") .nil [] = .ok (.slice .any []) ∧
    applyFilter (lookupImpl stdFilterImpls) (bn "reverse") .nil [] = .ok (.slice .any []) ∧
    applyFilter (lookupImpl stdFilterImpls) (bn "first") .nil [] = .ok .nil ∧
    applyFilter (lookupImpl stdFilterImpls) (bn "uniq") .nil [] = .ok (.slice .any []) := by
  have hu := unary_sig
  exact ⟨applyFilter_unary_nil (hu _ (by simp [unaryNames])) impl_compact rfl,
    applyFilter_unary_nil (hu _ (by simp [unaryNames])) impl_reverse rfl,
    applyFilter_unary_nil (hu _ (by simp [unaryNames])) impl_first rfl,
    applyFilter_unary_nil (hu _ (by simp [unaryNames])) impl_uniq rfl⟩

/-- a receiver that is not an array (a string, a number, a boolean) is a `TypeError`, not a panic -/
theorem non_array_receiver (recv : GoVal)
    (h : (∃ s, recv = .str s) ∨ (∃ k n, recv = .int k n) ∨ (∃ k q, recv = .flt k q) ∨ (∃ b, recv = .bool b)) :
    convert recv .anys = .err .typeErr := by
  rcases h with ⟨s, rfl⟩ | ⟨k, n, rfl⟩ | ⟨k, q, rfl⟩ | ⟨b, rfl⟩ <;> simp [convert, GoVal.toLiquid]

/-! ## the input is not modified -/

/-- The caller's array next to the result: Go passes the `[]any` by reference, and no body assigns
to it (`sortFilter`/`sortNaturalFilter` sort a copy, the others build a fresh `result`). -/
def runKeeping (f : List GoVal → ArrF.R GoVal) (xs : List GoVal) (args : List GoVal) :
    ArrF.R (List GoVal × GoVal) :=
  (f (.slice .any xs :: args)).bind fun v => .ok (xs, v)

/- Full statement: "after `{{ a | f }}` the Go array bound to `a` holds the same elements at the same
addresses, spare capacity included". A Lean function cannot write to its argument, so in THIS (value) model the
theorem below only records that the value bound to the receiver after the call is the value before it. The
clause itself is proved on the slice-memory model of `Liquid/Heap.lean` — a store of backing arrays, Go's
`append`/`copy`/element assignment with a write log, `Convert` passing a `[]any` through uncopied, every body
line by line — in `Proofs/C15Heap.lean` (`array_filters_do_not_write_inputs`, `pipeline_no_write`,
`heap_refines_pure`: the memory-level filters return what the bodies of this file compute), tied to the code by
the `alias` stream; the `arrf` stream keeps comparing the caller's Go value with an untouched second realisation
(`reflect.DeepEqual`) and rendering `{{ a | f | join }}␞{{ a | join }}` after every case. -/
theorem filters_pure_partial (f : List GoVal → ArrF.R GoVal) (xs args : List GoVal) (xs' : List GoVal) (v : GoVal)
    (h : runKeeping f xs args = .ok (xs', v)) : xs' = xs ∧ f (.slice .any xs :: args) = .ok v := by
  unfold runKeeping at h
  cases hf : f (.slice .any xs :: args) <;> simp [hf, Res.bind] at h
  exact ⟨h.1.symm, by rw [h.2]⟩

example : runKeeping ArrF.reverse [.int .int 2, .int .int 1] []
    = .ok ([.int .int 2, .int .int 1], .slice .any [.int .int 1, .int .int 2]) := by rfl
