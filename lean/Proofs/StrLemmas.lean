import Liquid.Filters.Str
import Proofs.Utf8Lemmas
import Proofs.CaseLemmas
/-!
# Helper lemmas for C16 (string filters): UTF-8 cuts, case mapping, slice, truncate
-/

/-! ## cutting valid UTF-8 at a rune start -/

/-- every byte of an encoded rune after the first is a continuation byte -/
theorem encodeRune_tail_cont (r : Nat) : ∃ x tl, encodeRune r = x :: tl ∧ ∀ y ∈ tl, 128 ≤ y.toNat ∧ y.toNat ≤ 191 := by
  rw [encodeRune_nat]
  by_cases h1 : r < 0x80
  · rw [if_pos h1]; exact ⟨_, _, rfl, by simp⟩
  by_cases h2 : r < 0x800
  · rw [if_neg h1, if_pos h2]; refine ⟨_, _, rfl, ?_⟩
    intro y hy
    simp only [List.mem_cons, List.not_mem_nil, or_false] at hy
    subst hy; rw [toNat_toUInt8]; omega
  by_cases h3 : (0xD800 ≤ r ∧ r ≤ 0xDFFF) ∨ r > 0x10FFFF
  · rw [if_neg h1, if_neg h2, if_pos h3]; refine ⟨_, _, rfl, ?_⟩
    intro y hy
    simp only [List.mem_cons, List.not_mem_nil, or_false] at hy
    rcases hy with rfl | rfl <;> decide
  by_cases h4 : r < 0x10000
  · rw [if_neg h1, if_neg h2, if_neg h3, if_pos h4]; refine ⟨_, _, rfl, ?_⟩
    intro y hy
    simp only [List.mem_cons, List.not_mem_nil, or_false] at hy
    rcases hy with rfl | rfl <;> rw [toNat_toUInt8] <;> omega
  · rw [if_neg h1, if_neg h2, if_neg h3, if_neg h4]; refine ⟨_, _, rfl, ?_⟩
    intro y hy
    simp only [List.mem_cons, List.not_mem_nil, or_false] at hy
    rcases hy with rfl | rfl | rfl <;> rw [toNat_toUInt8] <;> omega

/-- the first byte of an encoded rune is not a continuation byte -/
theorem encodeRune_head_not_cont (r : Nat) : ∃ x tl, encodeRune r = x :: tl ∧ ¬ (128 ≤ x.toNat ∧ x.toNat ≤ 191) := by
  rw [encodeRune_nat]
  by_cases h1 : r < 0x80
  · rw [if_pos h1]; refine ⟨_, _, rfl, ?_⟩; rw [toNat_toUInt8]; omega
  by_cases h2 : r < 0x800
  · rw [if_neg h1, if_pos h2]; refine ⟨_, _, rfl, ?_⟩; rw [toNat_toUInt8]; omega
  by_cases h3 : (0xD800 ≤ r ∧ r ≤ 0xDFFF) ∨ r > 0x10FFFF
  · rw [if_neg h1, if_neg h2, if_pos h3]; exact ⟨_, _, rfl, by decide⟩
  by_cases h4 : r < 0x10000
  · rw [if_neg h1, if_neg h2, if_neg h3, if_pos h4]; refine ⟨_, _, rfl, ?_⟩; rw [toNat_toUInt8]; omega
  · rw [if_neg h1, if_neg h2, if_neg h3, if_neg h4]; refine ⟨_, _, rfl, ?_⟩; rw [toNat_toUInt8]; omega

/-- a valid string does not begin with a continuation byte -/
theorem validUtf8_head_not_cont (b : UInt8) (t : Bytes) (h : ValidUtf8 (b :: t)) : ¬ (128 ≤ b.toNat ∧ b.toNat ≤ 191) := by
  rcases h with ⟨rs, _, e⟩
  cases rs with
  | nil => simp at e
  | cons r rs =>
    obtain ⟨x, tl, hx, hnc⟩ := encodeRune_head_not_cont r
    rw [encodeRunes_cons, hx] at e
    simp only [List.cons_append, List.cons.injEq] at e
    rw [e.1]; exact hnc

/-- a valid string cut just before a byte that is not a continuation byte: both halves are valid -/
theorem validUtf8_cut_start (a : Bytes) (b : UInt8) (t : Bytes) (hb : ¬ (128 ≤ b.toNat ∧ b.toNat ≤ 191))
    (h : ValidUtf8 (a ++ b :: t)) : ValidUtf8 a ∧ ValidUtf8 (b :: t) := by
  rcases h with ⟨rs, hrs, e⟩
  induction rs generalizing a with
  | nil => exact absurd (congrArg List.length e) (by simp)
  | cons r rs ih =>
    cases a with
    | nil => exact ⟨validUtf8_nil, ⟨r :: rs, hrs, e⟩⟩
    | cons a0 a =>
      obtain ⟨x, tl, hx, htl⟩ := encodeRune_tail_cont r
      rw [encodeRunes_cons, hx] at e
      simp only [List.cons_append, List.cons.injEq] at e
      obtain ⟨a', rfl, h2⟩ := append_cut (P := fun y => 128 ≤ y.toNat ∧ y.toNat ≤ 191) tl (encodeRunes rs) a b t htl hb e.2.symm
      have := ih a' (fun y hy => hrs y (List.mem_cons_of_mem _ hy)) h2.symm
      refine ⟨?_, this.2⟩
      have e2 : a0 :: (tl ++ a') = encodeRune r ++ a' := by rw [hx, e.1]; rfl
      rw [e2]
      exact validUtf8_append (validUtf8_encodeRune r) this.1

/-- left cancellation: a valid string minus a valid prefix is valid -/
theorem validUtf8_cancel_left (a b : Bytes) (ha : ValidUtf8 a) (h : ValidUtf8 (a ++ b)) : ValidUtf8 b := by
  rcases ha with ⟨rs, hrs, rfl⟩
  induction rs with
  | nil => simpa using h
  | cons r rs ih =>
    have hr := hrs r (List.mem_cons_self ..)
    rw [encodeRunes_cons, List.append_assoc] at h
    have := validUtf8_drop_rune _ h
    rw [decodeRune_encodeRune_append r hr, List.drop_left] at this
    exact ih (fun y hy => hrs y (List.mem_cons_of_mem _ hy)) this

/-- cutting a valid string around a valid non-empty piece -/
theorem validUtf8_cut_around (a m t : Bytes) (hm : ValidUtf8 m) (hne : m ≠ []) (h : ValidUtf8 (a ++ m ++ t)) :
    ValidUtf8 a ∧ ValidUtf8 t := by
  cases m with
  | nil => exact absurd rfl hne
  | cons b m' =>
    have hb := validUtf8_head_not_cont b m' hm
    have h' : ValidUtf8 (a ++ b :: (m' ++ t)) := by simpa [List.append_assoc] using h
    obtain ⟨h1, h2⟩ := validUtf8_cut_start a b (m' ++ t) hb h'
    exact ⟨h1, validUtf8_cancel_left (b :: m') t hm (by simpa using h2)⟩

/-! ## case mapping (every rune; the facts about the tables are those of `Proofs/CaseLemmas.lean`) -/

theorem upperRune_idem {r u : Nat} (h : upperRune r = some u) : upperRune u = some u := by
  simp only [upperRune, Option.some.injEq] at h ⊢
  rw [← h]; exact toUpperRune_idem r

theorem upperRune_scalar {r u : Nat} (hr : isScalar r = true) (h : upperRune r = some u) : isScalar u = true := by
  simp only [upperRune, Option.some.injEq] at h
  rw [← h]; exact toUpperRune_scalar hr

theorem lowerRune_idem {r u : Nat} (h : lowerRune r = some u) : lowerRune u = some u := by
  simp only [lowerRune, Option.some.injEq] at h ⊢
  rw [← h]; exact toLowerRune_idem r

theorem lowerRune_scalar {r u : Nat} (hr : isScalar r = true) (h : lowerRune r = some u) : isScalar u = true := by
  simp only [lowerRune, Option.some.injEq] at h
  rw [← h]; exact toLowerRune_scalar hr

/-- lower-casing an upper-cased rune and upper-casing it again is the identity on upper-case images
    (`ToUpper ∘ ToLower ∘ ToUpper = ToUpper`), except on the upper-case runes whose lower-case partner has another
    upper-case form (`upperLowerUpperExceptions`: İ ϴ ẞ Ω K Å as U+0130 U+03F4 U+1E9E U+2126 U+212A U+212B) -/
theorem upper_lower_upper {r u l : Nat} (h : upperRune r = some u) (hl : lowerRune u = some l)
    (hx : u ∉ upperLowerUpperExceptions) : upperRune l = some u := by
  simp only [upperRune, lowerRune, Option.some.injEq] at h hl ⊢
  rw [← hl]
  exact toUpper_toLower_of_upper (by rw [← h]; exact toUpperRune_idem r) hx

/-! ### `mapRunesM` -/

theorem mapRunesM_length {f : Rune → Option Rune} : ∀ {rs us : List Rune}, StrF.mapRunesM f rs = some us → us.length = rs.length
  | [], us, h => by simp [StrF.mapRunesM] at h; simp [← h]
  | r :: rs, us, h => by
    simp only [StrF.mapRunesM] at h
    split at h
    · rename_i a as ha has
      cases h
      simp [mapRunesM_length has]
    · cases h

theorem mapRunesM_mem {f : Rune → Option Rune} : ∀ {rs us : List Rune}, StrF.mapRunesM f rs = some us →
    ∀ u ∈ us, ∃ r ∈ rs, f r = some u
  | [], us, h => by simp [StrF.mapRunesM] at h; subst h; simp
  | r :: rs, us, h => by
    simp only [StrF.mapRunesM] at h
    split at h
    · rename_i a as ha has
      cases h
      intro u hu
      rcases List.mem_cons.mp hu with rfl | hu
      · exact ⟨r, List.mem_cons_self .., ha⟩
      · obtain ⟨r', hr', e⟩ := mapRunesM_mem has u hu
        exact ⟨r', List.mem_cons_of_mem _ hr', e⟩
    · cases h

theorem mapRunesM_fixed {f : Rune → Option Rune} : ∀ {us : List Rune}, (∀ u ∈ us, f u = some u) → StrF.mapRunesM f us = some us
  | [], _ => rfl
  | u :: us, h => by
    simp only [StrF.mapRunesM]
    rw [h u (List.mem_cons_self ..), mapRunesM_fixed (fun x hx => h x (List.mem_cons_of_mem _ hx))]

/-- a mapping that answers everywhere maps the whole list -/
theorem mapRunesM_total (g : Rune → Rune) : ∀ rs : List Rune, StrF.mapRunesM (fun r => some (g r)) rs = some (rs.map g)
  | [] => rfl
  | r :: rs => by simp only [StrF.mapRunesM, mapRunesM_total g rs, List.map_cons]

theorem upcase_eq (s : Bytes) : StrF.upcase s = some (StrF.upcaseT s) := by
  unfold StrF.upcase StrF.upcaseT
  rw [show upperRune = fun r => some (toUpperRune r) from rfl, mapRunesM_total]; rfl

theorem downcase_eq (s : Bytes) : StrF.downcase s = some (StrF.downcaseT s) := by
  unfold StrF.downcase StrF.downcaseT
  rw [show lowerRune = fun r => some (toLowerRune r) from rfl, mapRunesM_total]; rfl

/-- the general shape of an idempotence proof for a `strings.Map`-style filter -/
theorem mapFilter_idem {f : Rune → Option Rune} (hid : ∀ r u, f r = some u → f u = some u)
    (hsc : ∀ r u, isScalar r = true → f r = some u → isScalar u = true) (s t : Bytes)
    (h : (StrF.mapRunesM f (decodeRunes s)).map encodeRunes = some t) :
    (StrF.mapRunesM f (decodeRunes t)).map encodeRunes = some t := by
  cases hm : StrF.mapRunesM f (decodeRunes s) with
  | none => rw [hm] at h; cases h
  | some us =>
    rw [hm] at h
    simp only [Option.map_some, Option.some.injEq] at h
    subst h
    have hall : ∀ u ∈ us, isScalar u = true := fun u hu => by
      obtain ⟨r, hr, e⟩ := mapRunesM_mem hm u hu
      exact hsc r u (decodeRunes_all_scalar s r hr) e
    rw [decode_encode us hall]
    rw [mapRunesM_fixed (fun u hu => by
      obtain ⟨r, _, e⟩ := mapRunesM_mem hm u hu
      exact hid r u e)]
    rfl

theorem mapFilter_runeLen {f : Rune → Option Rune} (s t : Bytes)
    (h : (StrF.mapRunesM f (decodeRunes s)).map encodeRunes = some t) : runeLen t = runeLen s := by
  cases hm : StrF.mapRunesM f (decodeRunes s) with
  | none => rw [hm] at h; cases h
  | some us =>
    rw [hm] at h
    simp only [Option.map_some, Option.some.injEq] at h
    subst h
    rw [runeLen_encodeRunes, mapRunesM_length hm]; rfl

theorem mapFilter_valid {f : Rune → Option Rune} (s t : Bytes)
    (h : (StrF.mapRunesM f (decodeRunes s)).map encodeRunes = some t) : ValidUtf8 t := by
  cases hm : StrF.mapRunesM f (decodeRunes s) with
  | none => rw [hm] at h; cases h
  | some us =>
    rw [hm] at h
    simp only [Option.map_some, Option.some.injEq] at h
    subst h
    exact validUtf8_encodeRunes us

/-! ## capitalize -/

theorem capitalize_some {s t : Bytes} (hs : s ≠ []) (h : StrF.capitalize s = some t) :
    ∃ u, upperRune (decodeRune s).1 = some u ∧ t = encodeRune u ++ s.drop (decodeRune s).2 := by
  cases s with
  | nil => exact absurd rfl hs
  | cons b rest =>
    simp only [StrF.capitalize] at h
    cases hu : upperRune (decodeRune (b :: rest)).1 with
    | none => rw [hu] at h; cases h
    | some u =>
      rw [hu] at h
      simp only [Option.map_some, Option.some.injEq] at h
      exact ⟨u, rfl, h.symm⟩

/-! ## slice -/

theorem encodeRunes_length_take_drop (rs : List Rune) (a b : Nat) :
    (encodeRunes ((rs.drop a).take b)).length ≤ (encodeRunes rs).length := by
  have h1 : rs = rs.take a ++ ((rs.drop a).take b ++ (rs.drop a).drop b) := by
    rw [List.take_append_drop, List.take_append_drop]
  conv => rhs; rw [h1]
  rw [encodeRunes_append, encodeRunes_append]
  simp only [List.length_append]
  omega

/-! ## truncate -/

theorem encodeRunes_take_prefix (rs : List Rune) (k : Nat) : encodeRunes (rs.take k) <+: encodeRunes rs := by
  conv => rhs; rw [← List.take_append_drop k rs]
  rw [encodeRunes_append]
  exact List.prefix_append _ _

/-- the effective start of `slice`: a negative start counts from the end -/
def sliceStart (L start : Int) : Int := if start < 0 then L + start else start

theorem slice_eq (s : Bytes) (start n : Int) :
    StrF.slice s start n =
      if sliceStart (runeLen s) start < 0 ∨ sliceStart (runeLen s) start > runeLen s ∨ n < 0 then []
      else encodeRunes (((decodeRunes s).drop (sliceStart (runeLen s) start).toNat).take n.toNat) := by
  unfold StrF.slice
  by_cases hs : s.isEmpty
  · have : s = [] := List.isEmpty_iff.mp hs
    subst this
    simp [decodeRunes, decodeRunesAux, encodeRunes]
  · simp only [hs, Bool.false_eq_true, if_false]
    show (if sliceStart (runeLen s) start < 0 ∨ sliceStart (runeLen s) start > runeLen s ∨ n < 0 then []
      else encodeRunes (((decodeRunes s).drop (sliceStart (runeLen s) start).toNat).take
        (if n > (runeLen s : Int) - sliceStart (runeLen s) start then (runeLen s : Int) - sliceStart (runeLen s) start else n).toNat)) = _
    generalize sliceStart (runeLen s) start = st
    by_cases hc : st < 0 ∨ st > (runeLen s : Int) ∨ n < 0
    · rw [if_pos hc, if_pos hc]
    · rw [if_neg hc, if_neg hc]
      congr 1
      by_cases hn : n > (runeLen s : Int) - st
      · rw [if_pos hn, List.take_of_length_le, List.take_of_length_le]
        · rw [List.length_drop]; simp only [runeLen] at hn hc ⊢; omega
        · rw [List.length_drop]; simp only [runeLen] at hn hc ⊢; omega
      · rw [if_neg hn]
