import Liquid.Std
import Proofs.ToLiquidLemmas
import Proofs.PostLemmas
import Proofs.RunLemmas
import Proofs.ScopeLemmas
import Proofs.LoopLemmas
import Proofs.C10
/-!
# C12 — assign/capture bind for the rest of the render; loop variables are restored
-/

/-- **C12 (assign).** After `{% assign x = e %}` everything that follows in the sequence — at any
    depth, since the variable map is one flat map threaded through the whole render — runs with
    `x` bound to exactly the value of `e`; the assign itself writes nothing. -/
theorem assign_seq (c : RCtx) (line : Nat) (x : Bytes) (e : Expr) (rest : List Node) (s : RS) (v : GoVal)
    (hv : evaluate c.P s.env e = .ok v) :
    renderList c (.assign line x e :: rest) s = renderList c rest { s with env := s.env.set x v } := by
  rw [renderList]
  simp only [bind, M.bind, renderNode, wrapFailAt, M.mapFail, M.getEnv, M.ofRes, hv, M.setVar, pure, M.pure,
    Prog.bind, Prog.mapFail]

/-- a failing assignment fails the render with the error located at the assign tag -/
theorem assign_err (c : RCtx) (line : Nat) (x : Bytes) (e : Expr) (rest : List Node) (s : RS) (cause : Cause)
    (hv : evaluate c.P s.env e = .err cause) :
    renderList c (.assign line x e :: rest) s = .fail (.located (wrapError c.cfg.path (.plain cause) ⟨line, true⟩)) := by
  rw [renderList]
  simp only [bind, M.bind, renderNode, wrapFailAt, M.mapFail, M.getEnv, M.ofRes, hv, M.fail, Prog.bind, Prog.mapFail]

/-- **C12 (capture).** `{% capture x %}body{% endcapture %}` runs the body against a private
    buffer: when the body ends normally with text `out`, nothing reaches the output, the outer
    trim-writer state is untouched, and what follows runs with `x` bound to exactly `out` (and with
    the assignments the body made). -/
theorem capture_seq (c : RCtx) (line : Nat) (x : Bytes) (body rest : List Node) (s s2 : RS) (out : Bytes)
    (h : captureM (renderList c body) s = .ret ((.done, out), s2)) :
    renderList c (.capture line x body :: rest) s = renderList c rest { s2 with env := s2.env.set x (.str out) } := by
  rw [renderList]
  simp only [bind, M.bind, renderNode, wrapAt, Prog.bind, Prog.mapFail, h, M.setVar, pure, M.pure, Status.wrap]

/-- the state after a capture keeps the outer trim writer: only variables flow out of the body -/
theorem captureM_keeps_tw {α} (m : M α) (s s2 : RS) (r : α × Bytes) (h : captureM m s = .ret (r, s2)) :
    s2.tw = s.tw := by
  unfold captureM at h
  simp only at h
  split at h <;> simp at h
  obtain ⟨_, rfl⟩ := h
  rfl

/-! ## Loop variables -/

/-- **C12 (restore).** When the iterations of a loop have ended — normally, by `break`, or after
    `continue`s — the loop variable and `forloop` have again the values they had before the loop,
    and the status is `done`. (A render that fails inside the loop is abandoned as a whole.) -/
theorem loop_restores (P : Prims) (loc : Loc) (tr : Bool) (var : Bytes) (colsE : Option Expr) (bodyM : M Status)
    (items : List GoVal) (s : RS) :
    AllRet (fun r : Status × RS =>
        r.2.env.get var = s.env.get var ∧ r.2.env.get nmForloop = s.env.get nmForloop)
      (loopIterate P loc tr var colsE bodyM items s) := by
  unfold loopIterate
  simp only [bind, M.bind]
  -- tablerowCols reads the variables only
  have hcols : AllRet (fun r : Option Nat × RS => r.2.env = s.env) (tablerowCols P tr colsE loc s) := by
    unfold tablerowCols
    split
    · simp only [bind, M.bind, intModifier]
      cases colsE with
      | none => exact .ret _ rfl
      | some ex =>
        simp only [bind, M.bind, M.getEnv, Prog.bind]
        cases evaluate P s.env ex with
        | ok v =>
          simp only [M.ofRes, pure, M.pure, Prog.bind]
          split
          · exact .ret _ rfl
          · exact .fail _
        | err e => exact .fail _
        | panic w => exact .panic _
        | unmodelled w => exact .unmodelled _
    · exact .ret _ rfl
  refine AllRet.bind hcols (fun ⟨cols, s1⟩ h1 => ?_)
  simp only at h1
  simp only [M.getVar, Prog.bind]
  refine AllRet.bind (AllRet.trivial _) (fun ⟨st, s2⟩ _ => ?_)
  simp only [restoreLoopVars, bind, M.bind, M.setVar, Prog.bind, pure, M.pure, h1]
  refine .ret _ ⟨?_, ?_⟩
  · exact Env.get_set_same _ _ _
  · by_cases hv : var = nmForloop
    · subst hv; rw [Env.get_set_same]
    · rw [Env.get_set_other _ _ _ _ (Ne.symm hv), Env.get_set_same]

/-! ## include -/

/-- **C12 (include isolation).** An include renders with a *copy* of the current variables:
    whatever the included template assigns does not flow back. -/
theorem include_isolated (c : RCtx) (line : Nat) (args : Bytes) (s : RS) :
    AllRet (fun r : Status × RS => r.2.env = s.env) (renderNode c (.incl line args) s) := by
  unfold renderNode
  simp only [wrapAt]
  refine AllRet.bind (Q := fun r : Status × RS => r.2.env = s.env) (AllRet.mapFail _ ?_) (fun ⟨st, s'⟩ h => .ret _ h)
  simp only [bind, M.bind, M.getEnv, Prog.bind]
  cases (parseExprSource args).mapErr (fun _ => Cause.syntax) with
  | ok e =>
    simp only [M.ofRes, pure, M.pure, Prog.bind]
    cases evaluate c.P s.env e with
    | ok v =>
      simp only [M.ofRes, pure, M.pure, Prog.bind]
      split
      · next rel =>
        refine AllRet.bind (Q := fun r : (Status × Bytes) × RS => r.2 = s)
          (AllRet.bind (AllRet.trivial _) (fun r _ => .ret _ rfl)) (fun ⟨⟨st, out⟩, s1⟩ h1 => ?_)
        simp only at h1
        subst h1
        simp only
        cases st with
        | done =>
          simp only [bind, M.bind]
          exact AllRet.bind (allRet_writeVerbatim_env out s1) (fun _ h => .ret _ h)
        | brk e => exact .ret _ rfl
        | cont e => exact .ret _ rfl
      · exact .fail _
    | err e => exact .fail _
    | panic w => exact .panic _
    | unmodelled w => exact .unmodelled _
  | err e => exact .fail _
  | panic w => exact .panic _
  | unmodelled w => exact .unmodelled _

/-- the included template starts from the includer's current variables (those assigned earlier
    in the render included): the handler receives exactly the current map -/
theorem include_sees_vars (c : RCtx) (line : Nat) (args : Bytes) (s : RS) (e : Expr) (rel : Bytes)
    (he : parseExprSource args = .ok e) (hv : evaluate c.P s.env e = .ok (.str rel)) :
    renderNode c (.incl line args) s =
      wrapAt c.cfg.path ⟨line, true⟩ (fun s0 =>
        (c.inc line (joinPath (dirPath c.cfg.path) rel) s.env).bind fun (st, out) =>
          match st with
          | .done => (writeVerbatimM out s0).bind fun (_, s1) => .ret (.done, s1)
          | st => .ret (st, s0)) s := by
  unfold renderNode
  simp only [wrapAt, bind, M.bind, M.getEnv, Prog.bind, he, Res.mapErr, M.ofRes, pure, M.pure, hv, Prog.bind_assoc]
  congr 3
  funext r
  obtain ⟨st, out⟩ := r
  cases st <;> rfl

/-! ## Capture equivalence -/

/-- printing a variable that holds captured text `out` is one verbatim write of `out`: the text
    pending goes out, then `out`, unchanged whatever the trim flag; nothing stays pending -/
theorem print_str_var (c : RCtx) (hO : ∀ b, c.O.chunks (.str b) = .ok [b]) (line : Nat) (x out : Bytes) (s : RS)
    (hx : s.env.get x = .str out) :
    (renderList c [.obj line (.var x)] s).runPure =
      (s.tw.buf ++ out, .ok (.done, { env := s.env, tw := { buf := [], trim := false } })) := by
  have hev : evaluate c.P s.env (.var x) = .ok (.str out) := by
    simp only [evaluate, eval, hx]; rfl
  simp only [renderList, renderNode, wrapFailAt, M.mapFail, bind, M.bind, M.getEnv, Prog.bind, hev,
    M.ofRes, pure, M.pure]
  split
  · next h => simp [GoVal.isNil] at h
  simp only [hO, M.bind, M.pure, Prog.bind, writeAllM, bind, pure, Prog.bind_assoc]
  rw [Prog.runPure_bind, Prog.runPure_mapFail]
  obtain ⟨env, tw⟩ := s
  obtain ⟨B, t⟩ := tw
  simp only [Prog.runPure_bind, writeVerbatim_runPure, Prog.runPure, List.append_nil, M.pure]

/-- **C12 (capture_equiv).** `{% capture x %}BODY{% endcapture %}{{ x }}` renders what `BODY`
    renders in place, and leaves the variables as `BODY` leaves them, plus `x`.

    Stated on compiled nodes, for every context whose include handler renders into its own buffer
    (`IncQuiet`; the engine's does, `incQuiet_mkCtx`) and whose output layer prints a string as one
    write of its bytes (`hO`; the standard one does, `stdOut_str`): if the block body `BODY`, rendered
    in place from state `s` on a fault-free writer, ends normally having put the bytes `R` through
    the trim writer and leaving the state `s'`, then the capture-and-print sequence from the same
    state also ends normally, the bytes it has put through are exactly `R` (`R = s.tw.buf ++ out`,
    where `s.tw.buf` is the text that was pending before and `out` the captured text, printed by the
    object as a value: written through `WriteVerbatim`, so nothing of it is pending afterwards —
    repair `fixes/verbatim-output-not-trimmed`; before it the captured text stayed pending), and its
    variables are those of `s'` with `x` bound to `out`.

    Side conditions (both hold at the start of a render, where the trim writer is empty:
    `capture_equiv_root` has none):
    * `htrim`: no `-%}` is waiting to trim what comes next. In place it trims the first *write* of
      the body (when that is literal text), after the capture it is dropped by the object, which
      prints the captured text as a value, untrimmed: `capture_needs_flag_clear` is a body where the
      two differ.
    * `hbuf`: the pending text does not end in white space. A body starting with `{%-` trims the
      pending text in place, but inside the capture it finds an empty buffer:
      `capture_needs_no_trailing_space`.
    What is *not* claimed: that what follows sees the same trim-writer state. After the in-place
    body the flag of a trailing `-%}` is still set and the last written chunk can be trimmed
    by a following `{%-`; after capture-and-print the flag is clear and nothing is pending
    (`capture_trailing_trim_differs`). -/
theorem capture_equiv (c : RCtx) (hinc : IncQuiet c) (hO : ∀ b, c.O.chunks (.str b) = .ok [b])
    (l1 l2 : Nat) (x : Bytes) (body : List Node) (s s' : RS) (R : Bytes)
    (htrim : s.tw.trim = false) (hbuf : trimRightSpace s.tw.buf = s.tw.buf)
    (hbody : (renderBlockBody c body s).runPure = (R, .ok (.done, s'))) :
    ∃ out, R = s.tw.buf ++ out ∧
      (renderList c [.capture l1 x body, .obj l2 (.var x)] s).runPure =
        (s.tw.buf ++ out, .ok (.done, { env := s'.env.set x (.str out), tw := { buf := [], trim := false } })) := by
  obtain ⟨env, tw⟩ := s
  obtain ⟨B, t⟩ := tw
  simp only at htrim hbuf
  subst htrim
  obtain ⟨ops, o, ht⟩ := traced_renderList c hinc body env
  -- the body ends normally, so its trace ends with `done`
  have hdone : ∃ env', o = .ok .done env' := by
    cases o with
    | ok st env' =>
      cases st with
      | done => exact ⟨env', rfl⟩
      | brk e =>
        have := tracedAt_blockBody_other c body env ops _ ht (by intro _ h; cases h) ⟨B, false⟩
        rw [hbody] at this; simp [EOut.withTw] at this
      | cont e =>
        have := tracedAt_blockBody_other c body env ops _ ht (by intro _ h; cases h) ⟨B, false⟩
        rw [hbody] at this; simp [EOut.withTw] at this
    | err e =>
      have := tracedAt_blockBody_other c body env ops _ ht (by intro _ h; cases h) ⟨B, false⟩
      rw [hbody] at this; simp [EOut.withTw] at this
    | panic w =>
      have := tracedAt_blockBody_other c body env ops _ ht (by intro _ h; cases h) ⟨B, false⟩
      rw [hbody] at this; simp [EOut.withTw] at this
    | unmodelled w =>
      have := tracedAt_blockBody_other c body env ops _ ht (by intro _ h; cases h) ⟨B, false⟩
      rw [hbody] at this; simp [EOut.withTw] at this
  obtain ⟨env', rfl⟩ := hdone
  -- in place: everything the operations produce from the pending text `B`
  have hplace := tracedAt_blockBody_done c body env env' ops ht ⟨B, false⟩
  rw [hbody, twTotal_flush, tw_run_flush_state] at hplace
  simp only [EOut.withTw, Prod.mk.injEq, Prog.Outcome.ok.injEq] at hplace
  obtain ⟨hR, -, hs'⟩ := hplace
  have hpend := (twTotal_pending ops B false hbuf).1
  refine ⟨twTotal {} ops, ?_, ?_⟩
  · rw [hR, hpend]
  · -- captured: the same operations from an empty trim writer, then one write of the text
    have hcap := captureM_of_traced (renderList c body) env env' ops .done ht ⟨B, false⟩
    rw [capture_seq c l1 x body [.obj l2 (.var x)] _ _ _ hcap]
    rw [print_str_var c hO l2 x (twTotal {} ops) _ (Env.get_set_same _ _ _)]
    simp only [hs', Bool.false_eq_true, if_false]

/-- the standard output layer prints a string as one write of its bytes (hypothesis `hO`) -/
theorem stdOut_str (b : Bytes) : stdOut.chunks (.str b) = .ok [b] := by
  simp [stdOut, stdChunks, GoVal.toLiquid, writeChunksL, writeObjectL, sprint, Res.bind]

/-- **C12 (capture_equiv, whole template).** At the start of a render nothing is pending and no
    trim is armed, so no side condition remains: for every body that renders normally as a
    template of its own, `{% capture x %}BODY{% endcapture %}{{ x }}` renders exactly the same
    bytes, and ends normally too. -/
theorem capture_equiv_root (c : RCtx) (hinc : IncQuiet c) (hO : ∀ b, c.O.chunks (.str b) = .ok [b])
    (l1 l2 : Nat) (x : Bytes) (body : List Node) (env : Env) (out : Bytes)
    (hbody : (renderRoot c body env).runPure = (out, .ok .done)) :
    (renderRoot c [.capture l1 x body, .obj l2 (.var x)] env).runPure = (out, .ok .done) := by
  rw [renderRoot_eq_blockBody, Prog.runPure_bind] at hbody
  rcases hb : (renderBlockBody c body ⟨env, {}⟩).runPure with ⟨R, o⟩
  rw [hb] at hbody
  cases o with
  | ok r =>
    obtain ⟨st, s'⟩ := r
    simp only [Prog.runPure, List.append_nil, Prod.mk.injEq, Prog.Outcome.ok.injEq] at hbody
    obtain ⟨rfl, rfl⟩ := hbody
    obtain ⟨out', hR, hrun⟩ := capture_equiv c hinc hO l1 l2 x body ⟨env, {}⟩ s' R rfl rfl hb
    simp only [List.nil_append] at hR
    subst hR
    unfold renderRoot
    rw [Prog.runPure_bind, hrun]
    simp [wrapFailAt, M.mapFail, flushM, Prog.mapFail, Prog.bind, Prog.runPure]
  | err e => simp at hbody
  | panic w => simp at hbody
  | unmodelled w => simp at hbody

/-! ### Why the side conditions of `capture_equiv` are needed: counterexamples

A minimal context: no filters, strings print as themselves, no include. -/

def demoPrims : Prims :=
  { equal := fun _ _ => .ok false, less := fun _ _ => .ok false, contains := fun _ _ => .ok false,
    equalFn := fun _ _ => .ok false, applyFilter := fun _ v _ => .ok v, hasFilter := fun _ => false }
def demoOut : OutPrims := { chunks := fun v => match v with | .str b => .ok [b] | _ => .ok [] }
def demoCtx : RCtx := { P := demoPrims, O := demoOut, cfg := {}, inc := fun _ _ _ => .unmodelled "no include" }

theorem demoCtx_quiet : IncQuiet demoCtx := fun _ _ _ => trivial
theorem demoOut_str (b : Bytes) : demoCtx.O.chunks (.str b) = .ok [b] := rfl

/-- Non-vacuity of `capture_equiv`: pending text `x`, body `a {%- if … %}`-like
    `[text "a ", trim-left, text "b"]`: in place the writer gets `xab`; so does the capture-and-print
    — and `x` is bound to `ab`. -/
example :
    ∃ out, [120, 97, 98] = [120] ++ out ∧
      (renderList demoCtx [.capture 1 [118] [.text 1 [97, 32], .trim true, .text 1 [98]], .obj 2 (.var [118])]
        ⟨[], { buf := [120], trim := false }⟩).runPure =
      ([120] ++ out, .ok (.done, { env := Env.set [] [118] (.str out), tw := { buf := [], trim := false } })) :=
  capture_equiv demoCtx demoCtx_quiet demoOut_str 1 2 [118] [.text 1 [97, 32], .trim true, .text 1 [98]]
    ⟨[], { buf := [120], trim := false }⟩ ⟨[], {}⟩ [120, 97, 98] rfl rfl (by
      simp [renderBlockBody, renderList, renderNode, wrapFailAt, M.mapFail, M.bind, M.pure, writeM, trimLeftM,
        flushM, Prog.bind, Prog.mapFail, Prog.runPure, bind, pure, demoCtx]
      rfl)

/-- **Counterexample (side condition `hbuf`).** Pending text `a␠` (trailing blank), body
    `{%- … %}b` = `[trim-left, text "b"]`. In place the trim-left bites into the pending text: the
    writer gets `ab`. Captured, it finds an empty buffer: capture-and-print gives `a␠` then `b`. -/
theorem capture_needs_no_trailing_space :
    (renderBlockBody demoCtx [.trim true, .text 1 [98]] ⟨[], { buf := [97, 32], trim := false }⟩).runPure =
      ([97, 98], .ok (.done, ⟨[], {}⟩)) ∧
    (renderList demoCtx [.capture 1 [120] [.trim true, .text 1 [98]], .obj 1 (.var [120])]
        ⟨[], { buf := [97, 32], trim := false }⟩).runPure =
      ([97, 32, 98], .ok (.done, ⟨[([120], .str [98])], { buf := [], trim := false }⟩)) := by
  constructor
  · simp [renderBlockBody, renderList, renderNode, wrapFailAt, M.mapFail, M.bind, M.pure, writeM, trimLeftM,
      flushM, Prog.bind, Prog.mapFail, Prog.runPure, bind, pure, demoCtx]
    rfl
  · simp [renderList, renderNode, wrapFailAt, wrapAt, M.mapFail, M.bind, M.pure, writeM, trimLeftM,
      flushM, captureM, Prog.bind, Prog.mapFail, Prog.runPure, bind, pure, demoCtx, M.setVar, M.getEnv, M.ofRes, evaluate,
      eval, Env.set, Env.get, GoVal.toLiquid, GoVal.unwrap, GoVal.isNil, demoOut, writeAllM, writeVerbatimM, Status.wrap]
    rfl

/-- **Counterexample (side condition `htrim`).** A `-%}` is armed, body = two writes `␠` and `␠b`
    (e.g. a blank text and an object printing `" b"`). In place the flag trims the first write
    only (to nothing): the writer gets `␠b`. Captured, the text is `␠␠b`, and the object prints it
    as a value: the armed flag is dropped, the writer gets `␠␠b`. -/
theorem capture_needs_flag_clear :
    (renderBlockBody demoCtx [.text 1 [32], .text 1 [32, 98]] ⟨[], { buf := [], trim := true }⟩).runPure =
      ([32, 98], .ok (.done, ⟨[], {}⟩)) ∧
    (renderList demoCtx [.capture 1 [120] [.text 1 [32], .text 1 [32, 98]], .obj 1 (.var [120])]
        ⟨[], { buf := [], trim := true }⟩).runPure =
      ([32, 32, 98], .ok (.done, ⟨[([120], .str [32, 32, 98])], { buf := [], trim := false }⟩)) := by
  constructor
  · simp [renderBlockBody, renderList, renderNode, wrapFailAt, M.mapFail, M.bind, M.pure, writeM,
      flushM, Prog.bind, Prog.mapFail, Prog.runPure, bind, pure, demoCtx]
    rfl
  · simp [renderList, renderNode, wrapFailAt, wrapAt, M.mapFail, M.bind, M.pure, writeM,
      flushM, captureM, Prog.bind, Prog.mapFail, Prog.runPure, bind, pure, demoCtx, M.setVar, M.getEnv, M.ofRes, evaluate,
      eval, Env.set, Env.get, GoVal.toLiquid, GoVal.unwrap, GoVal.isNil, demoOut, writeAllM, writeVerbatimM, Status.wrap]

/-- **Counterexample (what follows).** The equivalence is about the bytes of the fragment, not
    about the trim-writer state handed to what follows. Body `a{{ … -}}` = `[text "a", trim-right]`
    followed by the text `␠b`: in place the trailing `-}}` trims the following text (`ab`); after
    capture-and-print the flag is gone (`a␠b`). -/
theorem capture_trailing_trim_differs :
    (renderRoot demoCtx [.text 1 [97], .trim false, .text 1 [32, 98]] []).runPure = ([97, 98], .ok .done) ∧
    (renderRoot demoCtx [.capture 1 [120] [.text 1 [97], .trim false], .obj 1 (.var [120]), .text 1 [32, 98]] []).runPure =
      ([97, 32, 98], .ok .done) := by
  have h : trimLeftSpace [32, 98] = [98] := rfl
  constructor
  · simp [renderRoot, renderList, renderNode, wrapFailAt, M.mapFail, M.bind, M.pure, writeM, trimRightM,
      flushM, Prog.bind, Prog.mapFail, Prog.runPure, bind, pure, demoCtx, h]
  · simp [renderRoot, renderList, renderNode, wrapFailAt, wrapAt, M.mapFail, M.bind, M.pure, writeM, trimRightM,
      flushM, captureM, Prog.bind, Prog.mapFail, Prog.runPure, bind, pure, demoCtx, M.setVar, M.getEnv, M.ofRes, evaluate,
      eval, Env.set, Env.get, GoVal.toLiquid, GoVal.unwrap, GoVal.isNil, demoOut, writeAllM, writeVerbatimM, Status.wrap]

/-- Non-vacuity of `capture_equiv_root`: the body `a {%- … %}b` renders `ab`, and so does its capture-and-print -/
example :
    (renderRoot demoCtx [.capture 1 [118] [.text 1 [97, 32], .trim true, .text 1 [98]], .obj 2 (.var [118])] []).runPure =
      ([97, 98], .ok .done) :=
  capture_equiv_root demoCtx demoCtx_quiet demoOut_str 1 2 [118] [.text 1 [97, 32], .trim true, .text 1 [98]] [] [97, 98] (by
    simp [renderRoot, renderList, renderNode, wrapFailAt, M.mapFail, M.bind, M.pure, writeM, trimLeftM,
      flushM, Prog.bind, Prog.mapFail, Prog.runPure, bind, pure, demoCtx]
    rfl)

/-! ## One flat variable map: nothing is popped when a block ends

`EnvQ Q` is a condition on the variables a fragment returns with (`Q kind env`, `kind` = ended
normally / by `break` / by `continue`). The rules below say, for every kind of block, that a
condition on the variables established at the end of the block's bodies holds after the block:
there is no scope to leave. They hold in every state and for every writer behaviour (`AllRet`),
and they compose, so they cover every nesting. -/

/-- **C12 (frame).** A fragment can change only the variables it writes (`writesNode`: targets of
    `assign`/`capture`, `forloop` under `cycle`; a loop's own variable and `forloop` are restored
    and do not count; `include` works on a copy): every other variable has its old value whenever
    the fragment returns — for every nesting, state and writer behaviour. -/
theorem only_written_change (c : RCtx) (y : Bytes) (body : List Node) (h : y ∉ writesList body) (s : RS) :
    AllRet (fun r : Status × RS => r.2.env.get y = s.env.get y) (renderBlockBody c body s) :=
  keeps_renderBlockBody c y body h s

theorem only_written_change_node (c : RCtx) (y : Bytes) (n : Node) (h : y ∉ writesNode n) (s : RS) :
    AllRet (fun r : Status × RS => r.2.env.get y = s.env.get y) (renderNode c n s) :=
  keeps_renderNode c y n h s

/-- **C12 (block end).** Closing a block changes no variable: what holds of the variables at the
    end of a block's node sequence holds after the block (`RenderBlock` only adds a flush). -/
theorem block_end_scope (c : RCtx) (body : List Node) (s : RS) (Q : SK → Env → Prop)
    (h : AllRet (EnvQ Q) (renderList c body s)) : AllRet (EnvQ Q) (renderBlockBody c body s) := by
  unfold renderBlockBody
  refine AllRet.bind h (fun ⟨st, s1⟩ h1 => ?_)
  cases st with
  | done =>
    refine AllRet.bind (sameEnv_wrapFailAt _ _ sameEnv_flush s1) (fun ⟨_, s2⟩ h2 => .ret _ ?_)
    simp only [EnvQ] at h1 h2 ⊢
    rw [h2]; exact h1
  | brk e => exact .ret _ h1
  | cont e => exact .ret _ h1

/-- sequencing: what follows a node runs in exactly the state the node ends with -/
theorem seq_scope (c : RCtx) (n : Node) (ns : List Node) (s : RS) (Q : SK → Env → Prop)
    (h : AllRet (fun r : Status × RS => match r.1 with
        | .done => AllRet (EnvQ Q) (renderList c ns r.2)
        | _ => EnvQ Q r) (renderNode c n s)) :
    AllRet (EnvQ Q) (renderList c (n :: ns) s) := by
  rw [renderList]
  refine AllRet.bind h (fun ⟨st, s1⟩ h1 => ?_)
  cases st with
  | done => exact h1
  | brk e => exact .ret _ h1
  | cont e => exact .ret _ h1

theorem seq_scope_append (c : RCtx) (pre post : List Node) (s : RS) (Q : SK → Env → Prop)
    (h : AllRet (fun r : Status × RS => match r.1 with
        | .done => AllRet (EnvQ Q) (renderList c post r.2)
        | _ => EnvQ Q r) (renderList c pre s)) :
    AllRet (EnvQ Q) (renderList c (pre ++ post) s) := by
  induction pre generalizing s with
  | nil =>
    rw [renderList] at h
    cases h with | ret _ h => exact h
  | cons n pre ih =>
    rw [List.cons_append]
    refine seq_scope c n (pre ++ post) s Q ?_
    rw [renderList] at h
    simp only [bind, M.bind] at h
    -- read the post-condition of the head node off the sequence's
    generalize renderNode c n s = p at h
    induction p with
    | ret r =>
      obtain ⟨st, s1⟩ := r
      cases st with
      | done => exact .ret _ (ih s1 h)
      | brk e => cases h with | ret _ h => exact .ret _ h
      | cont e => cases h with | ret _ h => exact .ret _ h
    | fail e => exact .fail _
    | panic w => exact .panic _
    | unmodelled w => exact .unmodelled _
    | call b k ihk =>
      cases h with | call _ _ hk => exact .call _ _ (fun r => ihk r (hk r))

/-- **C12 (if).** What holds of the variables at the end of the branch bodies (each from the
    state of the `if`, under its own test) — and of the untouched variables when no branch fires —
    holds after the `if` block. -/
theorem if_scope (c : RCtx) (line : Nat) (bs : List (CondT × List Node)) (s : RS) (Q : SK → Env → Prop)
    (hnone : (∀ b ∈ bs, condRes c.P s.env b.1 = .ok false) → Q .done s.env)
    (hb : ∀ b ∈ bs, condRes c.P s.env b.1 = .ok true → AllRet (EnvQ Q) (renderBlockBody c b.2 s)) :
    AllRet (EnvQ Q) (renderNode c (.ifB line bs) s) := by
  rw [renderNode]
  refine AllRet.wrapAt ?_
  induction bs with
  | nil => rw [renderBranches]; exact .ret _ (hnone (by simp))
  | cons b bs ih =>
    obtain ⟨t, body⟩ := b
    rw [renderBranches_cons]
    cases h : condRes c.P s.env t with
    | ok v =>
      cases v with
      | true => exact hb (t, body) (by simp) h
      | false =>
        refine ih (fun hall => hnone ?_) (fun b hm => hb b (by simp [hm]))
        intro b hm
        rcases List.mem_cons.mp hm with rfl | hm
        · exact h
        · exact hall b hm
    | err e => exact .fail _
    | panic w => exact .panic _
    | unmodelled w => exact .unmodelled _

/-- **C12 (case).** The same for `case`: the variables after the block are those at the end of the
    clause that ran, or the untouched ones. -/
theorem case_scope (c : RCtx) (line : Nat) (subject : Expr) (cs : List (Option (Nat × List Expr) × List Node))
    (s : RS) (Q : SK → Env → Prop)
    (hnone : Q .done s.env)
    (hb : ∀ cl ∈ cs, AllRet (EnvQ Q) (renderBlockBody c cl.2 s)) :
    AllRet (EnvQ Q) (renderNode c (.caseB line subject cs) s) := by
  rw [renderNode]
  refine AllRet.wrapAt ?_
  simp only [bind, M.bind, M.getEnv, Prog.bind]
  cases evaluate c.P s.env subject with
  | ok sel =>
    simp only [M.ofRes, pure, M.pure, Prog.bind]
    induction cs with
    | nil => rw [renderCases]; exact .ret _ hnone
    | cons cl cs ih =>
      obtain ⟨w, body⟩ := cl
      cases w with
      | none => rw [renderCases]; exact hb (none, body) (by simp)
      | some le =>
        obtain ⟨l, es⟩ := le
        rw [renderCases_when]
        cases whenRes c.P s.env sel es with
        | ok v =>
          cases v with
          | true => exact hb (some (l, es), body) (by simp)
          | false => exact ih (fun cl hm => hb cl (by simp [hm]))
        | err e => exact .fail _
        | panic w => exact .panic _
        | unmodelled w => exact .unmodelled _
  | err e => exact .fail _
  | panic w => exact .panic _
  | unmodelled w => exact .unmodelled _

theorem no_else_clause_scope (P : Prims) (loc : Loc) (tr : Bool) (var : Bytes) (colsE : Option Expr)
    (bodyM : M Status) (items : List GoVal) :
    loopDispatch P loc tr var colsE bodyM none items = loopIterate P loc tr var colsE bodyM items := by
  unfold loopDispatch; cases items <;> rfl

/-- **C12 (for / tablerow).** A condition `I` on the variables that does not look at the loop
    variable or `forloop`, holds before the loop and is preserved by the body (from every state),
    holds after the loop — which always ends `done`; an `else` clause passes on what it
    establishes. Nothing but the loop variable and `forloop` is restored. -/
theorem loop_scope (c : RCtx) (line : Nat) (tr : Bool) (var : Bytes) (e : Expr) (mods : LoopMods) (body : List Node)
    (clauses : List (List Node)) (s : RS) (I : Env → Prop) (Q : SK → Env → Prop)
    (hI : ∀ env y w, (y = var ∨ y = nmForloop) → (I (env.set y w) ↔ I env))
    (h0 : I s.env)
    (hbody : ∀ s1, I s1.env → AllRet (fun r : Status × RS => I r.2.env) (renderBlockBody c body s1))
    (hQ : ∀ env, I env → Q .done env)
    (hels : ∀ els ∈ clauses, AllRet (EnvQ Q) (renderBlockBody c els s))
    (hcl : clauses.length ≤ 1) :
    AllRet (EnvQ Q) (renderNode c (.loop line tr var e mods body clauses) s) := by
  have hiter : ∀ items, AllRet (EnvQ Q)
      (loopIterate c.P ⟨line, true⟩ tr var mods.cols (renderBlockBody c body) items s) := by
    intro items
    have h1 := presM_loopIterate I c.P ⟨line, true⟩ tr var mods.cols (renderBlockBody c body) hI hbody items s h0
    have h2 := loopIterate_done c.P ⟨line, true⟩ tr var mods.cols (renderBlockBody c body) items s
    refine (h1.and h2).mono (fun r hr => ?_)
    obtain ⟨st, s'⟩ := r
    simp only at hr
    obtain ⟨hi, rfl⟩ := hr
    exact hQ _ hi
  match clauses, hcl, hels with
  | [], _, _ =>
    rw [renderNode]
    refine loopRun_post _ _ _ _ _ _ _ _ _ s Q (fun items => ?_)
    rw [no_else_clause_scope]
    exact hiter items
  | [els], _, hels =>
    rw [renderNode]
    refine loopRun_post _ _ _ _ _ _ _ _ _ s Q (fun items => ?_)
    cases items with
    | nil => exact hels els (by simp)
    | cons x xs => exact hiter (x :: xs)
  | _ :: _ :: _, h, _ => simp at h

/-- **C12 (for / tablerow, at least one item).** When the head of the loop evaluates (collection `v`
    with items `items0`, `offset`/`limit` → `off`/`lim`) and selects at least one item: if the body
    turns `I` (true of the variables before the loop) into `J` and keeps `J`, then `J` holds after the
    loop — what an iteration assigns is still there when the loop is over (only the loop variable
    and `forloop`, which `I` and `J` may not mention, are restored). -/
theorem loop_scope_visited (c : RCtx) (line : Nat) (tr : Bool) (var : Bytes) (e : Expr) (mods : LoopMods)
    (body : List Node) (clauses : List (List Node)) (s : RS) (v : GoVal) (items0 : List GoVal) (off lim : Option Int)
    (x : GoVal) (xs : List GoVal) (I J : Env → Prop) (Q : SK → Env → Prop)
    (hcl : clauses.length ≤ 1)
    (hv : evaluate c.P s.env e = .ok v) (hitems : loopItems c.cfg.budget v = .ok items0)
    (hoff : intModifier c.P mods.offset ⟨line, true⟩ s = .ret (off, s))
    (hlim : intModifier c.P mods.limit ⟨line, true⟩ s = .ret (lim, s))
    (hsel : selectItems mods.reversed off lim items0 = x :: xs)
    (hI : ∀ env y w, (y = var ∨ y = nmForloop) → (I (env.set y w) ↔ I env))
    (hJ : ∀ env y w, (y = var ∨ y = nmForloop) → (J (env.set y w) ↔ J env))
    (h0 : I s.env)
    (hfirst : ∀ s1, I s1.env → AllRet (fun r : Status × RS => J r.2.env) (renderBlockBody c body s1))
    (hnext : ∀ s1, J s1.env → AllRet (fun r : Status × RS => J r.2.env) (renderBlockBody c body s1))
    (hQ : ∀ env, J env → Q .done env) :
    AllRet (EnvQ Q) (renderNode c (.loop line tr var e mods body clauses) s) := by
  have hiter : AllRet (EnvQ Q)
      (loopIterate c.P ⟨line, true⟩ tr var mods.cols (renderBlockBody c body) (x :: xs) s) := by
    have h1 := tri_loopIterate_cons I J c.P ⟨line, true⟩ tr var mods.cols (renderBlockBody c body) hI hJ hfirst hnext
      x xs s h0
    have h2 := loopIterate_done c.P ⟨line, true⟩ tr var mods.cols (renderBlockBody c body) (x :: xs) s
    refine (h1.and h2).mono (fun r hr => ?_)
    obtain ⟨st, s'⟩ := r
    simp only at hr
    obtain ⟨hj, rfl⟩ := hr
    exact hQ _ hj
  have hdisp : ∀ elseM, loopDispatch c.P ⟨line, true⟩ tr var mods.cols (renderBlockBody c body) elseM (x :: xs) =
      loopIterate c.P ⟨line, true⟩ tr var mods.cols (renderBlockBody c body) (x :: xs) := by
    intro elseM; unfold loopDispatch; rfl
  match clauses, hcl with
  | [], _ =>
    rw [renderNode, loopRun_eq c.P c.cfg.path ⟨line, true⟩ tr var e mods _ none s v items0 off lim hv hitems hoff hlim,
      hsel, hdisp]
    exact AllRet.wrapAt hiter
  | [els], _ =>
    rw [renderNode, loopRun_eq c.P c.cfg.path ⟨line, true⟩ tr var e mods _ (some _) s v items0 off lim hv hitems hoff hlim,
      hsel, hdisp]
    exact AllRet.wrapAt hiter
  | _ :: _ :: _, h => simp at h

/-- **C12 (assign_scope_global).** In a block body `PRE {% assign x = v %} POST` where `POST` — any
    nodes, blocks nested to any depth — does not write `x` (`writesList`): whenever the body ends
    normally, `x` holds `v` *after the block*, in every state and for every `PRE`. The binding made
    inside the block is not undone when the block (or any block nested in `POST`) ends: the
    variable map is one flat map. (`v` is a literal so that its value does not depend on the state
    `PRE` leaves; for an expression, `assign_seq` gives the value.) Enclosing blocks pass the
    condition on: `if_scope`, `case_scope`, `loop_scope`/`loop_scope_visited`, `block_end_scope` —
    see `assign_scope_nested` for three levels. -/
theorem assign_scope_global (c : RCtx) (x : Bytes) (v : GoVal) (line : Nat) (pre post : List Node) (s : RS)
    (hx : x ∉ writesList post) :
    AllRet (EnvQ (fun k env => k = .done → env.get x = v.unwrap))
      (renderBlockBody c (pre ++ .assign line x (.lit v) :: post) s) := by
  refine block_end_scope c _ s _ (seq_scope_append c pre _ s _ ?_)
  have htail : ∀ s1, AllRet (EnvQ (fun k env => k = SK.done → env.get x = v.unwrap))
      (renderList c (.assign line x (.lit v) :: post) s1) := by
    intro s1
    rw [assign_seq c line x (.lit v) post s1 v.unwrap rfl]
    refine (keeps_renderList c x post hx _).mono (fun r hr _ => ?_)
    rw [hr]
    exact Env.get_set_same _ _ _
  refine (AllRet.trivial _).mono (fun r _ => ?_)
  obtain ⟨st, s1⟩ := r
  cases st with
  | done => exact htail s1
  | brk e => intro h; cases h
  | cont e => intro h; cases h

/-- a block consisting of one literal assignment always ends with the variable bound -/
theorem assign_block_sets (c : RCtx) (x : Bytes) (v : GoVal) (line : Nat) (s : RS) :
    AllRet (EnvQ (fun _ env => env.get x = v.unwrap)) (renderBlockBody c [.assign line x (.lit v)] s) := by
  refine block_end_scope c _ s _ ?_
  rw [assign_seq c line x (.lit v) [] s v.unwrap rfl, renderList]
  exact .ret _ (Env.get_set_same _ _ _)

/-- **C12 (three levels).** `{% if true %}{% for i in ARRAY-OF-TWO %}{% if … %}{% else %}{% assign x = v %}…`
    — an assignment three blocks deep: after the outermost block `x` holds `v`, in every state, for
    every context and every writer behaviour. Obtained by composing the rules above. -/
theorem assign_scope_nested (c : RCtx) (s : RS) (v a b : GoVal) :
    AllRet (EnvQ (fun _ env => env.get [120] = v.unwrap))
      (renderBlockBody c
        [.ifB 1 [(.expr 1 (.lit (.bool true)),
          [.loop 2 false [105] (.lit (.slice .any [a, b])) {}
            [.ifB 3 [(.always, [.assign 4 [120] (.lit v)])]] []])]] s) := by
  -- a single node followed by nothing
  have single : ∀ (n : Node) (s0 : RS), AllRet (EnvQ (fun _ env => env.get [120] = v.unwrap)) (renderNode c n s0) →
      AllRet (EnvQ (fun _ env => env.get [120] = v.unwrap)) (renderBlockBody c [n] s0) := by
    intro n s0 h
    refine block_end_scope c _ s0 _ (seq_scope c n [] s0 _ (h.mono (fun r hr => ?_)))
    obtain ⟨st, s1⟩ := r
    cases st with
    | done => rw [renderList]; exact .ret _ hr
    | brk e => exact hr
    | cont e => exact hr
  -- innermost: `{% if … %}{% else %}{% assign x = v %}{% endif %}`
  have hinner : ∀ s1, AllRet (fun r : Status × RS => r.2.env.get [120] = v.unwrap)
      (renderBlockBody c [.ifB 3 [(.always, [.assign 4 [120] (.lit v)])]] s1) := by
    intro s1
    refine single _ s1 (if_scope c 3 _ s1 _ ?_ ?_)
    · intro h
      have := h (.always, [.assign 4 [120] (.lit v)]) (by simp)
      simp [condRes] at this
    · intro b hb _
      simp only [List.mem_singleton] at hb
      subst hb
      exact assign_block_sets c [120] v 4 s1
  -- the loop visits two items
  have hJ : ∀ (env : Env) (y : Bytes) (w : GoVal), (y = [105] ∨ y = nmForloop) →
      ((env.set y w).get [120] = v.unwrap ↔ env.get [120] = v.unwrap) := by
    intro env y w hy
    have hne : ([120] : Bytes) ≠ y := by rcases hy with rfl | rfl <;> decide
    rw [Env.get_set_other _ _ _ _ hne]
  refine single _ s (if_scope c 1 _ s _ ?_ ?_)
  · intro h
    have := h (.expr 1 (.lit (.bool true)), [.loop 2 false [105] (.lit (.slice .any [a, b])) {}
            [.ifB 3 [(.always, [.assign 4 [120] (.lit v)])]] []]) (List.mem_singleton.mpr rfl)
    simp [condRes, evaluate, eval, GoVal.unwrap, GoVal.test] at this
  · intro br hbr _
    simp only [List.mem_singleton] at hbr
    subst hbr
    refine single _ s (loop_scope_visited c 2 false [105] _ {} _ [] s (.slice .any [a, b]) [a, b] none none a [b]
      (fun _ => True) (fun env => env.get [120] = v.unwrap) _ (by decide) rfl rfl rfl rfl rfl
      (fun _ _ _ _ => Iff.rfl) hJ trivial (fun s1 _ => hinner s1) (fun s1 _ => hinner s1) (fun _ h => h))

/-! ### The capture equivalence is an equivalence -/

/-- the in-place rendering of a body as a whole template, read off its trace -/
theorem renderRoot_of_traced_done (c : RCtx) (body : List Node) (env env' : Env) (ops : List WOp)
    (ht : TracedAt (renderList c body) env ops (.ok .done env')) :
    (renderRoot c body env).runPure = (twTotal {} ops, .ok .done) := by
  rw [renderRoot_eq_blockBody, Prog.runPure_bind, tracedAt_blockBody_done c body env env' ops ht {}, twTotal_flush]
  simp [EOut.withTw, Prog.runPure]

/-- **C12 (capture_equiv, converse).** If `{% capture x %}BODY{% endcapture %}{{ x }}` renders
    normally as a template, so does `BODY`, to the same bytes: a body that fails, or ends with a
    stray `break`/`continue`, makes the capture fail or end the same way. With
    `capture_equiv_root`: the two templates render normally under exactly the same conditions,
    and then identically. -/
theorem capture_equiv_root_conv (c : RCtx) (hinc : IncQuiet c) (hO : ∀ b, c.O.chunks (.str b) = .ok [b])
    (l1 l2 : Nat) (x : Bytes) (body : List Node) (env : Env) (out : Bytes)
    (h : (renderRoot c [.capture l1 x body, .obj l2 (.var x)] env).runPure = (out, .ok .done)) :
    (renderRoot c body env).runPure = (out, .ok .done) := by
  obtain ⟨ops, o, ht⟩ := traced_renderList c hinc body env
  cases o with
  | ok st env' =>
    cases st with
    | done =>
      have hplace := renderRoot_of_traced_done c body env env' ops ht
      have hfwd := capture_equiv_root c hinc hO l1 l2 x body env _ hplace
      rw [hfwd] at h
      rw [hplace]
      exact h
    | brk e =>
      have hcap := captureM_of_traced (renderList c body) env env' ops (.brk e) ht {}
      simp [renderRoot, renderList, renderNode, wrapAt, bind, M.bind, hcap, Prog.bind, Prog.mapFail, pure, M.pure,
        Prog.runPure, Status.wrap] at h
    | cont e =>
      have hcap := captureM_of_traced (renderList c body) env env' ops (.cont e) ht {}
      simp [renderRoot, renderList, renderNode, wrapAt, bind, M.bind, hcap, Prog.bind, Prog.mapFail, pure, M.pure,
        Prog.runPure, Status.wrap] at h
  | err e =>
    have hcap := captureM_of_traced_err (renderList c body) env ops e ht {}
    simp [renderRoot, renderList, renderNode, wrapAt, bind, M.bind, hcap, Prog.bind, Prog.mapFail, Prog.runPure] at h
  | panic w =>
    have hcap := captureM_of_traced_panic (renderList c body) env ops w ht {}
    simp [renderRoot, renderList, renderNode, wrapAt, bind, M.bind, hcap, Prog.bind, Prog.mapFail, Prog.runPure] at h
  | unmodelled w =>
    have hcap := captureM_of_traced_unmodelled (renderList c body) env ops w ht {}
    simp [renderRoot, renderList, renderNode, wrapAt, bind, M.bind, hcap, Prog.bind, Prog.mapFail, Prog.runPure] at h

theorem capture_equiv_root_iff (c : RCtx) (hinc : IncQuiet c) (hO : ∀ b, c.O.chunks (.str b) = .ok [b])
    (l1 l2 : Nat) (x : Bytes) (body : List Node) (env : Env) (out : Bytes) :
    (renderRoot c [.capture l1 x body, .obj l2 (.var x)] env).runPure = (out, .ok .done) ↔
      (renderRoot c body env).runPure = (out, .ok .done) :=
  ⟨capture_equiv_root_conv c hinc hO l1 l2 x body env out, capture_equiv_root c hinc hO l1 l2 x body env out⟩

/-- **C12 (capture_equiv for the engine).** For the engine's own context — any primitives, the
    standard output layer, any configuration, file system and include fuel — the two context
    hypotheses of `capture_equiv_root_iff` are discharged: `BODY` and
    `{% capture x %}BODY{% endcapture %}{{ x }}` render normally under the same conditions, and then
    to the same bytes. -/
theorem capture_equiv_engine (P : Prims) (cfg : Cfg) (fs : FS) (fuel : Nat)
    (l1 l2 : Nat) (x : Bytes) (body : List Node) (env : Env) (out : Bytes) :
    (renderRoot (mkCtx P stdOut cfg fs fuel) [.capture l1 x body, .obj l2 (.var x)] env).runPure = (out, .ok .done) ↔
      (renderRoot (mkCtx P stdOut cfg fs fuel) body env).runPure = (out, .ok .done) :=
  capture_equiv_root_iff (mkCtx P stdOut cfg fs fuel) (incQuiet_mkCtx P stdOut cfg fs fuel) stdOut_str l1 l2 x body env out

/-- **C12 (capture_equiv, failing body).** If `BODY` as a template fails with error `e` (after
    whatever partial output), `{% capture x %}BODY{% endcapture %}{{ x }}` fails with the same error
    re-wrapped at the capture tag (`wrapError` keeps a located error's cause, message kind and — if
    it has one — its line), and writes nothing. -/
theorem capture_equiv_root_err (c : RCtx) (hinc : IncQuiet c)
    (l1 l2 : Nat) (x : Bytes) (body : List Node) (env : Env) (part : Bytes) (e : RawErr)
    (hbody : (renderRoot c body env).runPure = (part, .err e)) :
    (renderRoot c [.capture l1 x body, .obj l2 (.var x)] env).runPure =
      ([], .err (.located (wrapError c.cfg.path e ⟨l1, true⟩))) := by
  obtain ⟨ops, o, ht⟩ := traced_renderList c hinc body env
  have hother : ∀ o', TracedAt (renderList c body) env ops o' → (∀ env', o' ≠ .ok .done env') →
      (renderRoot c body env).runPure.2 = match o' with
        | .ok st _ => .ok st
        | .err e => .err e
        | .panic w => .panic w
        | .unmodelled w => .unmodelled w := by
    intro o' ht' hnd
    rw [renderRoot_eq_blockBody, Prog.runPure_bind, tracedAt_blockBody_other c body env ops o' ht' hnd {}]
    cases o' <;> simp [EOut.withTw, Prog.runPure]
  cases o with
  | ok st env' =>
    cases st with
    | done => rw [renderRoot_of_traced_done c body env env' ops ht] at hbody; simp at hbody
    | brk e' => have := hother _ ht (by intro _ h; cases h); rw [hbody] at this; simp at this
    | cont e' => have := hother _ ht (by intro _ h; cases h); rw [hbody] at this; simp at this
  | err e' =>
    have := hother _ ht (by intro _ h; cases h)
    rw [hbody] at this
    simp only [Prog.Outcome.err.injEq] at this
    subst this
    have hcap := captureM_of_traced_err (renderList c body) env ops e ht {}
    simp [renderRoot, renderList, renderNode, wrapAt, bind, M.bind, hcap, Prog.bind, Prog.mapFail, Prog.runPure]
  | panic w => have := hother _ ht (by intro _ h; cases h); rw [hbody] at this; simp at this
  | unmodelled w => have := hother _ ht (by intro _ h; cases h); rw [hbody] at this; simp at this

/-- Non-vacuity of `capture_equiv_root_err`: `a{% cycle "b" %}` outside a loop fails at the cycle tag (line 2) -/
example :
    (renderRoot demoCtx [.capture 1 [120] [.text 1 [97], .cycle 2 [] [98] []], .obj 3 (.var [120])] []).runPure =
      ([], .err (.located (wrapError [] (.located ⟨2, true, .none, .cycleOutside⟩) ⟨1, true⟩))) :=
  capture_equiv_root_err demoCtx demoCtx_quiet 1 3 [120] [.text 1 [97], .cycle 2 [] [98] []] [] []
    (.located ⟨2, true, .none, .cycleOutside⟩) (by
      simp [renderRoot, renderList, renderNode, wrapFailAt, M.mapFail, M.bind, M.pure, writeM, M.getVar, M.fail, cyclesOf,
        Env.get, Prog.bind, Prog.mapFail, Prog.runPure, bind, pure, demoCtx, errorfAt, wrapError])

/-- `assign_scope_global` for an arbitrary expression: if what precedes the assignment in the
    block establishes a condition `P` on the variables under which `e` evaluates to `v`, then `x`
    holds `v` after the block (whenever the body ends normally and what follows does not write `x`). -/
theorem assign_scope_expr (c : RCtx) (x : Bytes) (v : GoVal) (line : Nat) (e : Expr) (pre post : List Node) (s : RS)
    (P : Env → Prop) (hx : x ∉ writesList post)
    (hpre : AllRet (fun r : Status × RS => r.1 = .done → P r.2.env) (renderList c pre s))
    (he : ∀ env, P env → evaluate c.P env e = .ok v) :
    AllRet (EnvQ (fun k env => k = .done → env.get x = v))
      (renderBlockBody c (pre ++ .assign line x e :: post) s) := by
  refine block_end_scope c _ s _ (seq_scope_append c pre _ s _ ?_)
  refine hpre.mono (fun r hr => ?_)
  obtain ⟨st, s1⟩ := r
  cases st with
  | done =>
    simp only
    rw [assign_seq c line x e post s1 v (he _ (hr rfl))]
    refine (keeps_renderList c x post hx _).mono (fun r hr _ => ?_)
    rw [hr]
    exact Env.get_set_same _ _ _
  | brk e' => intro h; cases h
  | cont e' => intro h; cases h

/-- Non-vacuity: `{% assign y = 1 %}{% assign x = y %}{% if y %}…{% endif %}` — `x` holds what `y` held -/
example (c : RCtx) (s : RS) (body : List Node) (hb : [120] ∉ writesList body) :
    AllRet (EnvQ (fun k env => k = .done → env.get [120] = .int .int 1))
      (renderBlockBody c ([.assign 1 [121] (.lit (.int .int 1))] ++ .assign 2 [120] (.var [121]) ::
        [.ifB 3 [(.expr 3 (.var [121]), body)]]) s) :=
  assign_scope_expr c [120] (.int .int 1) 2 (.var [121]) _ _ s (fun env => env.get [121] = .int .int 1)
    (by simpa [writesList, writesNode, writesBranches] using hb)
    (by
      rw [assign_seq c 1 [121] (.lit (.int .int 1)) [] s (.int .int 1) rfl, renderList]
      exact .ret _ (fun _ => Env.get_set_same _ _ _))
    (fun env h => by simp [evaluate, eval, h, GoVal.toLiquid, GoVal.unwrap])

/-- Non-vacuity of `only_written_change`: a loop over `i` whose body assigns `x` and runs a `cycle` tag
    writes `x` only — its own variable `i` and `forloop` come back restored -/
example (e e2 : Expr) :
    writesList [.loop 1 false [105] e {} [.assign 2 [120] e2, .cycle 3 [] [97] []] []] = [[120]] := by
  simp [writesList, writesNode, writesClauses, nmForloop]

example (c : RCtx) (e e2 : Expr) (s : RS) :
    AllRet (fun r : Status × RS => r.2.env.get [105] = s.env.get [105])
      (renderBlockBody c [.loop 1 false [105] e {} [.assign 2 [120] e2, .cycle 3 [] [97] []] []] s) :=
  only_written_change c [105] _ (by simp [writesList, writesNode, writesClauses, nmForloop]) s

/-- Non-vacuity of `assign_scope_global`: what follows the assignment may be any blocks not writing `x` -/
example (c : RCtx) (s : RS) (pre : List Node) (e : Expr) :
    AllRet (EnvQ (fun k env => k = .done → env.get [120] = .str [118]))
      (renderBlockBody c (pre ++ .assign 1 [120] (.lit (.str [118])) ::
        [.loop 2 false [105] e {} [.assign 3 [121] (.var [120])] [], .text 4 [97]]) s) :=
  assign_scope_global c [120] (.str [118]) 1 pre _ s (by simp [writesList, writesNode, writesClauses, nmForloop])
