import Proofs.PostLemmas
/-!
# C12 — assign/capture bind for the rest of the render; loop variables are restored
-/

/-- **C12 (assign).** After `{% assign x = e %}` everything that follows in the sequence — at any
    depth, since the variable map is one flat map threaded through the whole render — runs with
    `x` bound to exactly the value of `e`; the assign itself writes nothing. -/
theorem assign_seq (c : RCtx) (line : Nat) (x : Bytes) (e : Expr) (rest : List Node) (s : RS) (v : GoVal)
    (hv : evaluate c.P s.env e = .ok v) :
    renderList c (.assign line x e :: rest) s = renderList c rest { s with env := s.env.set x v } := by
  rw [renderList]
  simp only [bind, M.bind, renderNode, wrapFailAt, M.mapFail, M.getEnv, M.ofRes, hv, M.setVar, pure, M.pure,
    Prog.bind, Prog.mapFail]

/-- a failing assignment fails the render with the error located at the assign tag -/
theorem assign_err (c : RCtx) (line : Nat) (x : Bytes) (e : Expr) (rest : List Node) (s : RS) (cause : Cause)
    (hv : evaluate c.P s.env e = .err cause) :
    renderList c (.assign line x e :: rest) s = .fail (.located (wrapError c.cfg.path (.plain cause) ⟨line, true⟩)) := by
  rw [renderList]
  simp only [bind, M.bind, renderNode, wrapFailAt, M.mapFail, M.getEnv, M.ofRes, hv, M.fail, Prog.bind, Prog.mapFail]

/-- **C12 (capture).** `{% capture x %}body{% endcapture %}` runs the body against a private
    buffer: when the body ends normally with text `out`, nothing reaches the output, the outer
    trim-writer state is untouched, and what follows runs with `x` bound to exactly `out` (and with
    the assignments the body made). -/
theorem capture_seq (c : RCtx) (line : Nat) (x : Bytes) (body rest : List Node) (s s2 : RS) (out : Bytes)
    (h : captureM (renderList c body) s = .ret ((.done, out), s2)) :
    renderList c (.capture line x body :: rest) s = renderList c rest { s2 with env := s2.env.set x (.str out) } := by
  rw [renderList]
  simp only [bind, M.bind, renderNode, wrapAt, Prog.bind, Prog.mapFail, h, M.setVar, pure, M.pure, Status.wrap]

/-- the state after a capture keeps the outer trim writer: only variables flow out of the body -/
theorem captureM_keeps_tw {α} (m : M α) (s s2 : RS) (r : α × Bytes) (h : captureM m s = .ret (r, s2)) :
    s2.tw = s.tw := by
  unfold captureM at h
  simp only at h
  split at h <;> simp at h
  obtain ⟨_, rfl⟩ := h
  rfl

/-! ## Loop variables -/

/-- **C12 (restore).** When the iterations of a loop have ended — normally, by `break`, or after
    `continue`s — the loop variable and `forloop` have again the values they had before the loop,
    and the status is `done`. (A render that fails inside the loop is abandoned as a whole.) -/
theorem loop_restores (P : Prims) (loc : Loc) (tr : Bool) (var : Bytes) (colsE : Option Expr) (bodyM : M Status)
    (items : List GoVal) (s : RS) :
    AllRet (fun r : Status × RS =>
        r.2.env.get var = s.env.get var ∧ r.2.env.get nmForloop = s.env.get nmForloop)
      (loopIterate P loc tr var colsE bodyM items s) := by
  unfold loopIterate
  simp only [bind, M.bind]
  -- tablerowCols reads the variables only
  have hcols : AllRet (fun r : Option Nat × RS => r.2.env = s.env) (tablerowCols P tr colsE loc s) := by
    unfold tablerowCols
    split
    · simp only [bind, M.bind, intModifier]
      cases colsE with
      | none => exact .ret _ rfl
      | some ex =>
        simp only [bind, M.bind, M.getEnv, Prog.bind]
        cases evaluate P s.env ex with
        | ok v =>
          simp only [M.ofRes, pure, M.pure, Prog.bind]
          split
          · exact .ret _ rfl
          · exact .fail _
        | err e => exact .fail _
        | panic w => exact .panic _
        | unmodelled w => exact .unmodelled _
    · exact .ret _ rfl
  refine AllRet.bind hcols (fun ⟨cols, s1⟩ h1 => ?_)
  simp only at h1
  simp only [M.getVar, Prog.bind]
  refine AllRet.bind (AllRet.trivial _) (fun ⟨st, s2⟩ _ => ?_)
  simp only [restoreLoopVars, bind, M.bind, M.setVar, Prog.bind, pure, M.pure, h1]
  refine .ret _ ⟨?_, ?_⟩
  · exact Env.get_set_same _ _ _
  · by_cases hv : var = nmForloop
    · subst hv; rw [Env.get_set_same]
    · rw [Env.get_set_other _ _ _ _ (Ne.symm hv), Env.get_set_same]

/-! ## include -/

/-- **C12 (include isolation).** An include renders with a *copy* of the current variables:
    whatever the included template assigns does not flow back. -/
theorem include_isolated (c : RCtx) (line : Nat) (args : Bytes) (s : RS) :
    AllRet (fun r : Status × RS => r.2.env = s.env) (renderNode c (.incl line args) s) := by
  unfold renderNode
  simp only [wrapAt]
  refine AllRet.bind (Q := fun r : Status × RS => r.2.env = s.env) (AllRet.mapFail _ ?_) (fun ⟨st, s'⟩ h => .ret _ h)
  simp only [bind, M.bind, M.getEnv, Prog.bind]
  cases (parseExprSource args).mapErr (fun _ => Cause.syntax) with
  | ok e =>
    simp only [M.ofRes, pure, M.pure, Prog.bind]
    cases evaluate c.P s.env e with
    | ok v =>
      simp only [M.ofRes, pure, M.pure, Prog.bind]
      split
      · next rel =>
        refine AllRet.bind (Q := fun r : (Status × Bytes) × RS => r.2 = s)
          (AllRet.bind (AllRet.trivial _) (fun r _ => .ret _ rfl)) (fun ⟨⟨st, out⟩, s1⟩ h1 => ?_)
        simp only at h1
        subst h1
        simp only
        cases st with
        | done =>
          simp only [bind, M.bind]
          refine AllRet.bind (?_ : AllRet (fun r : Unit × RS => r.2.env = s1.env) (writeM out s1)) (fun _ h => .ret _ h)
          unfold writeM
          simp only
          split
          · exact .ret _ rfl
          · refine .call _ _ (fun r => ?_)
            cases r with
            | ok => exact .ret _ rfl
            | failed n => exact .fail _
        | brk e => exact .ret _ rfl
        | cont e => exact .ret _ rfl
      · exact .fail _
    | err e => exact .fail _
    | panic w => exact .panic _
    | unmodelled w => exact .unmodelled _
  | err e => exact .fail _
  | panic w => exact .panic _
  | unmodelled w => exact .unmodelled _

/-- the included template starts from the includer's current variables (those assigned earlier
    in the render included): the handler receives exactly the current map -/
theorem include_sees_vars (c : RCtx) (line : Nat) (args : Bytes) (s : RS) (e : Expr) (rel : Bytes)
    (he : parseExprSource args = .ok e) (hv : evaluate c.P s.env e = .ok (.str rel)) :
    renderNode c (.incl line args) s =
      wrapAt c.cfg.path ⟨line, true⟩ (fun s0 =>
        (c.inc line (joinPath (dirPath c.cfg.path) rel) s.env).bind fun (st, out) =>
          match st with
          | .done => (writeM out s0).bind fun (_, s1) => .ret (.done, s1)
          | st => .ret (st, s0)) s := by
  unfold renderNode
  simp only [wrapAt, bind, M.bind, M.getEnv, Prog.bind, he, Res.mapErr, M.ofRes, pure, M.pure, hv, Prog.bind_assoc]
  congr 3
  funext r
  obtain ⟨st, out⟩ := r
  cases st <;> rfl
