import Liquid.Std
import Proofs.PostLemmas
import Proofs.RunLemmas
/-!
# C12 — assign/capture bind for the rest of the render; loop variables are restored
-/

/-- **C12 (assign).** After `{% assign x = e %}` everything that follows in the sequence — at any
    depth, since the variable map is one flat map threaded through the whole render — runs with
    `x` bound to exactly the value of `e`; the assign itself writes nothing. -/
theorem assign_seq (c : RCtx) (line : Nat) (x : Bytes) (e : Expr) (rest : List Node) (s : RS) (v : GoVal)
    (hv : evaluate c.P s.env e = .ok v) :
    renderList c (.assign line x e :: rest) s = renderList c rest { s with env := s.env.set x v } := by
  rw [renderList]
  simp only [bind, M.bind, renderNode, wrapFailAt, M.mapFail, M.getEnv, M.ofRes, hv, M.setVar, pure, M.pure,
    Prog.bind, Prog.mapFail]

/-- a failing assignment fails the render with the error located at the assign tag -/
theorem assign_err (c : RCtx) (line : Nat) (x : Bytes) (e : Expr) (rest : List Node) (s : RS) (cause : Cause)
    (hv : evaluate c.P s.env e = .err cause) :
    renderList c (.assign line x e :: rest) s = .fail (.located (wrapError c.cfg.path (.plain cause) ⟨line, true⟩)) := by
  rw [renderList]
  simp only [bind, M.bind, renderNode, wrapFailAt, M.mapFail, M.getEnv, M.ofRes, hv, M.fail, Prog.bind, Prog.mapFail]

/-- **C12 (capture).** `{% capture x %}body{% endcapture %}` runs the body against a private
    buffer: when the body ends normally with text `out`, nothing reaches the output, the outer
    trim-writer state is untouched, and what follows runs with `x` bound to exactly `out` (and with
    the assignments the body made). -/
theorem capture_seq (c : RCtx) (line : Nat) (x : Bytes) (body rest : List Node) (s s2 : RS) (out : Bytes)
    (h : captureM (renderList c body) s = .ret ((.done, out), s2)) :
    renderList c (.capture line x body :: rest) s = renderList c rest { s2 with env := s2.env.set x (.str out) } := by
  rw [renderList]
  simp only [bind, M.bind, renderNode, wrapAt, Prog.bind, Prog.mapFail, h, M.setVar, pure, M.pure, Status.wrap]

/-- the state after a capture keeps the outer trim writer: only variables flow out of the body -/
theorem captureM_keeps_tw {α} (m : M α) (s s2 : RS) (r : α × Bytes) (h : captureM m s = .ret (r, s2)) :
    s2.tw = s.tw := by
  unfold captureM at h
  simp only at h
  split at h <;> simp at h
  obtain ⟨_, rfl⟩ := h
  rfl

/-! ## Loop variables -/

/-- **C12 (restore).** When the iterations of a loop have ended — normally, by `break`, or after
    `continue`s — the loop variable and `forloop` have again the values they had before the loop,
    and the status is `done`. (A render that fails inside the loop is abandoned as a whole.) -/
theorem loop_restores (P : Prims) (loc : Loc) (tr : Bool) (var : Bytes) (colsE : Option Expr) (bodyM : M Status)
    (items : List GoVal) (s : RS) :
    AllRet (fun r : Status × RS =>
        r.2.env.get var = s.env.get var ∧ r.2.env.get nmForloop = s.env.get nmForloop)
      (loopIterate P loc tr var colsE bodyM items s) := by
  unfold loopIterate
  simp only [bind, M.bind]
  -- tablerowCols reads the variables only
  have hcols : AllRet (fun r : Option Nat × RS => r.2.env = s.env) (tablerowCols P tr colsE loc s) := by
    unfold tablerowCols
    split
    · simp only [bind, M.bind, intModifier]
      cases colsE with
      | none => exact .ret _ rfl
      | some ex =>
        simp only [bind, M.bind, M.getEnv, Prog.bind]
        cases evaluate P s.env ex with
        | ok v =>
          simp only [M.ofRes, pure, M.pure, Prog.bind]
          split
          · exact .ret _ rfl
          · exact .fail _
        | err e => exact .fail _
        | panic w => exact .panic _
        | unmodelled w => exact .unmodelled _
    · exact .ret _ rfl
  refine AllRet.bind hcols (fun ⟨cols, s1⟩ h1 => ?_)
  simp only at h1
  simp only [M.getVar, Prog.bind]
  refine AllRet.bind (AllRet.trivial _) (fun ⟨st, s2⟩ _ => ?_)
  simp only [restoreLoopVars, bind, M.bind, M.setVar, Prog.bind, pure, M.pure, h1]
  refine .ret _ ⟨?_, ?_⟩
  · exact Env.get_set_same _ _ _
  · by_cases hv : var = nmForloop
    · subst hv; rw [Env.get_set_same]
    · rw [Env.get_set_other _ _ _ _ (Ne.symm hv), Env.get_set_same]

/-! ## include -/

/-- **C12 (include isolation).** An include renders with a *copy* of the current variables:
    whatever the included template assigns does not flow back. -/
theorem include_isolated (c : RCtx) (line : Nat) (args : Bytes) (s : RS) :
    AllRet (fun r : Status × RS => r.2.env = s.env) (renderNode c (.incl line args) s) := by
  unfold renderNode
  simp only [wrapAt]
  refine AllRet.bind (Q := fun r : Status × RS => r.2.env = s.env) (AllRet.mapFail _ ?_) (fun ⟨st, s'⟩ h => .ret _ h)
  simp only [bind, M.bind, M.getEnv, Prog.bind]
  cases (parseExprSource args).mapErr (fun _ => Cause.syntax) with
  | ok e =>
    simp only [M.ofRes, pure, M.pure, Prog.bind]
    cases evaluate c.P s.env e with
    | ok v =>
      simp only [M.ofRes, pure, M.pure, Prog.bind]
      split
      · next rel =>
        refine AllRet.bind (Q := fun r : (Status × Bytes) × RS => r.2 = s)
          (AllRet.bind (AllRet.trivial _) (fun r _ => .ret _ rfl)) (fun ⟨⟨st, out⟩, s1⟩ h1 => ?_)
        simp only at h1
        subst h1
        simp only
        cases st with
        | done =>
          simp only [bind, M.bind]
          refine AllRet.bind (?_ : AllRet (fun r : Unit × RS => r.2.env = s1.env) (writeM out s1)) (fun _ h => .ret _ h)
          unfold writeM
          simp only
          split
          · exact .ret _ rfl
          · refine .call _ _ (fun r => ?_)
            cases r with
            | ok => exact .ret _ rfl
            | failed n => exact .fail _
        | brk e => exact .ret _ rfl
        | cont e => exact .ret _ rfl
      · exact .fail _
    | err e => exact .fail _
    | panic w => exact .panic _
    | unmodelled w => exact .unmodelled _
  | err e => exact .fail _
  | panic w => exact .panic _
  | unmodelled w => exact .unmodelled _

/-- the included template starts from the includer's current variables (those assigned earlier
    in the render included): the handler receives exactly the current map -/
theorem include_sees_vars (c : RCtx) (line : Nat) (args : Bytes) (s : RS) (e : Expr) (rel : Bytes)
    (he : parseExprSource args = .ok e) (hv : evaluate c.P s.env e = .ok (.str rel)) :
    renderNode c (.incl line args) s =
      wrapAt c.cfg.path ⟨line, true⟩ (fun s0 =>
        (c.inc line (joinPath (dirPath c.cfg.path) rel) s.env).bind fun (st, out) =>
          match st with
          | .done => (writeM out s0).bind fun (_, s1) => .ret (.done, s1)
          | st => .ret (st, s0)) s := by
  unfold renderNode
  simp only [wrapAt, bind, M.bind, M.getEnv, Prog.bind, he, Res.mapErr, M.ofRes, pure, M.pure, hv, Prog.bind_assoc]
  congr 3
  funext r
  obtain ⟨st, out⟩ := r
  cases st <;> rfl

/-! ## Capture equivalence -/

/-- printing a variable that holds captured text `out` is one write of `out` -/
theorem print_str_var (c : RCtx) (hO : ∀ b, c.O.chunks (.str b) = .ok [b]) (line : Nat) (x out : Bytes) (s : RS)
    (hx : s.env.get x = .str out) :
    (renderList c [.obj line (.var x)] s).runPure =
      (s.tw.buf, .ok (.done, { env := s.env,
                               tw := { buf := if s.tw.trim then trimLeftSpace out else out, trim := false } })) := by
  have hev : evaluate c.P s.env (.var x) = .ok (.str out) := by
    simp only [evaluate, eval, hx]; rfl
  simp only [renderList, renderNode, wrapFailAt, M.mapFail, bind, M.bind, M.getEnv, Prog.bind, hev,
    M.ofRes, pure, M.pure]
  split
  · next h => simp [GoVal.isNil] at h
  simp only [hO, M.bind, M.pure, Prog.bind, writeAllM, bind, pure]
  unfold writeM
  simp only
  split
  · next hb =>
    have : s.tw.buf = [] := by simpa using hb
    simp only [Prog.bind, Prog.mapFail, Prog.runPure, this, M.pure]
  · simp only [Prog.bind, Prog.mapFail, Prog.runPure, List.append_nil, M.pure]

/-- **C12 (capture_equiv).** `{% capture x %}BODY{% endcapture %}{{ x }}` renders what `BODY`
    renders in place, and leaves the variables as `BODY` leaves them, plus `x`.

    Stated on compiled nodes, for every context whose include handler renders into its own buffer
    (`IncQuiet`; the engine's does, `incQuiet_mkCtx`) and whose output layer prints a string as one
    write of its bytes (`hO`; the standard one does, `stdOut_str`): if the block body `BODY`, rendered
    in place from state `s` on a fault-free writer, ends normally having put the bytes `R` through
    the trim writer and leaving the state `s'`, then the capture-and-print sequence from the same
    state also ends normally, the bytes it has put through plus the text it leaves pending are
    exactly `R` (`R = s.tw.buf ++ out`, where `s.tw.buf` is the text that was pending before and
    `out` the captured text, now pending), and its variables are those of `s'` with `x` bound to
    `out`.

    Side conditions (both hold at the start of a render, where the trim writer is empty:
    `capture_equiv_root` has none):
    * `htrim`: no `-%}` is waiting to trim what comes next. In place it trims the first *write* of
      the body only (and an all-blank first write uses it up), after the capture it trims the whole
      captured text: `capture_needs_flag_clear` is a body where the two differ.
    * `hbuf`: the pending text does not end in white space. A body starting with `{%-` trims the
      pending text in place, but inside the capture it finds an empty buffer:
      `capture_needs_no_trailing_space`.
    What is *not* claimed: that what follows sees the same trim-writer state. After the in-place
    body the flag of a trailing `-%}` is still set and only the last written chunk can be trimmed
    by a following `{%-`; after capture-and-print the flag is clear and the whole text is one
    chunk (`capture_trailing_trim_differs`). -/
theorem capture_equiv (c : RCtx) (hinc : IncQuiet c) (hO : ∀ b, c.O.chunks (.str b) = .ok [b])
    (l1 l2 : Nat) (x : Bytes) (body : List Node) (s s' : RS) (R : Bytes)
    (htrim : s.tw.trim = false) (hbuf : trimRightSpace s.tw.buf = s.tw.buf)
    (hbody : (renderBlockBody c body s).runPure = (R, .ok (.done, s'))) :
    ∃ out, R = s.tw.buf ++ out ∧
      (renderList c [.capture l1 x body, .obj l2 (.var x)] s).runPure =
        (s.tw.buf, .ok (.done, { env := s'.env.set x (.str out), tw := { buf := out, trim := false } })) := by
  obtain ⟨env, tw⟩ := s
  obtain ⟨B, t⟩ := tw
  simp only at htrim hbuf
  subst htrim
  obtain ⟨ops, o, ht⟩ := traced_renderList c hinc body env
  -- the body ends normally, so its trace ends with `done`
  have hdone : ∃ env', o = .ok .done env' := by
    cases o with
    | ok st env' =>
      cases st with
      | done => exact ⟨env', rfl⟩
      | brk e =>
        have := tracedAt_blockBody_other c body env ops _ ht (by intro _ h; cases h) ⟨B, false⟩
        rw [hbody] at this; simp [EOut.withTw] at this
      | cont e =>
        have := tracedAt_blockBody_other c body env ops _ ht (by intro _ h; cases h) ⟨B, false⟩
        rw [hbody] at this; simp [EOut.withTw] at this
    | err e =>
      have := tracedAt_blockBody_other c body env ops _ ht (by intro _ h; cases h) ⟨B, false⟩
      rw [hbody] at this; simp [EOut.withTw] at this
    | panic w =>
      have := tracedAt_blockBody_other c body env ops _ ht (by intro _ h; cases h) ⟨B, false⟩
      rw [hbody] at this; simp [EOut.withTw] at this
    | unmodelled w =>
      have := tracedAt_blockBody_other c body env ops _ ht (by intro _ h; cases h) ⟨B, false⟩
      rw [hbody] at this; simp [EOut.withTw] at this
  obtain ⟨env', rfl⟩ := hdone
  -- in place: everything the operations produce from the pending text `B`
  have hplace := tracedAt_blockBody_done c body env env' ops ht ⟨B, false⟩
  rw [hbody, twTotal_flush, tw_run_flush_state] at hplace
  simp only [EOut.withTw, Prod.mk.injEq, Prog.Outcome.ok.injEq] at hplace
  obtain ⟨hR, -, hs'⟩ := hplace
  have hpend := (twTotal_pending ops B false hbuf).1
  refine ⟨twTotal {} ops, ?_, ?_⟩
  · rw [hR, hpend]
  · -- captured: the same operations from an empty trim writer, then one write of the text
    have hcap := captureM_of_traced (renderList c body) env env' ops .done ht ⟨B, false⟩
    rw [capture_seq c l1 x body [.obj l2 (.var x)] _ _ _ hcap]
    rw [print_str_var c hO l2 x (twTotal {} ops) _ (Env.get_set_same _ _ _)]
    simp only [hs', Bool.false_eq_true, if_false]

/-- the standard output layer prints a string as one write of its bytes (hypothesis `hO`) -/
theorem stdOut_str (b : Bytes) : stdOut.chunks (.str b) = .ok [b] := by
  simp [stdOut, stdChunks, GoVal.toLiquid, writeChunksL, writeObjectL, sprint, Res.bind]

/-- **C12 (capture_equiv, whole template).** At the start of a render nothing is pending and no
    trim is armed, so no side condition remains: for every body that renders normally as a
    template of its own, `{% capture x %}BODY{% endcapture %}{{ x }}` renders exactly the same
    bytes, and ends normally too. -/
theorem capture_equiv_root (c : RCtx) (hinc : IncQuiet c) (hO : ∀ b, c.O.chunks (.str b) = .ok [b])
    (l1 l2 : Nat) (x : Bytes) (body : List Node) (env : Env) (out : Bytes)
    (hbody : (renderRoot c body env).runPure = (out, .ok .done)) :
    (renderRoot c [.capture l1 x body, .obj l2 (.var x)] env).runPure = (out, .ok .done) := by
  rw [renderRoot_eq_blockBody, Prog.runPure_bind] at hbody
  rcases hb : (renderBlockBody c body ⟨env, {}⟩).runPure with ⟨R, o⟩
  rw [hb] at hbody
  cases o with
  | ok r =>
    obtain ⟨st, s'⟩ := r
    simp only [Prog.runPure, List.append_nil, Prod.mk.injEq, Prog.Outcome.ok.injEq] at hbody
    obtain ⟨rfl, rfl⟩ := hbody
    obtain ⟨out', hR, hrun⟩ := capture_equiv c hinc hO l1 l2 x body ⟨env, {}⟩ s' R rfl rfl hb
    simp only [List.nil_append] at hR
    subst hR
    unfold renderRoot
    rw [Prog.runPure_bind, hrun]
    simp only [wrapFailAt, M.mapFail, List.nil_append]
    unfold flushM
    simp only
    split
    · next he =>
      have : R = [] := by simpa using he
      simp [Prog.mapFail, Prog.bind, Prog.runPure, this]
    · simp [Prog.mapFail, Prog.bind, Prog.runPure]
  | err e => simp at hbody
  | panic w => simp at hbody
  | unmodelled w => simp at hbody

/-! ### Why the side conditions of `capture_equiv` are needed: counterexamples

A minimal context: no filters, strings print as themselves, no include. -/

def demoPrims : Prims :=
  { equal := fun _ _ => .ok false, less := fun _ _ => .ok false, contains := fun _ _ => .ok false,
    equalFn := fun _ _ => .ok false, applyFilter := fun _ v _ => .ok v, hasFilter := fun _ => false }
def demoOut : OutPrims := { chunks := fun v => match v with | .str b => .ok [b] | _ => .ok [] }
def demoCtx : RCtx := { P := demoPrims, O := demoOut, cfg := {}, inc := fun _ _ _ => .unmodelled "no include" }

theorem demoCtx_quiet : IncQuiet demoCtx := fun _ _ _ => trivial
theorem demoOut_str (b : Bytes) : demoCtx.O.chunks (.str b) = .ok [b] := rfl

/-- Non-vacuity of `capture_equiv`: pending text `x`, body `a {%- if … %}`-like
    `[text "a ", trim-left, text "b"]`: in place the writer gets `xab`; the capture-and-print gets `x`
    and holds `ab` — and `x` is bound to `ab`. -/
example :
    ∃ out, [120, 97, 98] = [120] ++ out ∧
      (renderList demoCtx [.capture 1 [118] [.text 1 [97, 32], .trim true, .text 1 [98]], .obj 2 (.var [118])]
        ⟨[], { buf := [120], trim := false }⟩).runPure =
      ([120], .ok (.done, { env := Env.set [] [118] (.str out), tw := { buf := out, trim := false } })) :=
  capture_equiv demoCtx demoCtx_quiet demoOut_str 1 2 [118] [.text 1 [97, 32], .trim true, .text 1 [98]]
    ⟨[], { buf := [120], trim := false }⟩ ⟨[], {}⟩ [120, 97, 98] rfl rfl (by
      simp [renderBlockBody, renderList, renderNode, wrapFailAt, M.mapFail, M.bind, M.pure, writeM, trimLeftM,
        flushM, Prog.bind, Prog.mapFail, Prog.runPure, bind, pure, demoCtx]
      rfl)

/-- **Counterexample (side condition `hbuf`).** Pending text `a␠` (trailing blank), body
    `{%- … %}b` = `[trim-left, text "b"]`. In place the trim-left bites into the pending text: the
    writer gets `ab`. Captured, it finds an empty buffer: capture-and-print gives `a␠` then `b`. -/
theorem capture_needs_no_trailing_space :
    (renderBlockBody demoCtx [.trim true, .text 1 [98]] ⟨[], { buf := [97, 32], trim := false }⟩).runPure =
      ([97, 98], .ok (.done, ⟨[], {}⟩)) ∧
    (renderList demoCtx [.capture 1 [120] [.trim true, .text 1 [98]], .obj 1 (.var [120])]
        ⟨[], { buf := [97, 32], trim := false }⟩).runPure =
      ([97, 32], .ok (.done, ⟨[([120], .str [98])], { buf := [98], trim := false }⟩)) := by
  constructor
  · simp [renderBlockBody, renderList, renderNode, wrapFailAt, M.mapFail, M.bind, M.pure, writeM, trimLeftM,
      flushM, Prog.bind, Prog.mapFail, Prog.runPure, bind, pure, demoCtx]
    rfl
  · simp [renderList, renderNode, wrapFailAt, wrapAt, M.mapFail, M.bind, M.pure, writeM, trimLeftM,
      flushM, captureM, Prog.bind, Prog.mapFail, Prog.runPure, bind, pure, demoCtx, M.setVar, M.getEnv, M.ofRes, evaluate,
      eval, Env.set, Env.get, GoVal.toLiquid, GoVal.unwrap, GoVal.isNil, demoOut, writeAllM, Status.wrap]
    rfl

/-- **Counterexample (side condition `htrim`).** A `-%}` is armed, body = two writes `␠` and `␠b`
    (e.g. a blank text and an object printing `" b"`). In place the flag trims the first write
    only (to nothing): the writer gets `␠b`. Captured, the text is `␠␠b`, and printing it with the
    flag armed trims all of its leading blanks: `b`. -/
theorem capture_needs_flag_clear :
    (renderBlockBody demoCtx [.text 1 [32], .text 1 [32, 98]] ⟨[], { buf := [], trim := true }⟩).runPure =
      ([32, 98], .ok (.done, ⟨[], {}⟩)) ∧
    (renderList demoCtx [.capture 1 [120] [.text 1 [32], .text 1 [32, 98]], .obj 1 (.var [120])]
        ⟨[], { buf := [], trim := true }⟩).runPure =
      ([], .ok (.done, ⟨[([120], .str [32, 32, 98])], { buf := [98], trim := false }⟩)) := by
  constructor
  · simp [renderBlockBody, renderList, renderNode, wrapFailAt, M.mapFail, M.bind, M.pure, writeM,
      flushM, Prog.bind, Prog.mapFail, Prog.runPure, bind, pure, demoCtx]
    rfl
  · simp [renderList, renderNode, wrapFailAt, wrapAt, M.mapFail, M.bind, M.pure, writeM,
      flushM, captureM, Prog.bind, Prog.mapFail, Prog.runPure, bind, pure, demoCtx, M.setVar, M.getEnv, M.ofRes, evaluate,
      eval, Env.set, Env.get, GoVal.toLiquid, GoVal.unwrap, GoVal.isNil, demoOut, writeAllM, Status.wrap]
    rfl

/-- **Counterexample (what follows).** The equivalence is about the bytes of the fragment, not
    about the trim-writer state handed to what follows. Body `a{{ … -}}` = `[text "a", trim-right]`
    followed by the text `␠b`: in place the trailing `-}}` trims the following text (`ab`); after
    capture-and-print the flag is gone (`a␠b`). -/
theorem capture_trailing_trim_differs :
    (renderRoot demoCtx [.text 1 [97], .trim false, .text 1 [32, 98]] []).runPure = ([97, 98], .ok .done) ∧
    (renderRoot demoCtx [.capture 1 [120] [.text 1 [97], .trim false], .obj 1 (.var [120]), .text 1 [32, 98]] []).runPure =
      ([97, 32, 98], .ok .done) := by
  have h : trimLeftSpace [32, 98] = [98] := rfl
  constructor
  · simp [renderRoot, renderList, renderNode, wrapFailAt, M.mapFail, M.bind, M.pure, writeM, trimRightM,
      flushM, Prog.bind, Prog.mapFail, Prog.runPure, bind, pure, demoCtx, h]
  · simp [renderRoot, renderList, renderNode, wrapFailAt, wrapAt, M.mapFail, M.bind, M.pure, writeM, trimRightM,
      flushM, captureM, Prog.bind, Prog.mapFail, Prog.runPure, bind, pure, demoCtx, M.setVar, M.getEnv, M.ofRes, evaluate,
      eval, Env.set, Env.get, GoVal.toLiquid, GoVal.unwrap, GoVal.isNil, demoOut, writeAllM, Status.wrap]

/-- Non-vacuity of `capture_equiv_root`: the body `a {%- … %}b` renders `ab`, and so does its capture-and-print -/
example :
    (renderRoot demoCtx [.capture 1 [118] [.text 1 [97, 32], .trim true, .text 1 [98]], .obj 2 (.var [118])] []).runPure =
      ([97, 98], .ok .done) :=
  capture_equiv_root demoCtx demoCtx_quiet demoOut_str 1 2 [118] [.text 1 [97, 32], .trim true, .text 1 [98]] [] [97, 98] (by
    simp [renderRoot, renderList, renderNode, wrapFailAt, M.mapFail, M.bind, M.pure, writeM, trimLeftM,
      flushM, Prog.bind, Prog.mapFail, Prog.runPure, bind, pure, demoCtx]
    rfl)
