import Proofs.RenderStops
/-!
# C20 — a failing output writer stops the render with an error, never a panic

`FRender` is the interaction tree `frender …` of calls to the caller's writer. For every
template, environment, configuration, file system and fuel, the tree *stops on failure*: at
each call on the success path a failed write ends the render at once with an error whose
cause is the writer's failure. The consequences for a writer that fails at its `k`-th call
(accepting any part of it) follow for every `k`.
-/

/-- `ctx.RenderFile` renders into a private buffer: it never calls the caller's writer -/
theorem renderFileWith_noCalls (P : Prims) (O : OutPrims) (cfg : Cfg) (fs : FS)
    (inner : Nat → Bytes → Env → Prog (Status × Bytes)) (line : Nat) (f : Bytes) (env : Env) :
    NoCalls (renderFileWith P O cfg fs inner line f env) := by
  unfold renderFileWith
  simp only
  split
  · simp [NoCalls]
  · split
    · simp [NoCalls]
    · simp [NoCalls]
    · simp [NoCalls]
    · split <;> simp [NoCalls]

theorem incFuel_ok (P : Prims) (O : OutPrims) (cfg : Cfg) (fs : FS) (fuel : Nat) :
    IncOk (mkCtx P O cfg fs fuel) := by
  intro line f env
  cases fuel with
  | zero => exact .fail _
  | succ n => exact Stops.ofNoCalls (renderFileWith_noCalls P O cfg fs _ line f env)

/-- the root sequence followed by the final flush stops on failure -/
theorem renderRoot_stops (c : RCtx) (hc : IncOk c) (root : List Node) (env : Env) :
    Stops (renderRoot c root env) := by
  unfold renderRoot
  refine Stops.bind (stops_renderList c hc root _) (fun ⟨st, s⟩ => ?_)
  cases st with
  | done => exact Stops.bind (stopsM_wrapFailAt _ _ stopsM_flush s) (fun _ => .ret _)
  | brk e => exact .ret _
  | cont e => exact .ret _

/-- **C20 (main theorem).** Every `FRender` stops on a writer failure. -/
theorem frender_stops (P : Prims) (O : OutPrims) (cfg : Cfg) (fs : FS) (fuel : Nat) (root : List Node) (env : Env) :
    Stops (frender P O cfg fs fuel root env) := by
  unfold frender
  refine Stops.bind (renderRoot_stops _ (incFuel_ok P O cfg fs fuel) root env) (fun st => ?_)
  cases st <;> simp [statusToProg] <;> first | exact .ret _ | exact .fail _

/-- **C20 (faulty writers).** For every write-call index `k` of the fault-free render and every
    accepted length `acc`: a writer that fails on call `k` makes `FRender` end with an error whose
    cause is the writer's failure — never success, never a panic — the bytes the writer accepted
    are exactly the first `k` calls plus the accepted part of call `k`, and no call follows. -/
theorem frender_faulty (P : Prims) (O : OutPrims) (cfg : Cfg) (fs : FS) (fuel : Nat) (root : List Node) (env : Env)
    (k acc : Nat) (hk : k < (frender P O cfg fs fuel root env).calls.length) :
    let p := frender P O cfg fs fuel root env
    (∃ e, (runFaulty p (some k) acc).1 = .err e ∧ IsIo e) ∧
    (runFaulty p (some k) acc).2.1 = (p.calls.take k).flatten ++ (p.calls.getD k []).take acc ∧
    (runFaulty p (some k) acc).2.2 = 0 :=
  faulty_spec _ (frender_stops P O cfg fs fuel root env) k acc hk

/-- **C20 (prefix).** Whatever the writer accepted before the failure is a prefix of the output a
    fault-free render produces. -/
theorem frender_faulty_prefix (P : Prims) (O : OutPrims) (cfg : Cfg) (fs : FS) (fuel : Nat) (root : List Node) (env : Env)
    (k acc : Nat) (hk : k < (frender P O cfg fs fuel root env).calls.length) :
    (runFaulty (frender P O cfg fs fuel root env) (some k) acc).2.1 <+:
      (frender P O cfg fs fuel root env).runPure.1 := by
  rw [runPure_calls]
  exact faulty_prefix _ (frender_stops P O cfg fs fuel root env) k acc hk

/-- capture and include never surface a writer fault from inside: they make no call on the
    caller's writer -/
theorem capture_infallible {α} (m : M α) (s : RS) : NoCalls (captureM m s) := captureM_noCalls m s

/-! Non-vacuity: a concrete template (`a {{- …` shape: text, trim-left, text, trim-right, text)
    has three underlying write calls, so `k` ranges over a non-empty set. -/
def trivPrims : Prims :=
  { equal := fun _ _ => .ok false, less := fun _ _ => .ok false, contains := fun _ _ => .ok false,
    equalFn := fun _ _ => .ok false, applyFilter := fun _ v _ => .ok v, hasFilter := fun _ => true }
def trivOut : OutPrims := { chunks := fun _ => .ok [] }

example :
    (frender trivPrims trivOut {} ⟨fun _ => .notExist, fun _ => none⟩ 1
      [.text 1 [97, 32], .trim true, .text 1 [98]] []).calls.length = 2 := by
  simp [frender, renderRoot, renderList, renderNode, wrapFailAt, M.mapFail, M.bind, M.pure, writeM, trimLeftM, trimRightM,
    flushM, Prog.bind, Prog.mapFail, Prog.calls, statusToProg, bind, pure, mkCtx]
