import Proofs.MapPermCmp
/-!
# `values.Equal` and the order of map entries (helper lemmas for C02)

`equalMaps` loops over the entries of its first operand and stops at the first entry that has no equal
partner; the model runs the loop in the order of the entry list (`Cmp.mapAll`). On two related pairs of
operands the two runs agree (`RRel true Eq`: the same answer, or one of the two is `unmodelled` — which
entry is compared first, and so whether a comparison outside the model is reached before the loop stops,
depends on the order of the entry list).
-/

open GoVal MapOrder Cmp

/-! ## `Equal` answers or is outside the model: it never fails (and never panics: `Cmp.equal_noPanic`) -/

def Res.isErr {ε α : Type} : Res ε α → Bool
  | .err _ => true
  | _ => false

namespace Cmp

@[simp] theorem isErr_ok {α} (x : α) : (Res.ok x : R α).isErr = false := rfl
@[simp] theorem isErr_unmodelled {α} (w : String) : (Res.unmodelled w : R α).isErr = false := rfl
@[simp] theorem isErr_panic {α} (w : String) : (Res.panic w : R α).isErr = false := rfl
@[simp] theorem isErr_err {α} (e) : (Res.err e : R α).isErr = true := rfl

theorem bind_noErr {α β} (x : R α) (f : α → R β) (hx : x.isErr = false)
    (hf : ∀ a, x = .ok a → (f a).isErr = false) : (x.bind f).isErr = false := by
  cases x with
  | ok a => exact hf a rfl
  | err e => simp at hx
  | panic w => rfl
  | unmodelled w => rfl

theorem safeEqual_noErr (a b : GoVal) : (safeEqual a b).isErr = false := by
  unfold safeEqual
  split
  · rfl
  · split
    · rfl
    · cases a <;> cases b <;> simp_all [comparableV, goEq, rkind, structTag] <;> split <;> rfl

theorem equalBody_noErr (a b : GoVal) (sK mK)
    (hs : (rkind a = .slice ∨ rkind a = .array) → ∀ sv, (sK sv).isErr = false)
    (hm : rkind a = .map → ∀ kt kvs, (mK kt kvs).isErr = false) :
    (equalBody a b sK mK).isErr = false := by
  unfold equalBody
  split
  · rfl
  · cases a <;> cases b <;>
      (try simp only [rkind, joinKind_int_int, joinKind_flt_flt, joinKind_int_flt, joinKind_flt_int]) <;>
      simp_all [rkind, GoVal.isNil, joinKind, RKind.isInt, RKind.isFloat, seqView, mapView, rBool,
        rFloat64, rString, safeEqual_noErr]

theorem equalList_noErr (xs ys : List GoVal)
    (h : ∀ x ∈ xs, ∀ y, (equal x y).isErr = false) : (equalList xs ys).isErr = false := by
  induction xs generalizing ys with
  | nil => simp
  | cons x xs ih =>
    cases ys with
    | nil => simp
    | cons y ys =>
      rw [equalList_cons]
      apply bind_noErr _ _ (h x (by simp) y)
      intro r _
      cases r
      · simp
      · simpa using ih ys (fun x hx => h x (by simp [hx]))

theorem equalItems_noErr (xs ys : List (GoVal × GoVal))
    (h : ∀ e ∈ xs, ∀ y, (equal e.1 y).isErr = false ∧ (equal e.2 y).isErr = false) :
    (equalItems xs ys).isErr = false := by
  induction xs generalizing ys with
  | nil => simp
  | cons x xs ih =>
    obtain ⟨k, v⟩ := x
    cases ys with
    | nil => simp
    | cons y ys =>
      obtain ⟨k', v'⟩ := y
      rw [equalItems_cons]
      apply bind_noErr _ _ (h (k, v) (by simp) k').1
      intro rk _
      cases rk
      · simp
      · simp only [if_true]
        apply bind_noErr _ _ (h (k, v) (by simp) v').2
        intro rv _
        cases rv
        · simp
        · simpa using ih ys (fun e he => h e (by simp [he]))

theorem mapIndex_noErr (bs k) : (mapIndex bs k).isErr = false := by
  unfold mapIndex; split <;> rfl

theorem mapAll_noErr (xs bs : List (GoVal × GoVal))
    (h : ∀ e ∈ xs, ∀ y, (equal e.2 y).isErr = false) : (mapAll xs bs).isErr = false := by
  induction xs with
  | nil => simp
  | cons x xs ih =>
    obtain ⟨k, v⟩ := x
    rw [mapAll_cons]
    apply bind_noErr _ _ (mapIndex_noErr bs k)
    intro o _
    cases o with
    | none => simp
    | some v' =>
      apply bind_noErr _ _ (h (k, v) (by simp) v')
      intro r _
      cases r
      · simp
      · simpa using ih (fun e he => h e (by simp [he]))

theorem equalTL_noErr_aux : ∀ n (a : GoVal), sizeOf a < n → ∀ b, (equalTL a b).isErr = false := by
  intro n
  induction n with
  | zero => intro a h; omega
  | succ n ih =>
    intro a ha b
    have elem : ∀ x : GoVal, sizeOf x < sizeOf a → ∀ y, (equal x y).isErr = false := by
      intro x hx y
      rw [equal_eq]
      exact ih (toLiq x) (by have := sizeOf_toLiq_le x; omega) _
    unfold equalTL
    apply equalBody_noErr
    · intro _ sv
      cases a with
      | slice t xs =>
        cases sv <;> simp [seqK, seqVals]
        split
        · exact equalList_noErr _ _ (fun x hx => elem x (sizeOf_lt_of_mem_slice hx))
        · rfl
      | array t xs =>
        cases sv <;> simp [seqK, seqVals]
        split
        · exact equalList_noErr _ _ (fun x hx => elem x (sizeOf_lt_of_mem_array hx))
        · rfl
      | mapSlice kvs =>
        cases sv <;> simp [seqK, seqItems]
        split
        · exact equalItems_noErr _ _ (fun e he y =>
            ⟨elem e.1 (sizeOf_lt_of_mem_mapSlice he).1 y, elem e.2 (sizeOf_lt_of_mem_mapSlice he).2 y⟩)
        · rfl
      | bytes s => simp [seqK, bytesSeq]
      | _ => simp_all [rkind]
    · intro _ kt kvs'
      cases a with
      | map kt vt kvs =>
        simp [mapK, mapEntries]
        split
        · rfl
        · exact mapAll_noErr _ _ (fun e he y => elem e.2 (sizeOf_lt_of_mem_map he).2 y)
      | keyedMap fs => simp [mapK, keyedMapK]
      | _ => simp_all [rkind]

theorem equalTL_noErr (a b : GoVal) : (equalTL a b).isErr = false :=
  equalTL_noErr_aux _ a (Nat.lt_succ_self _) b


theorem equal_noErr (a b : GoVal) : (equal a b).isErr = false := by
  rw [equal_eq]; exact equalTL_noErr _ _

end Cmp

theorem soft_of_noErr_noPanic {α : Type} {r : Res Cause α} (h1 : r.isErr = false) (h2 : r.isPanic = false) : Soft r := by
  cases r <;> simp_all [Soft, Res.isErr, Res.isPanic]

theorem equal_soft (a b : GoVal) : Soft (equal a b) := soft_of_noErr_noPanic (equal_noErr a b) (equal_noPanic a b)

/-! ## A conjunction that stops at the first `false` -/

def andSeq : List (R Bool) → R Bool
  | [] => .ok true
  | o :: os => o.bind fun r => if r then andSeq os else .ok false

theorem andSeq_true : ∀ {os : List (R Bool)}, andSeq os = .ok true → ∀ o ∈ os, o = .ok true
  | [], _, o, h => by cases h
  | o :: os, h, o', ho' => by
    simp only [andSeq] at h
    cases o with
    | ok r =>
      cases r with
      | true =>
        simp only [Res.bind, if_true] at h
        rcases List.mem_cons.mp ho' with rfl | hm
        · rfl
        · exact andSeq_true h o' hm
      | false => simp [Res.bind] at h
    | _ => simp [Res.bind] at h

theorem andSeq_false : ∀ {os : List (R Bool)}, andSeq os = .ok false → ∃ o ∈ os, o = .ok false
  | [], h => by simp [andSeq] at h
  | o :: os, h => by
    simp only [andSeq] at h
    cases o with
    | ok r =>
      cases r with
      | true =>
        simp only [Res.bind, if_true] at h
        obtain ⟨o', ho', e⟩ := andSeq_false h
        exact ⟨o', List.mem_cons_of_mem _ ho', e⟩
      | false => exact ⟨_, List.mem_cons_self, rfl⟩
    | _ => simp [Res.bind] at h

theorem andSeq_soft : ∀ {os : List (R Bool)}, (∀ o ∈ os, Soft o) → Soft (andSeq os)
  | [], _ => trivial
  | o :: os, h => by
    simp only [andSeq]
    refine Soft.bind (h o List.mem_cons_self) (fun r => ?_)
    cases r
    · trivial
    · exact andSeq_soft (fun o' ho' => h o' (List.mem_cons_of_mem _ ho'))

/-- Two conjunctions over outcomes that correspond to each other (in any order), each outcome agreeing
    with its partner: the conjunctions agree. -/
theorem andSeq_agree {os os' : List (R Bool)} (hs : ∀ o ∈ os, Soft o) (hs' : ∀ o ∈ os', Soft o)
    (h1 : ∀ o ∈ os, ∃ o' ∈ os', RRel true Eq o o') (h2 : ∀ o' ∈ os', ∃ o ∈ os, RRel true Eq o o') :
    RRel true Eq (andSeq os) (andSeq os') := by
  have s1 := andSeq_soft hs
  have s2 := andSeq_soft hs'
  cases hx : andSeq os with
  | unmodelled w => exact RRel.unmL rfl _ _
  | err e => rw [hx] at s1; exact s1.elim
  | panic w => rw [hx] at s1; exact s1.elim
  | ok x =>
    cases hz : andSeq os' with
    | unmodelled w => exact RRel.unmR rfl _ _
    | err e => rw [hz] at s2; exact s2.elim
    | panic w => rw [hz] at s2; exact s2.elim
    | ok z =>
      show x = z
      cases x <;> cases z
      · rfl
      · obtain ⟨o, ho, e⟩ := andSeq_false hx
        obtain ⟨o', ho', hr⟩ := h1 o ho
        rw [e, andSeq_true hz o' ho'] at hr
        cases hr
      · obtain ⟨o', ho', e⟩ := andSeq_false hz
        obtain ⟨o, ho, hr⟩ := h2 o' ho'
        rw [e, andSeq_true hx o ho] at hr
        cases hr
      · rfl

/-! ## The entries of two related maps -/

/-- the outcome of one entry of the first map in the loop of `equalMaps` -/
def entryOut (bs : List (GoVal × GoVal)) (kv : GoVal × GoVal) : R Bool :=
  (mapIndex bs kv.1).bind fun o =>
    match o with
    | none => .ok false
    | some v' => equal kv.2 v'

theorem mapAll_eq_andSeq (kvs bs : List (GoVal × GoVal)) : mapAll kvs bs = andSeq (kvs.map (entryOut bs)) := by
  induction kvs with
  | nil => simp [andSeq]
  | cons kv r ih =>
    obtain ⟨k, v⟩ := kv
    rw [mapAll_cons, List.map_cons, andSeq, entryOut]
    simp only
    cases mapIndex bs k with
    | ok o =>
      cases o with
      | none => simp [Res.bind]
      | some v' =>
        simp only [Res.bind_ok]
        rw [ih]
    | _ => simp [Res.bind]

theorem MPV.mem_left : ∀ {kvs mid : List (GoVal × GoVal)}, MPV kvs mid → ∀ e ∈ kvs, ∃ e' ∈ mid, e'.1 = e.1 ∧ MP e.2 e'.2
  | _, _, .nil, e, h => by cases h
  | _, _, .cons k hv h, e, he => by
    rcases List.mem_cons.mp he with rfl | he'
    · exact ⟨_, List.mem_cons_self, rfl, hv⟩
    · obtain ⟨e', h1, h2⟩ := MPV.mem_left h e he'
      exact ⟨e', List.mem_cons_of_mem _ h1, h2⟩

theorem MPV.mem_right : ∀ {kvs mid : List (GoVal × GoVal)}, MPV kvs mid → ∀ e' ∈ mid, ∃ e ∈ kvs, e'.1 = e.1 ∧ MP e.2 e'.2
  | _, _, .nil, e, h => by cases h
  | _, _, .cons k hv h, e, he => by
    rcases List.mem_cons.mp he with rfl | he'
    · exact ⟨_, List.mem_cons_self, rfl, hv⟩
    · obtain ⟨e', h1, h2⟩ := MPV.mem_right h e he'
      exact ⟨e', List.mem_cons_of_mem _ h1, h2⟩

theorem toKey_goodKey {g : GoVal} (hg : GoodKey g) (k' : GoVal) (h : toKey k' = toKey g) : k' = g := by
  cases g <;> simp [GoodKey, goodKey] at hg <;> cases k' <;> simp_all [toKey]

theorem lookupKey_eq_find (kk : Key) (l : List (GoVal × GoVal)) :
    lookupKey kk l = (l.find? (fun e => decide (toKey e.1 = some kk))).map (·.2) := by
  induction l with
  | nil => rfl
  | cons e r ih =>
    obtain ⟨k', v⟩ := e
    simp only [lookupKey, List.find?_cons]
    by_cases h : toKey k' = some kk
    · simp [h]
    · simp [h, ih]

theorem lookupKey_mpv : ∀ {kvs mid : List (GoVal × GoVal)}, MPV kvs mid → ∀ kk, OptMP (lookupKey kk kvs) (lookupKey kk mid)
  | _, _, .nil, _ => trivial
  | _, _, .cons k0 hv h, kk => by
    simp only [lookupKey]
    split
    · exact hv
    · exact lookupKey_mpv h kk

theorem lookupKey_perm {mid kvs' : List (GoVal × GoVal)} (hp : mid.Perm kvs') (hk : KeysOK mid) (kk : Key) :
    lookupKey kk mid = lookupKey kk kvs' := by
  rw [lookupKey_eq_find, lookupKey_eq_find, find?_unique_perm hp]
  intro x hx y hy px py
  apply hk.entry_unique hx hy
  have e1 : toKey x.1 = some kk := of_decide_eq_true px
  have e2 : toKey y.1 = some kk := of_decide_eq_true py
  exact toKey_goodKey (hk.1 y hy) x.1 (by rw [e1, e2])

/-- what `equalMaps` sees of two related maps: the same key type and number of entries, entries that
    correspond to each other with related values, and related results of every key lookup -/
theorem map_entries_mp {kt vt kt' vt' : Ty} {kvs kvs' : List (GoVal × GoVal)} (h : MP (.map kt vt kvs) (.map kt' vt' kvs')) :
    kt' = kt ∧ kvs.length = kvs'.length ∧
    (∀ e ∈ kvs, ∃ e' ∈ kvs', e'.1 = e.1 ∧ MP e.2 e'.2) ∧ (∀ e' ∈ kvs', ∃ e ∈ kvs, e'.1 = e.1 ∧ MP e.2 e'.2) ∧
    (∀ kk, OptMP (lookupKey kk kvs) (lookupKey kk kvs')) := by
  cases h with
  | refl =>
    refine ⟨rfl, rfl, fun e he => ⟨e, he, rfl, .refl _⟩, fun e he => ⟨e, he, rfl, .refl _⟩, fun kk => ?_⟩
    cases lookupKey kk kvs <;> simp [OptMP, MP.refl]
  | map _ _ hv hk hn hm hp ht =>
    refine ⟨rfl, by rw [hm.length_eq, hp.length_eq], ?_, ?_, ?_⟩
    · intro e he
      obtain ⟨e', h1, h2⟩ := hm.mem_left e he
      exact ⟨e', hp.subset h1, h2⟩
    · intro e' he'
      exact hm.mem_right e' (hp.symm.subset he')
    · intro kk
      rw [← lookupKey_perm hp (keysOK_of_keys_eq hm.keys_eq hk) kk]
      exact lookupKey_mpv hm kk
  | mapVals _ _ hv hn hm => exact ⟨rfl, hm.length_eq, hm.mem_left, hm.mem_right, lookupKey_mpv hm⟩

/-! ## The pieces of `values.Equal` on related operands -/

theorem mapIndex_soft (bs : List (GoVal × GoVal)) (k : GoVal) : Soft (mapIndex bs k) := by
  unfold mapIndex; split <;> trivial

theorem entryOut_soft (bs : List (GoVal × GoVal)) (kv : GoVal × GoVal) : Soft (entryOut bs kv) := by
  unfold entryOut
  refine Soft.bind (mapIndex_soft _ _) (fun o => ?_)
  cases o
  · trivial
  · exact equal_soft _ _

/-- the loop of `equalMaps` on related first maps and related second maps -/
theorem mapAll_mp {kt vt kt' vt' : Ty} {kvs kvs' bs bs' : List (GoVal × GoVal)} (ha : MP (.map kt vt kvs) (.map kt' vt' kvs'))
    (hB : ∀ kk, OptMP (lookupKey kk bs) (lookupKey kk bs'))
    (ih : ∀ e ∈ kvs, ∀ x' y y', MP e.2 x' → MP y y' → RRel true Eq (equal e.2 y) (equal x' y')) :
    RRel true Eq (mapAll kvs bs) (mapAll kvs' bs') := by
  obtain ⟨_, _, hl, hr, _⟩ := map_entries_mp ha
  rw [mapAll_eq_andSeq, mapAll_eq_andSeq]
  have pair : ∀ e ∈ kvs, ∀ e' : GoVal × GoVal, e'.1 = e.1 → MP e.2 e'.2 → RRel true Eq (entryOut bs e) (entryOut bs' e') := by
    intro e he e' hk hv
    obtain ⟨k, v⟩ := e
    obtain ⟨k', v'⟩ := e'
    simp only at hk hv
    subst hk
    unfold entryOut mapIndex
    simp only
    cases hkk : toKey k' with
    | none => exact RRel.unmL rfl _ _
    | some kk =>
      simp only [Res.bind_ok]
      have := hB kk
      cases h1 : lookupKey kk bs <;> cases h2 : lookupKey kk bs' <;> rw [h1, h2] at this <;> simp only [OptMP] at this
      · exact RRel.of_eq (fun _ => rfl) rfl
      · exact ih (k', v) he v' _ _ hv this
  refine andSeq_agree ?_ ?_ ?_ ?_
  · intro o ho
    obtain ⟨e, _, rfl⟩ := List.mem_map.mp ho
    exact entryOut_soft _ _
  · intro o ho
    obtain ⟨e, _, rfl⟩ := List.mem_map.mp ho
    exact entryOut_soft _ _
  · intro o ho
    obtain ⟨e, he, rfl⟩ := List.mem_map.mp ho
    obtain ⟨e', he', hk, hv⟩ := hl e he
    exact ⟨_, List.mem_map_of_mem he', pair e he e' hk hv⟩
  · intro o' ho'
    obtain ⟨e', he', rfl⟩ := List.mem_map.mp ho'
    obtain ⟨e, he, hk, hv⟩ := hr e' he'
    exact ⟨_, List.mem_map_of_mem he, pair e he e' hk hv⟩

theorem equalList_mp : ∀ {xs xs' : List GoVal}, MPL xs xs' → ∀ {ys ys' : List GoVal}, MPL ys ys' →
    (∀ x ∈ xs, ∀ x' y y', MP x x' → MP y y' → RRel true Eq (equal x y) (equal x' y')) →
    RRel true Eq (equalList xs ys) (equalList xs' ys')
  | _, _, .nil, _, _, _, _ => by simp; exact RRel.of_eq (fun _ => rfl) rfl
  | _, _, .cons _ _, _, _, .nil, _ => by simp; exact RRel.of_eq (fun _ => rfl) rfl
  | _, _, .cons hx hxs, _, _, .cons hy hys, ih => by
    rw [equalList_cons, equalList_cons]
    refine RRel.bind (ih _ List.mem_cons_self _ _ _ hx hy) (fun r r' e => ?_)
    subst e
    cases r
    · exact RRel.of_eq (fun _ => rfl) rfl
    · exact equalList_mp hxs hys (fun x hx' => ih x (List.mem_cons_of_mem _ hx'))

theorem equalItems_mp : ∀ {xs xs' : List (GoVal × GoVal)}, MPV xs xs' → ∀ {ys ys' : List (GoVal × GoVal)}, MPV ys ys' →
    (∀ e ∈ xs, ∀ x' y y', MP e.2 x' → MP y y' → RRel true Eq (equal e.2 y) (equal x' y')) →
    RRel true Eq (equalItems xs ys) (equalItems xs' ys')
  | _, _, .nil, _, _, _, _ => by simp; exact RRel.of_eq (fun _ => rfl) rfl
  | _, _, .cons _ _ _, _, _, .nil, _ => by simp; exact RRel.of_eq (fun _ => rfl) rfl
  | _, _, .cons k hx hxs, _, _, .cons k2 hy hys, ih => by
    rw [equalItems_cons, equalItems_cons]
    refine RRel.bind (RRel.of_eq (fun _ => rfl) rfl) (fun r r' e => ?_)
    subst e
    cases r
    · exact RRel.of_eq (fun _ => rfl) rfl
    · simp only [if_true]
      refine RRel.bind (ih _ List.mem_cons_self _ _ _ hx hy) (fun r r' e => ?_)
      subst e
      cases r
      · exact RRel.of_eq (fun _ => rfl) rfl
      · exact equalItems_mp hxs hys (fun e he => ih e (List.mem_cons_of_mem _ he))

/-- the views `Equal` takes of two related second operands -/
def SVRel : SeqView → SeqView → Prop
  | .vals xs, .vals ys => MPL xs ys
  | .items kvs, .items kvs' => MPV kvs kvs'
  | _, _ => False

theorem seqView_mp {b b' : GoVal} (h : MP b b') : RRel true SVRel (seqView b) (seqView b') := by
  cases h with
  | refl =>
    cases hb : seqView b with
    | ok sv => cases sv <;> simp [RRel, SVRel, MPL.refl, MPV.refl]
    | _ => simp [RRel]
  | slice t hl => exact hl
  | array t hl => exact hl
  | mapSlice hm => exact hm
  | _ => simp [seqView, RRel]

theorem mapView_mp {b b' : GoVal} (h : MP b b') :
    RRel true (fun p p' : Ty × List (GoVal × GoVal) => p'.1 = p.1 ∧ ∃ vt, MP (.map p.1 vt p.2) (.map p.1 vt p'.2)) (mapView b) (mapView b') := by
  cases h with
  | refl =>
    cases hb : mapView b with
    | ok p =>
      cases b <;> simp [mapView] at hb
      next kt vt kvs => subst hb; exact ⟨rfl, vt, .refl _⟩
    | _ => simp [RRel]
  | map kt vt hv hk hn hm hp ht => exact ⟨rfl, vt, MP.map kt vt hv hk hn hm hp ht⟩
  | mapVals kt vt hv hn hm => exact ⟨rfl, vt, MP.mapVals kt vt hv hn hm⟩
  | _ => simp [mapView, RRel]

theorem structTag_mp {a b : GoVal} (h : MP a b) : structTag a = structTag b := by cases h <;> rfl
theorem comparableV_mp {a b : GoVal} (h : MP a b) : comparableV a = comparableV b := by cases h <;> rfl
theorem rBool_mp {a b : GoVal} (h : MP a b) : rBool a = rBool b := by cases h <;> rfl
theorem rFloat64_mp {a b : GoVal} (h : MP a b) : rFloat64 a = rFloat64 b := by cases h <;> rfl
theorem rString_mp {a b : GoVal} (h : MP a b) : rString a = rString b := by cases h <;> rfl
theorem rInt_mp {a b : GoVal} (h : MP a b) : rInt a = rInt b := by cases h <;> rfl
theorem rUint_mp {a b : GoVal} (h : MP a b) : rUint a = rUint b := by cases h <;> rfl

theorem compareInts_mp {a a' b b' : GoVal} (ha : MP a a') (hb : MP b b') : compareInts a b = compareInts a' b' := by
  unfold compareInts
  rw [rkind_mp ha, rkind_mp hb, rInt_mp ha, rInt_mp hb, rUint_mp ha, rUint_mp hb]

theorem goEq_mp_left {a a' : GoVal} (ha : MP a a') (b : GoVal) : goEq a b = goEq a' b := by
  cases ha with
  | refl => rfl
  | _ => cases b <;> simp [goEq]

theorem goEq_mp_right (a : GoVal) {b b' : GoVal} (hb : MP b b') : goEq a b = goEq a b' := by
  cases hb with
  | refl => rfl
  | _ => cases a <;> simp [goEq]

theorem goEq_mp {a a' b b' : GoVal} (ha : MP a a') (hb : MP b b') : goEq a b = goEq a' b' := by
  rw [goEq_mp_left ha, goEq_mp_right _ hb]

theorem safeEqual_mp {a a' b b' : GoVal} (ha : MP a a') (hb : MP b b') : safeEqual a b = safeEqual a' b' := by
  unfold safeEqual
  rw [isNil_mp ha, isNil_mp hb, rkind_mp ha, rkind_mp hb, structTag_mp ha, structTag_mp hb, comparableV_mp ha, goEq_mp ha hb]

/-- the body of `values.Equal` on related operands, given that its two loops agree on related views of
    the second operand -/
theorem equalBody_mp {a a' b b' : GoVal} (ha : MP a a') (hb : MP b b')
    {sK sK' : SeqView → R Bool} {mK mK' : Ty → List (GoVal × GoVal) → R Bool}
    (hs : ∀ sv sv', SVRel sv sv' → RRel true Eq (sK sv) (sK' sv'))
    (hm : ∀ kt vt kvs kvs', MP (.map kt vt kvs) (.map kt vt kvs') → RRel true Eq (mK kt kvs) (mK' kt kvs')) :
    RRel true Eq (equalBody a b sK mK) (equalBody a' b' sK' mK') := by
  unfold equalBody
  rw [← isNil_mp ha, ← isNil_mp hb, ← rkind_mp ha, ← rkind_mp hb]
  split
  · exact RRel.of_eq (fun _ => rfl) rfl
  · cases joinKind (rkind a) (rkind b) with
    | invalid => simp only; rw [safeEqual_mp ha hb]; exact RRel.of_eq (fun _ => rfl) rfl
    | bool => simp only; rw [rBool_mp ha, rBool_mp hb]; exact RRel.of_eq (fun _ => rfl) rfl
    | int k => simp only; rw [compareInts_mp ha hb]; exact RRel.of_eq (fun _ => rfl) rfl
    | flt k => simp only; rw [rFloat64_mp ha, rFloat64_mp hb]; exact RRel.of_eq (fun _ => rfl) rfl
    | str => simp only; rw [rString_mp ha, rString_mp hb]; exact RRel.of_eq (fun _ => rfl) rfl
    | slice => exact RRel.bind (seqView_mp hb) (fun sv sv' h => hs sv sv' h)
    | array => exact RRel.bind (seqView_mp hb) (fun sv sv' h => hs sv sv' h)
    | map =>
      refine RRel.bind (mapView_mp hb) (fun p p' h => ?_)
      obtain ⟨kt, kvs⟩ := p
      obtain ⟨kt', kvs'⟩ := p'
      obtain ⟨e, vt, hmp⟩ := h
      simp only at e hmp ⊢
      subst e
      exact hm _ vt _ _ hmp
    | struct => simp only; rw [safeEqual_mp ha hb]; exact RRel.of_eq (fun _ => rfl) rfl
    | ptr =>
      simp only
      cases ha with
      | refl =>
        cases hb with
        | refl => exact RRel.of_eq (fun _ => rfl) rfl
        | _ => cases a <;> first | exact RRel.of_eq (fun _ => rfl) rfl | exact RRel.unmL rfl _ _
      | _ =>
        cases hb with
        | refl => cases b <;> first | exact RRel.of_eq (fun _ => rfl) rfl | exact RRel.unmL rfl _ _
        | _ => first | exact RRel.of_eq (fun _ => rfl) rfl | exact RRel.unmL rfl _ _

theorem toLiq_mp {a b : GoVal} (h : MP a b) : MP (toLiq a) (toLiq b) := by
  rw [toLiq_eq_toLiquid, toLiq_eq_toLiquid]; exact h.toLiquid

/-- `Equal` on operands that went through `ToLiquid` -/
theorem equalTL_mp_aux : ∀ n (a : GoVal), sizeOf a < n → ∀ a' b b', MP a a' → MP b b' →
    RRel true Eq (equalTL a b) (equalTL a' b') := by
  intro n
  induction n with
  | zero => intro a h; omega
  | succ n ih =>
    intro a hsz a' b b' ha hb
    have elem : ∀ x : GoVal, sizeOf x < sizeOf a → ∀ x' y y', MP x x' → MP y y' → RRel true Eq (equal x y) (equal x' y') := by
      intro x hx x' y y' h1 h2
      rw [equal_eq, equal_eq]
      exact ih (toLiq x) (by have := sizeOf_toLiq_le x; omega) _ _ _ (toLiq_mp h1) (toLiq_mp h2)
    unfold equalTL
    apply equalBody_mp ha hb
    · -- the Array/Slice loop
      intro sv sv' hsv
      cases ha with
      | refl =>
        cases a with
        | slice t xs =>
          cases sv <;> cases sv' <;> simp only [SVRel] at hsv <;> simp only [seqK, seqVals]
          · rw [hsv.length_eq]
            split
            · exact RRel.of_eq (fun _ => rfl) rfl
            · exact equalList_mp (MPL.refl xs) hsv (fun x hx => elem x (sizeOf_lt_of_mem_slice hx))
          · rw [hsv.length_eq]; exact RRel.of_eq (fun _ => rfl) rfl
        | array t xs =>
          cases sv <;> cases sv' <;> simp only [SVRel] at hsv <;> simp only [seqK, seqVals]
          · rw [hsv.length_eq]
            split
            · exact RRel.of_eq (fun _ => rfl) rfl
            · exact equalList_mp (MPL.refl xs) hsv (fun x hx => elem x (sizeOf_lt_of_mem_array hx))
          · rw [hsv.length_eq]; exact RRel.of_eq (fun _ => rfl) rfl
        | mapSlice kvs =>
          cases sv <;> cases sv' <;> simp only [SVRel] at hsv <;> simp only [seqK, seqItems]
          · rw [hsv.length_eq]; exact RRel.of_eq (fun _ => rfl) rfl
          · rw [hsv.length_eq]
            split
            · exact RRel.of_eq (fun _ => rfl) rfl
            · exact equalItems_mp (MPV.refl kvs) hsv (fun e he => elem e.2 (sizeOf_lt_of_mem_mapSlice he).2)
        | _ => exact RRel.of_eq (fun _ => rfl) rfl
      | @slice t xs xs' hl =>
        cases sv <;> cases sv' <;> simp only [SVRel] at hsv <;> simp only [seqK, seqVals]
        · rw [← hl.length_eq, hsv.length_eq]
          split
          · exact RRel.of_eq (fun _ => rfl) rfl
          · exact equalList_mp hl hsv (fun x hx => elem x (sizeOf_lt_of_mem_slice hx))
        · rw [← hl.length_eq, hsv.length_eq]; exact RRel.of_eq (fun _ => rfl) rfl
      | @array t xs xs' hl =>
        cases sv <;> cases sv' <;> simp only [SVRel] at hsv <;> simp only [seqK, seqVals]
        · rw [← hl.length_eq, hsv.length_eq]
          split
          · exact RRel.of_eq (fun _ => rfl) rfl
          · exact equalList_mp hl hsv (fun x hx => elem x (sizeOf_lt_of_mem_array hx))
        · rw [← hl.length_eq, hsv.length_eq]; exact RRel.of_eq (fun _ => rfl) rfl
      | @mapSlice kvs kvs' hm =>
        cases sv <;> cases sv' <;> simp only [SVRel] at hsv <;> simp only [seqK, seqItems]
        · rw [← hm.length_eq, hsv.length_eq]; exact RRel.of_eq (fun _ => rfl) rfl
        · rw [← hm.length_eq, hsv.length_eq]
          split
          · exact RRel.of_eq (fun _ => rfl) rfl
          · exact equalItems_mp hm hsv (fun e he => elem e.2 (sizeOf_lt_of_mem_mapSlice he).2)
      | _ => exact RRel.of_eq (fun _ => rfl) rfl
    · -- `equalMaps`
      intro kt2 vt2 bs bs' hbm
      have hB := (map_entries_mp hbm).2.2.2.2
      have hlb := (map_entries_mp hbm).2.1
      have key : ∀ {kt vt : Ty} {kvs kvs' : List (GoVal × GoVal)}, a = .map kt vt kvs → MP (.map kt vt kvs) (.map kt vt kvs') →
          RRel true Eq (mapK (.map kt vt kvs) kt2 bs) (mapK (.map kt vt kvs') kt2 bs') := by
        intro kt vt kvs kvs' ea hmp
        simp only [mapK, mapEntries]
        rw [← (map_entries_mp hmp).2.1, ← hlb]
        split
        · exact RRel.of_eq (fun _ => rfl) rfl
        · refine mapAll_mp hmp hB (fun e he => elem e.2 ?_)
          rw [ea]; exact (sizeOf_lt_of_mem_map he).2
      cases ha with
      | refl =>
        cases a with
        | map kt vt kvs => exact key rfl (.refl _)
        | _ => exact RRel.of_eq (fun _ => rfl) rfl
      | map kt vt hv hk hn hm hp ht => exact key rfl (MP.map kt vt hv hk hn hm hp ht)
      | mapVals kt vt hv hn hm => exact key rfl (MP.mapVals kt vt hv hn hm)
      | _ => exact RRel.of_eq (fun _ => rfl) rfl

theorem equalTL_mp {a a' b b' : GoVal} (ha : MP a a') (hb : MP b b') : RRel true Eq (equalTL a b) (equalTL a' b') :=
  equalTL_mp_aux _ a (Nat.lt_succ_self _) a' b b' ha hb

/-- `values.Equal` on related operands -/
theorem equal_mp {a a' b b' : GoVal} (ha : MP a a') (hb : MP b b') : RRel true Eq (equal a b) (equal a' b') := by
  rw [equal_eq, equal_eq]
  exact equalTL_mp (toLiq_mp ha) (toLiq_mp hb)

/-- `a == b` on related operands (`stdPrims.equal`) -/
theorem opEq_prep_mp {a a' b b' : GoVal} (ha : MP a a') (hb : MP b b') :
    RRel true Eq (opEq (prep a) (prep b)) (opEq (prep a') (prep b')) := by
  rw [opEq_prep, opEq_prep, equalAux_false, equalAux_false]
  exact equalTL_mp (prep_mp ha.unwrap) (toLiq_mp (prep_mp hb.unwrap))

/-! ## `contains` -/

theorem containsList_mp : ∀ {xs xs' : List GoVal}, MPL xs xs' → ∀ {e e' : GoVal}, MP e e' →
    RRel true Eq (containsList xs e) (containsList xs' e')
  | _, _, .nil, _, _, _ => RRel.of_eq (fun _ => rfl) rfl
  | _, _, .cons hx h, _, _, he => by
    simp only [containsList, bind]
    refine RRel.bind (equal_mp hx he) (fun r r' e => ?_)
    subst e
    cases r
    · exact containsList_mp h he
    · exact RRel.of_eq (fun _ => rfl) rfl

theorem mapSliceContains_mp : ∀ {kvs kvs' : List (GoVal × GoVal)}, MPV kvs kvs' → ∀ {e e' : GoVal}, MP e e' →
    mapSliceContains kvs e = mapSliceContains kvs' e'
  | _, _, .nil, _, _, _ => rfl
  | _, _, .cons k hv h, _, _, he => by
    simp only [mapSliceContains, bind]
    rw [safeEqual_mp he (.refl k), mapSliceContains_mp h he]

theorem convertKey_mp (kt : Ty) {e e' : GoVal} (h : MP e e') : convertKey kt e = convertKey kt e' := by
  rcases h.cases_rigid with rfl | ⟨r1, r2⟩
  · rfl
  · have : ∀ i : GoVal, rigidM i = false → convertKey kt i = some none := by
      intro i hi
      cases i <;> simp [rigidM] at hi <;> cases kt <;> simp [convertKey]
    rw [this e r1, this e' r2]

theorem sprintNeedle_mp {e e' : GoVal} (h : MP e e') : sprintNeedle e = sprintNeedle e' := by
  cases h <;> rfl

/-- `Contains` of a wrapper, related needles -/
theorem containsW_mp_right (w : Wrapper) {e e' : GoVal} (he : MP e e') : RRel true Eq (containsW w e) (containsW w e') := by
  cases w with
  | wrapper v => exact RRel.of_eq (fun _ => rfl) rfl
  | array v =>
    simp only [containsW, bind]
    refine RRel.bind (RRel.of_eq (R := Eq) (fun _ => rfl) rfl) (fun sv sv' e => ?_)
    subst e
    cases sv with
    | vals xs => exact containsList_mp (MPL.refl xs) he
    | items _ => exact RRel.of_eq (fun _ => rfl) rfl
  | map v =>
    simp only [containsW, bind]
    refine RRel.bind (RRel.of_eq (R := Eq) (fun _ => rfl) rfl) (fun p p' e => ?_)
    subst e
    rw [isNil_mp he, convertKey_mp p.1 he]
    exact RRel.of_eq (fun _ => rfl) rfl
  | string v =>
    rcases he.cases_rigid with rfl | ⟨r1, r2⟩
    · exact RRel.of_eq (fun _ => rfl) rfl
    · cases v <;> simp only [containsW] <;> first
        | exact RRel.of_eq (fun _ => rfl) rfl
        | (cases he <;> simp [rigidM] at r1 r2 <;> exact RRel.of_eq (fun _ => rfl) rfl)
  | struct v =>
    rcases he.cases_rigid with rfl | ⟨r1, r2⟩
    · exact RRel.of_eq (fun _ => rfl) rfl
    · cases he <;> simp [rigidM] at r1 r2 <;> exact RRel.of_eq (fun _ => rfl) rfl
  | mapSlice kvs =>
    simp only [containsW]
    rw [mapSliceContains_mp (MPV.refl kvs) he]
    exact RRel.of_eq (fun _ => rfl) rfl
  | drop d => exact RRel.of_eq (fun _ => rfl) rfl

theorem containsW_mp {u u' e e' : GoVal} (hu : MP u u') (he : MP e e') :
    RRel true Eq (containsW (wrapOf u) e) (containsW (wrapOf u') e') := by
  have structCase : ∀ v v' : GoVal, RRel true Eq (containsW (.struct v) e) (containsW (.struct v') e') := by
    intro v v'
    rcases he.cases_rigid with rfl | ⟨r1, r2⟩
    · cases e' <;> exact RRel.of_eq (fun _ => rfl) rfl
    · cases he <;> simp [rigidM] at r1 r2 <;> exact RRel.of_eq (fun _ => rfl) rfl
  have mapCase : ∀ {kt vt : Ty} {kvs kvs' : List (GoVal × GoVal)}, MP (.map kt vt kvs) (.map kt vt kvs') →
      RRel true Eq (containsW (.map (.map kt vt kvs)) e) (containsW (.map (.map kt vt kvs')) e') := by
    intro kt vt kvs kvs' hm
    simp only [containsW, mapView, bind, Res.bind_ok]
    rw [isNil_mp he, convertKey_mp kt he]
    split
    · exact RRel.of_eq (fun _ => rfl) rfl
    · split
      · exact RRel.of_eq (fun _ => rfl) rfl
      · exact RRel.of_eq (fun _ => rfl) rfl
      · next k _ =>
        show RRel true Eq (Res.ok _) (Res.ok _)
        exact (mapFind_mp hm k).2.2.2.isSome_eq
  cases hu with
  | refl => exact containsW_mp_right _ he
  | slice t hl =>
    simp only [wrapOf, valueOf, containsW, seqView, bind, Res.bind_ok]
    exact containsList_mp hl he
  | array t hl =>
    simp only [wrapOf, valueOf, containsW, seqView, bind, Res.bind_ok]
    exact containsList_mp hl he
  | map kt vt hv hk hn hm hp ht => exact mapCase (MP.map kt vt hv hk hn hm hp ht)
  | mapVals kt vt hv hn hm => exact mapCase (MP.mapVals kt vt hv hn hm)
  | mapSlice hm =>
    simp only [wrapOf, valueOf, containsW]
    rw [mapSliceContains_mp hm he]
    exact RRel.of_eq (fun _ => rfl) rfl
  | keyedMap hn hf => exact RRel.unmL rfl _ _
  | struct hf => exact structCase _ _
  | ptr h' => exact structCase _ _
  | drop h' => exact RRel.unmL rfl _ _

/-- `a contains b` on related operands (`stdPrims.contains`) -/
theorem opContains_prep_mp {a a' b b' : GoVal} (ha : MP a a') (hb : MP b b') :
    RRel true Eq (opContains (prep a) (prep b)) (opContains (prep a') (prep b')) := by
  rw [opContains_prep, opContains_prep]
  exact containsW_mp (prep_mp ha.unwrap) (prep_mp hb.unwrap)
