import Liquid.Nest
/-!
# Lemmas about the nesting grammar itself (no machine): `Derives` vs `WellNested`, `canon`,
`unparse`, `wf`. Used by `Proofs/C06.lean`.
-/

section canon
variable {g : Grammar}

theorem canonM_cons_other {t : Token} (ts : List Token) (h1 : g.isCommentOpen t = false) (h2 : g.isRawOpen t = false) :
    canonM g .normal (t :: ts) = canonTok g t :: canonM g .normal ts := by
  simp only [canonM, h1, h2, Bool.false_eq_true, if_false]

theorem canonM_comment (k : List Token) : ∀ interior : List Token, (∀ t ∈ interior, isEndComment t = false) →
    canonM g .comment (interior ++ k) = canonM g .comment k
  | [], _ => rfl
  | t :: ts, h => by
    simp only [List.cons_append, canonM, h t (List.mem_cons_self ..), Bool.false_eq_true, if_false]
    exact canonM_comment k ts (fun x hx => h x (List.mem_cons_of_mem _ hx))

theorem canonM_raw (k : List Token) : ∀ interior : List Token, (∀ t ∈ interior, isEndRaw t = false) →
    canonM g .raw (interior ++ k) = interior.map (fun t => rawText t.source) ++ canonM g .raw k
  | [], _ => rfl
  | t :: ts, h => by
    simp only [List.cons_append, canonM, h t (List.mem_cons_self ..), Bool.false_eq_true, if_false, List.map_cons]
    rw [canonM_raw k ts (fun x hx => h x (List.mem_cons_of_mem _ hx))]

theorem canon_commentBlock {o c : Token} {interior rest : List Token} (ho : g.isCommentOpen o = true)
    (hi : ∀ t ∈ interior, isEndComment t = false) (hc : isEndComment c = true) :
    canonM g .normal (o :: (interior ++ c :: rest)) = canonM g .normal rest := by
  simp only [canonM, ho, if_true]
  rw [canonM_comment _ _ hi]
  simp only [canonM, hc, if_true]

theorem isRawOpen_not_comment {o : Token} (ho : g.isRawOpen o = true) : g.isCommentOpen o = false := by
  simp only [Grammar.isRawOpen, Bool.and_eq_true, beq_iff_eq] at ho
  have : (rawName == commentName) = false := by decide
  simp [Grammar.isCommentOpen, ho.1.2, this]

theorem canon_rawBlock {o c : Token} {interior rest : List Token} (ho : g.isRawOpen o = true)
    (hi : ∀ t ∈ interior, isEndRaw t = false) (hc : isEndRaw c = true) :
    canonM g .normal (o :: (interior ++ c :: rest)) =
      bareTag rawName :: (interior.map (fun t => rawText t.source) ++ bareTag endrawName :: canonM g .normal rest) := by
  simp only [canonM, isRawOpen_not_comment ho, ho, if_true, Bool.false_eq_true, if_false]
  rw [canonM_raw _ _ hi]
  simp only [canonM, hc, if_true]

/-! tokens that are neither `comment` nor `raw` -/

theorem not_special_of_name {t : Token} (hc : t.name ≠ commentName) (hr : t.name ≠ rawName) :
    g.isCommentOpen t = false ∧ g.isRawOpen t = false := by
  simp [Grammar.isCommentOpen, Grammar.isRawOpen, hc, hr]

theorem isOpen_not_special {t : Token} (h : g.isOpen t = true) : g.isCommentOpen t = false ∧ g.isRawOpen t = false := by
  simp only [Grammar.isOpen, Bool.and_eq_true, bne_iff_ne, ne_eq] at h
  exact not_special_of_name h.1.2 h.2

theorem isClauseOf_not_special {o t : Token} (h : g.isClauseOf o t = true) :
    g.isCommentOpen t = false ∧ g.isRawOpen t = false := by
  simp only [Grammar.isClauseOf, Bool.and_eq_true, bne_iff_ne, ne_eq] at h
  exact not_special_of_name h.1.2 h.2

theorem isEndOf_not_special {o t : Token} (h : isEndOf o t = true) :
    g.isCommentOpen t = false ∧ g.isRawOpen t = false := by
  simp only [isEndOf, Bool.and_eq_true, beq_iff_eq] at h
  apply not_special_of_name <;> rw [h.2] <;> simp [endPrefix, commentName, rawName]

theorem isLeaf_not_special {t : Token} (h : g.isLeaf t = true) : g.isCommentOpen t = false ∧ g.isRawOpen t = false := by
  simp only [Grammar.isLeaf, Bool.or_eq_true, bne_iff_ne, ne_eq, Bool.not_eq_true'] at h
  constructor
  · cases hc : g.isCommentOpen t with
    | false => rfl
    | true =>
      simp only [Grammar.isCommentOpen, Bool.and_eq_true, beq_iff_eq] at hc
      rcases h with h | h
      · exact absurd hc.1.1 h
      · rw [hc.1.2, hc.2] at h; cases h
  · cases hc : g.isRawOpen t with
    | false => rfl
    | true =>
      simp only [Grammar.isRawOpen, Bool.and_eq_true, beq_iff_eq] at hc
      rcases h with h | h
      · exact absurd hc.1.1 h
      · rw [hc.1.2, hc.2] at h; cases h

theorem clauseToks_append (a b : List (Token × List Token)) : clauseToks (a ++ b) = clauseToks a ++ clauseToks b := by
  induction a with
  | nil => rfl
  | cons x xs ih => obtain ⟨c, ts⟩ := x; simp [clauseToks, ih]

/-- `canon` distributes over a well-nested prefix -/
theorem canonM_append {a : List Token} (h : WellNested g a) :
    ∀ b, canonM g .normal (a ++ b) = canonM g .normal a ++ canonM g .normal b := by
  induction h with
  | nil => intro b; rfl
  | leaf t rest hl _ ih =>
    intro b
    obtain ⟨h1, h2⟩ := isLeaf_not_special hl
    rw [List.cons_append, canonM_cons_other _ h1 h2, canonM_cons_other _ h1 h2, ih, List.cons_append]
  | comment o c interior rest ho hi hc _ ih =>
    intro b
    have : (o :: (interior ++ c :: rest)) ++ b = o :: (interior ++ c :: (rest ++ b)) := by simp
    rw [this, canon_commentBlock ho hi hc, canon_commentBlock ho hi hc, ih]
  | raw o c interior rest ho hi hc _ ih =>
    intro b
    have : (o :: (interior ++ c :: rest)) ++ b = o :: (interior ++ c :: (rest ++ b)) := by simp
    rw [this, canon_rawBlock ho hi hc, canon_rawBlock ho hi hc, ih]
    simp
  | block o e body cls rest ho _ hcl _ he _ ihb ihs ihr =>
    intro b
    obtain ⟨o1, o2⟩ := isOpen_not_special ho
    obtain ⟨e1, e2⟩ := isEndOf_not_special (g := g) he
    have hcls : ∀ (cls : List (Token × List Token)), (∀ sg ∈ cls, g.isClauseOf o sg.1 = true) →
        (∀ sg ∈ cls, ∀ b, canonM g .normal (sg.2 ++ b) = canonM g .normal sg.2 ++ canonM g .normal b) →
        ∀ x, canonM g .normal (clauseToks cls ++ x) = canonM g .normal (clauseToks cls) ++ canonM g .normal x := by
      intro cls
      induction cls with
      | nil => intros; rfl
      | cons sg r ihc =>
        intro hc hs x
        obtain ⟨c, ts⟩ := sg
        obtain ⟨c1, c2⟩ := isClauseOf_not_special (hc _ (List.mem_cons_self ..))
        simp only [clauseToks, List.cons_append, List.append_assoc]
        rw [canonM_cons_other _ c1 c2, canonM_cons_other _ c1 c2, hs _ (List.mem_cons_self ..),
          hs _ (List.mem_cons_self ..),
          ihc (fun sg h => hc sg (List.mem_cons_of_mem _ h)) (fun sg h => hs sg (List.mem_cons_of_mem _ h))]
        simp
    have e : (o :: (body ++ (clauseToks cls ++ e :: rest))) ++ b = o :: (body ++ (clauseToks cls ++ e :: (rest ++ b))) := by simp
    rw [e, canonM_cons_other _ o1 o2, canonM_cons_other _ o1 o2, ihb, ihb, hcls cls hcl ihs, hcls cls hcl ihs,
      canonM_cons_other _ e1 e2, canonM_cons_other _ e1 e2, ihr]
    simp
end canon

section derives
variable {g : Grammar} {chk : Bytes → Option Cause}

def segClauses : List Seg → List (Token × List Token)
  | [] => []
  | (c, ts, _) :: r => (c, ts) :: segClauses r

theorem clauseToks_segClauses (segs : List Seg) : clauseToks (segClauses segs) = segToks segs := by
  induction segs with
  | nil => rfl
  | cons x xs ih => obtain ⟨c, ts, ns⟩ := x; simp [segClauses, clauseToks, segToks, ih]

theorem mem_segClauses {segs : List Seg} {p : Token × List Token} (h : p ∈ segClauses segs) :
    ∃ sg ∈ segs, p = (sg.1, sg.2.1) := by
  induction segs with
  | nil => cases h
  | cons x xs ih =>
    obtain ⟨c, ts, ns⟩ := x
    simp only [segClauses, List.mem_cons] at h
    rcases h with h | h
    · exact ⟨_, List.mem_cons_self .., h⟩
    · obtain ⟨sg, h1, h2⟩ := ih h
      exact ⟨sg, List.mem_cons_of_mem _ h1, h2⟩

/-- a derivable token list is well nested -/
theorem Derives.wellNested {toks : List Token} {ns : List AST} (h : Derives g chk toks ns) : WellNested g toks := by
  induction h with
  | nil => exact .nil
  | text t rest ns ht _ ih => exact .leaf t rest (by simp [Grammar.isLeaf, ht]) ih
  | obj t rest ns ht _ _ ih => exact .leaf t rest (by simp [Grammar.isLeaf, ht]) ih
  | trimL t rest ns ht _ ih => exact .leaf t rest (by simp [Grammar.isLeaf, ht]) ih
  | trimR t rest ns ht _ ih => exact .leaf t rest (by simp [Grammar.isLeaf, ht]) ih
  | tag t rest ns ht _ ih =>
    refine .leaf t rest ?_ ih
    simp only [Grammar.isPlain, Bool.and_eq_true] at ht
    simp [Grammar.isLeaf, ht.2]
  | comment o c interior rest ns ho hi hc _ ih => exact .comment o c interior rest ho hi hc ih
  | raw o c interior rest ns ho hi hc _ ih => exact .raw o c interior rest ho hi hc ih
  | block o e body bns segs rest ns ho _ hcl _ he _ ihb ihs ihr =>
    have := WellNested.block o e body (segClauses segs) rest ho ihb
      (by intro p hp; obtain ⟨sg, h1, h2⟩ := mem_segClauses hp; rw [h2]; exact hcl sg h1)
      (by intro p hp; obtain ⟨sg, h1, h2⟩ := mem_segClauses hp; rw [h2]; exact ihs sg h1)
      he ihr
    rw [clauseToks_segClauses] at this
    exact this

/-! ### objects -/

theorem canonTok_ty_obj {t : Token} (h : (canonTok g t).ty = .obj) : canonTok g t = t := by
  cases ht : t.ty with
  | obj => simp only [canonTok, ht]
  | text => simp only [canonTok, ht]
  | trimL => simp only [canonTok, ht] at h; cases h
  | trimR => simp only [canonTok, ht] at h; cases h
  | tag =>
    simp only [canonTok, ht] at h
    split at h
    · cases h
    · rw [ht] at h; cases h

theorem objsOk_nil : ObjsOk g chk [] := by intro t ht; cases ht

theorem objsOk_append {a b : List Token} (h : WellNested g a) : ObjsOk g chk (a ++ b) ↔ ObjsOk g chk a ∧ ObjsOk g chk b := by
  unfold ObjsOk canon
  rw [canonM_append h]
  constructor
  · intro hh
    exact ⟨fun t ht => hh t (List.mem_append_left _ ht), fun t ht => hh t (List.mem_append_right _ ht)⟩
  · intro ⟨h1, h2⟩ t ht
    rcases List.mem_append.mp ht with ht | ht
    · exact h1 t ht
    · exact h2 t ht

theorem objsOk_cons_other {t : Token} {ts : List Token} (h1 : g.isCommentOpen t = false) (h2 : g.isRawOpen t = false) :
    ObjsOk g chk (t :: ts) ↔ (t.ty = .obj → chk t.args = none) ∧ ObjsOk g chk ts := by
  unfold ObjsOk canon
  rw [canonM_cons_other _ h1 h2]
  constructor
  · intro hh
    refine ⟨fun ht => ?_, fun x hx => hh x (List.mem_cons_of_mem _ hx)⟩
    have e : canonTok g t = t := by
      unfold canonTok; rw [ht]
    have := hh (canonTok g t) (List.mem_cons_self ..)
    rw [e] at this
    exact this ht
  · intro ⟨ha, hb⟩ x hx
    rcases List.mem_cons.mp hx with hx | hx
    · intro hty
      rw [hx] at hty ⊢
      have e := canonTok_ty_obj hty
      rw [e] at hty ⊢
      exact ha hty
    · exact hb x hx

theorem objsOk_commentBlock {o c : Token} {interior rest : List Token} (ho : g.isCommentOpen o = true)
    (hi : ∀ t ∈ interior, isEndComment t = false) (hc : isEndComment c = true) :
    ObjsOk g chk (o :: (interior ++ c :: rest)) ↔ ObjsOk g chk rest := by
  unfold ObjsOk canon
  rw [canon_commentBlock ho hi hc]

theorem objsOk_rawBlock {o c : Token} {interior rest : List Token} (ho : g.isRawOpen o = true)
    (hi : ∀ t ∈ interior, isEndRaw t = false) (hc : isEndRaw c = true) :
    ObjsOk g chk (o :: (interior ++ c :: rest)) ↔ ObjsOk g chk rest := by
  unfold ObjsOk canon
  rw [canon_rawBlock ho hi hc]
  constructor
  · intro hh t ht
    exact hh t (by simp [ht])
  · intro hh t ht hty
    simp only [List.mem_cons, List.mem_append, List.mem_map] at ht
    rcases ht with ht | ⟨x, _, ht⟩ | ht | ht
    · rw [ht] at hty; cases hty
    · rw [← ht] at hty; cases hty
    · rw [ht] at hty; cases hty
    · exact hh t ht hty

theorem wellNested_clauseToks {o : Token} : ∀ (cls : List (Token × List Token)),
    (∀ sg ∈ cls, g.isClauseOf o sg.1 = true) → (∀ sg ∈ cls, WellNested g sg.2) →
    ∀ x, ObjsOk g chk (clauseToks cls ++ x) ↔ (∀ sg ∈ cls, ObjsOk g chk sg.2) ∧ ObjsOk g chk x
  | [], _, _, x => by simp [clauseToks]
  | (c, ts) :: r, hc, hw, x => by
    obtain ⟨c1, c2⟩ := isClauseOf_not_special (hc _ (List.mem_cons_self ..))
    have hct : c.ty = .tag := by
      have := hc _ (List.mem_cons_self ..)
      simp only [Grammar.isClauseOf, Bool.and_eq_true, beq_iff_eq] at this
      exact this.1.1.1
    simp only [clauseToks, List.cons_append, List.append_assoc]
    rw [objsOk_cons_other c1 c2, objsOk_append (hw _ (List.mem_cons_self ..)),
      wellNested_clauseToks r (fun sg h => hc sg (List.mem_cons_of_mem _ h)) (fun sg h => hw sg (List.mem_cons_of_mem _ h))]
    simp only [List.mem_cons, forall_eq_or_imp]
    constructor
    · intro ⟨_, h1, h2, h3⟩; exact ⟨⟨h1, h2⟩, h3⟩
    · intro ⟨⟨h1, h2⟩, h3⟩; exact ⟨(fun h => by rw [hct] at h; cases h), h1, h2, h3⟩

/-- the objects of a derivable list pass `chk` -/
theorem Derives.objsOk {toks : List Token} {ns : List AST} (h : Derives g chk toks ns) : ObjsOk g chk toks := by
  induction h with
  | nil => exact objsOk_nil
  | text t rest ns ht _ ih =>
    obtain ⟨h1, h2⟩ := isLeaf_not_special (g := g) (t := t) (by simp [Grammar.isLeaf, ht])
    exact (objsOk_cons_other h1 h2).mpr ⟨(fun h => by rw [ht] at h; cases h), ih⟩
  | obj t rest ns ht hc _ ih =>
    obtain ⟨h1, h2⟩ := isLeaf_not_special (g := g) (t := t) (by simp [Grammar.isLeaf, ht])
    exact (objsOk_cons_other h1 h2).mpr ⟨fun _ => hc, ih⟩
  | trimL t rest ns ht _ ih =>
    obtain ⟨h1, h2⟩ := isLeaf_not_special (g := g) (t := t) (by simp [Grammar.isLeaf, ht])
    exact (objsOk_cons_other h1 h2).mpr ⟨(fun h => by rw [ht] at h; cases h), ih⟩
  | trimR t rest ns ht _ ih =>
    obtain ⟨h1, h2⟩ := isLeaf_not_special (g := g) (t := t) (by simp [Grammar.isLeaf, ht])
    exact (objsOk_cons_other h1 h2).mpr ⟨(fun h => by rw [ht] at h; cases h), ih⟩
  | tag t rest ns ht _ ih =>
    simp only [Grammar.isPlain, Bool.and_eq_true, beq_iff_eq] at ht
    obtain ⟨h1, h2⟩ := isLeaf_not_special (g := g) (t := t) (by simp [Grammar.isLeaf, ht.2])
    exact (objsOk_cons_other h1 h2).mpr ⟨(fun h => by rw [ht.1] at h; cases h), ih⟩
  | comment o c interior rest ns ho hi hc _ ih => exact (objsOk_commentBlock ho hi hc).mpr ih
  | raw o c interior rest ns ho hi hc _ ih => exact (objsOk_rawBlock ho hi hc).mpr ih
  | block o e body bns segs rest ns ho hbd hcl hsd he _ ihb ihs ihr =>
    obtain ⟨o1, o2⟩ := isOpen_not_special ho
    obtain ⟨e1, e2⟩ := isEndOf_not_special (g := g) he
    have hot : o.ty = .tag := by
      simp only [Grammar.isOpen, Bool.and_eq_true, beq_iff_eq] at ho; exact ho.1.1.1
    have het : e.ty = .tag := by
      simp only [isEndOf, Bool.and_eq_true, beq_iff_eq] at he; exact he.1
    rw [objsOk_cons_other o1 o2, objsOk_append hbd.wellNested, ← clauseToks_segClauses,
      wellNested_clauseToks (o := o) (segClauses segs)
        (by intro p hp; obtain ⟨sg, h1, h2⟩ := mem_segClauses hp; rw [h2]; exact hcl sg h1)
        (by intro p hp; obtain ⟨sg, h1, h2⟩ := mem_segClauses hp; rw [h2]; exact (hsd sg h1).wellNested),
      objsOk_cons_other e1 e2]
    refine ⟨(fun h => by rw [hot] at h; cases h), ihb, ?_, (fun h => by rw [het] at h; cases h), ihr⟩
    intro p hp
    obtain ⟨sg, h1, h2⟩ := mem_segClauses hp
    rw [h2]; exact ihs sg h1
end derives

/-! ## Consequences of `Grammar.OK` -/

theorem OK_end {g : Grammar} {b : Bytes} (ok : g.OK = true) (hb : g.isBlock b = true) :
    g.isBlock (endPrefix ++ b) = false := by
  simp only [Grammar.OK, Bool.and_eq_true, List.all_eq_true] at ok
  unfold Grammar.isBlock at hb
  rw [List.any_eq_true] at hb
  obtain ⟨d, hd, hd2⟩ := hb
  have := ok.1 d hd
  rw [beq_iff_eq] at hd2
  rw [← hd2]
  simpa using this

theorem OK_clause {g : Grammar} {b c : Bytes} (ok : g.OK = true) (h : g.admits b c = true) :
    g.isBlock c = false ∧ g.isEnd c = false := by
  simp only [Grammar.OK, Bool.and_eq_true, List.all_eq_true] at ok
  unfold Grammar.admits at h
  simp only [List.any_eq_true, Bool.and_eq_true] at h
  obtain ⟨d, hd, _, hd2⟩ := h
  have := ok.2 d hd c (by simpa using hd2)
  simpa using this


section canonUnparse
variable {g : Grammar} {chk : Bytes → Option Cause}

theorem isBlock_isEnd {b : Bytes} (h : g.isBlock b = true) : g.isEnd (endPrefix ++ b) = true := by
  unfold Grammar.isBlock at h
  unfold Grammar.isEnd
  rw [List.any_eq_true] at h ⊢
  obtain ⟨d, hd, hd2⟩ := h
  rw [beq_iff_eq] at hd2
  exact ⟨d, hd, by rw [hd2]; exact beq_self_eq_true _⟩

theorem canonTok_open {o : Token} (h : g.isOpen o = true) : canonTok g o = o := by
  simp only [Grammar.isOpen, Bool.and_eq_true, beq_iff_eq] at h
  simp [canonTok, h.1.1.1, h.1.1.2]

theorem canonTok_clause (ok : g.OK = true) {o c : Token} (h : g.isClauseOf o c = true) : canonTok g c = c := by
  simp only [Grammar.isClauseOf, Bool.and_eq_true, beq_iff_eq] at h
  have := OK_clause ok h.1.1.2
  simp [canonTok, h.1.1.1, this.2]

theorem canonTok_end (ok : g.OK = true) {o e : Token} (ho : g.isOpen o = true) (h : isEndOf o e = true) :
    canonTok g e = bareTag (endPrefix ++ o.name) := by
  simp only [isEndOf, Bool.and_eq_true, beq_iff_eq] at h
  simp only [Grammar.isOpen, Bool.and_eq_true, beq_iff_eq] at ho
  have h1 := OK_end ok ho.1.1.2
  have h2 := isBlock_isEnd ho.1.1.2
  simp [canonTok, h.1, h.2, h1, h2]

theorem canonTok_plain {t : Token} (h : g.isPlain t = true) : canonTok g t = t := by
  simp only [Grammar.isPlain, Bool.and_eq_true, beq_iff_eq, Bool.not_eq_true', Grammar.known, Bool.or_eq_false_iff] at h
  simp [canonTok, h.1, h.2.1.2]

theorem canon_segs (ok : g.OK = true) {o : Token} : ∀ (segs : List Seg), (∀ sg ∈ segs, g.isClauseOf o sg.1 = true) →
    (∀ sg ∈ segs, Derives g chk sg.2.1 sg.2.2) → (∀ sg ∈ segs, unparseList sg.2.2 = canon g sg.2.1) →
    ∀ x, canonM g .normal (segToks segs ++ x) = unparseClauses (segASTs segs) ++ canonM g .normal x
  | [], _, _, _, x => rfl
  | (c, ts, ns) :: r, hc, hd, hu, x => by
    obtain ⟨c1, c2⟩ := isClauseOf_not_special (hc _ (List.mem_cons_self ..))
    simp only [segToks, segASTs, unparseClauses, List.cons_append, List.append_assoc]
    rw [canonM_cons_other _ c1 c2, canonTok_clause ok (hc _ (List.mem_cons_self ..)),
      canonM_append (hd _ (List.mem_cons_self ..)).wellNested,
      canon_segs ok r (fun sg h => hc sg (List.mem_cons_of_mem _ h)) (fun sg h => hd sg (List.mem_cons_of_mem _ h))
        (fun sg h => hu sg (List.mem_cons_of_mem _ h)),
      hu _ (List.mem_cons_self ..)]
    rfl

/-- printing the derived tree gives back what the tree keeps of the token list -/
theorem Derives.unparse_canon (ok : g.OK = true) {toks : List Token} {ns : List AST} (h : Derives g chk toks ns) :
    unparse ns = canon g toks := by
  unfold unparse canon
  induction h with
  | nil => rfl
  | text t rest ns ht _ ih =>
    obtain ⟨h1, h2⟩ := isLeaf_not_special (g := g) (t := t) (by simp [Grammar.isLeaf, ht])
    rw [canonM_cons_other _ h1 h2, ← ih]; simp [unparseList, AST.unparse, canonTok, ht]
  | obj t rest ns ht _ _ ih =>
    obtain ⟨h1, h2⟩ := isLeaf_not_special (g := g) (t := t) (by simp [Grammar.isLeaf, ht])
    rw [canonM_cons_other _ h1 h2, ← ih]; simp [unparseList, AST.unparse, canonTok, ht]
  | trimL t rest ns ht _ ih =>
    obtain ⟨h1, h2⟩ := isLeaf_not_special (g := g) (t := t) (by simp [Grammar.isLeaf, ht])
    rw [canonM_cons_other _ h1 h2, ← ih]; simp [unparseList, AST.unparse, canonTok, ht]
  | trimR t rest ns ht _ ih =>
    obtain ⟨h1, h2⟩ := isLeaf_not_special (g := g) (t := t) (by simp [Grammar.isLeaf, ht])
    rw [canonM_cons_other _ h1 h2, ← ih]; simp [unparseList, AST.unparse, canonTok, ht]
  | tag t rest ns ht _ ih =>
    have hp := ht
    simp only [Grammar.isPlain, Bool.and_eq_true, beq_iff_eq] at ht
    obtain ⟨h1, h2⟩ := isLeaf_not_special (g := g) (t := t) (by simp [Grammar.isLeaf, ht.2])
    rw [canonM_cons_other _ h1 h2, ← ih, canonTok_plain hp]; simp [unparseList, AST.unparse]
  | comment o c interior rest ns ho hi hc _ ih => rw [canon_commentBlock ho hi hc, ih]
  | raw o c interior rest ns ho hi hc _ ih =>
    rw [canon_rawBlock ho hi hc, ← ih]
    simp [unparseList, AST.unparse, List.map_map, Function.comp_def]
  | block o e body bns segs rest ns ho hbd hcl hsd he _ ihb ihs ihr =>
    obtain ⟨o1, o2⟩ := isOpen_not_special ho
    obtain ⟨e1, e2⟩ := isEndOf_not_special (g := g) he
    rw [canonM_cons_other _ o1 o2, canonTok_open ho, canonM_append hbd.wellNested,
      canon_segs ok segs hcl hsd ihs, canonM_cons_other _ e1 e2, canonTok_end ok ho he, ← ihb, ← ihr]
    simp [unparseList, AST.unparse]
end canonUnparse

section wn
variable {g : Grammar} {chk : Bytes → Option Cause}

theorem segs_of_clauses {o : Token} : ∀ (cls : List (Token × List Token)),
    (∀ sg ∈ cls, g.isClauseOf o sg.1 = true) → (∀ sg ∈ cls, ∃ ns, Derives g chk sg.2 ns) →
    ∃ segs : List Seg, segToks segs = clauseToks cls ∧ (∀ sg ∈ segs, g.isClauseOf o sg.1 = true) ∧
      (∀ sg ∈ segs, Derives g chk sg.2.1 sg.2.2)
  | [], _, _ => ⟨[], rfl, by simp, by simp⟩
  | (c, ts) :: r, hc, hd => by
    obtain ⟨ns, hns⟩ := hd _ (List.mem_cons_self ..)
    obtain ⟨segs, h1, h2, h3⟩ := segs_of_clauses r (fun sg h => hc sg (List.mem_cons_of_mem _ h))
      (fun sg h => hd sg (List.mem_cons_of_mem _ h))
    refine ⟨(c, ts, ns) :: segs, by simp [segToks, clauseToks, h1], ?_, ?_⟩
    · intro sg hsg
      rcases List.mem_cons.mp hsg with hsg | hsg
      · rw [hsg]; exact hc _ (List.mem_cons_self ..)
      · exact h2 sg hsg
    · intro sg hsg
      rcases List.mem_cons.mp hsg with hsg | hsg
      · rw [hsg]; exact hns
      · exact h3 sg hsg

/-- a well-nested token list whose visible objects pass `chk` derives a tree -/
theorem WellNested.derives {toks : List Token} (h : WellNested g toks) :
    ObjsOk g chk toks → ∃ ns, Derives g chk toks ns := by
  induction h with
  | nil => intro _; exact ⟨[], .nil⟩
  | leaf t rest hl _ ih =>
    intro ho
    obtain ⟨h1, h2⟩ := isLeaf_not_special hl
    rw [objsOk_cons_other h1 h2] at ho
    obtain ⟨ns, hns⟩ := ih ho.2
    cases ht : t.ty with
    | text => exact ⟨_, .text t rest ns ht hns⟩
    | obj => exact ⟨_, .obj t rest ns ht (ho.1 ht) hns⟩
    | trimL => exact ⟨_, .trimL t rest ns ht hns⟩
    | trimR => exact ⟨_, .trimR t rest ns ht hns⟩
    | tag =>
      refine ⟨_, .tag t rest ns ?_ hns⟩
      simp only [Grammar.isLeaf, ht, bne_self_eq_false, Bool.false_or] at hl
      simp [Grammar.isPlain, ht, hl]
  | comment o c interior rest ho hi hc _ ih =>
    intro hok
    rw [objsOk_commentBlock ho hi hc] at hok
    obtain ⟨ns, hns⟩ := ih hok
    exact ⟨_, .comment o c interior rest ns ho hi hc hns⟩
  | raw o c interior rest ho hi hc _ ih =>
    intro hok
    rw [objsOk_rawBlock ho hi hc] at hok
    obtain ⟨ns, hns⟩ := ih hok
    exact ⟨_, .raw o c interior rest ns ho hi hc hns⟩
  | block o e body cls rest ho hbd hcl hsd he _ ihb ihs ihr =>
    intro hok
    obtain ⟨o1, o2⟩ := isOpen_not_special ho
    obtain ⟨e1, e2⟩ := isEndOf_not_special (g := g) he
    rw [objsOk_cons_other o1 o2, objsOk_append hbd, wellNested_clauseToks cls hcl hsd, objsOk_cons_other e1 e2] at hok
    obtain ⟨_, hb, hs, _, hr⟩ := hok
    obtain ⟨bns, hbns⟩ := ihb hb
    obtain ⟨ns, hns⟩ := ihr hr
    obtain ⟨segs, h1, h2, h3⟩ := segs_of_clauses (chk := chk) cls hcl (fun sg h => ihs sg h (hs sg h))
    rw [← h1]
    exact ⟨_, .block o e body bns segs rest ns ho hbns h2 h3 he hns⟩

theorem wfClauses_segASTs {o : Token} : ∀ (segs : List Seg), (∀ sg ∈ segs, g.isClauseOf o sg.1 = true) →
    (∀ sg ∈ segs, wfList g chk sg.2.2 = true) → wfClauses g chk o (segASTs segs) = true
  | [], _, _ => rfl
  | (c, ts, ns) :: r, hc, hw => by
    simp only [segASTs, wfClauses, Bool.and_eq_true]
    exact ⟨⟨hc _ (List.mem_cons_self ..), hw _ (List.mem_cons_self ..)⟩,
      wfClauses_segASTs r (fun sg h => hc sg (List.mem_cons_of_mem _ h)) (fun sg h => hw sg (List.mem_cons_of_mem _ h))⟩

/-- the derived tree is well formed -/
theorem Derives.wf {toks : List Token} {ns : List AST} (h : Derives g chk toks ns) : wfList g chk ns = true := by
  induction h with
  | nil => rfl
  | text t rest ns ht _ ih => simp [wfList, AST.wf, ht, ih]
  | obj t rest ns ht hc _ ih => simp [wfList, AST.wf, ht, hc, ih]
  | trimL t rest ns ht _ ih => simp [wfList, AST.wf, ih]
  | trimR t rest ns ht _ ih => simp [wfList, AST.wf, ih]
  | tag t rest ns ht _ ih => simp [wfList, AST.wf, ht, ih]
  | comment o c interior rest ns ho hi hc _ ih => exact ih
  | raw o c interior rest ns ho hi hc _ ih =>
    simp only [Grammar.isRawOpen, Bool.and_eq_true] at ho
    simp [wfList, AST.wf, ho.2, ih]
  | block o e body bns segs rest ns ho _ hcl _ he _ ihb ihs ihr =>
    simp only [wfList, AST.wf, Bool.and_eq_true]
    exact ⟨⟨⟨ho, ihb⟩, wfClauses_segASTs segs hcl ihs⟩, ihr⟩

mutual
/-- a well-formed node prints to a token list that derives it -/
theorem derives_unparse_node : ∀ (n : AST), n.wf g chk = true →
    ∀ (rest : List Token) (ms : List AST), Derives g chk rest ms → Derives g chk (n.unparse ++ rest) (n :: ms)
  | .text t, h, rest, ms, hr => by
    simp only [AST.wf, beq_iff_eq] at h
    exact .text t rest ms h hr
  | .obj t, h, rest, ms, hr => by
    simp only [AST.wf, Bool.and_eq_true, beq_iff_eq, Option.isNone_iff_eq_none] at h
    exact .obj t rest ms h.1 h.2 hr
  | .tag t, h, rest, ms, hr => by
    simp only [AST.wf] at h
    exact .tag t rest ms h hr
  | .trim true, _, rest, ms, hr => .trimL (trimTok true) rest ms rfl hr
  | .trim false, _, rest, ms, hr => .trimR (trimTok false) rest ms rfl hr
  | .raw sl, h, rest, ms, hr => by
    simp only [AST.wf] at h
    have := Derives.raw (g := g) (chk := chk) (bareTag rawName) (bareTag endrawName) (sl.map rawText) rest ms
      (by simp [Grammar.isRawOpen, bareTag, h]) (by intro t ht; simp only [List.mem_map] at ht; obtain ⟨s, _, rfl⟩ := ht; rfl)
      rfl hr
    simpa [AST.unparse, List.map_map, Function.comp_def, rawText] using this
  | .block o body cls, h, rest, ms, hr => by
    simp only [AST.wf, Bool.and_eq_true] at h
    obtain ⟨segs, h1, h2, h3, h4⟩ := derives_unparse_clauses o cls h.2
    have := Derives.block o (bareTag (endPrefix ++ o.name)) (unparseList body) body segs rest ms h.1.1
      (derives_unparse_list body h.1.2) h3 h4 (by simp [isEndOf, bareTag]) hr
    rw [h1, h2] at this
    simpa [AST.unparse] using this
theorem derives_unparse_list : ∀ (ns : List AST), wfList g chk ns = true → Derives g chk (unparseList ns) ns
  | [], _ => .nil
  | n :: ns, h => by
    simp only [wfList, Bool.and_eq_true] at h
    exact derives_unparse_node n h.1 _ _ (derives_unparse_list ns h.2)
theorem derives_unparse_clauses : ∀ (o : Token) (cs : List (Token × List AST)), wfClauses g chk o cs = true →
    ∃ segs : List Seg, segToks segs = unparseClauses cs ∧ segASTs segs = cs ∧
      (∀ sg ∈ segs, g.isClauseOf o sg.1 = true) ∧ (∀ sg ∈ segs, Derives g chk sg.2.1 sg.2.2)
  | _, [], _ => ⟨[], rfl, rfl, by simp, by simp⟩
  | o, (c, body) :: cs, h => by
    simp only [wfClauses, Bool.and_eq_true] at h
    obtain ⟨segs, h1, h2, h3, h4⟩ := derives_unparse_clauses o cs h.2
    refine ⟨(c, unparseList body, body) :: segs, by simp [segToks, unparseClauses, h1], by simp [segASTs, h2], ?_, ?_⟩
    · intro sg hsg
      rcases List.mem_cons.mp hsg with hsg | hsg
      · rw [hsg]; exact h.1.1
      · exact h3 sg hsg
    · intro sg hsg
      rcases List.mem_cons.mp hsg with hsg | hsg
      · rw [hsg]; exact derives_unparse_list body h.1.2
      · exact h4 sg hsg
end
end wn

/-- the tree does not depend on the checker: a derivation under `chk` is one under "accept all" -/
theorem Derives.weaken {g : Grammar} {chk : Bytes → Option Cause} {toks : List Token} {ns : List AST}
    (h : Derives g chk toks ns) : Derives g (fun _ => none) toks ns := by
  induction h with
  | nil => exact .nil
  | text t rest ns ht _ ih => exact .text t rest ns ht ih
  | obj t rest ns ht _ _ ih => exact .obj t rest ns ht rfl ih
  | trimL t rest ns ht _ ih => exact .trimL t rest ns ht ih
  | trimR t rest ns ht _ ih => exact .trimR t rest ns ht ih
  | tag t rest ns ht _ ih => exact .tag t rest ns ht ih
  | comment o c interior rest ns ho hi hc _ ih => exact .comment o c interior rest ns ho hi hc ih
  | raw o c interior rest ns ho hi hc _ ih => exact .raw o c interior rest ns ho hi hc ih
  | block o e body bns segs rest ns ho _ hcl _ he _ ihb ihs ihr => exact .block o e body bns segs rest ns ho ihb hcl ihs he ihr
