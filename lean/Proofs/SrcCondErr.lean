import Proofs.SrcClauses
import Proofs.C06
/-!
# Source-level helpers: a conditional whose condition fails

What the root of a template does with a node that fails (`runRoot_fail`, `frender_single_fail`: nothing is written),
the location a failing test or `when` list gives the error (`ifB_cond_err`, `caseB_when_err`), and `written`:
the bytes the writer has received when `FRender` returns.
-/

/-- an error located at line `l` with the template's path is kept by a node at an earlier line `l0` that re-wraps it -/
theorem wrapError_keep (path : Bytes) (l l0 : Nat) (c : Cause) (m : Msg) (h : l0 ≤ l) :
    wrapError path (.located ⟨l, true, c, m⟩) ⟨l0, true⟩ = ⟨l, true, c, m⟩ := by
  unfold wrapError
  simp only [Bool.true_and, Loc.isZero, Bool.not_true, Bool.false_or]
  cases l with
  | succ k => simp
  | zero =>
    have : l0 = 0 := by omega
    subst this
    cases path.isEmpty <;> simp

theorem wrapError_plain (path : Bytes) (c : Cause) (loc : Loc) : wrapError path (.plain c) loc = ⟨loc.line, loc.pathSet, c, .byCause⟩ := rfl

/-- a root that is one node which fails before writing anything: the render fails with that error, nothing is written -/
theorem frender_single_fail (P : Prims) (O : OutPrims) (cfg : Cfg) (fs : FS) (fuel : Nat) (n : Node) (env : Env) (e : RawErr)
    (h : renderNode (mkCtx P O cfg fs fuel) n ⟨env, {}⟩ = .fail e) :
    (frender P O cfg fs fuel [n] env).runPure = ([], .err e) := by
  rw [frender_single, h]
  rfl

theorem runRoot_fail (P : Prims) (O : OutPrims) (cfg : Cfg) (fs : FS) (fuel : Nat) (n : Node) (env : Env) (e : SErr)
    (h : renderNode (mkCtx P O cfg fs fuel) n ⟨env, {}⟩ = .fail (.located e)) :
    runRoot P O cfg fs fuel [n] env = .err e := by
  unfold runRoot
  rw [frender_single_fail P O cfg fs fuel n env _ h]

/-- the bytes `FRender` has handed to a writer that never fails by the time it returns — with an error or without
    (`run` keeps the output of a successful render only, as `Template.Render` does) -/
def written (P : Prims) (O : OutPrims) (cfg : Cfg) (fs : FS) (fuel : Nat) (src : Bytes) (line : Nat) (env : Env) : Bytes :=
  match compileSource cfg.delims src line with
  | .ok root => (frender P O cfg fs fuel root env).runPure.1
  | _ => []

theorem written_spell_single_fail (P : Prims) (O : OutPrims) (cfg : Cfg) (fs : FS) (fuel : Nat) (items : List Item) (line : Nat)
    (env : Env) (hg : GoodDelims (Delims.ofList cfg.delims)) (hc : Clean (Delims.ofList cfg.delims) items) (n : Node) (e : RawErr)
    (hcomp : compileTokens (tokensOf (Delims.ofList cfg.delims) items line) = .ok [n])
    (h : renderNode (mkCtx P O cfg fs fuel) n ⟨env, {}⟩ = .fail e) :
    written P O cfg fs fuel (spell (Delims.ofList cfg.delims) items) line env = [] := by
  unfold written
  rw [compileSource_spell cfg.delims items line hg hc, hcomp]
  simp only [frender_single_fail P O cfg fs fuel n env e h]

/-! ## The failing test of a chain -/

/-- an `if`/`unless` node whose first test that is not falsy fails: the node fails with that error, located at the
    tag of that test (the `if`/`unless` tag or the `elsif` clause) -/
theorem ifB_cond_err (c : RCtx) (line : Nat) (s : RS) (pre : List (CondT × List Node)) (t : CondT) (body : List Node)
    (later : List (CondT × List Node)) (x : Cause)
    (hpre : ∀ b ∈ pre, condRes c.P s.env b.1 = .ok false) (ht : condRes c.P s.env t = .err x) (hl : line ≤ t.line) :
    renderNode c (.ifB line (pre ++ (t, body) :: later)) s = .fail (.located ⟨t.line, true, x, .byCause⟩) := by
  rw [renderNode]
  simp only [wrapAt, if_cond_err c s pre t body later x hpre ht, Prog.mapFail, Prog.bind, condErr, wrapError_plain,
    wrapError_keep _ _ _ _ _ hl]

/-! ## `case` -/

theorem renderCases_skip (c : RCtx) (sel : GoVal) (s : RS) (pre : List ((Nat × List Expr) × List Node))
    (rest : List (Option (Nat × List Expr) × List Node))
    (hpre : ∀ b ∈ pre, whenRes c.P s.env sel b.1.2 = .ok false) :
    renderCases c sel (pre.map (fun b => (some b.1, b.2)) ++ rest) s = renderCases c sel rest s := by
  induction pre with
  | nil => rfl
  | cons b pre ih =>
    rw [List.map_cons, List.cons_append, renderCases_when, hpre b (by simp)]
    exact ih (fun x hx => hpre x (by simp [hx]))

/-- a `case` node whose first clause that does not miss is a `when` whose values fail to evaluate or compare: the node
    fails with that error, located at that `when` tag -/
theorem caseB_when_err (c : RCtx) (line : Nat) (subject : Expr) (s : RS) (sel : GoVal)
    (hsel : evaluate c.P s.env subject = .ok sel) (pre : List ((Nat × List Expr) × List Node)) (l : Nat) (es : List Expr)
    (body : List Node) (later : List (Option (Nat × List Expr) × List Node)) (x : Cause)
    (hpre : ∀ b ∈ pre, whenRes c.P s.env sel b.1.2 = .ok false) (ht : whenRes c.P s.env sel es = .err x) (hl : line ≤ l) :
    renderNode c (.caseB line subject (pre.map (fun b => (some b.1, b.2)) ++ (some (l, es), body) :: later)) s =
      .fail (.located ⟨l, true, x, .byCause⟩) := by
  rw [case_node_denotation c line subject _ s sel hsel]
  simp only [wrapAt, renderCases_skip c sel s pre _ hpre, renderCases_when, ht, Prog.mapFail, Prog.bind, wrapError_plain,
    wrapError_keep _ _ _ _ _ hl]

/-- a `case` node whose subject fails: the error is located at the `case` tag -/
theorem caseB_subject_err (c : RCtx) (line : Nat) (subject : Expr) (cs : List (Option (Nat × List Expr) × List Node))
    (s : RS) (x : Cause) (hsel : evaluate c.P s.env subject = .err x) :
    renderNode c (.caseB line subject cs) s = .fail (.located ⟨line, true, x, .byCause⟩) := by
  rw [case_subject_err c line subject cs s x hsel]
  rfl

/-! ## From the compiled node to `run` and `written` -/

/-- a source that compiles to one node which fails before writing: `run` returns that error and the writer has received nothing -/
theorem run_written_single_fail (P : Prims) (O : OutPrims) (cfg : Cfg) (fs : FS) (fuel : Nat) (items : List Item) (line : Nat)
    (env : Env) (hg : GoodDelims (Delims.ofList cfg.delims)) (hc : Clean (Delims.ofList cfg.delims) items) (n : Node) (e : SErr)
    (hcomp : compileTokens (tokensOf (Delims.ofList cfg.delims) items line) = .ok [n])
    (h : renderNode (mkCtx P O cfg fs fuel) n ⟨env, {}⟩ = .fail (.located e)) :
    run P O cfg fs fuel (spell (Delims.ofList cfg.delims) items) line env = .err e ∧
    written P O cfg fs fuel (spell (Delims.ofList cfg.delims) items) line env = [] := by
  refine ⟨?_, written_spell_single_fail P O cfg fs fuel items line env hg hc n _ hcomp h⟩
  rw [run_spell P O cfg fs fuel _ line env hg hc, hcomp]
  exact runRoot_fail P O cfg fs fuel n env e h

theorem chainSrc_eq_blockSrcK (c0 : Bytes) (w0 : Ws) (A0 : List Item) (rest : List Clause) (wE : Ws) :
    chainSrc c0 w0 A0 rest wE = blockSrcK nmElsif nmIf c0 w0 A0 rest wE := by
  unfold chainSrc blockSrcK
  rw [clauseItemsK_elsif]

/-- `{% unless c0 %}A0 clauses… {% endunless %}`; the clauses are spelled as in an `if` block (`{% else %}` for `cond = none`,
    `{% elsif t %}` for `cond = some t` — which an `unless` block does not admit) -/
def unlessChainSrc (c0 : Bytes) (w0 : Ws) (A0 : List Item) (rest : List Clause) (wE : Ws) : List Item :=
  tg nmUnless c0 w0 :: (A0 ++ (clauseItems rest ++ [tg (endPrefix ++ nmUnless) [] wE]))

theorem unlessChainSrc_eq_blockSrcK (c0 : Bytes) (w0 : Ws) (A0 : List Item) (rest : List Clause) (wE : Ws) :
    unlessChainSrc c0 w0 A0 rest wE = blockSrcK nmElsif nmUnless c0 w0 A0 rest wE := by
  unfold unlessChainSrc blockSrcK
  rw [clauseItemsK_elsif]

/-- the failing first condition of an `if` / `unless` chain -/
theorem chainK_first_cond_err (P : Prims) (O : OutPrims) (cfg : Cfg) (fs : FS) (fuel : Nat) (line : Nat) (env : Env)
    (nm : Bytes) (hn : nm = nmIf ∨ nm = nmUnless)
    (c0 : Bytes) (w0 : Ws) (A0 : List Item) (rest : List Clause) (wE : Ws) (e0 : Expr) (x : Cause)
    (hg : GoodDelims (Delims.ofList cfg.delims)) (hc : Clean (Delims.ofList cfg.delims) (blockSrcK nmElsif nm c0 w0 A0 rest wE))
    (hp : parseExprSource c0 = .ok e0) (hA : Compiles (Delims.ofList cfg.delims) A0 0)
    (hrest : ∀ c ∈ rest, c.Good (Delims.ofList cfg.delims)) (hadm : nm = nmUnless → ∀ c ∈ rest, c.cond = none)
    (hv : evaluate P env e0 = .err x) :
    run P O cfg fs fuel (spell (Delims.ofList cfg.delims) (blockSrcK nmElsif nm c0 w0 A0 rest wE)) line env =
      .err ⟨line, true, x, .byCause⟩ ∧
    written P O cfg fs fuel (spell (Delims.ofList cfg.delims) (blockSrcK nmElsif nm c0 w0 A0 rest wE)) line env = [] := by
  apply run_written_single_fail P O cfg fs fuel _ line env hg hc _ _
    (chainK_compile _ line nm hn c0 w0 A0 rest wE e0 hp hA hrest hadm)
  have h := ifB_cond_err (mkCtx P O cfg fs fuel) line ⟨env, {}⟩ []
    (if nm == nmIf then .expr line e0 else .notExpr line e0) (nodesOf (Delims.ofList cfg.delims) A0
      (line + countNL ((tg nm c0 w0).spell (Delims.ofList cfg.delims))))
    (ifBrs (Delims.ofList cfg.delims) rest
      (line + countNL ((tg nm c0 w0).spell (Delims.ofList cfg.delims)) + countNL (spell (Delims.ofList cfg.delims) A0))) x
    (fun _ hb => by cases hb)
    (by
      show condRes P env _ = .err x
      split <;> simp only [condRes, hv])
    (by split <;> exact Nat.le_refl _)
  rw [List.nil_append] at h
  rw [h]
  split <;> rfl

/-! ## `elsif` inside `unless`: rejected by the block parser -/

theorem firstUnmodelledObj_clauseItemsK (d : Delims) (kw : Bytes) : ∀ (cs : List Clause) (l : Nat) (post : List Item),
    (∀ c ∈ cs, Compiles d c.body 0) → (∀ l', firstUnmodelledObj (tokensOf d post l') = none) →
    firstUnmodelledObj (tokensOf d (clauseItemsK kw cs ++ post) l) = none
  | [], l, post, _, hp => hp l
  | c :: r, l, post, h, hp => by
    simp only [clauseItemsK, List.cons_append, List.append_assoc]
    rw [tokensOf_tagK, firstUnmodelledObj_tag _ _ (Clause.tokK_ty d kw c l), tokensOf_append, firstUnmodelledObj_append,
      (compileTokens_ok (nodesOf_spec (h c (List.mem_cons_self ..)) _)).1]
    exact firstUnmodelledObj_clauseItemsK d kw r _ post (fun x hx => h x (List.mem_cons_of_mem _ hx)) hp

/-- `{% unless c0 %}A0{% else %}… {% elsif t %}…`: the block parser stops at the `elsif` tag (`elsif not inside if; immediate
    parent is unless`), whatever `c0` and `t` are and whatever follows -/
theorem unlessChain_elsif_compile (d : Delims) (line : Nat) (c0 : Bytes) (w0 : Ws) (A0 : List Item) (pre : List Clause) (sel : Clause)
    (post : List Clause) (wE : Ws) (t : Bytes)
    (hA : Compiles d A0 0) (hbodies : ∀ c ∈ pre ++ sel :: post, Compiles d c.body 0)
    (helse : ∀ c ∈ pre, c.cond = none) (hsel : sel.cond = some t) :
    compileTokens (tokensOf d (blockSrcK nmElsif nmUnless c0 w0 A0 (pre ++ sel :: post) wE) line) =
      .err ⟨line + countNL ((tg nmUnless c0 w0).spell d) + countNL (spell d A0) + countNL (spell d (clauseItemsK nmElsif pre)),
        true, .none, .notInside⟩ := by
  have hU : firstUnmodelledObj (tokensOf d (blockSrcK nmElsif nmUnless c0 w0 A0 (pre ++ sel :: post) wE) line) = none := by
    unfold blockSrcK
    rw [tokensOf_tg, firstUnmodelledObj_tag _ _ rfl, tokensOf_append, firstUnmodelledObj_append,
      (compileTokens_ok (nodesOf_spec hA _)).1]
    exact firstUnmodelledObj_clauseItemsK d nmElsif _ _ _ hbodies (fun l' => by rw [tokensOf_tg, firstUnmodelledObj_tag _ _ rfl]; rfl)
  obtain ⟨hUa, astA, hdA, -⟩ := compileTokens_ok (nodesOf_spec hA (line + countNL ((tg nmUnless c0 w0).spell d)))
  have ho : stdGrammar.isOpen (tgTok d nmUnless c0 w0 line) = true := isOpen_tgTok _ _ _ _ _ (by decide) (by decide) (by decide)
  obtain ⟨segs, s1, s2, s3, -, -⟩ := clausesK_compile d nmElsif (tgTok d nmUnless c0 w0 line) pre
    (line + countNL ((tg nmUnless c0 w0).spell d) + countNL (spell d A0))
    (clauseItemsK nmElsif (sel :: post) ++ [tg (endPrefix ++ nmUnless) [] wE])
    (fun c hc => hbodies c (List.mem_append_left _ hc))
    (fun c hc l => ifK_admits d nmUnless c0 w0 line (.inr rfl) c (fun _ => helse c hc) l)
  -- the tokens: a viable prefix, the `elsif` tag, the rest
  have hselTok : sel.tokK d nmElsif (line + countNL ((tg nmUnless c0 w0).spell d) + countNL (spell d A0) +
      countNL (spell d (clauseItemsK nmElsif pre))) =
      tgTok d nmElsif t sel.w (line + countNL ((tg nmUnless c0 w0).spell d) + countNL (spell d A0) +
      countNL (spell d (clauseItemsK nmElsif pre))) := by
    unfold Clause.tokK
    rw [hsel]
  have htoks : ∃ restT, tokensOf d (blockSrcK nmElsif nmUnless c0 w0 A0 (pre ++ sel :: post) wE) line =
      (tgTok d nmUnless c0 w0 line :: (tokensOf d A0 (line + countNL ((tg nmUnless c0 w0).spell d)) ++ segToks segs)) ++
        tgTok d nmElsif t sel.w (line + countNL ((tg nmUnless c0 w0).spell d) + countNL (spell d A0) +
          countNL (spell d (clauseItemsK nmElsif pre))) :: restT := by
    refine ⟨tokensOf d (sel.body ++ (clauseItemsK nmElsif post ++ [tg (endPrefix ++ nmUnless) [] wE]))
      (line + countNL ((tg nmUnless c0 w0).spell d) + countNL (spell d A0) + countNL (spell d (clauseItemsK nmElsif pre)) +
        countNL ((sel.tagK nmElsif).spell d)), ?_⟩
    unfold blockSrcK
    rw [tokensOf_tg, tokensOf_append, clauseItemsK_append, List.append_assoc, s1]
    simp only [clauseItemsK, List.cons_append]
    rw [tokensOf_tagK, hselTok]
    simp only [List.cons_append, List.append_assoc]
  obtain ⟨restT, htoks⟩ := htoks
  obtain ⟨f', cur', hf', hloop⟩ := loop_open_clauses (g := stdGrammar) (chk := objChk) stdGrammar_OK [] segs s2 s3
    { tok := tgTok d nmUnless c0 w0 line, outer := [], body := none, clauses := [], cur := none } (astA.reverse ++ []) rfl
  have hs : parseLoop stdGrammar objChk {} (tgTok d nmUnless c0 w0 line ::
      (tokensOf d A0 (line + countNL ((tg nmUnless c0 w0).spell d)) ++ segToks segs)) = .ok ⟨cur', [f'], .normal⟩ := by
    rw [loop_cons_ok (step_open ho), loop_derives stdGrammar_OK hdA]
    exact hloop
  have hparse := first_error_notInside stdGrammar objChk _ restT
    (tgTok d nmElsif t sel.w (line + countNL ((tg nmUnless c0 w0).spell d) + countNL (spell d A0) +
          countNL (spell d (clauseItemsK nmElsif pre)))) _ hs rfl rfl
    (by show stdGrammar.known nmElsif = true; decide) (by show stdGrammar.isBlock nmElsif = false; decide)
    (by show nmElsif ≠ commentName; decide) (by show nmElsif ≠ rawName; decide)
    (by
      intro f hf
      simp only [List.head?_cons, Option.mem_def, Option.some.injEq] at hf
      subst hf
      rw [hf']
      constructor <;> simp only [Grammar.isClauseOf, isEndOf, tgTok] <;> decide)
  rw [← htoks] at hparse
  rw [compileTokens_of_parse_err hU hparse]
  rfl
